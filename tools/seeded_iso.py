#!/usr/bin/env python3
"""Runs a registered check against a candidate change WITHOUT touching /repo or /verif:
copies /verif (with compiled .vo files, without .work) and a worktree of /repo HEAD (plus untracked hook files)
to /tmp/iso/<name>/, applies the patch there, repoints the harness go.mod at the copy, runs ./check <pid>.
usage: tools/seeded_iso.py <name> <patch.diff> <PID> [<PID> ...] [--keep] [--tier quick|thorough]
Prints one JSON line per check with exit status and VIOLATION lines. Used while other work is going on in /repo;
the registered way (tools/seeded.py: git -C /repo apply, check, revert) is used for the recorded results.
"""
import json, os, shutil, subprocess, sys, time


def sh(cmd, **kw):
    p = subprocess.run(cmd, stdout=subprocess.PIPE, stderr=subprocess.STDOUT, **kw)
    return p.returncode, p.stdout.decode("utf-8", "replace")


def main():
    args = [a for a in sys.argv[1:] if not a.startswith("--")]
    keep = "--keep" in sys.argv
    tier = "quick"
    if "--tier" in sys.argv:
        tier = sys.argv[sys.argv.index("--tier") + 1]
        args = [a for a in args if a != tier]
    name, patch, pids = args[0], os.path.abspath(args[1]), args[2:]
    root = os.path.join("/tmp/iso", name)
    shutil.rmtree(root, ignore_errors=True)
    os.makedirs(root)
    repo = os.path.join(root, "repo")
    verif = os.path.join(root, "verif")
    rc, out = sh(["git", "-C", "/repo", "worktree", "add", "-q", "--detach", repo, "HEAD"])
    if rc != 0:
        print(json.dumps(dict(name=name, error="worktree: " + out)))
        return 1
    try:
        # untracked hook files of properties still under construction
        rc, out = sh(["git", "-C", "/repo", "ls-files", "--others", "--exclude-standard"])
        for f in out.split():
            if os.path.basename(f).startswith("zz_verif_export"):
                os.makedirs(os.path.dirname(os.path.join(repo, f)), exist_ok=True)
                shutil.copy(os.path.join("/repo", f), os.path.join(repo, f))
        rc, out = sh(["git", "-C", repo, "apply", patch])
        if rc != 0:
            print(json.dumps(dict(name=name, error="patch does not apply: " + out[-400:])))
            return 1
        sh(["rsync", "-a", "--exclude", ".work", "--exclude", "replay", "--exclude", ".git", "/verif/", verif + "/"])
        gm = os.path.join(verif, "harness", "go.mod")
        s = open(gm).read().replace("=> /repo", "=> " + repo)
        open(gm, "w").write(s)
        env = dict(os.environ, VERIF_REPO=repo, VERIF_TIER=tier)
        for pid in pids:
            t0 = time.time()
            rc, out = sh([os.path.join(verif, "check"), pid, "--tier", tier], cwd=verif, env=env, timeout=3600)
            viol = [l for l in out.splitlines() if l.startswith("VIOLATION")]
            summ = [l for l in out.splitlines() if l.startswith(pid + " tier=")]
            nlc = [l.strip()[:400] for l in out.splitlines() if "no-longer-checks" in l][:3]
            sigs = []
            for v in viol:
                try:
                    path = v.split("replay=")[1].split()[0]
                    sigs.append(json.load(open(path)).get("sig") or json.load(open(path)).get("kind"))
                except Exception:
                    pass
            print(json.dumps(dict(name=name, pid=pid, exit=rc, caught=(rc == 1 and bool(viol)), violations=len(viol), sigs=sigs[:6],
                                  summary=summ[-1:] or out[-300:], no_longer_checks=nlc, wall_s=round(time.time() - t0, 1))))
            sys.stdout.flush()
    finally:
        if not keep:
            sh(["git", "-C", "/repo", "worktree", "remove", "--force", repo])
            shutil.rmtree(root, ignore_errors=True)
    return 0


if __name__ == "__main__":
    sys.exit(main())
