#!/usr/bin/env python3
"""Confirms a candidate seeded change in a scratch worktree of /repo HEAD:
  1. the demonstration passes on the unchanged tree,
  2. with patch.diff applied the tree builds (with and without -tags verif) and the demonstration FAILS,
  3. with the patch applied (demonstration removed) the repository's own test suite passes.
usage: tools/confirm_seed.py <candidate dir with patch.diff and demo/> [--no-suite]
Prints one JSON object. The worktree (under /tmp/confirm/) is removed afterwards.
"""
import json, os, re, shutil, subprocess, sys, time

ENV = dict(os.environ, GOFLAGS="-mod=mod", GOPROXY="off", GOSUMDB="off", GOTOOLCHAIN="local")


def sh(cmd, cwd=None, timeout=2400):
    try:
        p = subprocess.run(cmd, cwd=cwd, env=ENV, stdout=subprocess.PIPE, stderr=subprocess.STDOUT, timeout=timeout, shell=isinstance(cmd, str))
        return p.returncode, p.stdout.decode("utf-8", "replace")
    except subprocess.TimeoutExpired as e:
        return 124, (e.stdout or b"").decode("utf-8", "replace") + "\n[timeout]"


def demo_files(cand):
    out = []
    d = os.path.join(cand, "demo")
    for root, _, files in os.walk(d):
        for f in files:
            out.append(os.path.relpath(os.path.join(root, f), d))
    return out


def run_demo(wt, files):
    """Runs the demonstration: go test on every package that received a _test.go file, go run for main programs."""
    pkgs = sorted({os.path.dirname(f) for f in files if f.endswith("_test.go")})
    mains = sorted({os.path.dirname(f) for f in files if f.endswith(".go") and not f.endswith("_test.go")})
    res = []
    for p in pkgs:
        names = []
        for f in files:
            if os.path.dirname(f) == p and f.endswith("_test.go"):
                names += re.findall(r"^func (Test\w+)\(", open(os.path.join(wt, f)).read(), re.M)
        rc, out = sh(["go", "test", "-count=1", "-vet=off", "-run", "^(" + "|".join(names) + ")$", "./" + p + "/"], cwd=wt, timeout=900)
        res.append((p, rc, out[-1500:]))
    for p in mains:
        if p in pkgs:
            continue
        rc, out = sh(["go", "run", "./" + p + "/"], cwd=wt, timeout=900)
        res.append((p, rc, out[-1500:]))
    return res


def main():
    cand = os.path.abspath(sys.argv[1])
    suite = "--no-suite" not in sys.argv
    name = "_".join(cand.strip("/").split("/")[-2:])
    wt = os.path.join("/tmp/confirm", name)
    shutil.rmtree(wt, ignore_errors=True)
    os.makedirs("/tmp/confirm", exist_ok=True)
    sh(["git", "-C", "/repo", "worktree", "prune"])
    rc, out = sh(["git", "-C", "/repo", "worktree", "add", "-q", "--detach", wt, "HEAD"])
    r = dict(candidate=cand, ok=False)
    if rc != 0:
        r["error"] = out
        print(json.dumps(r))
        return 1
    try:
        files = demo_files(cand)
        r["demo_files"] = files
        for f in files:
            os.makedirs(os.path.dirname(os.path.join(wt, f)), exist_ok=True)
            shutil.copy(os.path.join(cand, "demo", f), os.path.join(wt, f))
        base = run_demo(wt, files)
        r["demo_on_unchanged_tree"] = [(p, rc) for p, rc, _ in base]
        rc, out = sh(["git", "-C", wt, "apply", os.path.join(cand, "patch.diff")])
        if rc != 0:
            r["error"] = "patch does not apply to HEAD: " + out[-300:]
            print(json.dumps(r))
            return 1
        rc1, o1 = sh("go build ./... && go build -tags verif ./...", cwd=wt)
        r["builds"] = rc1 == 0
        if rc1 != 0:
            r["build_output"] = o1[-800:]
        mut = run_demo(wt, files)
        r["demo_with_change"] = [(p, rc) for p, rc, _ in mut]
        r["demo_with_change_tail"] = [o[-400:] for _, _, o in mut]
        for f in files:
            os.remove(os.path.join(wt, f))
        if suite:
            t0 = time.time()
            rc2, o2 = sh(["go", "test", "-count=1", "-vet=off", "-timeout", "25m", "./..."], cwd=wt, timeout=2400)
            r["suite_exit"] = rc2
            r["suite_s"] = round(time.time() - t0)
            r["suite_failures"] = [l for l in o2.splitlines() if l.startswith(("FAIL", "--- FAIL", "panic:"))][:10]
        r["ok"] = (bool(base) and all(rc == 0 for _, rc, _ in base) and bool(mut) and any(rc != 0 for _, rc, _ in mut)
                   and r["builds"] and (not suite or r["suite_exit"] == 0))
        print(json.dumps(r))
    finally:
        sh(["git", "-C", "/repo", "worktree", "remove", "--force", wt])
        shutil.rmtree(wt, ignore_errors=True)
    return 0


if __name__ == "__main__":
    sys.exit(main())
