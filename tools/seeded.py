#!/usr/bin/env python3
"""Runs the registered checks against the seeded changes under /verif/seeded/<id>/.

usage: tools/seeded.py [<id> ...]      (default: all)
For each seeded change: git -C /repo apply patch.diff, run ./check <property> (quick tier) for the property named
in meta.json (and any extra ones listed under "also"), record exit status and VIOLATION lines, then
git -C /repo apply -R patch.diff. /repo is left exactly as it was (the working tree must be clean of tracked
changes to the patched files before starting). Results go to /verif/seeded/RESULTS.json.
"""
import json, os, subprocess, sys, time

VERIF = os.path.dirname(os.path.dirname(os.path.abspath(__file__)))
SEEDED = os.path.join(VERIF, "seeded")


def sh(cmd, **kw):
    p = subprocess.run(cmd, stdout=subprocess.PIPE, stderr=subprocess.STDOUT, **kw)
    return p.returncode, p.stdout.decode("utf-8", "replace")


def main():
    ids = sys.argv[1:] or sorted(d for d in os.listdir(SEEDED) if os.path.isdir(os.path.join(SEEDED, d)))
    results = {}
    rp = os.path.join(SEEDED, "RESULTS.json")
    if os.path.exists(rp):
        results = json.load(open(rp))
    for sid in ids:
        d = os.path.join(SEEDED, sid)
        meta = json.load(open(os.path.join(d, "meta.json")))
        patch = os.path.join(d, "patch.diff")
        rc, out = sh(["git", "-C", "/repo", "apply", "--check", patch])
        if rc != 0:
            print("%s: patch does not apply: %s" % (sid, out.strip()))
            results[sid] = dict(error="patch does not apply", detail=out[-500:])
            continue
        sh(["git", "-C", "/repo", "apply", patch])
        try:
            res = {}
            for pid in [meta["property"]] + meta.get("also", []):
                t0 = time.time()
                rc, out = sh([os.path.join(VERIF, "check"), pid, "--tier", "quick"], cwd=VERIF, timeout=3600)
                viol = [l for l in out.splitlines() if l.startswith("VIOLATION")]
                sigs = []
                for v in viol:
                    try:
                        rep = json.load(open(v.split("replay=")[1].split()[0]))
                        sigs.append(rep.get("sig") or "")
                    except Exception:
                        pass
                res[pid] = dict(exit=rc, violations=viol[:5], sigs=sigs[:8], wall_s=round(time.time() - t0, 1),
                                caught=(rc == 1 and bool(viol)),
                                summary=[l for l in out.splitlines() if l.startswith(pid + " tier=")][-1:],
                                no_longer_checks=[l.strip()[:300] for l in out.splitlines() if "no-longer-checks" in l][:4])
                print("%s / %s: exit=%s caught=%s %s" % (sid, pid, rc, res[pid]["caught"], viol[:1]))
            results[sid] = dict(property=meta["property"], checks=res)
        finally:
            rc, out = sh(["git", "-C", "/repo", "apply", "-R", patch])
            if rc != 0:
                print("WARNING: could not revert %s: %s" % (sid, out))
        json.dump(results, open(rp, "w"), indent=1)


if __name__ == "__main__":
    main()
