#!/usr/bin/env python3
"""Regenerates /verif/MANIFEST.json from checks/c*.py (MANIFEST dict of each module) and properties.jsonl."""
import glob, importlib, json, os, subprocess, sys
HERE = os.path.dirname(os.path.dirname(os.path.abspath(__file__)))
sys.path.insert(0, HERE); sys.path.insert(0, os.path.join(HERE, "lib"))
ids = [json.loads(l)["id"] for l in open(os.path.join(HERE, "properties.jsonl"))]
checks, claimed = [], set()
for f in sorted(glob.glob(os.path.join(HERE, "checks", "c*.py"))):
    mod = importlib.import_module("checks." + os.path.basename(f)[:-3])
    m = getattr(mod, "MANIFEST", None)
    if not m:
        continue
    pid = mod.PID
    claimed.add(pid)
    checks.append({
        "property_id": pid,
        "quick_cmd": "./check %s --tier quick" % pid,
        "thorough_cmd": "./check %s --tier thorough" % pid,
        "evidence_file": "/verif/evidence/%s.json" % pid,
        "replay_cmd_template": "./check %s --replay {path}" % pid,
        "engine": "coq-proof+correspondence",
        "level_claimed": {"category": "proof", "text": m["text"], "design_ref": m.get("design_ref", "DESIGN.md section 7, " + pid)},
        "level_note": m["note"],
        "technique": m.get("technique", "machine-checked proof in Coq 8.16.1 over a hand-written Gallina model + extracted-model/implementation correspondence run"),
    })
na_reasons = {}
p = os.path.join(HERE, "not_applicable.json")
if os.path.exists(p):
    na_reasons = json.load(open(p))
hooks = []
try:
    out = subprocess.run(["git", "-C", "/repo", "log", "--format=%H %s"], stdout=subprocess.PIPE).stdout.decode()
    hooks = [l.split()[0] for l in out.splitlines() if " verif hooks" in l or l.split(" ", 1)[1].startswith("verif:")]
except Exception:
    pass
man = {
    "version": 1,
    "setup_cmd": "./check --setup",
    "hooks": {"guard": "verif", "enable": "go build -tags verif (add-only files zz_verif_export.go compiled only under //go:build verif; time-dependent drivers add the Go runtime tag faketime)",
              "baseline_off_cmd": "cd /repo && go test -mod=mod -vet=off -count=1 -timeout 25m ./...",
              "source_commits": hooks, "add_only": True},
    "engines": [{"name": "coq-proof+correspondence", "path": "/verif/check", "serves_properties": sorted(claimed),
                 "kind_free_text": "Coq 8.16.1 development under /verif/coq (models, proofs, props/Cxx.v), constants regenerated from /repo, extracted OCaml model runners compared with Go drivers built from /repo's working tree"}],
    "checks": checks,
    "not_applicable": [{"property_id": i, "reason": na_reasons.get(i, "check not built yet (work in progress; DESIGN.md section 7 describes the plan)")} for i in ids if i not in claimed],
    "notes": "All commands run with cwd=/verif. ./check <id> honours VERIF_SEED and VERIF_TIER. known_findings.json lists recorded genuine defects.",
}
json.dump(man, open(os.path.join(HERE, "MANIFEST.json"), "w"), indent=1)
print("claimed:", sorted(claimed))
