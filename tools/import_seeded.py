#!/usr/bin/env python3
"""Imports confirmed candidates from /tmp/mut/out/<Cxx>/<n>/ into /verif/seeded/<Cxx>-<n>/ (patch.diff, demo/, README.md, meta.json).
The 'needs' text of meta.json comes from NEEDS below (written by the orchestrator from the candidate's README);
confirmation data comes from /tmp/mut/results/<Cxx>_<n>.confirm.json (tools/confirm_seed.py)."""
import json, os, shutil, sys

NEEDS = {
    "C01-1": "TCP, more than 4096 segments backlogged on one session and the reading application stalled > 2 s with the receive queue full: the bounded wait returns false, which in the TCP branch means 'skip delivery'",
    "C01-2": "a single Write of more than 32768 bytes whose length is not divisible by ceil(len/32768): the remainder bytes are never queued, Write returns len(b), nil",
    "C02-1": "no loss: the receiving application does not read until the backlog reaches 4096 segments, the window closes exactly with nothing in flight (slow small-message sender), then the reader resumes: the window-reopening ack has the same ack number and is ignored (<= instead of <)",
    "C02-2": "a duplicate of the open session response (seq 0, a sessionStruct) reaching the client after the original was processed: it bypasses the new data-only duplicate filter and blocks recvBuf for ever (two cooperating sites)",
    "C10-1": "two registered users on UDP; user B's datagram carrying the id of user A's brand-new session dispatched before that session's input goroutine has set the user name (owner check simplified to UserName() only)",
    "C10-2": "a SOCKS5 request or UDP-associate header with ATYP=0x03 and domain length 0 (05 01 00 03 00 00 01): the new trailing-dot stripping indexes b[len(b)-1]",
    "C13-1": "a second copy of the server's open session response (seq 0) reaching the client: nextRecv is bumped, the client acknowledges a sequence number it has not received and later discards the real segment as stale (two cooperating sites)",
    "C13-2": "interleaving: Close() reads nextSend while oLock is held by the output loop and a concurrent Write() gets the lock first: a data fragment and the close request carry the same sequence number",
    "C15-1": "TCP peer that stopped reading until the client writer is blocked inside the socket, then client Stop: StreamUnderlay.Close sets only the read deadline, the blocked conn.Write keeps oLock for ever",
    "C15-2": "a TCP write failing (reset, or client Stop mid-transfer with two sessions on one underlay) before anyone else has closed that session: runOutputOnceStream calls closeWithError while still holding oLock (defer) and self-deadlocks",
    "C03-1": "UDP client session, first write > 1024 bytes (or low entropy on) so data does not ride on the open request, Close() within the first round trip before the open response arrives; no loss involved",
    "C03-2": "TCP, slow reader with >= 4353 unread segments (receive queue 4096 + 1 held + channel 256) at the instant the close request reaches the receiver; nothing lost on the wire",
    "C04-1": "reflection splice by an on-path attacker: the client's own datagrams (or, on TCP, its own second segment behind its initial nonce advanced by 2) fed back to the client before the server's data with the same sequence numbers arrives; the direction check of data/ack segments was dropped",
    "C04-2": "UDP: one datagram modified (discarded by the AEAD as if lost) while later ones get through, and the sender's close request arriving before a retransmission: the new flushRecvBuf releases out-of-order segments across the gap",
    "C05-1": "a copy of a genuine first TCP segment that ends inside its suffix padding (>= 1 padding byte, not all) followed by a stall or half-close",
    "C05-2": "a genuine first UDP datagram followed by exactly 256/512/768/1024 extra bytes (still within the 1500-byte receive buffer)",
    "C06-1": "a replay-cache generation that fills up (rotation by size) shortly before its time expiry, then one more lookup just after that expiry (rotation by time): two cooperating branches",
    "C06-2": "record a whole genuine UDP session, replay a datagram OTHER than the first from a different source address after the finished session was cleaned (>= 5 s)",
    "C07-1": "two registered user names colliding on the 4-byte hint of the segment's nonce, the real sender sorting after the colliding name, and a source cache holding neither",
    "C07-2": "a user-list reload (SetUsers) completing between discovery loading the list and returning, with a segment that authenticates only against the old list",
    "C08-1": "non-monotonic clock at one per-user decryptor: a lookup in slot E, then the clock stepping back across a slot boundary",
    "C08-2": "clock skew <= 60 s combined with a minute boundary (sender's minute counter one ahead of the receiver's): uint32 wrap in the rewritten WithinRange",
    "C09-1": "a TCP direction whose nonce's last four bytes (the user hint) plus the number of encryptions passes 0xffffffff: carry into byte 19 lost; mieru<->mieru keeps working (symmetric)",
    "C09-2": "a third-party server that puts the first bytes of its answer on the openSessionResponse (documented, never done by mieru's own server), TCP client role",
    "C11-1": "at least two configured credentials and the user of one together with the password of another",
    "C11-2": "a configuration in which every configured credential is over-long (> 255 bytes): dropped by New(), then len(IngressCredentials)==0 means no authentication (two cooperating sites)",
    "C12-1": "two-step sequence inside one UDP association: a datagram to an IP-literal local address (correctly dropped), then a datagram whose header names a public domain: stale IP reused",
    "C12-2": "a relayed datagram whose header destination is 0.0.0.0 / :: / ::ffff:0.0.0.0 (cooperates with the ASSOCIATE-only tolerance in egress.go)",
    "C14-1": "UDP non-low-entropy data segment leaving 256..509 bytes of room, middle and end padding maxima summing above 256, and two random draws exceeding the room (0.3-4 % of transmissions)",
    "C14-2": "MTU configured at exactly the lower bound 1280 (accepted by validation), UDP transport, any datagram above 1280 bytes: boundary excluded by the new shared helper",
    "C16-1": "the same seed evaluated with unlockAll=true and then unlockAll=false in one process (config reload): rng.FixedInt caches modulo the first caller's n",
    "C16-2": "tcpFragment.enable=true with maxSleepMs == 0 (explicit, or implicit when unlockAll is unset)",
    "C17-1": "a body of at least two chunks with a partial last chunk and a deviating bit in a mask-selected position above that chunk's data bits (canonicity only; round trip unaffected)",
    "C17-2": "a CPU path without BMI2 (portable pdep) and a single-bit source chunk whose bit index >= popcount(mask)-1, e.g. ciphertext chunk 80 00 .. 00",
    "C18-1": "the carrying stream cut 1 or 2 bytes into a 3-byte frame header (the reader takes the header with one Read)",
    "C18-2": "at least two destinations within one tunnel-mode association and a reply from a destination that is not the one most recently addressed (header slice aliases the receive buffer)",
    "C19-1": "interleaving: a metrics dump has snapshotted a user counter but not yet serialised it, an Add() in that gap is the op%1000==0 operation that rolls up entries older than 2 s, then the dump is reloaded",
    "C19-2": "a user with a quota exceeds it and then opens a FURTHER session multiplexed on an existing TCP connection (only the first segment of a connection carries a policy)",
    "C20-1": "a server user entry with both password and hashedPassword set (passes validation): store keeps the plaintext and the stale hash",
    "C20-2": "the valid patch {\"rpcPort\": 0} applied over a stored config with a non-zero RPC port (explicit zero lost)",
}


def main():
    out_root = "/verif/seeded"
    ids = sys.argv[1:] or sorted(NEEDS)
    for sid in ids:
        prop, n = sid.split("-")
        src = "/tmp/mut/out/%s/%s" % (prop, n)
        cj = "/tmp/mut/results/%s_%s.confirm.json" % (prop, n)
        if not os.path.exists(os.path.join(src, "patch.diff")) or not os.path.exists(cj):
            print(sid, "not ready")
            continue
        try:
            conf = json.load(open(cj))
        except ValueError:
            print(sid, "confirmation still running")
            continue
        if not conf.get("ok"):
            print(sid, "NOT CONFIRMED:", json.dumps(conf)[:300])
            continue
        dst = os.path.join(out_root, sid)
        shutil.rmtree(dst, ignore_errors=True)
        os.makedirs(dst)
        shutil.copy(os.path.join(src, "patch.diff"), os.path.join(dst, "patch.diff"))
        shutil.copytree(os.path.join(src, "demo"), os.path.join(dst, "demo"))
        if os.path.exists(os.path.join(src, "README.md")):
            shutil.copy(os.path.join(src, "README.md"), os.path.join(dst, "README.md"))
        meta = dict(
            id=sid, property=prop, needs=NEEDS[sid],
            author="independent sub-agent given only the property text and a scratch worktree of /repo",
            confirmed_by_orchestrator=dict(
                how="tools/confirm_seed.py in a scratch worktree of /repo HEAD: demonstration passes on the unchanged tree; with patch.diff applied `go build ./... && go build -tags verif ./...` succeed, the demonstration fails, and `go test -count=1 -vet=off ./...` (whole suite, demonstration removed) passes",
                demo_on_unchanged_tree=conf.get("demo_on_unchanged_tree"), demo_with_change=conf.get("demo_with_change"),
                suite_exit=conf.get("suite_exit"), suite_seconds=conf.get("suite_s")),
            ran=["python3 tools/confirm_seed.py /tmp/mut/out/%s/%s" % (prop, n), "python3 tools/seeded_iso.py %s patch.diff %s" % (sid, prop),
                 "python3 tools/seeded.py %s   (git -C /repo apply; ./check %s; git -C /repo apply -R)" % (sid, prop)],
        )
        json.dump(meta, open(os.path.join(dst, "meta.json"), "w"), indent=1)
        print(sid, "imported")


if __name__ == "__main__":
    main()
