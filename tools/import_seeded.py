#!/usr/bin/env python3
"""Imports confirmed candidates from /tmp/mut/out/<Cxx>/<n>/ into /verif/seeded/<Cxx>-<n>/ (patch.diff, demo/, README.md, meta.json).
The 'needs' text of meta.json comes from NEEDS below (written by the orchestrator from the candidate's README);
confirmation data comes from /tmp/mut/results/<Cxx>_<n>.confirm.json (tools/confirm_seed.py)."""
import json, os, shutil, sys

NEEDS = {
    "C01-1": "TCP, more than 4096 segments backlogged on one session and the reading application stalled > 2 s with the receive queue full: the bounded wait returns false, which in the TCP branch means 'skip delivery'",
    "C01-2": "a single Write of more than 32768 bytes whose length is not divisible by ceil(len/32768): the remainder bytes are never queued, Write returns len(b), nil",
    "C02-1": "no loss: the receiving application does not read until the backlog reaches 4096 segments, the window closes exactly with nothing in flight (slow small-message sender), then the reader resumes: the window-reopening ack has the same ack number and is ignored (<= instead of <)",
    "C02-2": "a duplicate of the open session response (seq 0, a sessionStruct) reaching the client after the original was processed: it bypasses the new data-only duplicate filter and blocks recvBuf for ever (two cooperating sites)",
    "C10-1": "two registered users on UDP; user B's datagram carrying the id of user A's brand-new session dispatched before that session's input goroutine has set the user name (owner check simplified to UserName() only)",
    "C10-2": "a SOCKS5 request or UDP-associate header with ATYP=0x03 and domain length 0 (05 01 00 03 00 00 01): the new trailing-dot stripping indexes b[len(b)-1]",
    "C13-1": "a second copy of the server's open session response (seq 0) reaching the client: nextRecv is bumped, the client acknowledges a sequence number it has not received and later discards the real segment as stale (two cooperating sites)",
    "C13-2": "interleaving: Close() reads nextSend while oLock is held by the output loop and a concurrent Write() gets the lock first: a data fragment and the close request carry the same sequence number",
    "C15-1": "TCP peer that stopped reading until the client writer is blocked inside the socket, then client Stop: StreamUnderlay.Close sets only the read deadline, the blocked conn.Write keeps oLock for ever",
    "C15-2": "a TCP write failing (reset, or client Stop mid-transfer with two sessions on one underlay) before anyone else has closed that session: runOutputOnceStream calls closeWithError while still holding oLock (defer) and self-deadlocks",
    "C03-1": "UDP client session, first write > 1024 bytes (or low entropy on) so data does not ride on the open request, Close() within the first round trip before the open response arrives; no loss involved",
    "C03-2": "TCP, slow reader with >= 4353 unread segments (receive queue 4096 + 1 held + channel 256) at the instant the close request reaches the receiver; nothing lost on the wire",
    "C04-1": "reflection splice by an on-path attacker: the client's own datagrams (or, on TCP, its own second segment behind its initial nonce advanced by 2) fed back to the client before the server's data with the same sequence numbers arrives; the direction check of data/ack segments was dropped",
    "C04-2": "UDP: one datagram modified (discarded by the AEAD as if lost) while later ones get through, and the sender's close request arriving before a retransmission: the new flushRecvBuf releases out-of-order segments across the gap",
    "C05-1": "a copy of a genuine first TCP segment that ends inside its suffix padding (>= 1 padding byte, not all) followed by a stall or half-close",
    "C05-2": "a genuine first UDP datagram followed by exactly 256/512/768/1024 extra bytes (still within the 1500-byte receive buffer)",
    "C06-1": "a replay-cache generation that fills up (rotation by size) shortly before its time expiry, then one more lookup just after that expiry (rotation by time): two cooperating branches",
    "C06-2": "record a whole genuine UDP session, replay a datagram OTHER than the first from a different source address after the finished session was cleaned (>= 5 s)",
    "C07-1": "two registered user names colliding on the 4-byte hint of the segment's nonce, the real sender sorting after the colliding name, and a source cache holding neither",
    "C07-2": "a user-list reload (SetUsers) completing between discovery loading the list and returning, with a segment that authenticates only against the old list",
    "C08-1": "non-monotonic clock at one per-user decryptor: a lookup in slot E, then the clock stepping back across a slot boundary",
    "C08-2": "clock skew <= 60 s combined with a minute boundary (sender's minute counter one ahead of the receiver's): uint32 wrap in the rewritten WithinRange",
    "C09-1": "a TCP direction whose nonce's last four bytes (the user hint) plus the number of encryptions passes 0xffffffff: carry into byte 19 lost; mieru<->mieru keeps working (symmetric)",
    "C09-2": "a third-party server that puts the first bytes of its answer on the openSessionResponse (documented, never done by mieru's own server), TCP client role",
    "C11-1": "at least two configured credentials and the user of one together with the password of another",
    "C11-2": "a configuration in which every configured credential is over-long (> 255 bytes): dropped by New(), then len(IngressCredentials)==0 means no authentication (two cooperating sites)",
    "C12-1": "two-step sequence inside one UDP association: a datagram to an IP-literal local address (correctly dropped), then a datagram whose header names a public domain: stale IP reused",
    "C12-2": "a relayed datagram whose header destination is 0.0.0.0 / :: / ::ffff:0.0.0.0 (cooperates with the ASSOCIATE-only tolerance in egress.go)",
    "C14-1": "UDP non-low-entropy data segment leaving 256..509 bytes of room, middle and end padding maxima summing above 256, and two random draws exceeding the room (0.3-4 % of transmissions)",
    "C14-2": "MTU configured at exactly the lower bound 1280 (accepted by validation), UDP transport, any datagram above 1280 bytes: boundary excluded by the new shared helper",
    "C16-1": "the same seed evaluated with unlockAll=true and then unlockAll=false in one process (config reload): rng.FixedInt caches modulo the first caller's n",
    "C16-2": "tcpFragment.enable=true with maxSleepMs == 0 (explicit, or implicit when unlockAll is unset)",
    "C17-1": "a body of at least two chunks with a partial last chunk and a deviating bit in a mask-selected position above that chunk's data bits (canonicity only; round trip unaffected)",
    "C17-2": "a CPU path without BMI2 (portable pdep) and a single-bit source chunk whose bit index >= popcount(mask)-1, e.g. ciphertext chunk 80 00 .. 00",
    "C18-1": "the carrying stream cut 1 or 2 bytes into a 3-byte frame header (the reader takes the header with one Read)",
    "C18-2": "at least two destinations within one tunnel-mode association and a reply from a destination that is not the one most recently addressed (header slice aliases the receive buffer)",
    "C19-1": "interleaving: a metrics dump has snapshotted a user counter but not yet serialised it, an Add() in that gap is the op%1000==0 operation that rolls up entries older than 2 s, then the dump is reloaded",
    "C19-2": "a user with a quota exceeds it and then opens a FURTHER session multiplexed on an existing TCP connection (only the first segment of a connection carries a policy)",
    "C20-1": "a server user entry with both password and hashedPassword set (passes validation): store keeps the plaintext and the stale hash",
    "C20-2": "the valid patch {\"rpcPort\": 0} applied over a stored config with a non-zero RPC port (explicit zero lost)",
}

# wave 3: candidates delivered to /tmp/mut/out3/<Cxx>/<1|2>, imported as <Cxx>-3 / <Cxx>-4
NEEDS.update({
    "C01-3": "TCP: the application reuses its write buffer (as io.Copy does) while the queued segment is still unencrypted - e.g. a sibling session on the same underlay stalled in conn.Write holding sendMutex: the segment aliases the caller's slice, block N is read as block N+1",
    "C01-4": "the TCP stream is split inside the end padding of an open/close (session-control) segment - peer with the tcpFragment pattern, or a re-segmenting network: the padding is read with one conn.Read",
    "C02-3": "client and server configured with different legal MTUs (1280 vs 1500) and a write that needs a full-size fragment from the larger-MTU end: receive buffer sized by the local MTU truncates it; loss-free network",
    "C02-4": ">= 2 sessions multiplexed on one UDP underlay, one application not reading until 4096 segments are queued: its input loop blocks, the underlay's single socket reader blocks, every other session stalls",
    "C03-3": "the peer's close request already processed and a Read that empties recvQueue but leaves part of the last segment in unreadBuf (caller buffer smaller than the payload): the next Read returns a clean EOF; both transports, nothing lost",
    "C03-4": "TCP: a conn.Write stall longer than the 1000 x 1 ms graceful-close wait, at least one more data segment queued behind the stalled one, Close() during the stall: the fallback close request overtakes the queue (oLock no longer held across output)",
    "C04-3": "UDP, server->client: an inserted second copy of the open-session response arriving after the first (nothing modified): nextRecv pushed one too far, the next data fragment dropped as stale and acknowledged (two cooperating sites)",
    "C04-4": "two client muxes of one user created in the same wall-clock second (session ids from a time-seeded private source) plus an on-path splice of connection A's complete server->client TCP stream into connection B",
    "C05-3": "history: server running with >= 1 user, reload to an EMPTY user list (delete user + reload), then a well-formed handshake under the deleted credential: still authenticated and answered",
    "C05-4": "configuration boundary: a user entry with neither password nor hashedPassword is registered with a credential derived from the public name only; a prober knowing the name seals with the empty password (Mux/Registry API; upstream validators reject such entries)",
    "C06-3": "history: genuine session recorded, server reloaded (SetServerUsers) with the credentials unchanged, recording replayed within the ~2 min validity: the reload cleared both replay caches",
    "C06-4": "configuration: NONCE_TYPE_FIXED with a custom prefix of 8-12 bytes and a second TCP connection / UDP client within the cache interval: signature = first 8 input bytes, fresh genuine traffic reported as replay",
    "C07-3": "history: a reload whose only change is dropping the user(s) that sort last (or every user) compares equal to the published list (prefix comparison): removed users still authenticated and attributed",
    "C07-4": "two registered users sharing one credential, an established UDP session of one, then a first segment of the other from the same IP but another port: existing-session shortcut matches peers by IP only",
    "C08-3": "UDP, multiplexing, a new session on an underlay older than 60 s (window doubled to 120 s) with the server clock up to 60 s ahead and the right phase: the underlay's one key is outside the server's three slots",
    "C08-4": "forward-moving clock: a lookup in the last 30 s before a key-slot change followed by one just after it (epoch = Unix/120 changes at 0 s, key slot at 60 s): cache serves another slot's keys; decryptor accepts a key ~5 min away",
    "C09-3": "UDP, a nonce pattern with applyToAllUDPPacket=false, from the second datagram of a cipher on: nonce returned without the documented user hint (mieru<->mieru unaffected)",
    "C09-4": "UDP server session in use across a key-slot change with a doc-conforming peer that re-derives its key from the time: the server keeps answering with the key of the session's first datagram",
    "C10-3": "registered user, TCP, one authentic data/ack segment with payloadLen in (32768, 65535]: new validation helper returns an untyped error, the stream event loop panics",
    "C10-4": "registered user, UDP, two steps from one socket: open a session normally, then an authentic openSessionRequest with the reserved session id 0: the error is returned from the shared underlay's event loop, the UDP endpoint closes for every user",
    "C11-3": "a configured credential containing ':' and a supplied pair that moves the user/password boundary to another colon (credential set keyed by user+':'+password)",
    "C11-4": "history across connections: an earlier complete login whose pooled buffer is reused, then a truncated sub-negotiation {0x01, ulen} on a connection that stays open (single conn.Read into an uncleared sync.Pool buffer)",
    "C12-3": "a configured PROXY rule whose ipRanges cover a loopback/private range ('*', 127.0.0.0/8) and a user without the grant: rules walked before the local-destination refusal (cooperates with the relay filter that drops only on REJECT)",
    "C12-4": "a destination written as IPv4-mapped IPv6 (::ffff:a.b.c.d) combined with a non-DIRECT rule on an IPv4 CIDR covering it: netip.Prefix.Contains never matches a mapped address, a later '*' DIRECT rule wins (rebased over fix 1ed9a9e)",
    "C13-3": "a Write with a write deadline waiting for oLock while the deadline passes (fragment loop left early) and the session used afterwards: sequence numbers reserved in one Add are lost, the next segment goes out behind a hole",
    "C13-4": "UDP: the peer's closeSessionRequest arriving while an earlier segment is lost or overtaken (seq > nextRecv): nextRecv jumps to seq+1, acks acknowledge sequence numbers never received",
    "C14-3": "UDP, low entropy off, one write that is an exact multiple k*(MTU-88), k >= 2 (2624, 3936 at MTU 1400): equal-size fragments computed as len/n+1 are one byte too large",
    "C14-4": "UDP, MTU <= 1366, an open/close segment carrying a large piggybacked first write (MTU-343, 1024] and a large padding draw (deterministic for entropy-strategy users): helper called with swapped int arguments",
    "C15-3": "history: a client underlay whose scheduler became idle (UDP connection open 3-4 min, or TCP past its traffic limit) but which still has sessions, one housekeeping tick, then client Mux.Close: the underlay dropped out of the table and is never closed",
    "C15-4": "a client connection that only writes and is closed before ever completing a Read (session still 'attached'): no close request sent, the server half stays open, server Read blocked for ever on TCP",
    "C16-3": "UDP server with an explicit nonce pattern and a datagram handled through a cipher block that did not open a session (client source port change mid-session; data for an unknown session id): reply emitted with a plain random nonce",
    "C16-4": "boundary value: an explicit seed of 0 with at least one unset field, compared across host names: treated as 'no seed', the host-derived private seed is used",
    "C17-3": "a half-mask 1-3 bits heavier than the mode's weight (17-19 for mode 32; never produced by the sender): weight checked by integer division, accepted and decoded to other bytes",
    "C17-4": "padding polarity 1 together with an all-zero ciphertext chunk (or a trailing 0x00 byte): encoder skips the chunk, the decoder rejects the sender's own output",
    "C18-3": "history inside one tunnel-mode association: an IP-literal datagram followed by a domain-name datagram: reused datagram struct keeps the previous IP (AddrSpec.ReadFromSocks5 never clears it), payload goes to the previous destination",
    "C18-4": "two concurrent senders on one association over a carrier that is not a raw TCP socket (mieru Session, net.Pipe): the frame is written as three separate Write calls (net.Buffers) and interleaves",
    "C19-3": "the server application reading a segment in pieces of about half its payload or less (small buffers): bytes served from the leftover buffer return before the counter is incremented",
    "C19-4": "history: users published, traffic counted, then a reload in which ONLY quotas differ: the registry keeps the old generation (policy not compared), quota changes never take effect",
    "C20-3": "history: a patch that passes patch validation but fails full validation after the merge (users-only patch on a fresh server), then Load / GetJSON / a second valid patch: the load cache hands out a shared object that the rejected apply mutated in place",
    "C20-4": "a non-ASCII user name of <= 64 runes but > 64 bytes: validation counts runes, cipher and registry count bytes; the validated config crashes the client at the first connection",
})

# wave 4: candidates delivered to /tmp/mut4/out/<Cxx>/ (one per property), imported as <Cxx>-5 (C14: -4)
WAVE4 = {"C01-5": "C01", "C02-5": "C02", "C03-5": "C03", "C04-5": "C04", "C06-5": "C06", "C07-5": "C07", "C10-5": "C10",
         "C13-5": "C13", "C14-4": "C14", "C19-5": "C19"}
NEEDS.update({
    "C01-5": "tcpFragment enabled with maxSleepMs > 0 on the sender, >= 2 sessions on one TCP underlay, and one session opening/closing while another writes during an inter-fragment sleep: sendMutex released during the sleep, another segment lands inside the fragmented one",
    "C02-5": "no loss: receiver application paused until its queue holds 4096 segments so the advertised window is exactly 0 with nothing in flight, then the reader resumes: window updates with an unchanged ack number are discarded (<= instead of <)",
    "C03-5": "UDP: more than 4096 segments outstanding (slow path, multi-fragment writes), the last successful Write leaving the 4096-slot send queue EXACTLY full, Close() right after it: the slot reserved for the close request is gone (Remaining() >= n), the fallback sends the close request at once and deletes the queued data; nothing lost on the wire",
    "C04-5": "low-entropy pattern enabled and an on-path reflection splice (on TCP with the clear nonce rebased): the tidied protocol allow list accepts both low-entropy data directions at either role, so an endpoint reads its own reflected data",
    "C06-5": "UDP: a datagram of an ESTABLISHED session (not the handshake) recorded and re-sent from a different source address within the key validity, the session already cleaned: established-session datagrams no longer enter the replay cache",
    "C07-5": "a user record carrying both password and hashedPassword, and a reload in which only hashedPassword differs: the new fingerprint shortcut of SetUsers prefers the raw password while buildCredential prefers the hash; the retired credential keeps authenticating",
    "C10-5": "UDP, live session K of user A, an openSessionRequest with id K validly encrypted by user B arriving from K's own ip:port: handed to the session as a retransmission without the owner check, Session.input panics",
    "C13-5": "a stale second copy of the server's open session response (seq 0, sessionStruct) reaching an established client: it bypasses the new data-only stale filter, nextRecv is bumped, an unreceived segment is acknowledged and later dropped",
    "C14-4": "UDP, low entropy on both sides, the server writing before the client's first low-entropy data (mode still OFF), then again afterwards: fragment size cached at the first write + per-datagram MTU guard removed (two cooperating sites): datagrams up to 2712 bytes at MTU 1400",
    "C19-5": "a metrics snapshot (ToMetricPB) taken, then a roll-up of that counter, then the snapshot serialised and later reloaded: the in-place roll-up mutates history entries shared with the snapshot, dumped series exceeds the dumped value, quota window over-reports",
})

# wave 5: candidates delivered to /tmp/mut5/out/<Cxx>/ (one per property), imported as <Cxx>-5
WAVE5 = {"C05-5": "C05", "C08-5": "C08", "C09-5": "C09", "C11-5": "C11", "C12-5": "C12", "C15-5": "C15", "C16-5": "C16", "C17-5": "C17", "C18-5": "C18", "C20-5": "C20"}
NEEDS.update({
    "C05-5": "UDP: an unmodified SERVER-emitted data/ack datagram of a session that is already closed and cleaned (>= 5 s), never received by the server before, reflected to the server from an address without a live session: the direction check was removed from the underlay (Session.input guards only registered sessions); the unknown-session branch answers with a closeSessionRequest to a party that knows no credential",
    "C08-5": "non-monotonic server clock: a per-user decryptor used at T1, then the clock stepped BACK by two or more key slots (>= ~4 min): the new validity test now.Before(slotEnd) has no lower bound, the held keys of the later slot are reused (clients within 60 s refused, a key 10 min away accepted)",
    "C09-5": "a TCP direction whose nonce has its last 8 bytes within N encryptions of 0xffffffffffffffff (chosen by a third-party peer, or a 20-byte fixed prefix + hint): the uint64 fast path loses the carry into byte 15 (X||ff..ff + 1 = X||00..01); mieru<->mieru self-consistent",
    "C11-5": "credentials configured, user/pass selected, an UNREGISTERED (or empty) user name with a zero-length password: the lookup returns (\"\", false), found is dropped, ConstantTimeCompare(\"\", \"\") == 1 (two cooperating sites)",
    "C12-5": "two-step history inside one UDP association: a datagram to a PUBLIC IP literal, then one whose destination is a local NAME (localhost, LocalHost., 127.0.0.1 written as a name): the per-association request object keeps the stale public IP, the rule judges that, the relay resolves the name",
    "C15-5": "a peer's closeSessionRequest processed while writes on the underlay fail (simultaneous close of a multiplexed underlay: client Mux.Close under way and the server closing its sessions 300 ms later; or abrupt connection loss): the new sendCloseSessionResponse returns on the write error without releasing oLock; closeWithError blocks for ever",
    "C16-5": "UDP server with low entropy enabled, client A sending low-entropy data first, then a DIFFERENT client B with low entropy off: the new per-underlay peerUseLowEntropy mark lives on the one PacketUnderlay that serves every client, B receives low-entropy data segments",
    "C17-5": "padding polarity 1, a body that is not a multiple of the mode's bytes per chunk, and a cleared bit in a mask-selected but unused position of the partial last chunk: the all-ones accumulator uses chunk|chunkMask instead of chunk|dataMask; non-canonical strings accepted (round trip unaffected)",
    "C18-5": "one packet-over-stream association that sends a datagram to an IP literal and later one addressed by domain name: reused datagram struct keeps the previous IP (ReadFromSocks5 never clears it), payload goes to <previous IP>:<new port>",
    "C20-5": "a stored server config whose users are NOT sorted by name (SetConfig RPC, hand-written file), then a patch naming an existing user that sits after a greater name: the single-pass sorted merge misses the old record, the user is stored twice and the stale record wins",
})


def main():
    out_root = "/verif/seeded"
    ids = sys.argv[1:] or sorted(NEEDS)
    for sid in ids:
        prop, n = sid.split("-")
        src = "/tmp/mut/out/%s/%s" % (prop, n)
        cj = "/tmp/mut/results/%s_%s.confirm.json" % (prop, n)
        if int(n) >= 3:
            src = "/tmp/mut/out3/%s/%d" % (prop, int(n) - 2)
            cj = "/tmp/mut/results3/%s_%d.confirm.json" % (prop, int(n) - 2)
        if sid in WAVE5:
            src = "/tmp/mut5/out/%s" % prop
            cj = "/tmp/mut5/results/%s.confirm.json" % prop
        if sid in WAVE4:
            src = "/tmp/mut4/out/%s" % prop
            cj = "/tmp/mut4/results/%s.confirm.json" % prop
        if not os.path.exists(os.path.join(src, "patch.diff")) or not os.path.exists(cj):
            print(sid, "not ready")
            continue
        try:
            conf = json.load(open(cj))
        except ValueError:
            print(sid, "confirmation still running")
            continue
        if not conf.get("ok"):
            print(sid, "NOT CONFIRMED:", json.dumps(conf)[:300])
            continue
        dst = os.path.join(out_root, sid)
        shutil.rmtree(dst, ignore_errors=True)
        os.makedirs(dst)
        shutil.copy(os.path.join(src, "patch.diff"), os.path.join(dst, "patch.diff"))
        shutil.copytree(os.path.join(src, "demo"), os.path.join(dst, "demo"))
        if os.path.exists(os.path.join(src, "patch.orig.diff")):
            shutil.copy(os.path.join(src, "patch.orig.diff"), os.path.join(dst, "patch.orig.diff"))
        if os.path.exists(os.path.join(src, "README.md")):
            shutil.copy(os.path.join(src, "README.md"), os.path.join(dst, "README.md"))
        meta = dict(
            id=sid, property=prop, needs=NEEDS[sid],
            author="independent sub-agent given only the property text and a scratch worktree of /repo",
            confirmed_by_orchestrator=dict(
                how="tools/confirm_seed.py in a scratch worktree of /repo HEAD: demonstration passes on the unchanged tree; with patch.diff applied `go build ./... && go build -tags verif ./...` succeed, the demonstration fails, and `go test -count=1 -vet=off ./...` (whole suite, demonstration removed) passes",
                demo_on_unchanged_tree=conf.get("demo_on_unchanged_tree"), demo_with_change=conf.get("demo_with_change"),
                suite_exit=conf.get("suite_exit"), suite_seconds=conf.get("suite_s")),
            ran=["python3 tools/confirm_seed.py %s" % src, "python3 tools/seeded_iso.py %s patch.diff %s" % (sid, prop),
                 "python3 tools/seeded.py %s   (git -C /repo apply; ./check %s; git -C /repo apply -R)" % (sid, prop)],
        )
        json.dump(meta, open(os.path.join(dst, "meta.json"), "w"), indent=1)
        print(sid, "imported")


if __name__ == "__main__":
    main()
