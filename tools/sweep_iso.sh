#!/bin/bash
# Parallel sweep of seeded changes in isolated copies (tools/seeded_iso.py), five at a time.
# usage: tools/sweep_iso.sh <outdir> <seed id> ...     e.g. tools/sweep_iso.sh /root/wave C01-3 C02-4
# One JSON line per seed in <outdir>/<id>.json; merge with tools/merge_iso.py <outdir>.
out=$1; shift
mkdir -p "$out"
for id in "$@"; do
  pid=${id%%-*}
  echo "cd /verif && timeout 3000 python3 tools/seeded_iso.py $id seeded/$id/patch.diff $pid > $out/$id.json 2>&1"
done | xargs -P 5 -I{} bash -c "{}"
