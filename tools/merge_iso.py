#!/usr/bin/env python3
"""Merges the one-line JSON results of tools/seeded_iso.py (one file per seeded change, written by a parallel sweep) into
seeded/RESULTS.json in the format of tools/seeded.py, marked mode=iso (the check ran in an isolated copy of /verif against a
scratch worktree of /repo with the patch applied, not against /repo itself).
usage: tools/merge_iso.py <dir> [<dir> ...]   (later directories win)"""
import glob, json, os, sys

V = os.path.dirname(os.path.dirname(os.path.abspath(__file__)))
rp = os.path.join(V, "seeded", "RESULTS.json")
results = json.load(open(rp)) if os.path.exists(rp) else {}
n = 0
for d in sys.argv[1:]:
    for f in sorted(glob.glob(os.path.join(d, "*.json"))):
        sid = os.path.basename(f)[:-5]
        for line in open(f):
            line = line.strip()
            if not line.startswith("{"):
                continue
            try:
                r = json.loads(line)
            except ValueError:
                continue
            if "pid" not in r:
                continue
            results.setdefault(sid, dict(property=sid.split("-")[0], checks={}))["checks"][r["pid"]] = dict(
                exit=r["exit"], caught=r["caught"], sigs=r.get("sigs", []), violations=r.get("violations"), summary=r.get("summary"),
                no_longer_checks=[x[:300] for x in r.get("no_longer_checks", [])], wall_s=r.get("wall_s"), mode="iso")
            n += 1
json.dump(results, open(rp, "w"), indent=1, sort_keys=True)
print("merged %d results; %d seeded changes in RESULTS.json" % (n, len(results)))
