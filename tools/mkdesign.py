#!/usr/bin/env python3
"""Rebuilds section 10 of DESIGN.md from docs/asbuilt_head.md + a table generated from seeded/*/meta.json and
seeded/RESULTS.json + docs/asbuilt_tail.md. Everything before the marker line of section 10 and Appendix A is kept."""
import glob, json, os, re

V = os.path.dirname(os.path.dirname(os.path.abspath(__file__)))
design = open(os.path.join(V, "DESIGN.md")).read()
MARK = "---------------------------------------------------------------------------------------\n\n## 10. As built"
i = design.find(MARK)
j = design.find("---------------------------------------------------------------------------------------\n\n## Appendix A.")
head = design[:i] if i >= 0 else design[:j]
appendix = design[j:]

results = {}
rp = os.path.join(V, "seeded", "RESULTS.json")
if os.path.exists(rp):
    results = json.load(open(rp))
rows = []
for mp in sorted(glob.glob(os.path.join(V, "seeded", "*", "meta.json"))):
    m = json.load(open(mp))
    sid = m["id"]
    res = results.get(sid, {}).get("checks", {}).get(m["property"], {})
    if res:
        caught = "yes" if res.get("caught") else "**no**"
        sigs = ", ".join(sorted({s for s in res.get("sigs", []) if s})) or (
            "obligation / correspondence only (no-failing-input-found)" if res.get("caught") else "")
    else:
        caught, sigs = "(not run)", ""
    note = m.get("strengthened", "")
    rows.append("| %s | %s | %s | %s%s |" % (sid, m["needs"].replace("|", "/"), caught, sigs, (" — " + note) if note else ""))
table = """### 10.4 Seeded changes and which checks catch them

Each change below was written by a fresh sub-agent that was given only the text of one property and a scratch
worktree of `/repo` (nothing from `/verif`), and was kept only after `tools/confirm_seed.py` confirmed in another
scratch worktree that it compiles (with and without `-tags verif`), that its demonstration passes without it and
fails with it, and that the repository's whole test suite still passes with it. `seeded/<id>/` holds `patch.diff`,
the demonstration, the author's README and `meta.json`. `tools/seeded.py` applies each to `/repo`, runs the quick
check of its property, reverts, and writes `seeded/RESULTS.json`, from which this table is generated
("caught" = exit 1 with a VIOLATION line; the signatures are those of the replay files). Waves 3 and 4 (ids `-3`, `-4`,
`-5`) were swept in parallel with `tools/seeded_iso.py` (an isolated copy of `/verif` run against a scratch worktree of
`/repo` carrying the patch; merged by `tools/merge_iso.py`), because a serial sweep over `/repo` itself takes hours; the
two changes of wave 4 that were missed at first were re-run against `/repo` itself after the checks were strengthened
(`git -C /repo apply`, `./check`, `git -C /repo checkout -- .`).

| id | what it needs in order to manifest | caught by `./check <property>` (quick) | signature(s) / part that caught it |
|---|---|---|---|
""" + "\n".join(rows) + "\n\n"
missed = [r for r in rows if "**no**" in r]
table += ("All %d seeded changes are caught.\n\n" % len(rows)) if rows and not missed else ""

def theorem_index():
    ev = {}
    lines = ["| id | theorems in `coq/props/Cxx.v` (n; all `Closed under the global context`) | quick run: evaluations / distinct non-trivial / obligations discharged |", "|---|---|---|"]
    total = 0
    for i in range(1, 21):
        pid = "C%02d" % i
        src = open(os.path.join(V, "coq", "props", pid + ".v")).read()
        names = [n[len(pid) + 1:] if n.startswith(pid + "_") else n for n in re.findall(r"^Theorem\s+([A-Za-z0-9_']+)", src, re.M)]
        total += len(names)
        cov = ""
        ep = os.path.join(V, "evidence", pid + ".json")
        if os.path.exists(ep):
            c = json.load(open(ep)).get("coverage", {})
            cov = "%s / %s / %s of %s" % (c.get("evaluations", "?"), c.get("distinct_nontrivial", "?"), c.get("discharged", "?"), c.get("obligations", "?"))
        lines.append("| %s | %d: %s | %s |" % (pid, len(names), ", ".join("`%s`" % n for n in names), cov))
    return "\n".join(lines) + "\n\n%d property theorems in all.\n" % total


headtxt = open(os.path.join(V, "docs", "asbuilt_head.md")).read().replace("@@THEOREM_INDEX@@", theorem_index())
out = head + headtxt + table + open(os.path.join(V, "docs", "asbuilt_tail.md")).read() + "\n" + appendix
open(os.path.join(V, "DESIGN.md"), "w").write(out)
print("DESIGN.md rebuilt: %d seeded rows, %d missed" % (len(rows), len(missed)))
