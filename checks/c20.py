"""C20: configuration handling is total, lossless, and keeps server passwords hashed (DESIGN.md 7/C20)."""
from vlib import run_pair

PID = "C20"
MODEL_VOS = ["model/Config.vo"]
ASSUMPTIONS = [
    "proved: mieru's own logic only (merge of patches by field / by user name / by profile name, hashing before storing, guards and slicing of URLToClientConfig / URLToClientProfile, port and port-range parsing); protobuf, protojson, base64, net/url, net.ParseIP, the generated enum-name tables and SHA-256+hex are library code: they enter the theorems as arbitrary inputs (url_lib / surl_lib records, section function H) and are exercised, not proved, by the correspondence and oracle runs",
    "sub-messages the merge only copies (advanced settings, egress, DNS, traffic pattern, quotas, servers of a profile) are opaque byte strings in the model (their deterministic protobuf encoding in the run)",
    "strconv.Atoi is modelled as [+-]?[0-9]+ within int64 and compared on boundary and random texts (AT cases); the regexp ^(\\d+)-(\\d+)$ as 'digits, one dash, digits' (PR cases)",
    "the hash is re-expressed in toy form for the run (H x = tag :: x): the driver maps a stored hex SHA-256 back to the candidate pre-image it is the hash of (pw||0||name, name||0||pw, pw||name, pw, pw||0), so a wrong pre-image or a skipped hash shows up as a difference",
    "store-then-load and export-then-import equality are judged by the driver with proto.Equal (oracle, testing): for mierus:// links against the part of a profile such a link carries (name, user name, password, one server by domain name else IP, its bindings with canonically spelled ranges, mtu, multiplexing level, handshake mode, non-empty traffic pattern); domain names are drawn from host-name characters only (a domain name is not validated by mieru and is written unescaped into the link)",
    "validators (ValidateServerConfigSingleUser incl. the quota-days bound, ValidateServerConfigPatch / ValidateFullServerConfig, ValidateClientConfigSingleProfile / ValidateClientConfigPatch / ValidateFullClientConfig) are modelled as functions into 'number of the first failing group of checks' and compared on generated configurations and on every bound perturbed to both sides (VS VP VC VK cases); answers of time.ParseDuration, net.ParseCIDR, net.ParseIP, NormalizeDomainName and trafficpattern.Validate (another package, C16) are inputs recorded by the driver; bounds that are literals in the source (64-byte password, MTU 1280..1500, ports 1..65535, 1 s metrics interval) are recovered by dumpconsts from the validators' behaviour; multiplexing / handshake enums are not range-checked by any validator",
    "C20_validated_link_roundtrip: the library steps (url.String/url.Parse, base64, protobuf, strconv.Itoa, Enum.String and the *_value tables) are hypotheses 'decode (encode x) = x' (link_as_parsed is their composite); since fix 04ca7f3 (exporter prefers the port, like FlatPortBindings) no premise on the bindings is needed (C20_validated_link_roundtrip; the old exporter is kept as export_server_v0 with C20_validated_link_roundtrip_refuted_before_fix, and {port: 2012, portRange: \"x\"} is the first corpus case); an enum number outside the generated name table does not survive a link and is outside the theorem",
    "C20_validated_store_total is about the model's store (no error branch): the real StoreServerConfig can still fail in proto.Marshal on a string that is not valid UTF-8 (error, not panic; such strings cannot come from the JSON or protobuf parsers) and on file-system errors",
    "the SetConfig RPC handler stores without validating (exercised by calling the handler directly with invalid configurations, results in the evidence notes): Load never panics on what it stored and Reload / Start re-validate and refuse; nothing is claimed about SetConfig beyond that run",
    "'can be started' is exercised only up to the construction of the client mux / the server's listening endpoints and traffic pattern (no sockets are opened)",
]


def run(ctx):
    return [run_pair(ctx, "c20", PID, MODEL_VOS)]


def search(ctx):
    return [run_pair(ctx, "c20", PID, None, tier="thorough", seed=ctx.seed + 1000 + i, subdir="search%d" % i) for i in range(2)]


MANIFEST = dict(
    text="Theorems over the Config model (server and client merge by field and by name with Go's map+sort semantics, HashUserPasswords, StoreServerConfig/StoreClientConfig, the guards and the s[8:] slice of URLToClientConfig as a total function into Ok|Err|Panic, URLToClientProfile including protocolList[idx], Atoi-based port and port-range parsing) proved for all configurations, patches, hash functions, strings and library answers; the extracted model is compared with pkg/appctl on generated configurations and patches (merge, store/load, apply through both file formats), on every link the driver exports or mutates and on port/integer texts; every case is also judged against the property text (proto.Equal round trips, 'patch if set else old', no plaintext password in the stored bytes, no panic).",
    note="Only mieru's own logic is proved; protobuf/protojson/base64/net/url are library code entering as arbitrary inputs and exercised by the run. The pinned commit panicked on mieru: and mieru:/ (s[8:] without a guard): fixes/C20-short-link-slice.diff; the model describes the fixed code and keeps the old guard with its refutation.",
    technique="Coq proof (sorted association lists, list induction, lia) + differential run of the extracted model against pkg/appctl + property oracle in the Go driver",
)
