"""C08: clocks within one minute agree on keys; stale segments refused (DESIGN.md 7/C08)."""
from vlib import run_pair

PID = "C08"
MODEL_VOS = ["model/KeyTime.vo"]
ASSUMPTIONS = [
    "second driver c08t (virtual time): the real metadata Marshal/Unmarshal of pkg/protocol (through the C09 export hooks) run at controlled instants around minute ticks and slot changes; compared with minute()/timestamp_ok of the model and judged against the property text",
    "instants lie in the era where the uint32 minute counter does not wrap (60 s <= t < (2^32-1)*60 s); the wrap corner is compared (W cases) but not claimed",
    "the jitter drawn by getCachedCiphers is not observable: the model runner accepts a lookup iff jitter 0 or max-1 explains it (monotone in the jitter)",
    "Go's time.Round / time.Unix are modelled by go_round and the unixToInternal constant and compared on every E case",
]


def run(ctx):
    return [run_pair(ctx, "c08", PID, MODEL_VOS),
            run_pair(ctx, "c08t", PID, MODEL_VOS, faketime=True, subdir="c08t")]


def search(ctx):
    return [run_pair(ctx, "c08", PID, None, tier="thorough", seed=ctx.seed + 1000 + i, subdir="search%d" % i) for i in range(2)]

MANIFEST = dict(
    text="Theorems over the KeyTime model (Go time.Round slots, uint32 minute stamps with wrap, WithinRange/Mid, the key cache and the per-decryptor cache) proved for all instants, skews, cache histories and jitter draws; constants regenerated from /repo; the model's executable definitions are compared with pkg/cipher and pkg/mathext on boundary grids and generated histories, and every case is also judged against the property text.",
    note="Assumes Go's time.Round/Unix semantics as modelled (compared on every case), instants inside the non-wrapping uint32-minute era, jitter draws unobservable (acceptor at both extremes). PBKDF2/SHA-256/XChaCha20 used by the driver come from golang.org/x/crypto.",
    technique="Coq proof (lia over Z with div/mod) of slot/timestamp/cache theorems + differential run of the extracted model against pkg/cipher",
)
