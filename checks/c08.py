"""C08: clocks within one minute agree on keys; stale segments refused (DESIGN.md 7/C08)."""
from vlib import run_pair
from xl import xl_pair, xl_search, XL_TRUSTED

PID = "C08"
MODEL_VOS = ["model/KeyTime.vo"]
TRUSTED_EXTRA = [XL_TRUSTED]
USES_TRANSLATED = True     # props/C08.v has theorems over gen/Translated.v (C08_source_*): a translator failure is a problem of this check
ASSUMPTIONS = [
    "C08_source_mid / C08_source_within_range / C08_source_stamp_is_minute are about coq/gen/Translated.v, i.e. the Go source text of mathext.Mid and mathext.WithinRange (at uint32) and of the stamp expression in sessionStruct.Marshal as go2coq reads them on this run; C09_source_unmarshal_session / C09_source_session_roundtrip (props/C09.v) show that sessionStruct.Unmarshal applies exactly this test to the stamped minute. dataAckStruct.Unmarshal (pointer composite literal, call through a pointer parameter) is outside the translated fragment: its timestamp test is tied by the c08t correspondence only",
    "second driver c08t (virtual time): the real metadata Marshal/Unmarshal of pkg/protocol (through the C09 export hooks) run at controlled instants around minute ticks and slot changes; compared with minute()/timestamp_ok of the model and judged against the property text",
    "instants lie in the era where the uint32 minute counter does not wrap (60 s <= t < (2^32-1)*60 s); the wrap corner is compared (W cases) but not claimed",
    "the jitter drawn by getCachedCiphers is not observable: the model runner accepts a lookup iff jitter 0 or max-1 explains it (monotone in the jitter)",
    "Go's time.Round / time.Unix are modelled by go_round and the unixToInternal constant and compared on every E case",
    "age of the key-holding client underlay (UDP): packetUnderlayScheduleWindow_ns in M.gen.Consts is measured on the compiled NewPacketUnderlay (creation -> scheduler disable time; on the real clock the measurement is a bracket, resolved to the one whole millisecond inside it); the c08t driver measures the same window exactly under virtual time (K case) and compares it with the constant to the nanosecond, asks the real ScheduleController on an age grid with ns boundaries at 60 s and 120 s (P cases), and ages real client muxes whose first underlay is created at chosen phases of the key slot (U cases): every session the mux schedules is followed to its socket, its real open-session request is taken off the wire, keyed independently by the reference codec, and given to the real server-side StatelessDecryptor at server clock t+skew",
    "the server side of the U cases is the real StatelessDecryptor (explicit clock through the verif hook) plus mathext.WithinRange on the stamped minute, not a whole server mux: one process has one clock, so a server that is behind the client cannot be run end to end. A server that is AHEAD by 60 s is run end to end (X cases): a real server mux receives every datagram of the ageing client 60 s after it was sent and must accept each session the client scheduled",
    "the server tries the ciphers of its live sessions from the same source address before the three keys of its clock (PacketUnderlay.tryDecryptExistingSession), and forgets a closed session only when its event loop comes round (valid segment or 60..120 s read timeout) with a clean tick pending; such a session hides the age of the key. Model, theorems and oracle describe the server WITHOUT a live session of that client socket (the history in which the earlier sessions of the underlay are over); the X cases establish that state on the real server (sessions closed after 100 ms, a second client on another address makes the event loop come round before the next dial)",
    "the mux reuses an underlay at random (multiplex factor 30): a dial that lands on a newer underlay is judged against that underlay's own creation instant; the model refuses any session scheduled onto an underlay older than the window, but does not require reuse",
    "latency between dial and delivery is outside the property: the server reads the request at the client's send instant plus the skew (retransmissions of the same request later than the window are not judged)",
    "TCP: a stream underlay's key is matched by the server once, on the first segment of the connection (discovery only while recv == nil), afterwards both ends run the stateful cipher; there is no scheduling window and no time slot is consulted for later sessions (S cases: a real client and server over simnet TCP, one connection aged to 600 s, new sessions still accepted). The only age is the dial-to-first-segment latency, covered for latency <= 60 s by C08_stream_first_segment_common_key; the default dialer timeout (10 s) is not read from the code",
]


def run(ctx):
    return [run_pair(ctx, "c08", PID, MODEL_VOS),
            run_pair(ctx, "c08t", PID, MODEL_VOS, faketime=True, subdir="c08t"),
            # xl: the real mathext.Mid / WithinRange at uint32 vs their translation (validates the translator) and the translation
            # vs mid3 / within_range32 of model/KeyTime.v
            xl_pair(ctx, "c08")]


def search(ctx):
    return xl_search(ctx, "c08") + [run_pair(ctx, "c08", PID, None, tier="thorough", seed=ctx.seed + 1000 + i, subdir="search%d" % i) for i in range(2)] + \
           [run_pair(ctx, "c08t", PID, None, faketime=True, tier="thorough", seed=ctx.seed + 2000, subdir="searcht")]

MANIFEST = dict(
    text="Theorems over the KeyTime model (Go time.Round slots, uint32 minute stamps with wrap, WithinRange/Mid, the key cache and the per-decryptor cache, and the age of the key-holding client underlay against its scheduling window) proved for all instants, skews, underlay ages, cache histories and jitter draws; the window is shown to be the largest safe one (every larger window, in particular one whole refresh interval, is refuted by a witness); constants, including the measured scheduling window of a client UDP underlay, regenerated from /repo; the model's executable definitions are compared with pkg/cipher, pkg/mathext and, under virtual time, with real client muxes whose underlays are aged through the window, and every case is also judged against the property text.",
    note="Assumes Go's time.Round/Unix semantics as modelled (compared on every case), instants inside the non-wrapping uint32-minute era, jitter draws unobservable (acceptor at both extremes), no latency between the client's send and the server's read, the server of the aged-underlay cases represented by the real StatelessDecryptor at an explicit clock. TCP underlays have no age dimension beyond the dial-to-first-segment latency (stated, shown on the real code without skew). PBKDF2/SHA-256/XChaCha20 used by the driver come from golang.org/x/crypto.",
    technique="Coq proof (lia over Z with div/mod) of slot/timestamp/cache/underlay-age theorems; the timestamp test (mathext.Mid/WithinRange) translated from the Go source on every run (go2coq) and proved equal to the model + differential run of the extracted model against pkg/cipher and against real client muxes under Go's faketime runtime",
)
