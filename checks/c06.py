"""C06 (replay-cache half): the record of recent traffic never misses inside its bounds, never a false positive (DESIGN.md 7/C06)."""
from vlib import run_pair

PID = "C06"
MODEL_VOS = ["model/Replay.vo"]
ASSUMPTIONS = [
    "a signature is the FNV-64a hash of the 16 presented bytes and is treated as the identity of those bytes (a 2^-64 collision is outside the model)",
    "all time.Now()/time.Since readings of one IsDuplicate call are one instant (the call holds the cache mutex; under Go's faketime runtime the clock does not move while a goroutine runs)",
    "the model describes pkg/replay/replay.go with fixes/C06-replay-tag-overwrite.diff applied; the function as found at the pinned commit is kept as is_duplicate_v0 with its refutation witness",
    "this check covers the cache; the end-to-end statement (a replayed handshake draws no reply) is checked by the network-simulator driver",
    "exhaustive enumerations are up to renaming of signatures and of non-empty tags (the cache treats them symmetrically: map keys and string equality)",
]


def _parts(ctx, caps):
    res = []
    for cap in caps:
        res.append(run_pair(ctx, "c06", PID, MODEL_VOS, faketime=True, subdir="c06_cap%s" % cap.replace(",", "_"), tier="thorough",
                            extra_args=("-part", cap)))
    return res


def run(ctx):
    res = [run_pair(ctx, "c06", PID, MODEL_VOS, faketime=True)]
    if ctx.tier == "thorough":
        res += _parts(ctx, ["1,2", "3,4"])
    return res


def search(ctx):
    res = [run_pair(ctx, "c06", PID, None, faketime=True, tier="thorough", seed=ctx.seed + 1000 + i, subdir="search%d" % i) for i in range(2)]
    return res

MANIFEST = dict(
    text="Theorems over the Replay model (two generations signature->tag, rotation by size and by time, expiry of both, tag rule) proved for all histories: a duplicate is reported only for a signature presented before; a signature accepted at t0 is answered by exactly the tag rule against its original tag at every t1 < t0 + interval after fewer than capacity other distinct signatures; retention 3 x KeyRefreshInterval covers the usable life of a key slot and of the timestamp. Constants of the two process-wide caches regenerated from /repo; the real ReplayCache is run under faketime on enumerated and generated histories, every result and state compared with the extracted model and judged against an ideal set.",
    note="Signatures are treated as the identity of the hashed bytes (FNV-64a collisions outside the model). The pinned code let a replayer take over the stored tag of an entry (refutation theorem + witness kept in the corpus); fixed by fixes/C06-replay-tag-overwrite.diff.",
    technique="Coq proof (two-phase invariant over histories) + differential run of the extracted model against pkg/replay under Go faketime",
)
