"""C06: replayed handshakes are rejected without a reply; the record of recent traffic never misses inside its bounds, never a false positive (DESIGN.md 7/C06)."""
from vlib import run_pair

PID = "C06"
MODEL_VOS = ["model/Replay.vo"]
ASSUMPTIONS = [
    "a signature is the FNV-64a hash of the 16 presented bytes and is treated as the identity of those bytes (a 2^-64 collision is outside the model)",
    "all time.Now()/time.Since readings of one IsDuplicate call are one instant (the call holds the cache mutex; under Go's faketime runtime the clock does not move while a goroutine runs)",
    "the model describes pkg/replay/replay.go with fixes/C06-replay-tag-overwrite.diff applied; the function as found at the pinned commit is kept as is_duplicate_v0 with its refutation witness",
    "end-to-end half: C06_replay_rejected_tcp/_udp are the front-door model of model/ServerFront.v (C05) running on the concrete cache with the process-wide parameters; their only premise besides the scenario is that user discovery tries registered keys only; ciphers are arbitrary functions, so the copy is refused whether or not it decrypts",
    "the replay scenarios on the real server are run by the C05 driver in replay mode (harness/cmd/c05 -mode replay, oracle only): recorded genuine sessions of both users on simnet under virtual time, replayed on new TCP connections (whole client-to-server stream, every prefix at a segment boundary, first segment alone, header alone, header+1, first segment minus one byte) and as UDP datagrams from another source address (first datagram, all datagrams), at +0/+30/+119/+239 s inside the cache's retention and +400 s (+800 s thorough) after it, with the original still open or already closed, each time concurrently with a fresh genuine client; zero bytes/datagrams to the replayer, no accepted session, genuine transfers intact, and the cache must still hold the signature inside 360 s",
    "management reloads: Mux.SetServerUsers (the body of the Reload RPC) is modelled as set_users on the server state (users generation, replay cache) and leaves the cache untouched (C06_reload_leaves_cache_untouched); the no-miss and replay-rejected theorems are restated over histories interleaved with reloads, discovery reading the generation current at that moment (C06_replay_no_miss_across_reload, C06_replay_rejected_across_reload_tcp/_udp). The c06 driver drives the two process-wide cache objects themselves with traffic interleaved with real SetServerUsers calls (users unchanged / added / removed / victim's quota changed / another password changed / repeated) and compares state and answers with the model after every step; the c05 replay mode reloads the live server between recording and replay (before the replays of every offset of even recordings, at +30 s and +239 s of odd ones)",
    "fixed nonce prefixes: before anything is replayed the c05 replay mode runs three fresh genuine clients per NONCE_TYPE_FIXED prefix length (0..12 bytes) and requires all to be served with the new-session replay counters unchanged; the c06 driver presents about 400 patterned 16-byte inputs (shared prefixes of 0..16 bytes, single-bit and single-position neighbours) that must all be told apart",
    "UDP replays from the SAME source address are outside the property (documented retransmission allowance of the tag rule); the driver reports what happens in report.json notes",
    "exhaustive enumerations are up to renaming of signatures and of non-empty tags (the cache treats them symmetrically: map keys and string equality)",
]


def _parts(ctx, caps):
    res = []
    for cap in caps:
        res.append(run_pair(ctx, "c06", PID, MODEL_VOS, faketime=True, subdir="c06_cap%s" % cap.replace(",", "_"), tier="thorough",
                            extra_args=("-part", cap)))
    return res


def _e2e(ctx):
    # end-to-end replay scenarios: the C05 driver in replay mode (oracle only; failure sigs start with "replay-")
    return run_pair(ctx, "c05", PID, None, faketime=True, extra_args=["-mode", "replay"], subdir="c05replay")


def run(ctx):
    res = [run_pair(ctx, "c06", PID, MODEL_VOS, faketime=True), _e2e(ctx)]
    if ctx.tier == "thorough":
        res += _parts(ctx, ["1,2", "3,4"])
    return res


def search(ctx):
    res = [run_pair(ctx, "c06", PID, None, faketime=True, tier="thorough", seed=ctx.seed + 1000 + i, subdir="search%d" % i) for i in range(2)]
    return res

MANIFEST = dict(
    text="Theorems over the Replay model (two generations signature->tag, rotation by size and by time, expiry of both, tag rule) proved for all histories: a duplicate is reported only for a signature presented before; a signature accepted at t0 is answered by exactly the tag rule against its original tag at every t1 < t0 + interval after fewer than capacity other distinct signatures; retention 3 x KeyRefreshInterval covers the usable life of a key slot and of the timestamp. Constants of the two process-wide caches regenerated from /repo; the real ReplayCache is run under faketime on enumerated and generated histories, every result and state compared with the extracted model and judged against an ideal set. End to end: two theorems state that the server front-door model on this cache refuses a byte-exact copy of an accepted first segment (TCP: whole stream, any prefix containing the header, first segment alone; UDP: from another source address) inside the bounds with no output and no session whether or not it decrypts; the real server on an in-memory network under virtual time is attacked with replays of recorded sessions on both transports across and after the validity window, with management reloads of the user table between recording and replay; the same theorems are proved over histories interleaved with reloads (a reload replaces the users generation and leaves the cache untouched), and fresh genuine clients with fixed nonce prefixes of 0..12 bytes must never be taken for replays.",
    note="Signatures are treated as the identity of the hashed bytes (FNV-64a collisions outside the model). The pinned code let a replayer take over the stored tag of an entry (refutation theorem + witness kept in the corpus); fixed by fixes/C06-replay-tag-overwrite.diff.",
    technique="Coq proof (two-phase invariant over histories; front-door model instantiated with the concrete cache) + differential run of the extracted model against pkg/replay under Go faketime + replay attacks on the real server on simnet (C05 driver, replay mode)",
)
