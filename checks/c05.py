"""C05: without a credential the server stays silent and creates nothing (DESIGN.md 7/C05)."""
from vlib import run_pair

PID = "C05"
MODEL_VOS = ["model/ServerFront.vo", "model/UserTable.vo"]
ASSUMPTIONS = [
    'reflected server datagrams (datagrams the server itself emitted to a genuine client whose session is closed and cleaned, half of them lost on the way so that no replay record of the process knows them, sent to the server port from fresh addresses) are judged by the property text only (no datagram back, no session): the ServerFront model has no server-to-client segment types, so these probes are not part of the correspondence',
    "INT-CTXT of the AEAD is a hypothesis of every theorem (open_forged_none): a 72-byte header that no holder of a registered key produced opens under no registered key; 'holds no credential' means the first 72 bytes sent are not such a header",
    "user discovery: in the base theorems the candidate order is an arbitrary function with the premise cands_registered (only registered keys are tried); in C05_silent_tcp_discover / C05_silent_udp_discover / C05_attribution that premise is PROVED: the front door is instantiated with the discovery model of C07 (model/Discover.v try_state over one published generation of users, arbitrary hint function, arbitrary source-cache content, hint-mandatory switch), leaving INT-CTXT as the only cryptographic premise (plus, on UDP, the state invariant that existing sessions belong to registered users, which every step preserves)",
    "management events: which credentials are registered is a function of what the operator publishes (model/UserTable.v: compile_users = the admission rule, order and ids of buildState/buildCredential; published = the LAST list handed to SetUsers decides, the empty list included); C05_silent_after_reload(_udp) restate the silent-server theorems over every start list and reload history under key separation of the AEAD (a header sealed under one key opens under no other); C05_admission_rule / C05_no_secret_no_credential / C05_duplicate_names_not_registered say that only entries with a secret become credentials. Tied to the code by the driver: after every SetServerUsers (reload histories and malformed configurations, both transports) the real registry's compiled table is compared with compile_users of the last list, and handshakes sealed with removed, never-registered, name-derived and skipped-entry credentials must meet silence",
    "outside the theorems and only reported (report.json notes removed-user-live-association/*): a user removed while it has a live TCP connection / UDP session - existing ciphers are not re-checked against the registry, so the removed user can still open NEW sessions over that underlay; the UDP theorem states this as its premise on existing sessions, the TCP theorems speak of a fresh connection",
    "C05_attribution links C05 to C07: a created session's cipher is that of the user try_state attributes the header to (registered, key opens the header, hint-matching when hints are mandatory or when some hint-matching registered user's key opens it); one user generation per statement (reloads are C07's discover_loop theorems)",
    "non-interference on UDP assumes a replay cache without false positives (proved for pkg/replay in props/C06.v) and that the first 16 bytes of a genuine datagram are never presented from another source address (a copy from elsewhere is a replay: C06)",
    "the model covers the first segment of a TCP connection and every datagram at the UDP socket; what a created session does afterwards is C01/C02; the length and timing of the randomised drain (reads only) are not modelled",
    "the correspondence compares coarse observables (bytes or datagrams to the peer yes/no, sessions created, sessions accepted) predicted by the extracted model on a toy cipher from the probe's attributes (length, header complete, opens, timestamp, replay-cache hit) with the real server on simnet under virtual time",
]


def run(ctx):
    return [run_pair(ctx, "c05", PID, MODEL_VOS, faketime=True, extra_args=["-mode", "probe"], timeout=1500)]


def search(ctx):
    return [run_pair(ctx, "c05", PID, None, faketime=True, extra_args=["-mode", "probe"], tier="thorough",
                     seed=ctx.seed + 1000 + i, subdir="search%d" % i, timeout=1500) for i in range(1)]


MANIFEST = dict(
    text="Theorems over a model of the server's front door (first TCP segment: ReadFull of 72 bytes, replay cache, user discovery, receive/send cipher, validateNewServerSessionSegment; every UDP datagram: length test, replay cache with the source address as tag, existing-session ciphers, discovery, unknown-session close request) proved for all byte strings, datagram histories, replay-cache answers and ciphers under the INT-CTXT hypothesis; the premise that discovery only tries registered keys is discharged by instantiating the front door with the user-discovery model of C07 (tryState), which also yields the attribution of a created session to a registered, authenticating, hint-preferred user; the registered set itself is modelled as a function of the operator's reload history and of the admission rule for user entries (only an entry with a secret becomes a credential; the last published list decides), with the silent-server theorems restated over all histories and the real registry compared with the model after every publication; constants regenerated from /repo; a real server on an in-memory network under virtual time is probed with every prefix and every single-bit flip of captured genuine headers, random strings and well-formed foreign-credential handshakes next to a genuine client, each case judged against the property text and against the extracted model.",
    note="INT-CTXT of XChaCha20-Poly1305 is assumed (visible hypothesis). The driver observes the simulated network's event log, Accept and ExportSessionInfoList; the drain's timing is not modelled.",
    technique="Coq proof (case analysis / induction over histories, abstract AEAD and replay cache as section hypotheses) + probing of the real server on simnet under faketime with the extracted model as predictor",
)
