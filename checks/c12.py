"""C12: loopback and private destinations are refused unless the user is allowed (DESIGN.md 7/C12)."""
from vlib import run_pair

PID = "C12"
MODEL_VOS = ["model/Egress.vo"]
ASSUMPTIONS = [
    "the model describes /repo with fixes/C12-findaction-local-forms.diff, fixes/C12-udp-relay.diff and (when the regenerated probe C12_fixDomainLiteral is 1; obligation C12_tree_fixed) fixes/C12-domain-literal.diff applied",
    "the reading of a domain string as an IP literal by Go's resolver and dialer (netip.ParseAddr, zone dropped, IPv4-mapped unmapped) is a parameter lit of the model: theorems hold for every lit that gives no literal for the empty string and the well-known names and only byte values; the driver supplies the real reading with every case (L lines) and the end-to-end run observes what the resolver and dialer really do with such strings",
    "premise, not modelled: the OS delivers connections / datagrams addressed to loopback, private and unspecified addresses, the empty host and the well-known local names to the local host or private network; other names are resolved by the resolver and the resolved address is not judged again (as in the code, for user privacy)",
    "egress rules enter the model parsed (net.ParseCIDR and IPNet.Contains are compared with cidr_contains on every case); the random choice among several proxy names of a PROXY rule is an oracle index (the runner accepts any index in range)",
    "a UDP ASSOCIATE request naming the unspecified address is deliberately not rejected (RFC 1928); theorem C12_assoc_unspecified_refuted, finding sig udp-associate-request-unspecified-address-accepted; datagrams to the unspecified address are dropped",
    "end-to-end observation uses the sandbox's addresses 127.0.0.1, ::1, fd00::2 (private) and 192.0.2.2 (public stand-in); datagram-mode relay (UDPAssociateModeDatagram) is covered by the model and the shared filter, not by an end-to-end run",
]


def run(ctx):
    return [run_pair(ctx, "c12", PID, MODEL_VOS)]


def search(ctx):
    return [run_pair(ctx, "c12", PID, None, tier="thorough", seed=ctx.seed + 1000 + i, subdir="search%d" % i) for i in range(2)]

MANIFEST = dict(
    text="Theorems over the Egress model (SOCKS5 request and UDP datagram parsing, Go's net.IP loopback/private/unspecified tests on 4-byte, IPv4-mapped and native 16-byte forms, well-known names compared in lower case, the user/flag rule, first-match rule list with CIDR and suffix matching, the per-datagram filter of the UDP relay) proved for all requests, users, rule lists and datagram sequences against numeric definitions of the property's address sets; constants and names regenerated from /repo; FindAction compared with the model on boundary addresses x all letter-case patterns x commands x users x rule lists, and the real server run over a pipe with listeners on loopback, a private and a public address.",
    note="The OS's delivery of loopback/private/unspecified/empty/named destinations to the local host is a premise. CIDR text parsing is outside the model (compared by the run). UDP ASSOCIATE requests naming the unspecified address are accepted on purpose (RFC 1928); datagrams to it are dropped.",
    technique="Coq proof (case analysis on byte forms, lia on numeric ranges, finite byte lemmas by vm_compute) + differential run of the extracted model against pkg/socks5 + end-to-end run of the real server",
)
