"""C10: no input from the network can crash the process; a misbehaving peer loses at most its own session (DESIGN.md 7/C10)."""
from vlib import run_pair

PID = "C10"
MODEL_VOS = ["model/Dispatch.vo"]
ASSUMPTIONS = [
    "configuration-dependent crash: driver e2e (-prop C10) gives every user record that passes validation (quota windows around and far beyond the time.Duration limit) registered counters and runs the quota check of an open-session request under recover() (oracle only)",
    "cryptography is abstract: which registered credential opens the metadata box and whether the payload box opens are inputs of the model (INT-CTXT makes 'no credential' the only other case)",
    "registered user names are non-empty (serveruser registry) - in the model discovery never returns the empty name",
    "queue contents, quota counters and network writes are oracle inputs (env); the theorems quantify over all their values, the driver runs with all of them true",
    "one event-loop iteration plus the session goroutine's handling of the delivered segment is one atomic step; cleanSessions (ticker driven removal of closed sessions) is not part of the step function, probes that depend on it are compared as acceptors (X lines)",
    "crash freedom of Go code outside the modelled dispatch (nil dereferences, slices in unmodelled paths) is exercised by generation in child processes and under recover, not proved",
]


def run(ctx):
    return [run_pair(ctx, "c10", PID, MODEL_VOS, faketime=True),
            run_pair(ctx, "e2e", PID, None, faketime=True, extra_args=["-prop", "C10"], subdir="e2e")]


def search(ctx):
    return [run_pair(ctx, "c10", PID, None, faketime=True, tier="thorough", seed=ctx.seed + 1000, subdir="search0", timeout=1700)]


MANIFEST = dict(
    text="Theorems over the Dispatch model (readOneSegment of both transports with typed errors, RunEventLoop dispatch, Session.input with its identity assertions, segmentTree.Insert guards; every Go panic site on these paths is a distinct outcome) proved for all input histories, both roles and transports; the cross-user panic of the pinned UDP server is a refuted-theorem witness and is repaired by fixes/C10-cross-user-session-id.diff; constants regenerated from /repo; real server and client Muxes run in child processes against a hostile refcodec peer with a valid credential and the observed outcome class of every hostile segment is compared with the model's; SOCKS5 parsers compared with their models and fuzzed under recover.",
    note="Crash freedom of all Go code is not proved: the proof covers the modelled dispatch; the rest is generation (child process exit status, recover). Session queues, quotas and writes are oracle inputs.",
    technique="Coq proof (invariant over the step relation of the dispatch model) + outcome-class correspondence run of the extracted model against real endpoints in child processes + parser fuzz",
)
