"""C18: UDP-associate tunnelling preserves datagram boundaries, contents and addressing (DESIGN.md 7/C18)."""
from vlib import run_pair

PID = "C18"
MODEL_VOS = ["model/Frame.vo", "model/Socks5Udp.vo"]
ASSUMPTIONS = [
    "io.ReadFull / bytes.Reader / bytes.Buffer are modelled by their documentation (exactly n bytes, or io.EOF when none, or io.ErrUnexpectedEOF when some)",
    "net.IP.To4 / To16 / String are modelled by their documentation (a ::ffff:a.b.c.d 16-byte address is the 4-byte address); IPv6 zones are outside the model",
    "the DNS answer for a domain-name destination is an oracle input of the relay model (any answer, or failure)",
    "each datagram handled by one of the two goroutines of RunUDPAssociateLoop is one atomic step (the header memo is a sync.Map); histories are arbitrary interleavings of Up/Down steps",
    "the reader model describes successive Read calls with one fixed buffer size; the callers' loops (RunUDPAssociateLoop, RunUDPForwardingLoop, BidiCopyUDP) stop at the first error, which is what read_loop models",
    "frame markers, the width of the length field, the maximum length and the '<= 6' tests are literals in the Go source: they are measured on the compiled code by harness/cmd/dumpconsts and enter the model as constants",
    "the API wrapper is modelled WITH fixes/C18-wrapper-empty-payload.diff applied",
    "the relay model is the exported entry point RunUDPAssociateLoop (no egress filter); the per-datagram egress filter added for C12 drops a rejected datagram before resolution, the same observable as ODrop, and is not modelled here",
    "stream bytes are < 256 (hypothesis bytes_ok of C18_read_loop_sound; the other theorems do not need it)",
]


def run(ctx):
    return [run_pair(ctx, "c18", PID, MODEL_VOS)]


def search(ctx):
    return [run_pair(ctx, "c18", PID, None, tier="thorough", seed=ctx.seed + 1000 + i, subdir="search%d" % i) for i in range(2)]

MANIFEST = dict(
    text="Theorems over executable models of PacketOverStreamTunnel (byte-at-a-time reader state machine with the caller's buffer size, writer with its length limit), of the SOCKS5 UDP header build/parse functions, of the relay loop with its per-destination header memo and of the API wrapper: round trip for every datagram list and every chunking (chunking independence is the theorem feed (a ++ b) = feed a then b), every kind of framing violation reported as the loop's error after exactly the good datagrams, header round trip for IPv4/IPv6/domain, destination = header address, reply header designates the sender. Constants measured on the compiled code; the extracted model is compared with the real code on boundary corpora, generated sequences under five chunkers, malformed streams, header mutations and one real association over loopback sockets; every case is also judged against the property text.",
    note="Assumes the documented behaviour of io.ReadFull, bytes.Reader and net.IP; DNS answers are oracle inputs; IPv6 zones not modelled; the wrapper is modelled with the empty-payload fix applied. After an error the tunnel object itself keeps no state (a further Read would parse from the current position): the model states this exactly (run_raw) and the theorems are about the callers' loop, which stops at the first error.",
    technique="Coq proof (induction over frames / histories, lia over N) + differential run of the extracted model against apis/common and pkg/socks5",
)
