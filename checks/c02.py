"""C02: UDP transport reliable, ordered, exactly-once over a faulty network; progress (DESIGN.md 7/C02)."""
from vlib import run_pair

PID = "C02"
MODEL_VOS = ["model/UdpProto.vo"]
ASSUMPTIONS = [
    "safety (exactly-once, in order) is proved for every reachable state of the UdpProto transition system, i.e. all schedules and all loss/duplication/delay/reordering sequences; the tie to the Go code is the trace-acceptance run (every recorded session of the real endpoints must be accepted by the extracted acceptor, whose soundness accept_* is proved)",
    "liveness is partial: proved are enabledness of a transmission of the awaited segment (retransmission regardless of windows; first transmission if the send window is open), that its delivery advances the receiver, and the ranking lemma under the explicit fairness hypothesis fair_run (txCountLimit+1): fewer than txCountLimit consecutive transmissions of one segment are all lost. NOT proved: that retransmission timers/back-off fire, that acks/heartbeats reopen a closed window, CUBIC/RTT arithmetic, ack-path fairness; these are exercised by the driver's oracle under k-fair fault schedules in virtual time",
    "one mutex-protected output of a segment is one atomic step; sequence numbers are modelled unbounded (a session would need 2^32 segments to wrap)",
    "sessions are not closed while data is in flight except in the close-race family, which is judged on safety only (graceful-close truncation under loss is property C03); after the first Close only emissions are recorded",
    "window reopening: C02_window_reopen_enabled / C02_progress_by_ack remove the window hypothesis under the explicit assumption that an ack of the receiver is delivered; that the heartbeat timer fires is exercised by the exact-window-closure family (stall oracle), not proved",
    "application Write is recorded when it is called (not when it returns), so 'written' means handed to Write",
    "fix fixes/C02-server-write-before-open-response.diff is applied to /repo's working tree: before it, a server application writing >= 16 fragments right after Accept could get sequence numbers ahead of the open session response and the fault-free session was abandoned after txCountLimit retransmissions (oracle sig server-write-overtakes-open-response); the witness family runs on every check (-serverfirst 12)",
]


def run(ctx):
    return [run_pair(ctx, "c02", PID, MODEL_VOS, faketime=True, extra_args=["-prop", "C02", "-serverfirst", "12"], timeout=1700)]


def search(ctx):
    return [run_pair(ctx, "c02", PID, None, faketime=True, extra_args=["-prop", "C02", "-serverfirst", "12"], tier="quick", seed=ctx.seed + 1000 + i,
                     subdir="search%d" % i, timeout=1700) for i in range(2)]

MANIFEST = dict(
    text="Sliding-window transition system of mieru's UDP session layer (Write, SendNew, Retx, RecvData of ANY datagram ever sent any number of times in any order, Move, SendAck, RecvAck, AppRead) with an invariant preserved by every step: bytes read are a prefix of bytes written (equal on completion), reads are never revoked; progress: a transmission of the awaited segment is always enabled and its delivery advances the receiver; ranking lemma under explicit k-fairness. An executable acceptor over recorded traces (W/S/R/A events of both endpoints) is proved sound (accepted trace => read bytes prefix/equal of written bytes per direction) and to refine the transition system (every accepted trace is, per direction, a reachable LTS state with the trace's bindings, receiver and read positions, datagrams and acks), and is run on the traces of real client/server Mux pairs over a simulated UDP network under virtual time with scripted single faults (exhaustive over every position of a short session), sustained loss 1-40% with duplication/reordering, MTU 1280-1500, low-entropy patterns, multiplexed sessions, both directions, slow readers; an independent Go oracle checks bytes equal, completion within a virtual-time budget and no abandonment.",
    note="Liveness is partial (timers, window reopening, congestion arithmetic are exercised, not proved); fairness hypothesis explicit. Trusts refcodec (independent decoder written from docs/protocol.md) for attributing datagrams to sessions.",
    technique="Coq proof of an LTS invariant + proved-sound executable trace acceptor extracted to OCaml and run on faulty-network traces of the real endpoints; Go oracle",
)
