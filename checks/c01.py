"""C01: TCP transport - every byte delivered exactly once, in order, to the right session (DESIGN.md 7/C01)."""
from vlib import run_pair

PID = "C01"
MODEL_VOS = ["model/TcpStream.vo", "model/LowEntropy.vo", "model/Wire.vo", "model/TcpStreamWire.vo"]
ASSUMPTIONS = [
    "AEAD correctness (open n (seal n p) = Some p, |seal n p| = |p| + 16) is a premise of the round-trip and integrity theorems; INT-CTXT (only boxes sealed by the sender open, under their own nonce) is a premise of the tamper theorem only",
    "the byte layout of the metadata and the low entropy codec enter the general theorems as functions with a round-trip premise; the correspondence run executes the concrete meta_parse_c and the LowEntropy model on real bytes",
    "goroutine scheduling is abstracted to: writeOneSegment is atomic per connection (sendMutex), a session's segments leave in seq order (oLock + seq-ordered sendQueue); the theorem quantifies over all interleavings of whole segments, all chunkings and all arrival/read schedules",
    "sequence numbers are unbounded in the model (a session would have to send 2^32 segments to wrap); the 24 byte nonce counter is incremented exactly as increaseNonce does (with wrap)",
    "a segment is accepted only if parsed within +-1 minute of its stamping; the driver records the receiver's clock per segment",
    "the driver runs under Go's faketime runtime; garbage collection is restricted to the gaps between scenarios (a Go 1.23 faketime/GC deadlock was observed otherwise)",
]


def run(ctx):
    return [run_pair(ctx, "c01", PID, MODEL_VOS, faketime=True, timeout=1400)]


def search(ctx):
    return [run_pair(ctx, "c01", PID, None, faketime=True, tier="quick", seed=ctx.seed + 1000 + i, subdir="search%d" % i, timeout=900) for i in range(2)]


MANIFEST = dict(
    text="Machine-checked theorems over an executable model of mieru's TCP transport (segment layout with implicit counter nonce, incremental io.ReadFull receiver, Session.Write planning, dispatch by session id, seq-ordered receive queue, Session.Read with unreadBuf): chunking independence, round trip, write planning, and the end-to-end integrity statement for all session families, interleavings, chunkings and read-size sequences; plus the tamper lemma used by C04. The extracted receiver runs on the real bytes of recorded connections (AEAD replaced by the table of the connection's real boxes), the planner and the reader on recorded write/read histories; every scenario is also judged directly (bytes read == bytes written, per session).",
    note="AEAD and the metadata/low-entropy codecs are premises of the general theorems; goroutine scheduling is abstracted to segment interleavings and arrival/read schedules; runs use Go's faketime runtime with GC between scenarios only.",
    technique="Coq proof (structural induction over the stream parser, prefix-stability of the parser for chunking independence, interleaving projection, queue and read invariants) + trace-acceptance run of the extracted model against real client/server Mux pairs on a simulated TCP network with adversarial chunkers",
)
