"""C16 (configuration/generation half): explicit traffic-pattern settings are never overridden, implicit ones are a
deterministic function of seed and unlockAll and always validate (DESIGN.md 7/C16)."""
from vlib import run_pair

PID = "C16"
MODEL_VOS = ["model/TrafficPattern.vo"]
ASSUMPTIONS = [
    "two-client scenarios of driver e2e (clients with low entropy on and off, different users and source addresses, one server endpoint, three orders, both transports) judge 'low entropy only toward a client that used it first' per client address; server_le_only_after_client of the model is per session (C16_server_le_only_after_client) - that the code keeps the mark per session and not per underlay is tied by these scenarios only",
    "on-the-wire half: driver e2e (-prop C16) runs real client and server Muxes over simnet with explicit patterns on each side and checks on every decoded segment: paddings <= configured maxima (0 = none), nonce prefix class/length/fixed prefix (every UDP packet when applyToAllUDPPacket), low-entropy types only when configured with the configured mode and rotation, server low entropy only after the client used it (oracle only)",
    "UDP server under adversarial histories: driver c16wire runs a real server Mux with an explicit nonce pattern and plays the client with refcodec on many sockets (NAT rebinding to a new port / IP and back, data / ack / close for unknown session ids, data after close, duplicate open requests from one and two addresses, two users interleaved and swapping sockets, open+data bursts); EVERY datagram the server emits is judged against the pattern (all of them when applyToAllUDPPacket=true, the first per client address when explicitly false); oracle only - the model side is C16_udp_pattern_independent_of_block_origin",
    "an explicit seed (0, +-1, int32 extremes included) decides the implicit values alone: every explicit-seed input of a sample of the subset grid is evaluated in a fresh process under ANOTHER host name (unshare -u; hostname) and must give the same effective pattern; an explicit seed must not give the values of an unset seed (skipped with a note if the sandbox forbids unshare)",
    "rng.FixedInt(n, hint) is an oracle with only 0 <= v < n assumed in the theorems; the driver obtains the values from the real function with the same (n, \"<seed>:<field>\") arguments, checks range and stability on every draw and hands them to the model runner",
    "contract of rng.FixedInt tested by the driver (docs: same seed and unlockAll => implicit patterns do not change; rng.go: same hint => same value, the cache only accelerates): a pure function of (n, hint) = 31 bits of sha256(hint) mod n, independent of earlier calls; checked on every oracle-table draw (same hint asked with 16 different n, ascending or descending), by evaluating inputs that share hints (unlockAll true/false, explicit/implicit minLen or maxLen) alone and in both orders in fresh child processes and in-process, and by re-evaluating a sample of cases in a fresh process each",
    "math/rand draws (nonce rewrite length, choice among several fixed prefixes) are not observable: the runner accepts a set of observed lengths iff every one is explained by some draw in range",
    "bounds that are literals inside config.go functions (ranges of generated values, validation limits) are recovered behaviourally by dumpconsts (largest accepted value; extreme generated values over seeds 0..4095, measured in a fresh child process per unlockAll value so that they do not depend on evaluation history) and enter the proofs as regenerated constants",
    "TCP fragmentation (writeWithPossibleFragment): int(math.Sqrt(float64(n))) is modelled by Z.sqrt; agreement is tested for every n in 0..70000 (a stream write is < 66.3 kB) and at k*k-1, k*k, k*k+1 up to 2^31 (Q cases); the math/rand draws are an oracle list and the runner accepts the recorded conn.Write sizes iff some draws explain them; sleep durations are not observed (only: no measurable sleep when none is configured) - their range is a theorem about the model's frag_sleep",
    "int32 fields are modelled as unbounded Z (every value the driver uses is an int32); enum fields as Z",
    "Encode/Decode round trip is a property of google.golang.org/protobuf and encoding/base64: tested on every valid case, not proved",
    "besides the e2e wire driver, the functions that derive wire behaviour from a pattern (nonceRewriteLen, newNonce apply rule, maxPaddingSizeWithTrafficPattern, lowEntropySendConfig) are compared with the model through hooks",
]


def run(ctx):
    return [run_pair(ctx, "c16", PID, MODEL_VOS),
            run_pair(ctx, "e2e", PID, None, faketime=True, extra_args=["-prop", "C16"], subdir="e2e"),
            run_pair(ctx, "c16wire", PID, None, faketime=True, subdir="c16wire")]


def search(ctx):
    return [run_pair(ctx, "c16", PID, None, tier="thorough", seed=ctx.seed + 1000 + i, subdir="search%d" % i) for i in range(2)]


MANIFEST = dict(
    text="Theorems over the TrafficPattern model (option-record of the protobuf message, Validate, implicit generation with rng.FixedInt as an oracle, nonce rewrite length and apply rule, padding maxima, low-entropy send decision) proved for all messages, seeds, unlockAll and oracle values in range; constants and literal bounds regenerated from /repo; the extracted model is compared with apis/trafficpattern, pkg/cipher and pkg/protocol on every subset of explicit fields x boundary values x seeds x unlockAll plus a malformed stream, and every case is also judged against the property text.",
    note="Configuration/generation half of C16. rng.FixedInt and math/rand are oracles with only their range assumed (range checked on every observed draw). Encode/Decode round trip tested, not proved. The defect found (implicit nonce minLen above an explicit maxLen makes the effective pattern invalid) is repaired by fixes/C16-implicit-minlen-above-explicit-maxlen.diff; the model describes the fixed code and keeps the unfixed variant for the refutation theorem.",
    technique="Coq proof (lia, case analysis over option records) of generation/validation theorems + differential run of the extracted model against apis/trafficpattern, pkg/cipher, pkg/protocol",
)
