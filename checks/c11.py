"""C11: with SOCKS5 credentials configured, nothing is proxied without them (DESIGN.md 7/C11)."""
from vlib import run_pair

PID = "C11"
MODEL_VOS = ["model/Socks5Auth.vo"]
ASSUMPTIONS = [
    "the client's bytes are a finite stream read with io.ReadFull semantics (exactly n bytes or the stream ended); read deadlines and write errors of the connection are not modelled (a write error only ends the negotiation earlier)",
    "the model describes pkg/socks5/auth.go with fixes/C11-noauth-preferred-over-credentials.diff applied (legacy = false); the pinned tree's rule is the legacy = true variant, refuted by C11_legacy_refuted",
    "ServeConn is modelled up to the point where the next stage (ProxyDialer.DialContext / readRequest / relay) starts; the request parser itself belongs to C12/C18",
    "placements with UseProxy <> ClientSideAuthentication do not authenticate at this listener (C11_delegated_placements); the mieru client always builds UseProxy = ClientSideAuthentication = true (pkg/cli/client.go)",
]


def run(ctx):
    return [run_pair(ctx, "c11", PID, MODEL_VOS)]


def search(ctx):
    return [run_pair(ctx, "c11", PID, None, tier="thorough", seed=ctx.seed + 1000 + i, subdir="search%d" % i) for i in range(2)]

MANIFEST = dict(
    text="Theorems over the Socks5Auth model (byte-level parser of the RFC 1928 greeting and the RFC 1929 sub-negotiation with io.ReadFull semantics, method selection, credential comparison, and the placement of authentication in ServeConn) proved for every byte stream and every credential list; constants regenerated from /repo; the extracted model is compared with the real handleAuthentication and ServeConn on in-memory connections (all method lists over {00,01,02,80,FF} up to length 4, lengths 0 and 255, credential and truncation grids, and a pair-encoding grid: all splits of user+separator+password for every configured pair and the separators none : 00 / space newline =, case and trimming variants, empty fields), and every case is judged against the property text.",
    note="Assumes io.ReadFull semantics on a finite client stream; deadlines and write errors are not modelled. The model is the code with fixes/C11-noauth-preferred-over-credentials.diff applied; the unfixed rule is kept as the refuted legacy variant.",
    technique="Coq proof (structural case analysis over the parser, list lemmas) + exhaustive/differential run of the extracted model against pkg/socks5",
)
