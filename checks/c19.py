"""C19: traffic accounting conserved; quotas bind exactly the user who exceeded them (DESIGN.md 7/C19)."""
from vlib import run_pair

PID = "C19"
MODEL_VOS = ["model/Counter.vo", "model/Quota.vo"]
ASSUMPTIONS = [
    "end-to-end half: driver e2e (-prop C19) runs a real server with users with and without quotas on simnet (both transports, virtual time): sessions below / crossing / above the allowance, other users unaffected, nothing handed to the server application on a refused session, per-user upload/download counters equal the bytes the server application really read and wrote (oracle only)",
    "int64 values and deltas are modelled as unbounded integers (a counter would have to pass 2^63 bytes to wrap); the uint64 operation counter wraps explicitly",
    "instants lie after Go's zero time, where time.Truncate is a floor to a multiple of the granularity counted from year 1 (compared on every roll-up case, also with odd granularities)",
    "one roll-up reads one clock value: the driver runs under Go's faketime runtime, where time.Since inside doRollUp and time.Now inside checkQuota return the virtual instant written on the case line",
    "a mutex-protected method of metrics.Counter is one atomic step of the model",
    "quota windows are stated for 0 < days <= 106751 (no int64 overflow of days*24h); beyond that DeltaBetween panics or the window is wrong, which the model reproduces (QPanic) and the run compares but the property does not claim",
    "the end-to-end part of the property (sessions refused with the quota status, every byte counted once) is observed by the network-simulator scenarios, not by this driver",
]


def run(ctx):
    return [run_pair(ctx, "c19", PID, MODEL_VOS, faketime=True),
            run_pair(ctx, "e2e", PID, None, faketime=True, extra_args=["-prop", "C19"], subdir="e2e")]


def search(ctx):
    return [run_pair(ctx, "c19", PID, None, faketime=True, tier="thorough", seed=ctx.seed + 1000 + i, subdir="search%d" % i) for i in range(2)]


MANIFEST = dict(
    text="Theorems over an executable model of metrics.Counter (history of (ms, delta, label) entries, addWithTime, the eight doRollUp passes with their thresholds and Truncate granularities, the two binary searches of DeltaBetween, dump/load) and of Session.checkQuota, proved for all histories, all clock values and all operation counts: roll-up preserves the total, preserves time order on every history the counter can build, no window exceeds the total, value = history sum is invariant, a session is refused iff some quota's window sum in whole MiB exceeds its megabytes, and the decision for a user is a function of that user's policy and counters only. Constants are regenerated from /repo; the extracted model is run against the real code under virtual time on generated operation histories and on a byte-exact quota boundary grid, and every state is also judged against the property text.",
    note="Assumes values below 2^63, instants after year 1, one clock reading per roll-up (faketime), quota days <= 106751; literals 1048576 and 24 of checkQuota are tied by the boundary grid only. Refusal is in whole MiB as the code computes it (traffic up to 1 MiB - 1 byte above the allowance is still admitted). End-to-end refusal status and per-byte accounting on sessions are left to the network-simulator scenarios.",
    technique="Coq proof (induction over histories, lia with div/mod, divisibility of the granularities) + differential run of the extracted model against pkg/metrics and pkg/protocol under Go's faketime runtime",
)
