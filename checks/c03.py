"""C03: graceful close never turns a partial transfer into a clean end-of-stream (DESIGN.md 7/C03)."""
from vlib import run_pair

PID = "C03"
MODEL_VOS = ["model/CloseProto.vo"]
ASSUMPTIONS = [
    "send-queue reservation: q_step/q_run model only the NUMBER of queued segments (capacity segmentTreeCapacity from Consts.v; a Write of n fragments is admitted iff Remaining() > n, otherwise it waits; drains are arbitrary); C03_close_request_always_queued says the close request of a graceful Close can always be inserted. The admission comparison itself is not translated from the source (it reads sendQueue.Remaining(), a method of another object): it is tied by the driver's sender-backlog scenarios (32 KiB writes over a bandwidth-limited UDP path, hook VerifC03SendQueueRemaining: a successful Write must never leave Remaining() = 0; if it does the closer closes at that instant and the outcome is judged)",
    "one direction of one session is modelled; a sequenced segment is its sequence number (payload bytes are C01/C02's matter); 'read all of w' = read segments 0..n-1 in order",
    "which Go statements form one step is a modelling decision (Read = test, then select; a TCP drain holds oLock from start to end; inputClose up to close(closedChan) is one step because the input loop is inside it)",
    "the UDP receive window (4096 segments) and the retransmission timers/limits are not modelled: retransmission is a nondeterministic step, so every timing is covered, but 'too many retransmissions' is not",
    "C03_tcp_drained_partial / C03_udp_lossless_partial carry the hypotheses gap = false and ooo = false (ghost flags of the model: the close request was acted upon when every lower-numbered segment had arrived in order); that a TCP stream whose queue was not discarded always satisfies them is argued in the report, not proved",
    "the delivery-time transitions apply recv_input when a segment is delivered; that the code's hand-off through the bounded channel recvChan (blocking send, FIFO, close requests included) gives the same order for every capacity and interleaving is C03_handoff_in_order; the capacities themselves (recvChan 256, recvQueue 4096) are exercised by the receiver-backlog scenarios of the driver, not modelled",
    "TCP lock discipline: OStart/ODeq/OOut make 'in flight inside output()' explicit; the underlay's sendMutex is the side condition 'nothing in flight' of the fallback step; a write stall is OOut not being scheduled; the starved schedule of C03_backpressure_tcp_starved_refuted (no OStart/ODeq during the whole wait) remains a limit of the model on the code as it is and is never produced by the driver",
    "the Read race (c) needs a goroutine to be descheduled for more than 1 ms between two adjacent statements; it is shown in the model and by an injected pause, not by the driver on the unmodified tree",
    "scenarios run under Go's faketime runtime; the close-wait literals (1000 x 1 ms) are read from the syntax tree of session.go and compared with the wait measured on the compiled code",
]


def run(ctx):
    return [run_pair(ctx, "c03", PID, MODEL_VOS, faketime=True, timeout=2400)]


def search(ctx):
    return [run_pair(ctx, "c03", PID, None, faketime=True, tier="quick", seed=ctx.seed + 1000 + i, subdir="search%d" % i, timeout=2400) for i in range(2)]

MANIFEST = dict(
    text="Labelled transition system of one direction of one session with close (closeWithError, output loops, network, input, two-step Read) for TCP and UDP; refutation witnesses checked by vm_compute; an invariant proof over all schedules that EOF implies completeness when the close request was acted upon in order; a real client/server Mux pair on an in-memory network under virtual time runs write-n/close/read-to-EOF scenarios with every single-fault position, sustained loss, bounded/slow pipes and stalled readers; every scenario is judged against the property text and its abstract schedule is replayed on the extracted model.",
    note="Known findings (UDP): data unacknowledged or unsent at close time is dropped and the peer sees a clean EOF. Two small repairs applied: Read re-tests the queue when closed; acks no longer advance lastSend.",
    technique="Coq proof (invariant over a step relation and over send-queue histories, witnesses by vm_compute) + trace-abstraction correspondence with the extracted model + end-to-end oracle under faketime",
)
