"""C17: low-entropy codec lossless, canonical, identical on every CPU path (DESIGN.md 7/C17)."""
from vlib import run_pair
from xl import xl_pair, xl_search, XL_TRUSTED

PID = "C17"
MODEL_VOS = ["base/Bits64.vo", "model/LowEntropy.vo"]
TRUSTED_EXTRA = [XL_TRUSTED]
USES_TRANSLATED = True     # props/C17.v has theorems over gen/Translated.v: a translator failure is a problem of this check
ASSUMPTIONS = [
    "the BMI2 PDEPQ/PEXTQ instructions (pkg/mathext/bit_amd64.s) are outside the proof: they are only compared with the portable loops and with the Intel definition on the sampled (x, mask) pairs (quick ~20k, thorough >= 10^6) on the CPU this check runs on (report note 'bmi2' says whether that path was present)",
    "math/bits.RotateLeft64, math/bits.OnesCount32 and encoding/binary big-endian load/store are modelled by their specification (rotl64, popcount, be_val/be_bytes) and compared with the Go code on every case",
    "bytes are < 256 and the half mask is < 2^32 by typing (Go []byte / uint32); metadata fields are uint8/uint16/uint32 as in dataAckStruct",
    "error classes of the Go code are matched with the model's error constructors by message substring",
]


def run(ctx):
    # xl: the real pdepGeneric / pextGeneric / RepeatUint32 vs their translation (validates the translator), and the
    # translation vs the model functions of base/Bits64.v on the same inputs
    return [run_pair(ctx, "c17", PID, MODEL_VOS), xl_pair(ctx, "c17")]


def search(ctx):
    return xl_search(ctx, "c17") + \
        [run_pair(ctx, "c17", PID, None, tier="thorough", seed=ctx.seed + 1000 + i, subdir="search%d" % i) for i in range(2)]

MANIFEST = dict(
    text="Theorems over the Bits64/LowEntropy model (PDEP/PEXT structurally, as the index-by-index Intel SDM pseudo code and as the portable Go loops, the three proved equal for every x and every 64-bit mask, chunk-mask rotation, encoder, decoder, metadata validation) proved for every body of 1..8191 chunks, every mode, every half mask of the mode's weight, all 31 rotations and both padding polarities: round trip, encoded size, canonicity of every accepted stream, rejection of invalid parameters/lengths/mixed padding, metadata ties the two lengths and agrees with Wire.v's (C09) unmarshal validity for types 10/11; constants regenerated from /repo; the model's executable definitions are compared with pkg/protocol and pkg/mathext (portable and BMI2 paths) on structured inputs, a malformed stream and >= 10^6 PDEP/PEXT pairs, and every case is also judged against docs/protocol.md and the Intel pseudo code by references written in the driver.",
    note="Partial for the hardware path: PDEPQ/PEXTQ are compared with the portable loops and the Intel definition on the sampled pairs on the CPU of the run, not proved. RotateLeft64/OnesCount32/big-endian are modelled by specification and compared on every case. Error classes matched by message substring.",
    technique="Coq proof (structural recursion on the mask's binary representation, N/Z arithmetic) of codec round-trip/canonicity/rejection theorems; pdep/pext loops, mask rotation, mode table and validateLowEntropyCodecParams translated from the Go source on every run (go2coq) and proved equal to the model (C17_source_*) + differential run of the extracted model against pkg/protocol and pkg/mathext",
)
