"""C09: what goes on the wire is exactly the documented protocol (DESIGN.md 7/C09)."""
from vlib import run_pair
from xl import xl_pair, xl_search, XL_TRUSTED

PID = "C09"
MODEL_VOS = ["model/Wire.vo"]
TRUSTED_EXTRA = [XL_TRUSTED]
USES_TRANSLATED = True     # props/C09.v has a theorem over gen/Translated.v: a translator failure is a problem of this check
ASSUMPTIONS = [
    "user hint on every nonce: the e2e traces (real client and server over simnet, nonce-pattern dimension: none = implicit from the traffic-pattern seed, printable, printable subset, fixed prefix, random; applyToAllUDPPacket true / false / unset; several seeds) and the unit driver (k-th nonce, k = 1..5, of a stateless and a stateful cipher and of client / server-reply datagrams under every pattern kind) require the documented hint of the sending user on EVERY UDP datagram and on the nonce of every TCP direction; a document-only UDP server (refcodec) that finds the user of every datagram by the hint among three registered users serves a real client. C09_user_hint_placement states the position; that the real code places it is compared, not proved (SHA-256 is uninterpreted)",
    "UDP re-keying: C09_udp_reply_key_follows_peer is proved over sess_input of model/Wire.v (the reply key of a server session is the key of the most recent authentic segment) tied to the slots of model/KeyTime.v; sess_input is compared with the real Session.input on salt histories (RK cases), and a document-only UDP client that derives its key from its current time for every datagram keeps one session echoing across 1..4 changes of the time salt under virtual time (every server datagram must open under one of the three salts around the client's current time). The rest of the session state machine is not part of the Wire model (C02 owns it)",
    "whole endpoints: driver e2e (-prop C09) runs real client and server Muxes over simnet (both transports, traffic patterns with padding / low-entropy modes x rotations / TCP fragmentation, loss on UDP) and requires every emitted TCP stream and UDP datagram to decode with refcodec; it also lets refcodec act as a third-party client (any of the three key slots, paddings 0..255, any valid mask/rotation/mode, piggybacked open payload 0..1024, maximum payloads, arbitrary TCP chunking) against a real server, whose application must receive the exact bytes and whose reply refcodec must decode (oracle only)",
    "SHA-256, PBKDF2 and XChaCha20-Poly1305 are uninterpreted in the Coq model (Section variables); conformance of key derivation, user hint, sealed boxes and nonce use is established by vectors and by interop runs between mieru's real read/writeOneSegment and the document-only codec harness/refcodec, not by proof",
    "the timestamp window of Unmarshal is outside the Wire model (C08 proves it); the driver stamps the current minute and checks the window by oracle only",
    "refcodec was written from docs/protocol.md; the places where the document had to be completed from the code are listed in harness/refcodec/README.md",
    "whole-endpoint interop (sessions over simnet) is left to the network simulator; this check drives the real segment readers/writers of both transports over in-memory connections",
]


def run(ctx):
    return [run_pair(ctx, "c09", PID, MODEL_VOS),
            run_pair(ctx, "e2e", PID, None, faketime=True, extra_args=["-prop", "C09"], subdir="e2e"),
            # xl: the real protocol type predicates vs their translation (validates the translator), and the translation vs
            # the predicates of model/Wire.v, on every byte
            xl_pair(ctx, "c09")]


def search(ctx):
    return xl_search(ctx, "c09") + [run_pair(ctx, "c09", PID, None, tier="thorough", seed=ctx.seed + 1000 + i, subdir="search%d" % i) for i in range(2)]

MANIFEST = dict(
    text="Theorems over the Wire model (the three 32-byte metadata layouts with one offset lemma per row of the document's tables, marshal/unmarshal round trip and injectivity on valid metadata, 32-byte length, protocol-type partition of 0..255, the 24-byte big-endian nonce increment as +1 mod 2^192 and its iteration, documented constants, the reply key of a UDP server session following the peer's most recent key and staying within the peer's three time salts) proved for all field values; constants regenerated from /repo; the model is compared with pkg/protocol Marshal/Unmarshal/predicates and pkg/cipher increaseNonce on boundary corpora, every protocol byte and random cases; key derivation, user hint, complete TCP streams and UDP datagrams, the low-entropy codec and the UDP-associate frame are compared in both directions with an independent codec written from docs/protocol.md.",
    note="Crypto primitives are uninterpreted in the model (vectors and interop only). The timestamp window belongs to C08. Interop is at the level of readOneSegment/writeOneSegment over in-memory connections (server side through the real user registry), not whole endpoints.",
    technique="Coq proof (lists of N, lia with div/mod, vm_compute over 0..255) of layout/round-trip/nonce theorems; the metadata codecs (sessionStruct.Marshal/Unmarshal, dataAckStruct.Marshal), the protocol predicates and increaseNonce translated from the Go source on every run (go2coq) and proved equal to the model (C09_source_*) + differential run of the extracted model against pkg/protocol and pkg/cipher + interop with harness/refcodec",
)
