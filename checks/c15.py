"""C15: Close completes, unblocks everyone, leaves nothing running; deadlines bound calls (DESIGN.md 7/C15)."""
import json
import os
import re
import time

from vlib import run_pair, DriverResult, sh, GOENV, HARNESS, BIN, WORK

PID = "C15"
MODEL_VOS = ["model/Deadline.vo", "model/Lifecycle.vo"]
ASSUMPTIONS = [
    "simultaneous-close scenarios (one end's Mux.Close while the other end closes two of three sessions of the shared underlay 100/300/1200 ms later) exercise the error path of the close response (output() failing inside inputClose); the Lifecycle model's lock discipline theorem covers closeWithError and the output loops, not inputClose's response path, which is tied by these scenarios and the goroutine-dump cause signatures",
    "which Go statements form one atomic step of the Lifecycle model is a modelling decision (mutex-protected sections and single channel operations are one step); the -race run supports it, it is not proved",
    "the theorems cover the state machine of one session end with the network / peer / timers as environment labels; promptness in seconds, goroutine leaks and data races are runtime facts observed by the drivers",
    "faketime virtual clock (Go runtime) for all timing observations; tolerance 60 ms for 'at the same time'",
    "remote end: learns of a close through the close request (healthy network: < 1 s), through underlay failure (TCP reset: < 2 s) or, under a UDP black hole, only through the idle-session timeout / retransmission budget (observed bound used by the oracle: 260 s)",
]


def _panic_to_failure(res, txt):
    m = re.search(r"(panic: [^\n]*|fatal error: [^\n]*)", txt)
    if not m:
        return False
    fn = re.search(r"github\.com/enfein/mieru/v3/([\w/]+\.(?:\(\*?\w+\)\.)?\w+)", txt[m.start():])
    sig = "panic-" + re.sub(r"[^A-Za-z0-9]+", "-", (fn.group(1).split("/")[-1] if fn else m.group(1)))[:60].strip("-")
    res.report.setdefault("oracle_failures", []).append(dict(sig=sig, what=m.group(1)[:300], case=dict(output=txt[m.start():m.start() + 1500])))
    res.error = ""
    return True


def _deframe(b):
    """Strips the faketime playback framing (\\0\\0PB, 8 bytes time, 4 bytes length) from captured output."""
    out, i = bytearray(), 0
    while i < len(b):
        if b[i:i + 4] == b"\x00\x00PB" and i + 16 <= len(b):
            n = int.from_bytes(b[i + 12:i + 16], "big")
            out += b[i + 16:i + 16 + n]
            i += 16 + n
        else:
            out.append(b[i])
            i += 1
    return out.decode("utf-8", "replace")


def run_faketime(ctx, tier=None, seed=None, subdir=None, model=True):
    res = run_pair(ctx, "c15", PID, MODEL_VOS if model else None, faketime=True, tier=tier, seed=seed, subdir=subdir, timeout=900)
    if res.error and "exited with" in res.error:
        # the driver process died (a panic inside mieru kills it): run it once more and keep the whole, de-framed output
        import subprocess
        out = os.path.join(WORK, PID, "crash")
        os.makedirs(out, exist_ok=True)
        try:
            p = subprocess.run([os.path.join(BIN, "c15_ft"), "-seed", str(ctx.seed if seed is None else seed), "-tier", tier or ctx.tier, "-out", out],
                               cwd=out, env=dict(GOENV, GOMAXPROCS="2"), stdout=subprocess.PIPE, stderr=subprocess.STDOUT, timeout=600)
            txt = _deframe(p.stdout)
        except subprocess.TimeoutExpired as e:
            txt = _deframe(e.stdout or b"")
        if _panic_to_failure(res, txt):
            res.report["evaluations"] = res.report.get("evaluations", 0) or 1
    return res


def run_race(ctx):
    """Real-time driver under the race detector (cannot be combined with faketime)."""
    res = DriverResult("c15race")
    res.report["rule"] = "real time, go build -race: concurrent reader + writer + closer (+ deadline setter) on the same session at both ends, TCP and UDP over simnet; one evaluation = one scenario; the oracle is the race detector (and no panic, run completes)"
    out = os.path.join(WORK, PID, "c15race")
    os.makedirs(out, exist_ok=True)
    os.makedirs(BIN, exist_ok=True)
    env = dict(GOENV, CGO_ENABLED="1")
    binp = os.path.join(BIN, "c15race")
    t0 = time.time()
    rc, txt = sh(["go", "build", "-race", "-tags", "verif", "-o", binp, "./cmd/c15race"], cwd=HARNESS, env=env, timeout=1500)
    ctx.log("go build -race c15race rc=%s %.1fs" % (rc, time.time() - t0))
    if rc != 0:
        res.error = "c15race does not build with -race:\n" + txt[-2000:]
        return res
    env["GORACE"] = "halt_on_error=1 exitcode=66"
    t0 = time.time()
    rc, txt = sh(["timeout", "120", binp, "-seed", str(ctx.seed), "-tier", ctx.tier, "-out", out], cwd=out, env=env, timeout=150)
    ctx.log("c15race rc=%s %.1fs" % (rc, time.time() - t0))
    rp = os.path.join(out, "report.json")
    if os.path.exists(rp) and rc == 0:
        res.report = json.load(open(rp))
    if "WARNING: DATA RACE" in txt:
        m = re.search(r"WARNING: DATA RACE\n[^\n]*\n\s+(\S+)\(\)", txt)
        fn = m.group(1) if m else "unknown"
        fn = fn.replace("github.com/enfein/mieru/v3/", "")
        sig = "data-race-" + re.sub(r"[^A-Za-z0-9]+", "-", fn.split("/")[-1]).strip("-")
        res.report.setdefault("oracle_failures", []).append(dict(sig=sig, what="race detector: " + fn, case=dict(output=txt[txt.index("WARNING: DATA RACE"):][:3000])))
        res.report["evaluations"] = res.report.get("evaluations", 0) or 1
    elif rc != 0:
        if not _panic_to_failure(res, txt):
            res.error = "c15race exited with %s:\n%s" % (rc, txt[-2000:])
    return res


def run(ctx):
    return [run_faketime(ctx), run_race(ctx)]


def search(ctx):
    return [run_faketime(ctx, tier="quick", seed=ctx.seed + 1000 + i, subdir="search%d" % i, model=False) for i in range(2)]


MANIFEST = dict(
    text="Theorems over a labelled transition system of one session end (wait points of Read / writeChunk / closeWithError / the session loops / the underlay event loop / underlay Close, each with its exit conditions) proved for every interleaving: closedChan is closed at most once and later Closes are no-ops, once closed every affected wait point has an enabled exit that stays enabled and a waiting Read returns at its first own step, Close is bounded unless the output lock is held by a stalled conn.Write (reachable: refutation witness), underlay Close releases it; the deadline model (reset on return, client 10 s arming) refutes deadline persistence with the witness [SetReadDeadline d; Read; Read] and proves the single-call bound. Real Mux pairs on simnet are driven under virtual time with scripted and random interleavings; every call's class is compared with the extracted model and judged against the property text; a second real-time driver runs under the race detector.",
    note="State machine only: promptness, leaks and races are runtime observations. Known findings: deadlines cleared by the previous Read/Write and overwritten by the client's 10 s arming; Write deadline and Session.Close ineffective while a TCP conn.Write is stalled; client underlay event loop lingers until its 60-120 s read timeout after Mux.Close.",
    technique="Coq proof (invariants by induction over the step relation, vm_compute witnesses) + trace acceptance of real runs under faketime + race detector run",
)
