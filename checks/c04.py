"""C04: tampering with bytes on the wire never changes what the application reads (DESIGN.md 7/C04)."""
from vlib import run_pair

PID = "C04"
MODEL_VOS = ["model/TcpStream.vo", "model/LowEntropy.vo", "model/Tamper.vo"]
ASSUMPTIONS = [
    "INT-CTXT is a premise of the theorems, never an axiom: TCP - only the sender's boxes open, box k only under nonce n0+k (open_sound) and the counter does not wrap within the stream (nonce_distinct); UDP - a box opens only if a registered peer sealed that plaintext under that nonce (open_sound_udp), nonces are drawn afresh per datagram (nonce_once)",
    "the abstract AEAD hides what XChaCha20-Poly1305 additionally loses when two different plaintexts are sealed under one (key, nonce) as the UDP sender does (keystream and one-time-key reuse); the model only uses that both boxes of a datagram open under the datagram's nonce",
    "boxes of other connections / the other direction sealed under the same user key are outside the TCP prefix theorem's [sealed] set (they are inside C04_tcp_authentic's); the driver splices them in and checks the outcome",
    "an application payload that parses as metadata (premise payload_not_meta of the UDP theorem) is excluded; the metadata layout and the low entropy codec are functions with the stated premises, the run executes the concrete meta_parse_c and LowEntropy.decode on real bytes",
    "the model's AEAD in the correspondence run is the table of the real boxes of the recorded traffic (opened with the real key by the independent reference codec)",
    "C04_tcp_cross_connection_splice_refused has the premise that the session ids of the other connection differ from the receiving session's id; the code relies on ids drawn at random per dial (32 bit). Unpredictability of that source is not provable here; what is checked on every run is the necessary condition that ids are not a function of the creation second: client muxes of one user created in the same virtual second must draw different ids (driver oracle, sig session-id-repeats-across-muxes), and whole downstream streams / datagram sequences of such a sibling connection are spliced into the other client end to end",
    "the UDP session-layer model (u_step: recvBuf keyed by seq, release only at nextRecv, close ends the session, acks do not touch the receive side) takes every sequenced segment - data AND open request / response - through the same buffer, as inputData does; receive-window drops are arrivals that are absent from the event list",
    "the driver runs under Go's faketime runtime",
]


def run(ctx):
    return [run_pair(ctx, "c04", PID, MODEL_VOS, faketime=True, timeout=1400)]


def search(ctx):
    return [run_pair(ctx, "c04", PID, None, faketime=True, tier="quick", seed=ctx.seed + 1000 + i, subdir="search%d" % i, timeout=900) for i in range(2)]


MANIFEST = dict(
    text="Machine-checked theorems over the executable TCP receiver model of C01 and a UDP datagram parser model: for every sent segment list and every received byte string after the sender's nonce the delivered segments are a prefix of the sent ones up to padding contents, nothing is delivered after the first failure, every delivered segment is authentic for any received stream; every datagram is discarded or has the metadata of a sealed datagram with the same nonce and exactly the length the size equations dictate; low entropy bodies are decoded before open with the tag untouched; padding contents never matter; a box sealed by the receiver's own side (reflection: shared key and session id) is never handed to its application on either transport (direction filter of Session.input in the delivery step); a UDP session releases segments only in sequence order without gaps, also when a close arrives; a second copy of any authentic datagram (data, open request/response, close, ack) at any later point changes neither nextRecv nor the released bytes; another connection's stream (whole or from any segment boundary) hands nothing to a session with a different id. Two parts of the property are refuted on the faithful model with witnesses that reproduce on the code (nonce header rewrite skips leading TCP segments; a UDP payload box can be replaced by the datagram's metadata box). The extracted receivers run on mutated real traffic (every field class x mutation kind; every byte offset in the thorough tier) against the real readOneSegment receivers, and mutated end-to-end runs of real Mux pairs are judged against the property text.",
    note="INT-CTXT, counter-nonce non-wrap and per-datagram fresh nonces are premises; the AEAD of the run is the table of the recorded real boxes; runs use Go's faketime runtime.",
    technique="Coq proof (induction over the incremental stream parser with the sender's box sequence as invariant; case analysis of the datagram size equations) + differential run of the extracted receivers against pkg/protocol's receivers on mutated recorded traffic + end-to-end man-in-the-middle runs on a simulated network",
)
