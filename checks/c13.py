"""C13: acks never run ahead of receipt; retransmissions never change content; gapless sequence numbers (DESIGN.md 7/C13)."""
from vlib import run_pair

PID = "C13"
MODEL_VOS = ["model/UdpProto.vo"]
ASSUMPTIONS = [
    "theorems hold for every reachable state of the UdpProto transition system (all schedules, all fault sequences); the tie to the Go code is the trace-acceptance run: the extracted acceptor (proved sound: accept_ack_safe, accept_retx_same, accept_gapless) must accept every recorded session of the real endpoints",
    "the acceptor keeps the most optimistic receiver state (every datagram returned by ReadFrom counts as received), which is exactly the property's 'set of datagrams the network has so far delivered to its sender'",
    "datagrams are attributed to sessions and decoded by refcodec, an independent codec written from docs/protocol.md",
    "after the first Close of a session only emissions are recorded and the acceptor (late_step, theorem C13_trace_retx_same_across_close) demands one content per sequence number for data AND control segments; gaplessness of first transmissions is not demanded there because queued segments may be discarded and the close response bypasses the send queue",
    "the close-race family needs real parallelism (GOMAXPROCS 2) between the woken Close and the output loop; about 1.7 % of its schedules put the data fragment on the wire before the close request reuses its number, hence 600 (quick) / 3000 (thorough) cheap schedules",
    "recorded finding stateless-close-reply-reuses-sequence-number (C13_seq_reuse_after_close_refuted): after an endpoint has closed and forgotten a session, its underlay answers a late data/ack segment with a closeSessionRequest whose seq copies the peer's unAckSeq; C13_trace_retx_same_across_close_partial therefore ranges over the checked emissions (everything except those replies; C13_trace_after_close_coverage); the oracle reports exactly those replies under that sig and any other reuse as retx-differs; the deterministic witness family statelessclose runs in the thorough tier of C13 only",
    "write deadlines: family deadline sets a write deadline before every client Write over a stalling socket; a Write that returns (0, timeout) is taken back and retried (the session stays in use); deadline-semantics deviations (C15) are not judged here; C13_seq_gapless_with_partial_writes / C13_reserve_up_front_refuted are about the model functions write_all / write_all_reserve",
    "acks while closing: receipts and emissions after Close are recorded too and C13_trace_ack_safe_after_close / the oracle's ack-ahead check cover them (family closeloss: Close with a lost fragment in front of the close request)",
    "sequence numbers are modelled unbounded (uint32 wrap needs 2^32 segments in one session)",
]


def run(ctx):
    return [run_pair(ctx, "c02", PID, MODEL_VOS, faketime=True, extra_args=["-prop", "C13", "-serverfirst", "12"], timeout=1700)]


def search(ctx):
    return [run_pair(ctx, "c02", PID, None, faketime=True, extra_args=["-prop", "C13", "-serverfirst", "12"], tier="quick", seed=ctx.seed + 2000 + i,
                     subdir="search%d" % i, timeout=1700) for i in range(2)]

MANIFEST = dict(
    text="In the sliding-window transition system of the UDP session layer, for every reachable state: every datagram ever emitted carries unAckSeq <= the number of in-order segments its emitter had received at emission; all transmissions of a sequence number carry the type, fragment marker and payload bound at assignment; numbers on the wire are exactly [0, sent_hi) and are assigned 0,1,2,...; a segment leaves sendBuf only after the peer has it. The executable trace acceptor is proved sound for the same facts about recorded traces (ack compared with the exact set of datagrams delivered so far to the emitter; every (endpoint, seq) compared across all transmissions; a number only after all smaller ones) and run on faulty-network traces of real Mux pairs; an independent Go oracle re-checks ack-ahead, retransmission equality (payload hash, type, fragment) and gaps on the raw decoded log.",
    note="Shares model, acceptor and driver with C02.",
    technique="Coq proof of an LTS invariant + proved-sound executable trace acceptor run on recorded traces; Go oracle",
)
