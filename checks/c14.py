"""C14: no datagram exceeds the configured MTU; no payload exceeds its length field (DESIGN.md 7/C14)."""
from vlib import run_pair
from xl import xl_pair, xl_search, XL_TRUSTED

PID = "C14"
MODEL_VOS = ["model/Sizes.vo"]
TRUSTED_EXTRA = [XL_TRUSTED]
USES_TRANSLATED = True     # props/C14.v has theorems over gen/Translated.v: a translator failure is a problem of this check
ASSUMPTIONS = [
    "whole-session traffic: driver e2e (-prop C14) runs real client and server Muxes over simnet UDP/TCP under virtual time for MTU x padding x low-entropy mode x write sizes and measures every emitted datagram against the sender's MTU and every decoded length field against its limit (oracle only; decoded by the independent refcodec)",
    "MTU within the range both config validators accept (recovered behaviourally: 1280..1500); outside it the bound is false (C14_mtu_needs_validated_range) and maxFragmentSize can be 0 (division by zero in writeChunk) - not claimed",
    "Go int modelled as unbounded Z (all quantities < 2^32); uint8/uint16 conversions are explicit mod and proved not to wrap in range",
    "padding draws are oracle inputs constrained only by the maxima the code computes; the driver reads the actual draws off the wire and checks them against those maxima",
    "the datagram layout formula (dgram_len) is tied to PacketUnderlay.writeOneSegment by serialising real segments over a recording connection; control segments and acks are built by the hook the way session.go builds them (no payload); whole-session traffic is measured by the second driver (e2e)",
    "stream transport: fields and fragmenting plan only (a stream segment is not a datagram)",
    "cross-model ties (proofs/SizesCrossProofs.v): the stream plan equals TcpStream.plan_event of C01 on protocol number, fragment number and payload bytes for modes 0..4 (TcpStream's mode numbers >= 5 have no counterpart in the code and are outside the statement); dgram_len equals the length of Wire.udp_datagram of C09 under C09's own hypothesis on the AEAD (|seal p| = |p| + 16); every type a UdpProto endpoint (C02/C13) may emit is one of the seven kinds of Sizes.v and is covered by C14_mtu",
]


def run(ctx):
    return [run_pair(ctx, "c14", PID, MODEL_VOS),
            run_pair(ctx, "e2e", PID, None, faketime=True, extra_args=["-prop", "C14"], subdir="e2e"),
            # xl: the real maxPaddingSize / maxFragmentSizeInternal / Min / Max / Abs vs their translation (validates the
            # translator), and the translation vs the functions of model/Sizes.v on the same inputs
            xl_pair(ctx, "c14")]


def search(ctx):
    return xl_search(ctx, "c14") + [run_pair(ctx, "c14", PID, None, tier="quick", seed=ctx.seed + 1000 + i, subdir="search%d" % i) for i in range(1)]

MANIFEST = dict(
    text="Theorems over the Sizes model (maxFragmentSize, maxPaddingSize with traffic pattern, lowEntropyEncodedPayloadLen, the UDP datagram layout of every segment kind, the fragmenting plan of Session.Write) proved for every MTU in the validated range, every low-entropy mode, every write size and every padding draw within the computed maxima: datagram <= MTU, length fields hold true lengths without wrap, fragments <= 32768 and <= the fragment size, session payload <= 1024, paddings <= 255, <= 256 fragments numbered down to 0, fragments concatenate to the written bytes; the model is tied by theorems to its neighbours (same stream plan as C01's TcpStream.plan_event, same datagram length as C09's Wire.udp_datagram, every segment type of C02's UdpProto within the MTU). Constants (including the MTU range and padding caps, recovered behaviourally) regenerated from /repo; the arithmetic is compared exhaustively with pkg/protocol, the plan with the real Session.Write, the layout with datagrams produced by the real PacketUnderlay.writeOneSegment, and every case is judged against the property text.",
    note="Datagrams are produced by calling writeOneSegment on segments queued by the real Session.Write (and hook-built control segments), not by running whole sessions over a network; stream transport covered for fields/plan only. MTU outside 1280..1500 is outside the claim.",
    technique="Coq proof (lia/nia over Z with quot/rem) of size theorems and of agreement with the TcpStream, Wire and UdpProto models + exhaustive differential run of the extracted model against pkg/protocol + oracle on real serialised datagrams",
)
