"""C07: sessions are attributed to the authenticating user despite caches and reloads (DESIGN.md 7/C07)."""
from vlib import run_pair

PID = "C07"
MODEL_VOS = ["model/Discover.vo", "model/SrcCache.vo"]
ASSUMPTIONS = [
    "hint u / auth u are arbitrary boolean functions of a registered user (no injectivity, no crypto assumption): the theorems hold for every AEAD and every hint function; that a credential 'authenticates' means its StatelessDecryptor opens the segment",
    "users of a generation are modelled by their position: buildState's invariant users[k].id = k+1 (checked on every generated user set by the driver); fewer than 2^32 users; user ids fit uint32",
    "cache lookup and recordAuthenticated are atomic steps (writers of a bucket are serialised by a lock, readers read atomically published words); statistics counters are not modelled",
    "the bucket index of a source key (maphash with a per-process seed) is an arbitrary function in the theorems and is read from the implementation for the correspondence run",
    "identity of a published generation (*state pointer equality) is modelled by a generation number; atomic.Pointer load/swap are linearizable",
    "ages are computed mod 2^32 exactly as the code does: an association older than 2^32 ticks (136 years of uptime) can look fresh; stated as C07_cache_lookup_sound_real",
]


def run(ctx):
    return [run_pair(ctx, "c07", PID, MODEL_VOS)]


def search(ctx):
    return [run_pair(ctx, "c07", PID, None, tier="thorough", seed=ctx.seed + 1000 + i, subdir="search%d" % i) for i in range(2)]

MANIFEST = dict(
    text="Theorems over a model of serveruser.tryState (four phases, bounded attempted set), discoverUser (retry loop over published generations) and the source-user cache (buckets x ways x user slots, uint32 ticks with wrap), for arbitrary hint/authentication predicates, arbitrary cached id lists and arbitrary cache histories; constants regenerated from /repo; the model is compared with the real code on real sealed segments (real 4-byte hint collisions, shared hashed passwords, reloads fired between attempts, injected ticks) and every case is also judged against the property text and against a cold registry.",
    note="Assumes lookup/record are atomic steps and that pointer identity of generations is a number; crypto enters only as the arbitrary predicate auth. The UDP path calls Discover with requireCurrent=false: a datagram whose discovery loaded the generation before SetUsers swapped it can still be accepted under the old list (C07_discover_not_older covers discoveries that start after the reload returned).",
    technique="Coq proof (induction over phases and cache histories) + differential run of the extracted model against pkg/protocol/serveruser with real ciphers",
)
