"""C07: sessions are attributed to the authenticating user despite caches and reloads (DESIGN.md 7/C07)."""
from vlib import run_pair

PID = "C07"
MODEL_VOS = ["model/Discover.vo", "model/SrcCache.vo"]
ASSUMPTIONS = [
    "hint u / auth u are arbitrary boolean functions of a registered user (no injectivity, no crypto assumption): the theorems hold for every AEAD and every hint function; that a credential 'authenticates' means its StatelessDecryptor opens the segment",
    "users of a generation are modelled by their position: buildState's invariant users[k].id = k+1 (checked on every generated user set by the driver); fewer than 2^32 users; user ids fit uint32",
    "cache lookup and recordAuthenticated are atomic steps (writers of a bucket are serialised by a lock, readers read atomically published words); statistics counters are not modelled",
    "the bucket index of a source key (maphash with a per-process seed) is an arbitrary function in the theorems and is read from the implementation for the correspondence run",
    "identity of a published generation (*state pointer equality) is modelled by a generation number; atomic.Pointer load/swap are linearizable",
    "UDP existing-session shortcut: a session is (peer ip, peer port, user); 'the session's cipher opens the datagram' is an arbitrary predicate; C07_existing_session_shortcut_sound assumes that first segments sent from one socket address get one discovery answer D(ip, port) (a UDP socket belongs to one client = one user name and credential; cache independence of that answer is C07_cache_independent(_hinted)); sessions are not removed in the model (removal preserves the invariant); sessions outliving a reload keep their user (C07 speaks of new connections)",
    "ages are computed mod 2^32 exactly as the code does: an association older than 2^32 ticks (136 years of uptime) can look fresh; stated as C07_cache_lookup_sound_real",
]


def run(ctx):
    return [run_pair(ctx, "c07", PID, MODEL_VOS),
            run_pair(ctx, "c07e", PID, MODEL_VOS, faketime=True, timeout=900)]


def search(ctx):
    return [run_pair(ctx, "c07", PID, None, tier="thorough", seed=ctx.seed + 1000 + i, subdir="search%d" % i) for i in range(2)] + \
           [run_pair(ctx, "c07e", PID, None, faketime=True, tier="thorough", seed=ctx.seed + 2000, subdir="searche", timeout=900)]

MANIFEST = dict(
    text="Theorems over a model of serveruser.tryState (four phases, bounded attempted set), discoverUser (retry loop over published generations) and the source-user cache (buckets x ways x user slots, uint32 ticks with wrap), for arbitrary hint/authentication predicates, arbitrary cached id lists and arbitrary cache histories; constants regenerated from /repo; the model is compared with the real code on real sealed segments (real 4-byte hint collisions, shared hashed passwords, reloads fired between attempts, injected ticks) and every case is also judged against the property text and against a cold registry; an end-to-end driver runs a real server Mux (UDP packet underlay and TCP) with real client Muxes on an in-memory network under virtual time - users sharing credentials, clients on one IP with different ports and on different IPs, multiplexed sessions, every order of establishment - and compares UserName()/policy of every accepted session with the model (discovery + existing-session shortcut) and with the text.",
    note="Assumes lookup/record are atomic steps and that pointer identity of generations is a number; crypto enters only as the arbitrary predicate auth. The UDP path calls Discover with requireCurrent=false: a datagram whose discovery loaded the generation before SetUsers swapped it can still be accepted under the old list (C07_discover_not_older covers discoveries that start after the reload returned).",
    technique="Coq proof (induction over phases and cache histories) + differential run of the extracted model against pkg/protocol/serveruser with real ciphers",
)
