"""Shared machinery of /verif/check (see DESIGN.md sections 2, 3 and 5).

A check of property Cxx does, in this order:
  1. lint the Coq development (no Admitted/Axiom/... anywhere),
  2. regenerate coq/gen/Consts.v from /repo (harness/cmd/dumpconsts, built with -tags verif),
  3. make (full .vo) what props/Cxx.v depends on, re-run coqc on props/Cxx.v and collect
     theorem names + Print Assumptions output  -> obligations / discharged,
  4. build the Go drivers against /repo's working tree and the extracted OCaml model runner,
     run both on the same cases, diff the projected observables (correspondence) and collect
     the drivers' oracle verdicts (search for a failing input on the implementation),
  5. decide, write evidence/Cxx.json, print VIOLATION / KNOWN-FINDING lines, exit 0/1.
"""
import fcntl
import glob
import hashlib
import importlib
import json
import os
import re
import shutil
import subprocess
import sys
import time

VERIF = os.path.dirname(os.path.dirname(os.path.abspath(__file__)))
REPO = os.environ.get("VERIF_REPO", "/repo")
WORK = os.path.join(VERIF, ".work")
COQ = os.path.join(VERIF, "coq")
HARNESS = os.path.join(VERIF, "harness")
BIN = os.path.join(WORK, "bin")
NPROC = str(os.cpu_count() or 4)

GOENV = dict(os.environ, GOFLAGS="-mod=mod", GOPROXY="off", GOSUMDB="off", GOTOOLCHAIN="local")

ALLOWED_AXIOMS = {
    # standard-library axioms the brief allows, if a library brings them in (none expected)
    "functional_extensionality_dep", "proof_irrelevance", "Eqdep.Eq_rect_eq.eq_rect_eq",
    "classic", "JMeq_eq", "propositional_extensionality",
}

TRUSTED_BASE = [
    "Coq 8.16.1 kernel (coqc; vm_compute used in finite-domain lemmas and witnesses; native_compute not used)",
    "no axioms declared by the development; Print Assumptions of every property theorem is recorded in this file",
    "crypto (AEAD correctness / INT-CTXT, SHA-256, PBKDF2) enters only as section hypotheses of the theorems that say so",
    "coq/gen/Consts.v regenerated from /repo by harness/cmd/dumpconsts (Go compiler's view of the constants, via //go:build verif export files)",
    "hand-written Gallina models tied to the Go code by the correspondence run: extraction (ExtrOcamlBasic only; N/Z/positive/nat stay Coq datatypes; no Extract Constant), OCaml 4.13.1, ocaml/common.ml + ocaml/<id>_run.ml line parsers, the Go drivers under harness/cmd and the python driver",
    "Go toolchain 1.23.5 (and its faketime runtime mode where a driver says so)",
]


class Lock:
    def __init__(self, name):
        os.makedirs(WORK, exist_ok=True)
        self.path = os.path.join(WORK, name + ".lock")

    def __enter__(self):
        self.f = open(self.path, "w")
        fcntl.flock(self.f, fcntl.LOCK_EX)
        return self

    def __exit__(self, *a):
        fcntl.flock(self.f, fcntl.LOCK_UN)
        self.f.close()


def sh(cmd, cwd=None, timeout=1200, env=None, stdin=None):
    """Run a command; returns (rc, combined output). rc 124 on timeout."""
    try:
        p = subprocess.run(cmd, cwd=cwd, env=env, stdout=subprocess.PIPE, stderr=subprocess.STDOUT,
                           timeout=timeout, shell=isinstance(cmd, str), stdin=stdin)
        return p.returncode, p.stdout.decode("utf-8", "replace")
    except subprocess.TimeoutExpired as e:
        out = (e.stdout or b"").decode("utf-8", "replace")
        return 124, out + "\n[timeout after %ss]" % timeout


# ----------------------------------------------------------------------------- lint

FORBIDDEN = re.compile(
    r"\b(Admitted|admit|Axiom|Axioms|Parameter|Parameters|Conjecture|Conjectures)\b|Admit\s+Obligations|Unset\s+Guard|"
    r"bypass_check|type-in-type|impredicative-set|Unset\s+Positivity|Unset\s+Universe\s+Checking|native_compute")


def strip_comments(src):
    out, depth, i = [], 0, 0
    while i < len(src):
        if src.startswith("(*", i):
            depth += 1
            i += 2
        elif src.startswith("*)", i) and depth > 0:
            depth -= 1
            i += 2
        else:
            if depth == 0:
                out.append(src[i])
            elif src[i] == "\n":
                out.append("\n")
            i += 1
    return "".join(out)


def lint():
    """Returns a list of problems (empty = clean)."""
    problems = []
    for path in sorted(glob.glob(os.path.join(COQ, "**", "*.v"), recursive=True)):
        rel = os.path.relpath(path, COQ)
        src = strip_comments(open(path).read())
        depth = 0
        for n, line in enumerate(src.split("\n"), 1):
            if FORBIDDEN.search(line):
                problems.append("%s:%d: forbidden token: %s" % (rel, n, line.strip()[:80]))
            if re.match(r"\s*Section\s+\w+", line):
                depth += 1
            elif re.match(r"\s*End\s+\w+", line) and depth > 0:
                depth -= 1
            elif depth == 0 and re.match(r"\s*(Variable|Variables|Hypothesis|Hypotheses|Context)\b", line):
                problems.append("%s:%d: %s outside a section" % (rel, n, line.strip()[:60]))
    return problems


# ----------------------------------------------------------------------------- builds

def write_if_changed(path, content):
    try:
        if open(path).read() == content:
            return False
    except OSError:
        pass
    os.makedirs(os.path.dirname(path), exist_ok=True)
    with open(path, "w") as f:
        f.write(content)
    return True


def go_build(name, faketime=False):
    """Builds harness/cmd/<name> against /repo's working tree with hooks on. Returns (binary, error-text)."""
    os.makedirs(BIN, exist_ok=True)
    try:
        write_if_changed(os.path.join(HARNESS, "go.sum"), open(os.path.join(REPO, "go.sum")).read() +
                         (open(os.path.join(HARNESS, "go.sum.extra")).read() if os.path.exists(os.path.join(HARNESS, "go.sum.extra")) else ""))
    except OSError:
        pass
    tags = "verif faketime" if faketime else "verif"
    out = os.path.join(BIN, name + ("_ft" if faketime else ""))
    env = dict(GOENV)
    if faketime:
        env["CGO_ENABLED"] = "0"
    rc, txt = sh(["go", "build", "-tags", tags, "-o", out, "./cmd/" + name], cwd=HARNESS, env=env, timeout=900)
    if rc != 0:
        return None, txt
    return out, ""


def _dump_one(path):
    """Builds and runs a dumpconsts binary made of main.go + one consts_<id>.go. Returns (id, text, err)."""
    cid = os.path.basename(path)[len("consts_"):-3]
    out = os.path.join(BIN, "dumpconsts_" + cid)
    cmd = ["go", "build", "-tags", "verif", "-o", out, "./cmd/dumpconsts/main.go", "./cmd/dumpconsts/" + os.path.basename(path)]
    rc, txt = sh(cmd, cwd=HARNESS, env=GOENV, timeout=900)
    if rc != 0 and "no such file or directory" in txt and "could not import" in txt:
        rc, txt = sh(cmd, cwd=HARNESS, env=GOENV, timeout=900)     # transient build-cache hiccup: one retry
    if rc != 0:
        return cid, "", "consts_%s.go does not build against /repo (hooks on):\n%s" % (cid, txt[-1500:])
    rc, txt = sh([out], timeout=300)
    if rc != 0:
        return cid, "", "dumpconsts for %s failed (exit %s):\n%s" % (cid, rc, txt[-1500:])
    return cid, txt, ""


def regen_consts(pid=None):
    """Regenerates coq/gen/Consts.v from /repo: one small binary per harness/cmd/dumpconsts/consts_<id>.go, so that a
    property whose hooks no longer build (or whose behavioural probes crash on the current tree) loses only ITS constants;
    the Coq files that need them then fail to compile, and only the properties depending on them are affected.
    Returns (error text for this property's own constants or '', notes about other properties' constants)."""
    from concurrent.futures import ThreadPoolExecutor
    os.makedirs(BIN, exist_ok=True)
    try:
        write_if_changed(os.path.join(HARNESS, "go.sum"), open(os.path.join(REPO, "go.sum")).read())
    except OSError:
        pass
    files = sorted(glob.glob(os.path.join(HARNESS, "cmd", "dumpconsts", "consts_*.go")))
    with ThreadPoolExecutor(max_workers=8) as ex:
        results = list(ex.map(_dump_one, files))
    defs, lists, own_err, notes = {}, {}, "", []
    for cid, txt, err in results:
        if err:
            if pid and cid.lower() == pid.lower():
                own_err = err
            else:
                notes.append(err[:600])
            continue
        for line in txt.splitlines():
            m = re.match(r"Definition (\S+) : (Z|list Z) := (.*)\.$", line)
            if m:
                (lists if m.group(2) == "list Z" else defs)[m.group(1)] = line
    lines = ["(* GENERATED by harness/cmd/dumpconsts from /repo on every run. Do not edit. *)",
             "From Coq Require Import ZArith List.", "Import ListNotations.", "Open Scope Z_scope."]
    lines += [defs[k] for k in sorted(defs)] + [lists[k] for k in sorted(lists)]
    write_if_changed(os.path.join(COQ, "gen", "Consts.v"), "\n".join(lines) + "\n")
    return own_err, notes


TRANSLATED_STUB = ("(* GENERATED stub: harness/cmd/go2coq could not run on the current tree; no function is translated. *)\n"
                   "From Coq Require Import ZArith Bool.\nFrom M.base Require Import MiniGo.\nOpen Scope Z_scope.\n")


def regen_translated():
    """Regenerates coq/gen/Translated.v from /repo's current source with harness/cmd/go2coq (the translator of the
    pure integer fragment). A function that no longer translates is omitted from the file, so exactly the proofs that
    mention it stop compiling; if the translator itself cannot run, the file becomes a stub without definitions
    (never a stale copy). Returns a list of notes (empty when every registered function translated)."""
    os.makedirs(BIN, exist_ok=True)
    out = os.path.join(BIN, "go2coq")
    target = os.path.join(COQ, "gen", "Translated.v")
    rc, txt = sh(["go", "build", "-o", out, "./cmd/go2coq"], cwd=HARNESS, env=GOENV, timeout=900)
    if rc != 0:
        write_if_changed(target, TRANSLATED_STUB)
        return ["go2coq does not build: " + txt[-800:]]
    rc, txt = sh([out, "-repo", REPO, "-out", target], env=GOENV, timeout=900)
    if rc not in (0, 1) or not os.path.exists(target):
        write_if_changed(target, TRANSLATED_STUB)
        return ["go2coq failed (exit %s): %s" % (rc, txt[-800:])]
    return [l[:600] for l in txt.splitlines() if l.startswith("NOT TRANSLATED")]


def coq_project():
    files = []
    for d in ("base", "gen", "model", "proofs", "props"):
        files += sorted(os.path.relpath(p, COQ) for p in glob.glob(os.path.join(COQ, d, "*.v")))
    if "gen/Consts.v" not in files:
        files.append("gen/Consts.v")
    content = "-Q . M\n-arg -w -arg -notation-overridden,-deprecated-hint-without-locality,-deprecated-instance-without-locality\n" + "\n".join(files) + "\n"
    changed = write_if_changed(os.path.join(COQ, "_CoqProject"), content)
    if changed or not os.path.exists(os.path.join(COQ, "Makefile")):
        rc, txt = sh(["coq_makefile", "-f", "_CoqProject", "-o", "Makefile"], cwd=COQ)
        if rc != 0:
            raise RuntimeError("coq_makefile failed: " + txt)


def coq_make(targets, timeout=2400):
    coq_project()
    return sh(["make", "-k", "-j", NPROC] + list(targets), cwd=COQ, timeout=timeout)


THEOREM_RE = re.compile(r"^\s*(?:Theorem|Lemma|Corollary)\s+([A-Za-z0-9_']+)", re.M)


def coqchk(pid, timeout=1700):
    """Independent re-check of props/<pid>.vo and everything it depends on (thorough tier). Returns (ok, summary)."""
    rc, out = sh(["coqchk", "-silent", "-o", "-Q", ".", "M", "M.props." + pid], cwd=COQ, timeout=timeout)
    tail = out[-3000:]
    m = re.search(r"CONTEXT SUMMARY(.*)", out, re.S)
    summary = " ".join((m.group(1) if m else tail).split())[:2500]
    return rc == 0, summary


def check_props(pid):
    """Builds props/<pid>.vo's dependencies, re-runs coqc on props/<pid>.v.
    Returns dict(obligations=[names], discharged=[names], failed={name: why}, assumptions={name: text}, log=str, cmd=str)."""
    src_path = os.path.join(COQ, "props", pid + ".v")
    src = strip_comments(open(src_path).read())
    names = THEOREM_RE.findall(src)
    printed = re.findall(r"Print\s+Assumptions\s+([A-Za-z0-9_']+)", src)
    res = dict(obligations=names, discharged=[], failed={}, assumptions={}, log="",
               cmd="cd /verif/coq && make -k -j%s props/%s.vo && coqc -Q . M props/%s.v  (coq_makefile project, full .vo build; Coq 8.16.1)" % (NPROC, pid, pid))
    rc, out = coq_make(["props/%s.vo" % pid])
    res["log"] = out[-6000:]
    if rc != 0:
        m = re.findall(r'File "\./([^"]+)", line (\d+)[^\n]*\n((?:.*\n){0,6})', out)
        why = "make failed: " + ("; ".join("%s:%s %s" % (f, l, " ".join(t.split())[:200]) for f, l, t in m[:3]) or out[-400:])
        for n in names:
            res["failed"][n] = why
        return res
    os.makedirs(os.path.join(WORK, "props"), exist_ok=True)
    rc, out = sh(["coqc", "-Q", ".", "M", "-noglob", "-o", os.path.join(WORK, "props", "%s.vo" % pid), "props/%s.v" % pid], cwd=COQ, timeout=900)
    res["log"] += out[-6000:]
    if rc != 0:
        for n in names:
            res["failed"][n] = "coqc props/%s.v failed: %s" % (pid, " ".join(out.split())[-300:])
        return res
    # Print Assumptions outputs appear in file order
    blocks = re.split(r"(?=Closed under the global context|Axioms:)", out)
    blocks = [b.strip() for b in blocks if b.strip().startswith(("Closed under", "Axioms:"))]
    for i, n in enumerate(printed):
        res["assumptions"][n] = blocks[i] if i < len(blocks) else "(no output)"
    for n in names:
        a = res["assumptions"].get(n)
        if a is None:
            res["failed"][n] = "no Print Assumptions for this theorem in props/%s.v" % pid
        elif a.startswith("Closed under the global context"):
            res["discharged"].append(n)
        else:
            axs = re.findall(r"^([A-Za-z0-9_.']+)\s*:", a, re.M)
            bad = [x for x in axs if x.split(".")[-1] not in {y.split(".")[-1] for y in ALLOWED_AXIOMS}]
            if bad:
                res["failed"][n] = "depends on axioms outside the allowed list: " + ", ".join(bad)
            else:
                res["discharged"].append(n)
    return res


def ocaml_build(pid, model_vos):
    """Extracts coq/extract/Extract<pid>.v and builds .work/bin/<pid>_model. Returns (binary, err)."""
    low = pid.lower()
    d = os.path.join(WORK, "ocaml", low)
    os.makedirs(d, exist_ok=True)
    with Lock("coq"):   # Consts.v may be regenerated by a concurrent check: make + extraction are one critical section
        rc, out = coq_make(["base/ExtractBase.vo", "gen/Consts.vo"] + list(model_vos))
        if rc != 0:
            return None, "model does not compile:\n" + out[-3000:]
        rc, out = sh(["coqc", "-Q", COQ, "M", "-noglob", "-o", os.path.join(d, "Extract%s.vo" % pid),
                      os.path.join(COQ, "extract", "Extract%s.v" % pid)], cwd=d, timeout=900)
        if rc != 0:
            return None, "extraction failed:\n" + out[-3000:]
    shutil.copy(os.path.join(VERIF, "ocaml", "common.ml"), os.path.join(d, "common.ml"))
    shutil.copy(os.path.join(VERIF, "ocaml", low + "_run.ml"), os.path.join(d, "run.ml"))
    binp = os.path.join(BIN, low + "_model")
    os.makedirs(BIN, exist_ok=True)
    rc, out = sh(["ocamlfind", "ocamlopt", "-O2", "-w", "-a", "-package", "str", "-linkpkg", "model.mli", "model.ml", "common.ml", "run.ml", "-o", binp],
                 cwd=d, timeout=900)
    if rc != 0:
        return None, "ocaml build failed:\n" + out[-3000:]
    return binp, ""


# ----------------------------------------------------------------------------- running a driver pair

class DriverResult:
    def __init__(self, name):
        self.name = name
        self.report = dict(evaluations=0, distinct_nontrivial=0, rule="", samples=[], distribution={}, oracle_failures=[], exhaustive=False)
        self.mismatches = []       # correspondence differences [{line, case, impl, model}]
        self.error = ""            # machinery / build problem (treated as 'correspondence no longer checks')
        self.compared = 0


def run_pair(ctx, go_name, pid, model_vos, faketime=False, extra_args=(), tier=None, seed=None, subdir=None, timeout=1500,
             model_args=()):
    """Standard correspondence run: Go driver writes cases.txt/impl.txt/report.json, the extracted model
    runner reads cases.txt (and impl.txt) and prints model.txt; lines are compared one by one."""
    tier = tier or ctx.tier
    seed = ctx.seed if seed is None else seed
    res = DriverResult(go_name)
    out = os.path.join(WORK, pid, subdir or go_name)
    shutil.rmtree(out, ignore_errors=True)
    os.makedirs(out, exist_ok=True)
    gobin, err = go_build(go_name, faketime)
    if not gobin:
        res.error = "driver %s does not build against /repo with hooks on:\n%s" % (go_name, err[-3000:])
        return res
    env = dict(GOENV)
    if faketime:
        env["GOMAXPROCS"] = "2"
    t0 = time.time()
    rc, txt = sh([gobin, "-seed", str(seed), "-tier", tier, "-out", out] + list(extra_args), cwd=out, env=env, timeout=timeout)
    ctx.log("driver %s seed=%s tier=%s rc=%s %.1fs" % (go_name, seed, tier, rc, time.time() - t0))
    rp = os.path.join(out, "report.json")
    if os.path.exists(rp):
        res.report = json.load(open(rp))
    if rc != 0:
        # a crash of the driver is reported by the driver itself as an oracle failure where it can
        # (child processes); an unexpected exit is a machinery problem
        res.error = "driver %s exited with %s:\n%s" % (go_name, rc, txt[-3000:])
        return res
    if model_vos is None:
        return res
    with Lock("ocaml_" + pid):
        mbin, err = ocaml_build(pid, model_vos)
    if not mbin:
        res.error = err
        return res
    t0 = time.time()
    with open(os.path.join(out, "model.txt"), "w") as mf:
        try:
            p = subprocess.run([mbin] + list(model_args) + [os.path.join(out, "cases.txt"), os.path.join(out, "impl.txt")], stdout=mf,
                               stderr=subprocess.PIPE, timeout=timeout)
            if p.returncode != 0:
                res.error = "model runner failed: " + p.stderr.decode("utf-8", "replace")[-2000:]
                return res
        except subprocess.TimeoutExpired:
            res.error = "model runner timed out"
            return res
    ctx.log("model %s %.1fs" % (pid, time.time() - t0))
    cases = open(os.path.join(out, "cases.txt")).read().splitlines()
    impl = open(os.path.join(out, "impl.txt")).read().splitlines()
    model = open(os.path.join(out, "model.txt")).read().splitlines()
    n = max(len(impl), len(model))
    for i in range(n):
        a = impl[i] if i < len(impl) else "<missing>"
        b = model[i] if i < len(model) else "<missing>"
        if a != b:
            if len(res.mismatches) < 50:
                res.mismatches.append(dict(line=i + 1, case=(cases[i] if i < len(cases) else "")[:2000], impl=a[:2000], model=b[:2000]))
            else:
                res.mismatches.append(None)
        else:
            res.compared += 1
    return res


# ----------------------------------------------------------------------------- context / decision

class Ctx:
    def __init__(self, pid, tier, seed):
        self.pid, self.tier, self.seed = pid, tier, seed
        self.t0 = time.time()
        self.logs = []

    def log(self, msg):
        self.logs.append("[%6.1fs] %s" % (time.time() - self.t0, msg))
        if os.environ.get("VERIF_VERBOSE"):
            print(self.logs[-1], file=sys.stderr)


def load_known():
    p = os.path.join(VERIF, "known_findings.json")
    if not os.path.exists(p):
        return dict(findings=[], fixed=[])
    return json.load(open(p))


def write_replay(pid, kind, payload):
    d = os.path.join(VERIF, "replay")
    os.makedirs(d, exist_ok=True)
    h = hashlib.sha1(json.dumps(payload, sort_keys=True, default=str).encode()).hexdigest()[:10]
    path = os.path.join(d, "%s_%s_%s.json" % (pid, kind, h))
    with open(path, "w") as f:
        json.dump(payload, f, indent=1, default=str)
    return path


def run_check(pid, tier, seed):
    ctx = Ctx(pid, tier, seed)
    mod = importlib.import_module("checks." + pid.lower())
    problems = []          # things that no longer check (obligations, correspondence, machinery)

    lint_problems = lint()
    for p in lint_problems:
        problems.append(dict(kind="lint", what=p))

    chk = None
    with Lock("coq"):
        err, const_notes = regen_consts(pid)
        if err:
            problems.append(dict(kind="consts", what=err))
        xl_notes = regen_translated()
        const_notes = const_notes + xl_notes
        if xl_notes and getattr(mod, "USES_TRANSLATED", False):
            problems.append(dict(kind="translate", what="; ".join(xl_notes)[:1500]))
        props = check_props(pid)
        if tier == "thorough" and not props["failed"] and not os.environ.get("VERIF_NO_COQCHK"):
            # same critical section as the build: a concurrent check may regenerate Consts.v
            ok, summary = coqchk(pid)
            chk = dict(ok=ok, summary=summary)
    for n, why in props["failed"].items():
        problems.append(dict(kind="obligation", theorem=n, what=why))
    ctx.log("coq: %d/%d obligations discharged" % (len(props["discharged"]), len(props["obligations"])))
    if chk is not None:
        ctx.log("coqchk: %s" % ("ok" if chk["ok"] else "FAILED"))
        if not chk["ok"]:
            problems.append(dict(kind="obligation", theorem="coqchk M.props." + pid, what="coqchk rejected the compiled development: " + chk["summary"][-600:]))

    results = mod.run(ctx)
    failures = []
    for r in results:
        if r.error:
            problems.append(dict(kind="correspondence", driver=r.name, what=r.error))
        if r.mismatches:
            problems.append(dict(kind="correspondence", driver=r.name,
                                 what="%d case(s) where model and implementation differ" % len(r.mismatches),
                                 first=[m for m in r.mismatches if m][:5]))
        for f in r.report.get("oracle_failures", []):
            failures.append(dict(driver=r.name, seed=seed, tier=tier, **f))

    # a broken obligation or correspondence: enlarge the search for a failing input on the implementation
    if problems and not failures and hasattr(mod, "search"):
        ctx.log("something no longer checks; enlarging the search")
        for r in mod.search(ctx):
            for f in r.report.get("oracle_failures", []):
                failures.append(dict(driver=r.name, seed=seed, tier="search", **f))
            results.append(r)

    known = load_known()
    known_sigs = {(k["property"], k["sig"]): k for k in known.get("findings", [])}
    lines, violation_failures, seen_known = [], [], {}
    for f in failures:
        k = known_sigs.get((pid, f["sig"]))
        if k:
            seen_known.setdefault(f["sig"], k)
        else:
            violation_failures.append(f)
    for sig, k in seen_known.items():
        lines.append("KNOWN-FINDING: property=%s %s [%s]" % (pid, k["what"], sig))

    exit_code = 0
    if violation_failures:
        by_sig = {}
        for f in violation_failures:
            by_sig.setdefault(f["sig"], f)
        for sig, f in by_sig.items():
            path = write_replay(pid, "fail", dict(property=pid, kind="failing-input", sig=sig, what=f["what"], driver=f["driver"],
                                                  seed=f["seed"], tier=f["tier"], case=f["case"], also_no_longer_checks=problems))
            lines.append("VIOLATION property=%s replay=%s" % (pid, path))
        exit_code = 1
    elif problems:
        path = write_replay(pid, "unproved", dict(property=pid, kind="no-longer-checks", seed=seed, tier=tier, problems=problems,
                                                   note="no input was found on which the implementation itself violates the property; the listed theorem(s) / correspondence no longer check"))
        lines.append("VIOLATION property=%s replay=%s no-failing-input-found" % (pid, path))
        exit_code = 1

    # evidence
    ev_total = sum(r.report.get("evaluations", 0) for r in results)
    dn_total = sum(r.report.get("distinct_nontrivial", 0) for r in results)
    samples = []
    for n in props["obligations"][:40]:
        samples.append(dict(obligation=n, assumptions=props["assumptions"].get(n, props["failed"].get(n, ""))[:300]))
    for r in results:
        for s in r.report.get("samples", [])[:4]:
            samples.append(dict(driver=r.name, sample=s))
    coverage = dict(
        obligations=len(props["obligations"]), discharged=len(props["discharged"]),
        checker_cmd=props["cmd"], trusted_base=TRUSTED_BASE + getattr(mod, "TRUSTED_EXTRA", []),
        theorems=props["obligations"], undischarged=props["failed"],
        evaluations=ev_total, distinct_nontrivial=dn_total,
        rule=" || ".join("%s: %s" % (r.name, r.report.get("rule", "")) for r in results),
        samples=samples,
        exhaustive=bool(results) and all(r.report.get("exhaustive") for r in results),
        drivers=[dict(name=r.name, evaluations=r.report.get("evaluations", 0), distinct_nontrivial=r.report.get("distinct_nontrivial", 0),
                      compared_with_model=r.compared, mismatches=len(r.mismatches), exhaustive=r.report.get("exhaustive", False),
                      distribution=r.report.get("distribution", {}), notes=r.report.get("notes", {}), error=r.error[:500]) for r in results],
        oracle_failures=len(failures), known_findings_seen=sorted(seen_known),
        coqchk=chk if chk else "not run in this tier (thorough only: coqchk -silent -o -Q . M M.props.%s)" % pid,
        lint_problems=lint_problems, consts_notes=const_notes,
    )
    evidence = dict(property_id=pid, tier=tier, seed=seed, level="proof", coverage=coverage,
                    assumptions=getattr(mod, "ASSUMPTIONS", []), wall_s=round(time.time() - ctx.t0, 2),
                    violations=len(violation_failures) + (1 if (problems and not violation_failures) else 0))
    os.makedirs(os.path.join(VERIF, "evidence"), exist_ok=True)
    with open(os.path.join(VERIF, "evidence", pid + ".json"), "w") as f:
        json.dump(evidence, f, indent=1, default=str)

    for l in ctx.logs:
        print(l, file=sys.stderr)
    print("%s tier=%s seed=%s: obligations %d/%d, cases %d (compared %d), oracle failures %d, problems %d, %.1fs" % (
        pid, tier, seed, len(props["discharged"]), len(props["obligations"]), ev_total,
        sum(r.compared for r in results), len(failures), len(problems), time.time() - ctx.t0))
    for p in problems:
        print("  no-longer-checks: %s" % json.dumps(p, default=str)[:600])
    for l in lines:
        print(l)
    return exit_code


def setup():
    os.makedirs(WORK, exist_ok=True)
    t0 = time.time()
    lp = lint()
    if lp:
        print("lint problems:\n  " + "\n  ".join(lp))
        return 1
    with Lock("coq"):
        err, notes = regen_consts()
        notes = notes + regen_translated()
        if err or notes:
            print(err, "\n".join(notes))
            return 1
        rc, out = coq_make([], timeout=3000)
        if rc != 0:
            print(out[-5000:])
            return 1
    for d in sorted(glob.glob(os.path.join(HARNESS, "cmd", "*"))):
        name = os.path.basename(d)
        b, err = go_build(name)
        if not b:
            print("go build %s failed:\n%s" % (name, err))
            return 1
        if os.path.exists(os.path.join(d, ".faketime")):
            b, err = go_build(name, faketime=True)
            if not b:
                print("go build (faketime) %s failed:\n%s" % (name, err))
                return 1
    for f in sorted(glob.glob(os.path.join(VERIF, "checks", "c*.py"))):
        mod = importlib.import_module("checks." + os.path.basename(f)[:-3])
        if getattr(mod, "MODEL_VOS", None) is not None:
            b, err = ocaml_build(mod.PID, mod.MODEL_VOS)
            if not b:
                print("ocaml build %s failed:\n%s" % (mod.PID, err))
                return 1
    print("setup ok in %.0fs" % (time.time() - t0))
    return 0


def replay(pid, path):
    data = json.load(open(path))
    print(json.dumps(data, indent=1)[:6000])
    if data.get("kind") == "failing-input":
        mod = importlib.import_module("checks." + pid.lower())
        if hasattr(mod, "replay"):
            return mod.replay(Ctx(pid, data.get("tier", "quick"), int(data.get("seed", 1))), data)
        print("re-running the drivers with the recorded seed and tier")
        return run_check(pid, data.get("tier", "quick") if data.get("tier") in ("quick", "thorough") else "thorough", int(data.get("seed", 1)))
    return 0


def main():
    args = sys.argv[1:]
    if not args or args[0] in ("-h", "--help"):
        print("usage: check --setup | check Cxx [--tier quick|thorough] [--replay file]")
        return 2
    if args[0] == "--setup":
        return setup()
    pid = args[0].upper()
    tier = os.environ.get("VERIF_TIER", "quick")
    rp = None
    i = 1
    while i < len(args):
        if args[i] == "--tier":
            tier = args[i + 1]
            i += 2
        elif args[i] == "--replay":
            rp = args[i + 1]
            i += 2
        else:
            i += 1
    if tier not in ("quick", "thorough"):
        tier = "quick"
    try:
        seed = int(os.environ.get("VERIF_SEED", "1"))
    except ValueError:
        seed = 1
    if rp:
        return replay(pid, rp)
    return run_check(pid, tier, seed)
