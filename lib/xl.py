"""Validation of the translator harness/cmd/go2coq and search for an input on which the translated source and the
model differ (used by the checks whose props file has Cxx_source_* theorems; see docs/HOWTO.md "Translator").

xl_pair(ctx, group)            correspondence run  real Go function  vs  translated Gallina definition (extracted), same
                               case lines; a mismatch means the translator / MiniGo.v semantics / go/types constants are
                               wrong.  On the same case lines the translated definition is also compared with the MODEL
                               function it is proved equal to (inside the range of that theorem); the first difference per
                               function becomes an oracle failure  source-differs-from-model-<function>  with the concrete
                               arguments, i.e. a VIOLATION with a replayable input.
xl_search(ctx, group)          the same in a larger configuration (thorough tier of the driver, other seeds).
"""
import os
import subprocess

from vlib import BIN, WORK, run_pair

XL_TRUSTED = ("for the Cxx_source_* theorems only: harness/cmd/go2coq (translator of the pure integer fragment of the Go source into "
              "coq/gen/Translated.v, regenerated on every run), go/types over the compiler's export data (types, constant values) and "
              "coq/base/MiniGo.v's reading of Go's integer semantics (wrap-around per type, truncated division, shifts, 64-bit int); "
              "validated on every run by driver xl: real Go function vs extracted translated definition on the same boundary and random inputs")

XL_PID = "XL"        # names coq/extract/ExtractXL.v, ocaml/xl_run.ml, .work/bin/xl_model, .work/XL/<subdir>
XL_VOS = ["base/MiniGo.vo", "gen/Translated.vo", "base/Bits64.vo", "model/Sizes.vo", "model/LowEntropy.vo", "model/Wire.vo", "model/KeyTime.vo"]


def _source_vs_model(res, out):
    """Runs the extracted runner again in -model mode and turns differences translated/model into oracle failures."""
    mbin = os.path.join(BIN, XL_PID.lower() + "_model")
    cases_p, xl_p = os.path.join(out, "cases.txt"), os.path.join(out, "model.txt")
    if res.error or not (os.path.exists(mbin) and os.path.exists(cases_p) and os.path.exists(xl_p)):
        return
    try:
        p = subprocess.run([mbin, "-model", cases_p, os.path.join(out, "impl.txt")], stdout=subprocess.PIPE, stderr=subprocess.PIPE, timeout=1500)
    except subprocess.TimeoutExpired:
        res.error = "xl runner (-model) timed out"
        return
    if p.returncode != 0:
        res.error = "xl runner (-model) failed: " + p.stderr.decode("utf-8", "replace")[-1500:]
        return
    with open(os.path.join(out, "modelfn.txt"), "wb") as f:
        f.write(p.stdout)
    cases = open(cases_p).read().splitlines()
    xl = open(xl_p).read().splitlines()
    mf = p.stdout.decode().splitlines()
    seen, compared, differ = set(), 0, 0
    fails = res.report.setdefault("oracle_failures", [])
    for c, a, b in zip(cases, xl, mf):
        if b == "-":
            continue
        compared += 1
        if a != b:
            differ += 1
            fn = c.split(" ", 1)[0]
            if fn not in seen:      # one per function, in front of whatever the driver's own oracle reported
                seen.add(fn)
                fails.insert(len(seen) - 1, dict(sig="source-differs-from-model-" + fn,
                                  what="the Go source of %s (translated by go2coq) returns %s where the model function it is proved equal to returns %s" % (fn, a, b),
                                  case=dict(function=fn, args=c.split(" ")[1:], source=a, model=b, case_line=c)))
    res.report.setdefault("notes", {})["source_vs_model"] = "%d cases inside the theorems' ranges compared, %d differ" % (compared, differ)


def xl_pair(ctx, group, tier=None, seed=None, subdir=None, extra=()):
    subdir = subdir or group
    res = run_pair(ctx, "xl", XL_PID, XL_VOS, extra_args=["-group", group] + list(extra), tier=tier, seed=seed, subdir=subdir)
    res.name = "xl(%s)" % group
    _source_vs_model(res, os.path.join(WORK, XL_PID, subdir))
    return res


def xl_search(ctx, group, rounds=1):
    return [xl_pair(ctx, group, tier="thorough", seed=ctx.seed + 2000 + i, subdir="%s_search%d" % (group, i)) for i in range(rounds)]
