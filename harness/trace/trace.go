// Package trace turns a simnet event log into decoded mieru segments, using the
// independent reference codec (refcodec) and the known credentials of the scenario.
package trace

import (
	"time"

	"verifharness/refcodec"
	"verifharness/simnet"
)

type Cred struct{ User, Pass string }

func keysFor(creds []Cred, at time.Time) (keys [][]byte, owner map[string]string) {
	owner = map[string]string{}
	for _, c := range creds {
		hp := refcodec.HashedPassword(c.User, c.Pass)
		for _, k := range refcodec.KeysAt(hp, at) {
			keys = append(keys, k)
			owner[string(k)] = c.User
		}
	}
	return
}

// Dir is one direction of a TCP connection.
type Dir struct {
	Src, Dst string
	Bytes    []byte             // every byte written by the sender, in order
	Writes   []int              // size of each Write call
	WriteAt  []int              // event index of each Write call
	Segs     []refcodec.Segment // decoded segments (prefix that decoded)
	SegEnd   []int              // stream offset just after each decoded segment
	Err      error              // decoder error, if any
	Left     int                // undecoded trailing bytes
	User     string             // user whose key opened the stream ("" = none)
}

type TCPConn struct {
	ID       int
	DialAt   int64
	C2S, S2C Dir
}

// TCP decodes every simulated TCP connection of the log.
func TCP(events []simnet.Event, creds []Cred) []*TCPConn {
	byID := map[int]*TCPConn{}
	var order []*TCPConn
	for i, e := range events {
		switch e.Kind {
		case "tcp-dial":
			c := &TCPConn{ID: e.Conn, DialAt: e.T}
			c.C2S.Src, c.C2S.Dst = e.Src, e.Dst
			c.S2C.Src, c.S2C.Dst = e.Dst, e.Src
			byID[e.Conn] = c
			order = append(order, c)
		case "tcp-write":
			c := byID[e.Conn]
			if c == nil {
				continue
			}
			d := &c.S2C
			if e.Src == c.C2S.Src {
				d = &c.C2S
			}
			d.Bytes = append(d.Bytes, e.Data...)
			d.Writes = append(d.Writes, len(e.Data))
			d.WriteAt = append(d.WriteAt, i)
		}
	}
	for _, c := range order {
		keys, owner := keysFor(creds, time.Unix(0, c.DialAt))
		for _, d := range []*Dir{&c.C2S, &c.S2C} {
			dec := refcodec.NewStreamDecoder(keys)
			// feed write by write so that SegEnd offsets are exact
			off := 0
			for _, w := range d.Writes {
				segs, err := dec.Feed(d.Bytes[off : off+w])
				off += w
				for range segs {
					d.SegEnd = append(d.SegEnd, 0)
				}
				d.Segs = append(d.Segs, segs...)
				if err != nil {
					d.Err = err
					break
				}
			}
			// recompute exact ends from wire lengths
			pos := 0
			for i := range d.Segs {
				pos += d.Segs[i].WireLen
				d.SegEnd[i] = pos
			}
			d.Left = dec.Buffered()
			if k := dec.Key(); k != nil {
				d.User = owner[string(k)]
			}
		}
	}
	return order
}

// UDPEvent is one send / recv / drop of a datagram with its decoded content.
type UDPEvent struct {
	Idx      int
	T        int64
	Kind     string // send, recv, drop
	Src, Dst string
	ID       int
	Raw      []byte
	Seg      *refcodec.Segment // nil when no credential opens it
	User     string
	Note     string
}

// UDP decodes every datagram event of the log.
func UDP(events []simnet.Event, creds []Cred) []UDPEvent {
	var out []UDPEvent
	cache := map[int]*refcodec.Segment{}
	users := map[int]string{}
	raw := map[int][]byte{}
	for i, e := range events {
		var kind string
		switch e.Kind {
		case "udp-send":
			kind = "send"
		case "udp-recv":
			kind = "recv"
		case "udp-drop":
			kind = "drop"
		default:
			continue
		}
		ev := UDPEvent{Idx: i, T: e.T, Kind: kind, Src: e.Src, Dst: e.Dst, ID: e.ID, Raw: e.Data, Note: e.Note}
		if kind == "drop" {
			ev.Raw = raw[e.ID]
			ev.Seg, ev.User = cache[e.ID], users[e.ID]
			out = append(out, ev)
			continue
		}
		same := kind == "recv" && raw[e.ID] != nil && string(raw[e.ID]) == string(e.Data)
		if same {
			ev.Seg, ev.User = cache[e.ID], users[e.ID]
		} else {
			keys, owner := keysFor(creds, time.Unix(0, e.T))
			seg, key, err := refcodec.DecodeDatagram(keys, e.Data)
			if err == nil {
				s := seg
				ev.Seg = &s
				ev.User = owner[string(key)]
			}
			if kind == "send" {
				cache[e.ID], users[e.ID], raw[e.ID] = ev.Seg, ev.User, e.Data
			}
		}
		out = append(out, ev)
	}
	return out
}
