// Package vh holds helpers shared by the verification harness drivers:
// a splitmix64 PRNG (every random choice of a run derives from VERIF_SEED),
// line-oriented case/observation writers and the oracle report.
package vh

import (
	"bufio"
	"encoding/hex"
	"encoding/json"
	"flag"
	"fmt"
	"os"
	"path/filepath"
	"sort"
)

type Rng struct{ s uint64 }

func NewRng(seed uint64) *Rng { return &Rng{s: seed*0x9E3779B97F4A7C15 + 0x1234567} }

func (r *Rng) U64() uint64 {
	r.s += 0x9E3779B97F4A7C15
	z := r.s
	z = (z ^ (z >> 30)) * 0xBF58476D1CE4E5B9
	z = (z ^ (z >> 27)) * 0x94D049BB133111EB
	return z ^ (z >> 31)
}

// Intn returns a value in [0,n).
func (r *Rng) Intn(n int) int {
	if n <= 0 {
		return 0
	}
	return int(r.U64() % uint64(n))
}

func (r *Rng) I64n(n int64) int64 {
	if n <= 0 {
		return 0
	}
	return int64(r.U64() % uint64(n))
}

// Range returns a value in [lo,hi].
func (r *Rng) Range(lo, hi int) int { return lo + r.Intn(hi-lo+1) }

func (r *Rng) Bool() bool { return r.U64()&1 == 1 }

func (r *Rng) Bytes(n int) []byte {
	b := make([]byte, n)
	for i := 0; i < n; i += 8 {
		v := r.U64()
		for j := 0; j < 8 && i+j < n; j++ {
			b[i+j] = byte(v >> (8 * j))
		}
	}
	return b
}

// Fork derives an independent generator (per-case sub-seed).
func (r *Rng) Fork() *Rng { return NewRng(r.U64()) }

// Hex renders bytes for a case line; "-" stands for the empty string.
func Hex(b []byte) string {
	if len(b) == 0 {
		return "-"
	}
	return hex.EncodeToString(b)
}

func UnHex(s string) []byte {
	if s == "-" {
		return nil
	}
	b, err := hex.DecodeString(s)
	if err != nil {
		panic(err)
	}
	return b
}

// Failure is one case on which the implementation itself violates the property (oracle verdict).
type Failure struct {
	Sig  string      `json:"sig"`  // cause signature used for known-finding matching
	What string      `json:"what"` // human readable
	Case interface{} `json:"case"` // concrete replayable input
}

// Report is what a driver leaves for the python driver in <out>/report.json.
type Report struct {
	Driver             string            `json:"driver"`
	Evaluations        int               `json:"evaluations"`
	DistinctNontrivial int               `json:"distinct_nontrivial"`
	Rule               string            `json:"rule"`
	Samples            []interface{}     `json:"samples"`
	Exhaustive         bool              `json:"exhaustive"`
	Distribution       map[string]int    `json:"distribution"`
	OracleFailures     []Failure         `json:"oracle_failures"`
	Notes              map[string]string `json:"notes,omitempty"`
	distinct           map[string]bool
}

// Run bundles the output files of one driver invocation.
type Run struct {
	Seed  uint64
	Tier  string
	Out   string
	Rng   *Rng
	cases *bufio.Writer
	impl  *bufio.Writer
	files []*os.File
	Rep   Report
	NCase int
}

// Start parses the common flags (-seed -tier -out) and opens cases.txt / impl.txt.
func Start(driver string) *Run {
	seed := flag.Uint64("seed", 1, "PRNG seed")
	tier := flag.String("tier", "quick", "quick|thorough")
	out := flag.String("out", ".", "output directory")
	flag.Parse()
	r := &Run{Seed: *seed, Tier: *tier, Out: *out, Rng: NewRng(*seed)}
	os.MkdirAll(*out, 0o755)
	cf, err := os.Create(filepath.Join(*out, "cases.txt"))
	if err != nil {
		panic(err)
	}
	inf, err := os.Create(filepath.Join(*out, "impl.txt"))
	if err != nil {
		panic(err)
	}
	r.files = []*os.File{cf, inf}
	r.cases = bufio.NewWriterSize(cf, 1<<20)
	r.impl = bufio.NewWriterSize(inf, 1<<20)
	r.Rep.Driver = driver
	r.Rep.Distribution = map[string]int{}
	r.Rep.distinct = map[string]bool{}
	return r
}

func (r *Run) Thorough() bool { return r.Tier == "thorough" }

// Case writes one case line and the implementation's observation for it.
func (r *Run) Case(caseLine, implLine string) {
	fmt.Fprintln(r.cases, caseLine)
	fmt.Fprintln(r.impl, implLine)
	r.NCase++
	r.Rep.Evaluations++
	if len(r.Rep.Samples) < 6 && (r.NCase%97 == 1) {
		r.Rep.Samples = append(r.Rep.Samples, map[string]string{"case": trunc(caseLine), "impl": trunc(implLine)})
	}
}

func trunc(s string) string {
	if len(s) > 300 {
		return s[:300] + "..."
	}
	return s
}

// Count adds to the input distribution.
func (r *Run) Count(key string) { r.Rep.Distribution[key]++ }

// Distinct records a non-trivial class key; distinct_nontrivial = number of distinct keys.
func (r *Run) Distinct(key string) { r.Rep.distinct[key] = true }

func (r *Run) Fail(sig, what string, c interface{}) {
	if len(r.Rep.OracleFailures) < 200 {
		r.Rep.OracleFailures = append(r.Rep.OracleFailures, Failure{Sig: sig, What: what, Case: c})
	}
}

func (r *Run) Finish() {
	r.cases.Flush()
	r.impl.Flush()
	for _, f := range r.files {
		f.Close()
	}
	r.Rep.DistinctNontrivial = len(r.Rep.distinct)
	if r.Rep.OracleFailures == nil {
		r.Rep.OracleFailures = []Failure{}
	}
	if r.Rep.Samples == nil {
		r.Rep.Samples = []interface{}{}
	}
	keys := make([]string, 0, len(r.Rep.Distribution))
	for k := range r.Rep.Distribution {
		keys = append(keys, k)
	}
	sort.Strings(keys)
	b, _ := json.MarshalIndent(r.Rep, "", " ")
	if err := os.WriteFile(filepath.Join(r.Out, "report.json"), b, 0o644); err != nil {
		panic(err)
	}
}
