// Management events for the probe mode of the C05 driver: the set of registered credentials is not a constant
// of a run.  The operator reloads the user list (Mux.SetServerUsers), and the list itself may contain entries
// that must not become credentials (no secret, damaged hash, duplicate or oversized names).
//
//	reload histories   the prober's user removed / all users removed / all users replaced / the user re-added
//	                   with another password / unchanged / every entry unusable, alone and in sequences, and with
//	                   the last reload placed between the TCP connect and the first byte; afterwards handshakes
//	                   sealed with the REMOVED credential must meet the silence a never-registered credential meets.
//	configurations     entries with an empty password, an empty hashed password, both, a name only, a nil record,
//	                   a hash that is not 32 bytes of hexadecimal, duplicate names, an empty or oversized name, next
//	                   to well-formed ones; a prober that knows every NAME and no secret seals with the empty
//	                   password, the name as password and digests of public strings: silence.
//
// Every published list is also a correspondence case: line "S"/"U <entries>" carries the list, the impl line is the
// table the real registry compiled (serveruser.VerifCurrent through Mux.VerifC05Registry), the model line is
// compile_users of the LAST list of the history (coq/model/UserTable.v published).
package main

import (
	"context"
	"crypto/sha256"
	"encoding/hex"
	"fmt"
	"net"
	"sort"
	"strings"
	"time"

	"github.com/enfein/mieru/v3/pkg/appctl/appctlpb"
	"github.com/enfein/mieru/v3/pkg/protocol/serveruser"
	"google.golang.org/protobuf/proto"
	"verifharness/refcodec"
	"verifharness/rig"
	"verifharness/simnet"
	"verifharness/vh"
)

// uentry is one entry of a user map handed to SetServerUsers.
type uentry struct {
	key     string // map key
	name    string
	present bool // false: the map value is a nil record
	pass    string
	hashed  string
	setPass bool // the password field is set explicitly (possibly to "")
	setHash bool
}

func ue(name, pass string) uentry {
	return uentry{key: name, name: name, present: true, pass: pass, setPass: true}
}

func toMap(es []uentry) map[string]*appctlpb.User {
	m := map[string]*appctlpb.User{}
	for _, e := range es {
		if !e.present {
			m[e.key] = nil
			continue
		}
		u := &appctlpb.User{Name: proto.String(e.name)}
		if e.setPass {
			u.Password = proto.String(e.pass)
		}
		if e.setHash {
			u.HashedPassword = proto.String(e.hashed)
		}
		m[e.key] = u
	}
	return m
}

func hx(s string) string { return vh.Hex([]byte(s)) }

func encodeEntries(es []uentry) string {
	var parts []string
	for _, e := range es {
		name, pass, hashed := e.name, e.pass, e.hashed
		if !e.present {
			name, pass, hashed = "", "", ""
		}
		parts = append(parts, fmt.Sprintf("%s:%s:%d:%s:%s", hx(e.key), hx(name), b01(e.present), hx(pass), hx(hashed)))
	}
	if len(parts) == 0 {
		return "none"
	}
	return strings.Join(parts, " ")
}

// specUser is a credential the SPECIFICATION says is registered (an independent statement of the admission rule:
// the entry is a record with a non-empty name of at most 64 bytes that no other entry carries, and a secret - a
// hashed password of exactly 32 bytes in hexadecimal, or else a non-empty password).
type specUser struct {
	name string
	cred []byte
	kind string // "P" (derived from the password) or "H<hex>"
}

func specCompile(es []uentry) []specUser {
	count := map[string]int{}
	for _, e := range es {
		n := e.name
		if !e.present {
			n = ""
		}
		count[n]++
	}
	sorted := append([]uentry(nil), es...)
	sort.Slice(sorted, func(i, j int) bool {
		ni, nj := sorted[i].name, sorted[j].name
		if !sorted[i].present {
			ni = ""
		}
		if !sorted[j].present {
			nj = ""
		}
		if ni == nj {
			return sorted[i].key < sorted[j].key
		}
		return ni < nj
	})
	var out []specUser
	for _, e := range sorted {
		if !e.present || e.name == "" || count[e.name] > 1 || len(e.name) > 64 {
			continue
		}
		if e.hashed != "" {
			d, err := hex.DecodeString(e.hashed)
			if err != nil || len(d) != 32 {
				continue
			}
			out = append(out, specUser{e.name, d, "H" + hex.EncodeToString(d)})
			continue
		}
		if e.pass == "" {
			continue
		}
		out = append(out, specUser{e.name, refcodec.HashedPassword(e.name, e.pass), "P"})
	}
	return out
}

func renderTable(names []string, kinds []string) string {
	s := fmt.Sprintf("users=%d", len(names))
	for i := range names {
		s += fmt.Sprintf(" %s:%s", hx(names[i]), kinds[i])
	}
	return s
}

type menv struct {
	*env
	current []uentry
	rng     *vh.Rng
}

// publish hands a list to the server and records the correspondence case.
func (m *menv) publish(tag string, es []uentry) {
	if tag == "U" {
		m.rg.Server.SetServerUsers(toMap(es))
	}
	m.current = es
	_, names, creds := serveruser.VerifCurrent(m.rg.Server.VerifC05Registry()).Users()
	kinds := make([]string, len(names))
	for i, n := range names {
		kinds[i] = "H" + hex.EncodeToString(creds[i])
		for _, e := range es {
			if e.present && e.name == n && e.hashed == "" && e.pass != "" && string(refcodec.HashedPassword(n, e.pass)) == string(creds[i]) {
				kinds[i] = "P"
			}
		}
	}
	m.r.Case(tag+" "+m.transport+" "+encodeEntries(es), renderTable(names, kinds))
	m.r.Count(m.transport + ":" + map[string]string{"S": "server-start", "U": "reload"}[tag])
	// oracle, independent of the model: the registry holds exactly the credentials the admission rule admits
	spec := specCompile(es)
	ok := len(spec) == len(names)
	for i := 0; ok && i < len(spec); i++ {
		ok = spec[i].name == names[i] && string(spec[i].cred) == string(creds[i])
	}
	if !ok {
		var sn []string
		for _, u := range spec {
			sn = append(sn, u.name)
		}
		m.r.Fail("registry-holds-credential-not-in-last-published-list",
			fmt.Sprintf("%s: after publishing a user list the registry holds the users %q, the list admits %q", m.transport, names, sn),
			map[string]interface{}{"transport": m.transport, "published": encodeEntries(es), "registry_names": names})
	}
}

func (m *menv) opensNow(h []byte) bool {
	if len(h) < hdrLen {
		return false
	}
	for _, u := range specCompile(m.current) {
		for _, k := range refcodec.KeysAt(u.cred, time.Now()) {
			if _, err := refcodec.Open(k, h[:24], h[24:hdrLen]); err == nil {
				return true
			}
		}
	}
	return false
}

// craftCred seals a complete first segment / datagram under an arbitrary 32-byte credential with the hint of hintUser.
func craftCred(rng *vh.Rng, transport, hintUser string, cred []byte, payload, pad int) ([]byte, uint32) {
	key := refcodec.KeysAt(cred, time.Now())[1]
	nonce := rng.Bytes(24)
	refcodec.SetUserHint(hintUser, nonce)
	sid := uint32(rng.Range(1, 1<<30))
	seg := refcodec.Segment{Meta: refcodec.Meta{Proto: refcodec.OpenSessionRequest, Timestamp: refcodec.TimestampOf(time.Now()), SessionID: sid},
		Payload: rng.Bytes(payload), Suffix: rng.Bytes(pad)}
	if transport == "udp" {
		return refcodec.EncodeDatagram(key, nonce, seg), sid
	}
	return refcodec.NewStreamEncoder(key, nonce).Encode(seg), sid
}

// handshake is one probe: a complete, well-formed first segment under cred. registered says what the specification
// expects at the moment of sending: true = a registered credential (sanity: must be accepted), false = silence.
func (m *menv) handshake(kind, field, hintUser string, cred []byte, registered bool, info string) probe {
	shapes := [][2]int{{0, 20}, {48, 0}, {10, 255}}
	sh := shapes[m.rng.Intn(len(shapes))]
	p := probe{tag: "M", kind: kind, field: field, tsOK: true, shaped: true, plen: sh[0], slen: sh[1], srcIP: proberIP, info: info,
		opens: registered, expectSession: registered}
	if registered {
		p.srcIP = captureIP
	}
	p.lazy = func(q *probe) {
		q.data, q.sid = craftCred(m.rng, m.transport, hintUser, cred, sh[0], sh[1])
		if got := m.opensNow(q.data); got != q.opens {
			panic(fmt.Sprintf("driver bug: management probe %s (%s): opens=%v by the specification table, claimed %v", kind, info, got, q.opens))
		}
	}
	return p
}

func (m *menv) fire(ps []probe) {
	if m.transport == "tcp" {
		m.tcpBatch(ps, 135*time.Second, "")
	} else {
		m.udpBatch(ps, 3*time.Second, "")
	}
}

// lateReload: TCP only. The connections are opened first, THEN the list is published, then the bytes are written:
// the reload sits between accept and the first read of the server.
func (m *menv) lateReload(ps []probe, es []uentry) {
	for i := range ps {
		ps[i].lazy = nil
		ps[i].data = nil
	}
	h := m.tcpFire(ps, "")
	m.publish("U", es)
	for i := range h.ps {
		cred := h.ps[i].credForLate
		d, sid := craftCred(m.rng, m.transport, h.ps[i].hintForLate, cred, h.ps[i].plen, h.ps[i].slen)
		if m.opensNow(d) != h.ps[i].opens {
			panic("driver bug: late-reload probe attribute")
		}
		h.ps[i].data, h.ps[i].sid = d, sid
		h.conns[i].Write(d)
	}
	time.Sleep(137 * time.Second)
	m.tcpCollect(h)
}

func sha(parts ...string) []byte {
	h := sha256.New()
	for _, p := range parts {
		h.Write([]byte(p))
	}
	return h.Sum(nil)
}

// freshGenuine: a real client of a user that IS registered connects and echoes (the server is alive and still serves).
func (m *menv) freshGenuine(user, pass, what string) {
	mux, err := m.rg.NewClient(user, pass, nil, freshIP)
	if err == nil {
		ctx, cancel := context.WithTimeout(context.Background(), 20*time.Second)
		var conn net.Conn
		conn, err = mux.DialContext(ctx)
		cancel()
		if err == nil {
			g := &genuine{mux: mux, conn: conn}
			err = g.echo(m.rng.Bytes(700))
			conn.Close()
		}
		mux.Close()
	}
	m.r.Count(m.transport + ":genuine-after-reload")
	if err != nil {
		m.r.Fail("genuine-transfer-disturbed", fmt.Sprintf("%s: a registered user (%s) could not use the server %s: %v", m.transport, user, what, err),
			map[string]string{"transport": m.transport, "user": user, "when": what})
	}
}

func runManagement(r *vh.Run, transport string) {
	base := []uentry{ue("alice", "alice-password"), ue("bob", "bob-secret-2"), ue("victim", "victim-pw-1")}
	rg, err := rig.StartServer(rig.Opts{Transport: transport, Users: map[string]string{"alice": "alice-password", "bob": "bob-secret-2", "victim": "victim-pw-1"}, MTU: 1400, Multiplex: 2})
	if err != nil {
		panic(err)
	}
	e := &env{r: r, transport: transport, label: "manage", rg: rg, accepted: map[string]int{}, udpPort: 30000}
	e.wg.Add(1)
	go func() {
		defer e.wg.Done()
		for c := range rg.Accepted {
			ra := c.RemoteAddr().String()
			e.mu.Lock()
			e.accepted[ra]++
			e.acceptedN++
			e.mu.Unlock()
			host, _, _ := net.SplitHostPort(ra)
			if host == captureIP || host == freshIP {
				go func(c net.Conn) {
					buf := make([]byte, 4096)
					for {
						n, err := c.Read(buf)
						if err != nil {
							break
						}
						c.Write(buf[:n])
					}
					c.Close()
				}(c)
			} else {
				c.Close()
			}
		}
	}()
	defer e.close()
	m := &menv{env: e, rng: r.Rng.Fork()}
	m.publish("S", base)

	victim := refcodec.HashedPassword("victim", "victim-pw-1")
	without := func(es []uentry, name string) []uentry {
		var out []uentry
		for _, x := range es {
			if x.name != name {
				out = append(out, x)
			}
		}
		return out
	}
	others := []uentry{ue("dave", "dave-pw"), ue("erin", "erin-pw")}
	repass := append(without(base, "victim"), ue("victim", "victim-pw-2"))
	unusable := []uentry{{key: "victim", name: "victim", present: true}, {key: "x", name: "x", present: true, hashed: "zz", setHash: true, pass: "p", setPass: true}}

	// ---- reload histories: the last list decides
	type hist struct {
		name  string
		lists [][]uentry
	}
	hs := []hist{
		{"unchanged", [][]uentry{base}},
		{"remove-user", [][]uentry{without(base, "victim")}},
		{"remove-all", [][]uentry{{}}},
		{"restore", [][]uentry{base}},
		{"replace-all", [][]uentry{others}},
		{"restore", [][]uentry{base}},
		{"other-password", [][]uentry{repass}},
		{"every-entry-unusable", [][]uentry{unusable}},
		{"restore", [][]uentry{base}},
		{"remove,restore,remove", [][]uentry{without(base, "victim"), base, without(base, "victim")}},
		{"empty,restore,empty", [][]uentry{{}, base, {}}},
		{"replace,empty", [][]uentry{others, {}}},
		{"restore,empty,unusable", [][]uentry{base, {}, unusable}},
		{"unchanged-twice", [][]uentry{base, base}},
	}
	for _, h := range hs {
		for _, l := range h.lists {
			m.publish("U", l)
		}
		reg := false
		for _, u := range specCompile(m.current) {
			if string(u.cred) == string(victim) {
				reg = true
			}
		}
		var ps []probe
		for i := 0; i < 2; i++ {
			ps = append(ps, m.handshake("removed-credential", "after:"+h.name, "victim", victim, reg, "history "+h.name))
		}
		if !reg {
			// the other credentials of the final list behave as registered, the removed one as any foreign credential
			ps = append(ps, m.handshake("never-registered-credential", "after:"+h.name, "mallory", refcodec.HashedPassword("mallory", "m"), false, "history "+h.name))
			for _, u := range specCompile(m.current) {
				ps = append(ps, m.handshake("registered-credential", "after:"+h.name, u.name, u.cred, true, "history "+h.name+" user "+u.name))
				break
			}
			if strings.HasPrefix(h.name, "other-password") {
				ps = append(ps, m.handshake("new-password", "after:"+h.name, "victim", refcodec.HashedPassword("victim", "victim-pw-2"), true, "history "+h.name))
			}
		}
		m.fire(ps)
		r.Distinct("manage/" + transport + "/" + h.name)
	}
	// ---- the reload between the TCP connect and the first byte
	if transport == "tcp" {
		m.publish("U", base)
		for _, final := range [][]uentry{without(base, "victim"), {}, others, repass} {
			var ps []probe
			for i := 0; i < 2; i++ {
				p := probe{tag: "M", kind: "removed-credential", field: "reload-after-connect", tsOK: true, shaped: true, plen: 48, slen: 7, srcIP: proberIP,
					credForLate: victim, hintForLate: "victim", info: "reload between connect and first byte"}
				ps = append(ps, p)
			}
			m.lateReload(ps, final)
			m.publish("U", base)
		}
	}
	m.publish("U", base)
	m.freshGenuine("alice", "alice-password", "after the reload histories")

	// ---- configurations: entries that must not become credentials
	long := strings.Repeat("n", 65)
	carolHash := hex.EncodeToString(refcodec.HashedPassword("carol", "carol-secret"))
	cfgs := []struct {
		name string
		es   []uentry
	}{
		{"name-only", []uentry{{key: "nopw", name: "nopw", present: true}}},
		{"empty-password", []uentry{{key: "emptypw", name: "emptypw", present: true, setPass: true}}},
		{"empty-hashed-password", []uentry{{key: "emptyhash", name: "emptyhash", present: true, setHash: true}}},
		{"both-empty", []uentry{{key: "bothempty", name: "bothempty", present: true, setPass: true, setHash: true}}},
		{"nil-record", []uentry{{key: "nilrec", name: "", present: false}}},
		{"hash-not-hex", []uentry{{key: "badhex", name: "badhex", present: true, hashed: strings.Repeat("zz", 32), setHash: true, pass: "badhex-pw", setPass: true}}},
		{"hash-16-bytes", []uentry{{key: "short", name: "short", present: true, hashed: strings.Repeat("ab", 16), setHash: true, pass: "short-pw", setPass: true}}},
		{"duplicate-names", []uentry{{key: "k1", name: "dup", present: true, pass: "dup-pw-1", setPass: true}, {key: "k2", name: "dup", present: true, pass: "dup-pw-2", setPass: true}}},
		{"oversized-name", []uentry{{key: "long", name: long, present: true, pass: "long-pw", setPass: true}}},
		{"empty-name", []uentry{{key: "anon", name: "", present: true, pass: "anon-pw", setPass: true}}},
		{"valid-hash", []uentry{{key: "carol", name: "carol", present: true, hashed: carolHash, setHash: true}}},
	}
	all := []uentry{ue("alice", "alice-password")}
	for _, c := range cfgs {
		all = append(all, c.es...)
	}
	cfgs = append(cfgs, struct {
		name string
		es   []uentry
	}{"all-together", all[1:]})
	for _, c := range cfgs {
		es := append([]uentry{ue("alice", "alice-password")}, c.es...)
		m.publish("U", es)
		spec := specCompile(es)
		isReg := func(cred []byte) bool {
			for _, u := range spec {
				if string(u.cred) == string(cred) {
					return true
				}
			}
			return false
		}
		var ps []probe
		ps = append(ps, m.handshake("registered-credential", "config:"+c.name, "alice", refcodec.HashedPassword("alice", "alice-password"), true, "config "+c.name))
		seen := map[string]bool{}
		for _, x := range es {
			if seen[x.name] || x.name == "alice" {
				continue
			}
			seen[x.name] = true
			n := x.name
			// what a party knows that knows the NAME and nothing else
			public := map[string][]byte{
				"empty-password":       refcodec.HashedPassword(n, ""),
				"name-as-password":     refcodec.HashedPassword(n, n),
				"sha256-of-name":       sha(n),
				"sha256-of-nothing":    sha(),
				"zero-credential":      make([]byte, 32),
				"empty-password-empty": refcodec.HashedPassword("", ""),
			}
			var ks []string
			for k := range public {
				ks = append(ks, k)
			}
			sort.Strings(ks)
			for _, k := range ks {
				ps = append(ps, m.handshake("knows-only-the-name", k, n, public[k], isReg(public[k]), fmt.Sprintf("config %s name %q sealed with %s", c.name, clipS(n), k)))
			}
			// the secret of an entry the admission rule skips is not a credential either
			if x.present && x.pass != "" {
				cred := refcodec.HashedPassword(n, x.pass)
				ps = append(ps, m.handshake("secret-of-listed-entry", "config:"+c.name, n, cred, isReg(cred), fmt.Sprintf("config %s name %q password of the entry", c.name, clipS(n))))
			}
		}
		if c.name == "valid-hash" || c.name == "all-together" {
			ps = append(ps, m.handshake("registered-credential", "config:"+c.name, "carol", refcodec.HashedPassword("carol", "carol-secret"), true, "hashed password of carol"))
		}
		m.fire(ps)
		r.Distinct("manage/" + transport + "/config/" + c.name)
	}
	m.publish("U", base)
	m.freshGenuine("bob", "bob-secret-2", "after the configuration series")

	// ---- observation (reported, not judged): a user removed while it has a live underlay
	m.observeLiveAssociation()
}

func clipS(s string) string {
	if len(s) > 12 {
		return s[:12] + "..."
	}
	return s
}

// observeLiveAssociation: victim opens a session, is removed from the list, and then opens ANOTHER session through the
// same client mux (same TCP connection / same UDP source address). The front-door theorems cover a fresh connection and,
// on UDP, states whose sessions belong to registered users; this is the complementary case and is only reported.
func (m *menv) observeLiveAssociation() {
	base := m.current
	mux, err := m.rg.NewClient("victim", "victim-pw-1", nil, captureIP)
	if err != nil {
		return
	}
	defer mux.Close()
	dial := func() error {
		ctx, cancel := context.WithTimeout(context.Background(), 15*time.Second)
		defer cancel()
		c, err := mux.DialContext(ctx)
		if err != nil {
			return err
		}
		g := &genuine{mux: mux, conn: c}
		return g.echo([]byte("hello-from-victim"))
	}
	if err := dial(); err != nil {
		m.r.Rep.Notes["removed-user-live-association/"+m.transport] = "victim could not connect while registered: " + err.Error()
		return
	}
	var rest []uentry
	for _, x := range base {
		if x.name != "victim" {
			rest = append(rest, x)
		}
	}
	m.publish("U", rest)
	err = dial()
	res := "a NEW session of the removed user over its live underlay is refused: "
	if err == nil {
		res = "a NEW session of the removed user over its live underlay (same connection / source address) is still opened and served"
	} else {
		res += err.Error()
	}
	m.r.Rep.Notes["removed-user-live-association/"+m.transport] = res
	m.publish("U", base)
	_ = simnet.Addr{}
}
