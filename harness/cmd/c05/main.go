// Driver for C05 (no credential: the server stays silent and creates nothing) and, with -mode replay,
// for the end-to-end half of C06 (replayed handshakes are rejected without a reply).
//
// A real server protocol.Mux runs on simnet under Go's faketime runtime (both transports), a genuine client
// keeps an echo session busy the whole time, and a prober / replayer throws bytes at the server port:
//
//	-mode probe   random strings of many lengths, EVERY strict prefix and EVERY single-bit flip of the 72-byte
//	              header of captured genuine first segments, well-formed handshakes (refcodec) under a wrong
//	              password / unknown user / a hint naming a real user with a foreign key.
//	-mode replay  recorded genuine sessions replayed whole / per segment-boundary prefix / first segment alone /
//	              header alone on new connections (TCP) or datagram by datagram from another source address
//	              (UDP), at several virtual instants inside and after the validity window, while the original
//	              is still open and after it ended, concurrently with fresh genuine clients.
//
// Case line (see ocaml/c05_run.ml):  <tag> <transport> <kind> <len> <field> <hdr> <opens> <ts> <dup> [<sid>]
// Impl line:                         out=<0|1> sess=<n> acc=<n>
// Oracle (independent of the model): bytes / datagrams from the server to the prober must be 0, Accept must not
// return a session of the prober, the session list must not show one, the genuine transfer must stay intact.
package main

import (
	"bytes"
	"context"
	"flag"
	"fmt"
	"io"
	"net"
	"sync"
	"sync/atomic"
	"time"

	"github.com/enfein/mieru/v3/pkg/appctl/appctlpb"
	"github.com/enfein/mieru/v3/pkg/protocol"
	"github.com/enfein/mieru/v3/pkg/replay"
	"google.golang.org/protobuf/proto"
	"verifharness/refcodec"
	"verifharness/rig"
	"verifharness/simnet"
	"verifharness/trace"
	"verifharness/vh"
)

var mode = flag.String("mode", "probe", "probe | replay")
var only = flag.String("only", "", "tcp | udp (default: both)")

const (
	serverAddr = "192.0.2.1:8964"
	genuineIP  = "10.0.0.2"
	captureIP  = "10.0.0.7"
	freshIP    = "10.0.0.9"
	lateIP1    = "10.0.0.11"
	lateIP2    = "10.0.0.12"
	proberIP   = "203.0.113.66"
	hdrLen     = 72
)

var users = map[string]string{"alice": "alice-password", "bob": "bob-secret-2"}

type probe struct {
	tag, kind, field string
	data             []byte
	srcIP            string
	opens, dup       bool
	tsOK             bool
	sid              uint32
	info             string // extra text for failure reports
	shaped           bool   // plen/slen describe the (crafted) first segment the probe was cut from / extended
	plen, slen       int
	closeAfter       bool   // TCP: the prober closes the connection right after writing
	credForLate      []byte // management probes written after a reload that follows the connect (manage.go)
	hintForLate      string
	lazy             func(p *probe) // fills data (and sid) at the moment of sending: key slot, timestamp and nonce are then current
	expectSession    bool           // a complete segment made with a registered credential: must be accepted (sanity of the crafting)
}

type env struct {
	r         *vh.Run
	transport string
	label     string
	rg        *rig.Rig
	mu        sync.Mutex
	accepted  map[string]int // remote address of every session Accept returned
	acceptedN int
	udpPort   int
	wg        sync.WaitGroup
}

func ip(v int32) *int32 { return &v }

func newEnv(r *vh.Run, transport, label string, sp, cp *appctlpb.TrafficPattern) (*env, error) {
	rg, err := rig.StartServer(rig.Opts{Transport: transport, Users: users, ServerPattern: sp, ClientPattern: cp, MTU: 1400})
	if err != nil {
		return nil, err
	}
	e := &env{r: r, transport: transport, label: label, rg: rg, accepted: map[string]int{}, udpPort: 20000}
	e.wg.Add(1)
	go func() {
		defer e.wg.Done()
		for c := range rg.Accepted {
			ra := c.RemoteAddr().String()
			e.mu.Lock()
			e.accepted[ra]++
			e.acceptedN++
			e.mu.Unlock()
			host, _, _ := net.SplitHostPort(ra)
			if host == genuineIP || host == captureIP || host == freshIP || host == lateIP1 || host == lateIP2 {
				go func(c net.Conn) { io.Copy(c, c); c.Close() }(c)
			} else {
				c.Close()
			}
		}
	}()
	return e, nil
}

func (e *env) close() {
	e.rg.Close()
	close(e.rg.Accepted)
	e.wg.Wait()
}

func (e *env) acceptedFrom(addr string) int {
	e.mu.Lock()
	defer e.mu.Unlock()
	return e.accepted[addr]
}

// ---------------------------------------------------------------- genuine client

type genuine struct {
	mux        *protocol.Mux
	conn       net.Conn
	stop, done chan struct{}
	rounds     int
	err        error
	paused     atomic.Bool
	started    time.Time
}

func (e *env) startGenuine(user, ipAddr string, rng *vh.Rng, first []byte) (*genuine, error) {
	mux, err := e.rg.NewClient(user, users[user], e.rg.Opts.ClientPattern, ipAddr)
	if err != nil {
		return nil, err
	}
	ctx, cancel := context.WithTimeout(context.Background(), 20*time.Second)
	defer cancel()
	conn, err := mux.DialContext(ctx)
	if err != nil {
		mux.Close()
		return nil, err
	}
	g := &genuine{mux: mux, conn: conn, stop: make(chan struct{}), done: make(chan struct{}), started: time.Now()}
	if err := g.echo(first); err != nil {
		conn.Close()
		mux.Close()
		return nil, fmt.Errorf("first echo: %w", err)
	}
	go func() {
		defer close(g.done)
		for {
			select {
			case <-g.stop:
				return
			case <-time.After(time.Second):
			}
			if g.paused.Load() {
				continue
			}
			if err := g.echo(rng.Bytes(rng.Range(1, 3000))); err != nil {
				g.err = err
				return
			}
			g.rounds++
		}
	}()
	return g, nil
}

func (g *genuine) echo(b []byte) error {
	if _, err := g.conn.Write(b); err != nil {
		return fmt.Errorf("write: %w", err)
	}
	back := make([]byte, len(b))
	g.conn.SetReadDeadline(time.Now().Add(60 * time.Second))
	if _, err := io.ReadFull(g.conn, back); err != nil {
		return fmt.Errorf("read: %w", err)
	}
	if !bytes.Equal(b, back) {
		return fmt.Errorf("echo differs")
	}
	return nil
}

// finish stops the loop and returns the error the transfer met, if any.
func (g *genuine) finish() (int, error) {
	close(g.stop)
	<-g.done
	err := g.err
	if err == nil {
		err = g.echo([]byte("final-check-0123456789"))
	}
	g.conn.Close()
	g.mux.Close()
	return g.rounds, err
}

// ---------------------------------------------------------------- observation

type obs struct {
	bytesToProber int
	dgramsTo      int
	closed        bool
	acc, sess     int
}

func (o obs) line() string {
	out := 0
	if o.bytesToProber > 0 || o.dgramsTo > 0 {
		out = 1
	}
	return fmt.Sprintf("out=%d sess=%d acc=%d", out, o.sess, o.acc)
}

func minInt(a, b int) int {
	if a < b {
		return a
	}
	return b
}

func b01(b bool) int {
	if b {
		return 1
	}
	return 0
}

func (p probe) caseLine(transport string) string {
	ts := "ok"
	if !p.tsOK {
		ts = "stale"
	}
	sid := p.sid
	if sid == 0 && !p.opens {
		sid = 7
	}
	line := fmt.Sprintf("%s %s %s %d %s %d %d %s %d %d", p.tag, transport, p.kind, len(p.data), p.field,
		b01(len(p.data) >= hdrLen), b01(p.opens), ts, b01(p.dup), sid)
	if p.shaped {
		line += fmt.Sprintf(" %d %d", p.plen, p.slen)
	}
	return line
}

func (e *env) sessionList() []*appctlpb.SessionInfo {
	return e.rg.Server.ExportSessionInfoList().GetItems()
}

// judge writes the case, and reports oracle failures for one probe.
func (e *env) judge(p probe, src string, o obs, sigPrefix string) {
	r := e.r
	r.Case(p.caseLine(e.transport), o.line())
	r.Count(e.transport + ":" + p.tag + ":" + p.kind)
	r.Distinct(fmt.Sprintf("%s/%s/%s/%s/%d/%v/%v/%v/%s", e.label, e.transport, p.kind, p.field, lenClass(len(p.data)), p.opens, p.dup, p.tsOK, p.srcIP))
	c := map[string]interface{}{"transport": e.transport, "server": e.label, "kind": p.kind, "field": p.field, "src": src,
		"len": len(p.data), "data_hex": vh.Hex(clip(p.data, 3200)), "info": p.info, "virtual_time": time.Now().UTC().Format(time.RFC3339),
		"close_after_write": p.closeAfter}
	if p.expectSession {
		if o.acc != 1 {
			r.Fail("driver-crafted-segment-not-accepted", fmt.Sprintf("%s: a complete first segment made by refcodec with a registered credential was not accepted (%s): the truncation / extension probes cut from such segments prove nothing", e.transport, p.info), c)
		}
		return
	}
	if o.bytesToProber > 0 {
		r.Fail(sigPrefix+e.transport+"-bytes-to-prober", fmt.Sprintf("the server wrote %d byte(s) to %s after a %s probe (%s)", o.bytesToProber, src, p.kind, p.field), c)
	}
	if o.dgramsTo > 0 {
		r.Fail(sigPrefix+e.transport+"-datagram-to-prober", fmt.Sprintf("the server sent %d datagram(s) to %s after a %s probe (%s)", o.dgramsTo, src, p.kind, p.field), c)
	}
	if o.acc > 0 {
		r.Fail(sigPrefix+e.transport+"-session-accepted", fmt.Sprintf("Accept returned %d session(s) of %s after a %s probe (%s)", o.acc, src, p.kind, p.field), c)
	}
	if o.sess > 0 && o.acc == 0 {
		r.Fail(sigPrefix+e.transport+"-session-created", fmt.Sprintf("the session list shows %d session(s) of %s after a %s probe (%s)", o.sess, src, p.kind, p.field), c)
	}
}

func clip(b []byte, n int) []byte {
	if len(b) > n {
		return b[:n]
	}
	return b
}

func lenClass(n int) int {
	switch {
	case n == 0:
		return 0
	case n < 16:
		return 1
	case n < 24:
		return 2
	case n < hdrLen:
		return 3
	case n == hdrLen:
		return 4
	case n < 200:
		return 5
	case n <= 1500:
		return 6
	default:
		return 7
	}
}

// materialise seals a lazily crafted probe now, and cross-checks the claimed 'opens' attribute with refcodec.
func materialise(p *probe) {
	if p.lazy != nil {
		p.lazy(p)
		p.lazy = nil
	}
	if p.tag != "R" && p.tag != "M" { // "M": checked against the list published last (manage.go)
		if o, _ := headerOpens(p.data, time.Now()); o != p.opens {
			panic("driver bug: a probe's 'opens' attribute is wrong: " + p.kind + " " + p.info)
		}
	}
}

type tcpPending struct {
	ps     []probe
	conns  []*simnet.Conn
	sessAt map[string]int
	pos    int
	prefix string
}

// tcpFire opens one connection per probe, writes the bytes and samples the session list 2 s later.
func (e *env) tcpFire(ps []probe, sigPrefix string) *tcpPending {
	h := &tcpPending{ps: ps, conns: make([]*simnet.Conn, len(ps)), sessAt: map[string]int{}, pos: len(e.rg.Net.Log.Snapshot()), prefix: sigPrefix}
	for i := range ps {
		materialise(&ps[i])
		p := ps[i]
		c, err := e.rg.Net.DialFrom(p.srcIP, serverAddr)
		if err != nil {
			panic(fmt.Sprintf("dial: %v", err))
		}
		h.conns[i] = c
		if len(p.data) > 0 {
			c.Write(p.data)
		}
		if p.closeAfter {
			c.Close()
		}
	}
	time.Sleep(2 * time.Second)
	for _, it := range e.sessionList() {
		h.sessAt[it.GetRemoteAddr()]++
	}
	return h
}

// tcpCollect judges every probe of a fired batch; call it after the read timeout, the drain and the close of
// the server had time to happen (135 s of virtual time).
func (e *env) tcpCollect(h *tcpPending) {
	for _, it := range e.sessionList() {
		if h.sessAt[it.GetRemoteAddr()] == 0 {
			h.sessAt[it.GetRemoteAddr()]++
		}
	}
	evs := e.rg.Net.Log.Snapshot()
	fromServer := map[int]int{}
	closed := map[int]bool{}
	for _, ev := range evs[h.pos:] {
		if ev.Src != serverAddr {
			continue
		}
		switch ev.Kind {
		case "tcp-write":
			fromServer[ev.Conn] += len(ev.Data)
		case "tcp-close":
			closed[ev.Conn] = true
		}
	}
	for i, p := range h.ps {
		c := h.conns[i]
		src := c.LocalAddr().String()
		o := obs{bytesToProber: fromServer[c.ID()], closed: closed[c.ID()], acc: e.acceptedFrom(src), sess: h.sessAt[src]}
		// whatever is readable at the prober's end must agree with the log
		c.SetReadDeadline(time.Now().Add(time.Millisecond))
		buf := make([]byte, 4096)
		if n, _ := c.Read(buf); n > o.bytesToProber {
			o.bytesToProber = n
		}
		if o.closed {
			e.r.Count(e.transport + ":server-closed")
		} else {
			e.r.Count(e.transport + ":server-still-open")
		}
		e.judge(p, src, o, h.prefix)
		c.Close()
	}
}

func (e *env) tcpBatch(ps []probe, wait time.Duration, sigPrefix string) {
	h := e.tcpFire(ps, sigPrefix)
	time.Sleep(wait)
	e.tcpCollect(h)
}

// udpBatch sends every probe as one datagram from its own source port and judges after `wait`.
func (e *env) udpBatch(ps []probe, wait time.Duration, sigPrefix string) {
	srcs := make([]simnet.Addr, len(ps))
	before := len(e.sessionList())
	pos := len(e.rg.Net.Log.Snapshot())
	for i := range ps {
		materialise(&ps[i])
		p := ps[i]
		e.udpPort++
		srcs[i] = simnet.Addr{Net: "udp", IP: p.srcIP, Prt: e.udpPort}
		e.rg.Net.SendRaw(srcs[i], serverAddr, p.data)
		if i%100 == 99 {
			time.Sleep(500 * time.Millisecond) // spread the probes over the genuine client's echo rounds
		}
	}
	// The server's UDP event loop is one goroutine that also cleans sessions (a close can hold it for a second per
	// session): judge only after it has READ every datagram of the batch.
	mine := map[string]bool{}
	for _, a := range srcs {
		mine[a.String()] = true
	}
	for waited := 0; waited < 180; waited++ {
		sent, recvd := map[int]bool{}, 0
		for _, ev := range e.rg.Net.Log.Snapshot()[pos:] {
			if ev.Kind == "udp-send" && ev.Dst == serverAddr && mine[ev.Src] {
				sent[ev.ID] = true
			} else if ev.Kind == "udp-recv" && sent[ev.ID] {
				recvd++
			}
		}
		if recvd >= len(sent) {
			break
		}
		time.Sleep(time.Second)
	}
	time.Sleep(wait)
	evs := e.rg.Net.Log.Snapshot()
	to := map[string]int{}
	for _, ev := range evs[pos:] {
		if ev.Kind == "udp-send" && ev.Src == serverAddr {
			to[ev.Dst]++
		}
	}
	after := len(e.sessionList())
	_ = before
	_ = after
	for i, p := range ps {
		src := srcs[i].String()
		acc := e.acceptedFrom(src)
		o := obs{dgramsTo: to[src], acc: acc, sess: acc}
		e.judge(p, src, o, sigPrefix)
	}
}

func (e *env) batch(ps []probe, sigPrefix string) {
	if len(ps) == 0 {
		return
	}
	if e.transport == "tcp" {
		e.tcpBatch(ps, 135*time.Second, sigPrefix)
	} else {
		e.udpBatch(ps, 3*time.Second, sigPrefix)
	}
}

// ---------------------------------------------------------------- captures

type capture struct {
	user    string
	stream  []byte   // TCP: every client-to-server byte of the session; UDP: the first datagram
	segEnd  []int    // TCP: stream offsets after each segment
	dgrams  [][]byte // UDP: every client-to-server datagram in order
	src     string   // client address ip:port
	sid     uint32
	at      time.Time
	payload int
}

func creds() []trace.Cred {
	var c []trace.Cred
	for u, p := range users {
		c = append(c, trace.Cred{User: u, Pass: p})
	}
	return c
}

// record runs one genuine session of `user` from captureIP that echoes `n` bytes, and returns its client-to-server traffic.
func (e *env) record(user string, n int, rng *vh.Rng, keepOpen bool, fromIP string) (*capture, func(), error) {
	start := len(e.rg.Net.Log.Snapshot())
	at := time.Now()
	mux, err := e.rg.NewClient(user, users[user], e.rg.Opts.ClientPattern, fromIP)
	if err != nil {
		return nil, nil, err
	}
	ctx, cancel := context.WithTimeout(context.Background(), 20*time.Second)
	defer cancel()
	conn, err := mux.DialContext(ctx)
	if err != nil {
		mux.Close()
		return nil, nil, err
	}
	g := &genuine{mux: mux, conn: conn}
	if err := g.echo(rng.Bytes(n)); err != nil {
		conn.Close()
		mux.Close()
		return nil, nil, fmt.Errorf("capture echo: %w", err)
	}
	if keepOpen {
		// a second, larger round so that the recording holds data and ack segments besides the open request, and a
		// pause so that the acks that follow the last read are in the log too
		if err := g.echo(rng.Bytes(2500)); err != nil {
			conn.Close()
			mux.Close()
			return nil, nil, fmt.Errorf("capture echo 2: %w", err)
		}
		time.Sleep(time.Second)
	}
	closer := func() { conn.Close(); mux.Close(); time.Sleep(3 * time.Second) }
	if !keepOpen {
		closer()
	}
	evs := e.rg.Net.Log.Snapshot()[start:]
	c := &capture{user: user, at: at, payload: n}
	if e.transport == "tcp" {
		for _, tc := range trace.TCP(evs, creds()) {
			host, _, _ := net.SplitHostPort(tc.C2S.Src)
			if host != fromIP {
				continue
			}
			c.stream, c.segEnd, c.src = tc.C2S.Bytes, tc.C2S.SegEnd, tc.C2S.Src
			if len(tc.C2S.Segs) > 0 {
				c.sid = tc.C2S.Segs[0].Meta.SessionID
			}
		}
	} else {
		for _, ev := range evs {
			if ev.Kind != "udp-send" || ev.Dst != serverAddr {
				continue
			}
			host, _, _ := net.SplitHostPort(ev.Src)
			if host != fromIP {
				continue
			}
			c.dgrams = append(c.dgrams, ev.Data)
			c.src = ev.Src
		}
		if len(c.dgrams) > 0 {
			c.stream = c.dgrams[0]
			if seg, _, err := refcodec.DecodeDatagram(allKeys(at), c.dgrams[0]); err == nil {
				c.sid = seg.Meta.SessionID
			}
		}
	}
	if len(c.stream) < hdrLen {
		return nil, nil, fmt.Errorf("capture of %s found only %d bytes", user, len(c.stream))
	}
	return c, closer, nil
}

func allKeys(t time.Time) [][]byte {
	var ks [][]byte
	for u, p := range users {
		for _, k := range refcodec.KeysAt(refcodec.HashedPassword(u, p), t) {
			ks = append(ks, k)
		}
	}
	return ks
}

// headerOpens tells whether the 72-byte header opens under a registered user's key at instant t, and whether its
// timestamp is within one minute.
func headerOpens(h []byte, t time.Time) (opens, tsOK bool) {
	if len(h) < hdrLen {
		return false, true
	}
	for _, k := range allKeys(t) {
		mb, err := refcodec.Open(k, h[:24], h[24:hdrLen])
		if err == nil {
			ts := uint32(mb[2])<<24 | uint32(mb[3])<<16 | uint32(mb[4])<<8 | uint32(mb[5])
			now := refcodec.TimestampOf(t)
			return true, ts == now || ts+1 == now || ts == now+1
		}
	}
	return false, true
}

// cacheHolds tells whether the process-wide replay cache of this transport holds the signature of the first 16 bytes.
func (e *env) cacheHolds(first16 []byte) (bool, string) {
	rc := protocol.VerifStreamReplayCache()
	if e.transport == "udp" {
		rc = protocol.VerifPacketReplayCache()
	}
	sig := rc.VerifSignature(first16)
	_, cur, prev := rc.VerifSnapshot()
	if t, ok := cur[sig]; ok {
		return true, t
	}
	if t, ok := prev[sig]; ok {
		return true, t
	}
	return false, ""
}

func flipBit(b []byte, i int) []byte {
	out := append([]byte(nil), b...)
	out[i/8] ^= 1 << (uint(i) % 8)
	return out
}

func fieldOf(bit int) string {
	switch by := bit / 8; {
	case by < 16:
		return "nonce-sig"
	case by < 20:
		return "nonce"
	case by < 24:
		return "nonce-hint"
	case by < 56:
		return "meta-ct"
	default:
		return "meta-tag"
	}
}

// exactSourceProbes sends probes from the EXACT address (ip:port) of the live genuine client, where the ciphers of its
// session are tried first.  Datagrams the server sends to that address cannot be told from its traffic to the genuine
// client by address, so they are attributed by causality:
//   - the genuine client's echo loop is paused (its session stays open); after a settling time the server's datagrams
//     to the address are counted over a CONTROL window without probes (only the session's own ack / heartbeat
//     schedule), then over an equally long window WITH the probes: a server that answers probes sends at least one
//     datagram per answered probe more (60+ probes against a handful of heartbeats);
//   - every datagram of the probe window is opened with the session's key (the key slot of the session's start, which a
//     long-lived UDP session keeps using, or a current one) and must be a server-to-client data/ack/open-response
//     segment of the genuine session's id; anything else - undecodable, a close request, another session id - was not
//     caused by the genuine session.
func (e *env) exactSourceProbes(g *genuine, c *capture, rng *vh.Rng) {
	gsrc := ""
	var first []byte
	for _, ev := range e.rg.Net.Log.Snapshot() {
		if h, _, _ := net.SplitHostPort(ev.Src); ev.Kind == "udp-send" && h == genuineIP && ev.Dst == serverAddr {
			if gsrc == "" {
				gsrc, first = ev.Src, ev.Data
			}
		}
	}
	if gsrc == "" {
		return
	}
	keysStart := allKeys(g.started)
	var gsid uint32
	if seg, _, err := refcodec.DecodeDatagram(keysStart, first); err == nil {
		gsid = seg.Meta.SessionID
	}
	host, portS, _ := net.SplitHostPort(gsrc)
	var port int
	fmt.Sscan(portS, &port)
	var xs []probe
	for bit := 3; bit < 8*hdrLen; bit += 11 {
		xs = append(xs, probe{tag: "P", tsOK: true, kind: "bitflip-exact-source", field: fieldOf(bit), data: flipBit(c.stream, bit), srcIP: host})
	}
	for _, n := range []int{0, 71, 72, 100, 1400} {
		xs = append(xs, probe{tag: "P", tsOK: true, kind: "random-exact-source", field: "none", data: rng.Bytes(n), srcIP: host})
	}
	window := time.Duration(len(xs))*100*time.Millisecond + 3*time.Second
	count := func(from int) (n, foreign int, what string) {
		for _, ev := range e.rg.Net.Log.Snapshot()[from:] {
			if ev.Kind != "udp-send" || ev.Src != serverAddr || ev.Dst != gsrc {
				continue
			}
			n++
			seg, _, err := refcodec.DecodeDatagram(append(allKeys(time.Unix(0, ev.T)), keysStart...), ev.Data)
			ok := err == nil && seg.Meta.SessionID == gsid &&
				(seg.Meta.Proto == refcodec.DataServerToClient || seg.Meta.Proto == refcodec.AckServerToClient ||
					seg.Meta.Proto == refcodec.DataServerToClientLE || seg.Meta.Proto == refcodec.OpenSessionResponse)
			if !ok {
				foreign++
				if what == "" {
					if err != nil {
						what = "undecodable: " + err.Error()
					} else {
						what = fmt.Sprintf("protocol %d session %d (genuine session %d)", seg.Meta.Proto, seg.Meta.SessionID, gsid)
					}
				}
			}
		}
		return
	}
	g.paused.Store(true)
	time.Sleep(4 * time.Second) // the round in flight ends, its acks are exchanged
	pos0 := len(e.rg.Net.Log.Snapshot())
	time.Sleep(window)
	control, _, _ := count(pos0)
	pos1 := len(e.rg.Net.Log.Snapshot())
	for _, p := range xs {
		e.rg.Net.SendRaw(simnet.Addr{Net: "udp", IP: host, Prt: port}, serverAddr, p.data)
		time.Sleep(100 * time.Millisecond)
	}
	time.Sleep(3 * time.Second)
	during, foreign, what := count(pos1)
	g.paused.Store(false)
	e.r.Count(fmt.Sprintf("udp:exact-source control=%d during=%d", control, during))
	caused := foreign
	if extra := during - control - 3; extra > caused {
		caused = extra // more datagrams than the session's own schedule explains (slack: 3 heartbeats)
	}
	for i, p := range xs {
		o := obs{}
		if i == 0 {
			o.dgramsTo = caused // reported once, on the first probe of the window
			if caused > 0 {
				p.info = fmt.Sprintf("server datagrams to the genuine address: %d in the control window, %d in the probe window, %d of them not segments of the genuine session (%s)", control, during, foreign, what)
			}
		}
		e.judge(p, gsrc, o, "")
	}
}

// ---------------------------------------------------------------- probe mode

func forgedHandshake(rng *vh.Rng, keyUser, keyPass, hintUser string, transport string, payload int) []byte {
	key := refcodec.KeysAt(refcodec.HashedPassword(keyUser, keyPass), time.Now())[1]
	nonce := rng.Bytes(24)
	refcodec.SetUserHint(hintUser, nonce)
	seg := refcodec.Segment{Meta: refcodec.Meta{Proto: refcodec.OpenSessionRequest, Timestamp: refcodec.TimestampOf(time.Now()),
		SessionID: uint32(rng.Range(1, 1<<30))}, Payload: rng.Bytes(payload), Suffix: rng.Bytes(rng.Range(0, 40))}
	if transport == "udp" {
		return refcodec.EncodeDatagram(key, nonce, seg)
	}
	enc := refcodec.NewStreamEncoder(key, nonce)
	out := enc.Encode(seg)
	// follow with one data segment as a real client would
	out = append(out, enc.Encode(refcodec.Segment{Meta: refcodec.Meta{Proto: refcodec.DataClientToServer, Timestamp: refcodec.TimestampOf(time.Now()),
		SessionID: seg.Meta.SessionID, Seq: 1, WindowSize: 256}, Payload: rng.Bytes(100)})...)
	return out
}

// craft makes a complete, fresh (new random nonce) first segment / first datagram of `user` with the user's real
// credential: openSessionRequest with `payload` piggybacked bytes and `pad` bytes of suffix padding.
func craft(rng *vh.Rng, transport, user string, payload, pad int) ([]byte, uint32) {
	key := refcodec.KeysAt(refcodec.HashedPassword(user, users[user]), time.Now())[1]
	nonce := rng.Bytes(24)
	refcodec.SetUserHint(user, nonce)
	sid := uint32(rng.Range(1, 1<<30))
	seg := refcodec.Segment{Meta: refcodec.Meta{Proto: refcodec.OpenSessionRequest, Timestamp: refcodec.TimestampOf(time.Now()), SessionID: sid},
		Payload: rng.Bytes(payload), Suffix: rng.Bytes(pad)}
	if transport == "udp" {
		return refcodec.EncodeDatagram(key, nonce, seg), sid
	}
	return refcodec.NewStreamEncoder(key, nonce).Encode(seg), sid
}

type shape struct {
	user         string
	payload, pad int
}

func runProbe(r *vh.Run, transport, label string, sp, cp *appctlpb.TrafficPattern, full bool) {
	e, err := newEnv(r, transport, label, sp, cp)
	if err != nil {
		r.Rep.Notes[label+"/"+transport] = "server did not start: " + err.Error()
		return
	}
	defer e.close()
	rng := r.Rng.Fork()
	g, err := e.startGenuine("alice", genuineIP, rng.Fork(), rng.Bytes(300))
	if err != nil {
		r.Fail("genuine-client-cannot-connect", fmt.Sprintf("%s/%s: %v", label, transport, err), map[string]string{"server": label, "transport": transport})
		return
	}
	r.Case(fmt.Sprintf("G %s genuine 172 none 1 1 ok 0 5", transport), fmt.Sprintf("out=1 sess=%d acc=%d", b01(len(e.sessionList()) >= 1), e.acceptedFromIP(genuineIP)))

	// captures
	ncap := 1
	if r.Thorough() {
		ncap = 3
	}
	var caps []*capture
	for i := 0; i < ncap; i++ {
		u := []string{"alice", "bob", "alice"}[i%3]
		c, _, err := e.record(u, []int{100, 900, 5000}[i%3], rng, false, captureIP)
		if err != nil {
			r.Fail("genuine-client-cannot-connect", fmt.Sprintf("%s/%s capture: %v", label, transport, err), map[string]string{"server": label})
			return
		}
		caps = append(caps, c)
		r.Case(fmt.Sprintf("G %s capture %d none 1 1 ok 0 %d", transport, minInt(len(c.stream), 300), c.sid), fmt.Sprintf("out=1 sess=1 acc=%d", b01(e.acceptedFrom(c.src) == 1)))
	}

	var ps []probe
	add := func(p probe) {
		if p.srcIP == "" {
			p.srcIP = proberIP
		}
		p.tag, p.tsOK = "P", true
		ps = append(ps, p)
	}
	// 1. every strict prefix of the header of every capture (0..71 bytes)
	for ci, c := range caps {
		for n := 0; n < hdrLen; n++ {
			add(probe{kind: "prefix", field: "none", data: c.stream[:n], info: fmt.Sprintf("capture %d prefix %d", ci, n)})
		}
	}
	// 2. every single-bit flip of the header of every capture, followed by the rest of the first segment / datagram
	for ci, c := range caps {
		rest := c.stream
		if transport == "tcp" && len(c.segEnd) > 0 {
			rest = c.stream[:c.segEnd[0]]
		}
		step := 1
		for bit := ci % step; bit < 8*hdrLen; bit += step {
			d := flipBit(rest, bit)
			// the server has seen the genuine header: a flip outside the first 16 bytes keeps the signature
			add(probe{kind: "bitflip", field: fieldOf(bit), data: d, dup: bit >= 128, info: fmt.Sprintf("capture %d bit %d", ci, bit)})
		}
		if transport == "udp" {
			// the same from the genuine capture client's own address (spoofed source): existing-session ciphers are tried first
			host, _, _ := net.SplitHostPort(c.src)
			for bit := 0; bit < 8*hdrLen; bit += 7 {
				add(probe{kind: "bitflip-spoofed-source", field: fieldOf(bit), data: flipBit(rest, bit), srcIP: host, info: fmt.Sprintf("capture %d bit %d", ci, bit)})
			}
		}
	}
	// 3. random strings
	lens := []int{0, 1, 15, 16, 17, 23, 24, 25, 47, 48, 56, 71, 72, 73, 87, 88, 89, 100, 255, 256, 1024, 1096, 1399, 1400, 1401, 1472, 1500, 2048, 4095, 4096}
	if transport == "tcp" {
		lens = append(lens, 32768+64, 65536)
	}
	nrand := 40
	if r.Thorough() {
		nrand = 400
	}
	for i := 0; i < nrand; i++ {
		lens = append(lens, rng.Range(0, 4096))
	}
	for _, n := range lens {
		add(probe{kind: "random", field: "none", data: rng.Bytes(n)})
	}
	for _, n := range []int{72, 200, 1400} {
		add(probe{kind: "zeros", field: "none", data: make([]byte, n)})
		add(probe{kind: "ones", field: "none", data: bytes.Repeat([]byte{0xff}, n)})
		add(probe{kind: "ascii", field: "none", data: bytes.Repeat([]byte("GET / HTTP/1.1\r\n"), n/16+1)[:n]})
	}
	// 4. well-formed handshakes under foreign credentials
	nforge := 6
	if r.Thorough() {
		nforge = 40
	}
	for i := 0; i < nforge; i++ {
		plc := []int{0, 10, 1024}[i%3]
		add(probe{kind: "wrong-password", field: "key", lazy: func(p *probe) { p.data = forgedHandshake(rng, "alice", "not-alices-password", "alice", transport, plc) }})
		add(probe{kind: "unknown-user", field: "key", lazy: func(p *probe) {
			p.data = forgedHandshake(rng, "mallory", "mallory-password", "mallory", transport, plc)
		}})
		add(probe{kind: "real-hint-foreign-key", field: "key", lazy: func(p *probe) { p.data = forgedHandshake(rng, "mallory", "mallory-password", "bob", transport, plc) }})
		add(probe{kind: "password-of-other-user", field: "key", lazy: func(p *probe) { p.data = forgedHandshake(rng, "alice", users["bob"], "alice", transport, plc) }})
	}
	// 5. truncations and extensions of complete first segments made with a registered credential. Every probe is cut
	// from its own freshly sealed segment (new nonce), so the replay cache never hides what the parser does with it.
	shapes := []shape{{"alice", 0, 37}, {"bob", 48, 255}}
	if r.Thorough() && full {
		shapes = append(shapes, shape{"alice", 1024, 255}, shape{"bob", 1, 1}, shape{"alice", 300, 128}, shape{"bob", 0, 255})
	}
	for _, sh := range shapes {
		whole, sid := craft(rng, transport, sh.user, sh.payload, sh.pad)
		total := len(whole)
		base := probe{opens: true, sid: sid, shaped: true, plen: sh.payload, slen: sh.pad}
		where := func(n int) string {
			box := 0
			if sh.payload > 0 {
				box = sh.payload + 16
			}
			switch {
			case n < hdrLen+box:
				return "payload-box"
			default:
				return "padding"
			}
		}
		// the complete segment is accepted (sent from a genuine address so that the session is served)
		g := base
		g.kind, g.field, g.srcIP, g.expectSession = "crafted-complete", "none", captureIP, true
		shp0 := sh
		g.lazy = func(p *probe) { p.data, p.sid = craft(rng, transport, shp0.user, shp0.payload, shp0.pad) }
		g.info = fmt.Sprintf("%s payload %d padding %d", sh.user, sh.payload, sh.pad)
		add(g)
		ps[len(ps)-1].tag = "G"
		for n := hdrLen; n < total; n++ {
			for v := 0; v < 2; v++ {
				if transport == "udp" && v == 1 {
					continue
				}
				q := base
				q.field = where(n)
				cut, shp := n, sh
				q.lazy = func(p *probe) {
					d, sid2 := craft(rng, transport, shp.user, shp.payload, shp.pad)
					p.data, p.sid = d[:cut], sid2
				}
				q.kind = "segment-prefix-stall"
				if v == 1 {
					q.kind, q.closeAfter = "segment-prefix-close", true
				}
				q.info = fmt.Sprintf("%s payload %d padding %d: first %d of %d bytes", sh.user, sh.payload, sh.pad, n, total)
				add(q)
			}
		}
		if transport == "udp" {
			var ks []int
			maxK := 1500 - total
			if r.Thorough() && full {
				for k := 1; k <= maxK; k++ {
					ks = append(ks, k)
				}
			} else {
				for _, k := range []int{1, 2, 16, 255, 256, 257, 511, 512, 513, 767, 768, 769, 1023, 1024, 1025, maxK - 1, maxK} {
					if k >= 1 && k <= maxK {
						ks = append(ks, k)
					}
				}
			}
			for _, k := range ks {
				q := base
				q.kind, q.field = "datagram-extension", fmt.Sprintf("plus-%d", k)
				extra, shp := k, sh
				q.lazy = func(p *probe) {
					d, sid2 := craft(rng, transport, shp.user, shp.payload, shp.pad)
					p.data, p.sid = append(d, rng.Bytes(extra)...), sid2
				}
				q.info = fmt.Sprintf("%s payload %d padding %d: complete datagram of %d bytes followed by %d extra bytes", sh.user, sh.payload, sh.pad, total, k)
				add(q)
			}
		}
	}
	e.batch(ps, "")

	if transport == "udp" {
		e.reflectedServerDatagrams(rng)
		e.exactSourceProbes(g, caps[0], rng)
	}

	rounds, gerr := g.finish()
	r.Count(fmt.Sprintf("%s:genuine-echo-rounds>=%d", transport, rounds/50*50))
	if gerr != nil || rounds < 1 {
		r.Fail("genuine-transfer-disturbed", fmt.Sprintf("%s/%s: the concurrent genuine client failed after %d rounds: %v", label, transport, rounds, gerr),
			map[string]interface{}{"server": label, "transport": transport, "probes": len(ps)})
	}
	r.Case(fmt.Sprintf("G %s genuine-final 100 none 1 1 ok 0 5", transport), fmt.Sprintf("out=1 sess=1 acc=%d", b01(gerr == nil)))
}

func (e *env) acceptedFromIP(ipAddr string) int {
	e.mu.Lock()
	defer e.mu.Unlock()
	n := 0
	for a, k := range e.accepted {
		if h, _, _ := net.SplitHostPort(a); h == ipAddr && k > 0 {
			n = 1
		}
	}
	return n
}

// ---------------------------------------------------------------- replay mode

// reloadUsers: the user table a management reload (the Reload RPC = Mux.SetServerUsers) installs. alice and bob keep
// their passwords in every variant (their keys do not change, genuine clients keep working):
// 1 unchanged, 2 another user added, 3 that user removed again, 4 the victim's quota changed (far from exhausted),
// 5 unchanged, applied twice in a row.
func reloadUsers(v int, victim string) map[string]*appctlpb.User {
	m := map[string]*appctlpb.User{}
	for n, p := range users {
		m[n] = &appctlpb.User{Name: proto.String(n), Password: proto.String(p)}
	}
	switch v {
	case 2:
		m["carol"] = &appctlpb.User{Name: proto.String("carol"), Password: proto.String("carol-pw")}
	case 4:
		m[victim].Quotas = []*appctlpb.Quota{{Days: proto.Int32(1), Megabytes: proto.Int32(1000000)}}
	}
	return m
}

func (e *env) reload(v int, victim string) {
	e.rg.Server.SetServerUsers(reloadUsers(v, victim))
	if v == 5 {
		e.rg.Server.SetServerUsers(reloadUsers(v, victim))
	}
	e.r.Count(fmt.Sprintf("reload-variant-%d", v))
}

// fixedNonceClients: nothing is replayed here. Several independent clients of one user whose traffic pattern fixes the
// first n bytes of every nonce (NONCE_TYPE_FIXED with one customHexStrings entry of n = 0..12 bytes, applied to
// every UDP packet) each open a fresh session and exchange a message: all must be served and the server's
// new-session replay counters must not move - the record of recent traffic never reports never-seen traffic.
func (e *env) fixedNonceClients(rng *vh.Rng) {
	r := e.r
	const hexPrefix = "474554202f20485454502f31" // "GET / HTTP/1"
	lens := []int{0, 1, 4, 7, 8, 9, 12}
	if r.Thorough() {
		lens = []int{0, 1, 2, 3, 4, 5, 6, 7, 8, 9, 10, 11, 12}
	}
	for _, n := range lens {
		var pat *appctlpb.TrafficPattern
		if n > 0 {
			pat = &appctlpb.TrafficPattern{Nonce: &appctlpb.NoncePattern{
				Type:                appctlpb.NonceType_NONCE_TYPE_FIXED.Enum(),
				ApplyToAllUDPPacket: proto.Bool(true),
				CustomHexStrings:    []string{hexPrefix[:2*n]},
			}}
		}
		before := replay.NewSession.Load() + replay.NewSessionDecrypted.Load()
		for k := 0; k < 3; k++ {
			user := []string{"alice", "bob", "alice"}[k]
			what := map[string]interface{}{"transport": e.transport, "fixed_nonce_prefix_bytes": n, "client": k, "user": user}
			mux, err := e.rg.NewClient(user, users[user], pat, freshIP)
			if err != nil {
				r.Fail("replay-fixed-nonce-client-setup", err.Error(), what)
				continue
			}
			ctx, cancel := context.WithTimeout(context.Background(), 20*time.Second)
			conn, err := mux.DialContext(ctx)
			cancel()
			if err != nil {
				r.Fail("replay-false-positive-fixed-nonce", fmt.Sprintf("%s: fresh genuine client %d with a fixed nonce prefix of %d bytes cannot open a session: %v", e.transport, k, n, err), what)
				mux.Close()
				continue
			}
			g := &genuine{mux: mux, conn: conn}
			if err := g.echo(rng.Bytes(rng.Range(1, 2000))); err != nil {
				r.Fail("replay-false-positive-fixed-nonce", fmt.Sprintf("%s: fresh genuine client %d with a fixed nonce prefix of %d bytes is not served: %v", e.transport, k, n, err), what)
			}
			conn.Close()
			mux.Close()
			r.Count("fixed-nonce-client")
			r.Distinct(fmt.Sprintf("fixed-nonce/%s/%d", e.transport, n))
		}
		if after := replay.NewSession.Load() + replay.NewSessionDecrypted.Load(); after != before {
			r.Fail("replay-false-positive-fixed-nonce", fmt.Sprintf("%s: %d fresh segment(s) of genuine clients with a fixed nonce prefix of %d bytes were counted as new-session replays; nothing was replayed", e.transport, after-before, n),
				map[string]interface{}{"transport": e.transport, "fixed_nonce_prefix_bytes": n})
		}
	}
}

func runReplay(r *vh.Run, transport string) {
	label := "plain"
	e, err := newEnv(r, transport, label, nil, nil)
	if err != nil {
		panic(err)
	}
	defer e.close()
	rng := r.Rng.Fork()
	g, err := e.startGenuine("alice", genuineIP, rng.Fork(), rng.Bytes(200))
	if err != nil {
		r.Fail("replay-genuine-client-cannot-connect", err.Error(), map[string]string{"transport": transport})
		return
	}
	e.fixedNonceClients(rng.Fork())
	nrec := 2
	if transport == "udp" {
		nrec = 1 // a live UDP session costs wall time per virtual second (its output loop ticks)
	}
	if r.Thorough() {
		nrec = 5
	}
	sameSrc := map[string]int{}
	for rec := 0; rec < nrec; rec++ {
		user := []string{"bob", "alice"}[rec%2]
		size := []int{600, 5000, 40, 70000, 1500}[rec%5]
		c, closer, err := e.record(user, size, rng, true, captureIP)
		if err != nil {
			r.Fail("replay-genuine-client-cannot-connect", err.Error(), map[string]string{"transport": transport})
			return
		}
		t0 := c.at
		// UDP: further short sessions that are closed at once and whose datagrams are replayed for the FIRST time only
		// after the session ended and was cleaned (at offsets[1] = +6 s resp. offsets[2] = +30 s): a replay that finds
		// the original session alive is absorbed by it, and one replay may change what the cache holds for the next.
		late := map[int]*capture{}
		if transport == "udp" {
			for k, lip := range map[int]string{1: lateIP1, 2: lateIP2} {
				lc, lcloser, lerr := e.record([]string{"alice", "bob"}[k%2], 100, rng, true, lip)
				if lerr != nil {
					r.Fail("replay-genuine-client-cannot-connect", lerr.Error(), map[string]string{"transport": transport})
					return
				}
				lcloser()
				late[k] = lc
			}
			t0 = time.Now()
		}
		// the variants of one recorded session
		type variant struct {
			kind string
			data [][]byte // TCP: one element; UDP: datagrams in order
		}
		var vs []variant
		if transport == "tcp" {
			vs = append(vs, variant{"whole-stream", [][]byte{c.stream}})
			for i, end := range c.segEnd {
				if i == 0 {
					vs = append(vs, variant{"first-segment", [][]byte{c.stream[:end]}})
				} else if i < 6 || i == len(c.segEnd)-1 {
					vs = append(vs, variant{fmt.Sprintf("prefix-%d-segments", i+1), [][]byte{c.stream[:end]}})
				}
			}
			vs = append(vs, variant{"header-only", [][]byte{c.stream[:hdrLen]}})
			vs = append(vs, variant{"header-plus-1", [][]byte{c.stream[:hdrLen+1]}})
			if len(c.segEnd) > 0 && c.segEnd[0] > hdrLen+1 {
				vs = append(vs, variant{"first-segment-minus-1", [][]byte{c.stream[:c.segEnd[0]-1]}})
			}
		} else {
			vs = append(vs, variant{"first-datagram", [][]byte{c.dgrams[0]}})
			vs = append(vs, variant{"each-datagram", c.dgrams}) // every recorded datagram on its own, each from its own fresh source address
		}
		var pending []*tcpPending
		lateFrom := map[string]int{}
		for k, lc := range late {
			kind := fmt.Sprintf("each-datagram-first-replayed-after-close-%d", k)
			vs = append(vs, variant{kind, lc.dgrams})
			lateFrom[kind] = k
		}
		offsets := []time.Duration{0, 6 * time.Second, 30 * time.Second, 119 * time.Second, 239 * time.Second, 400 * time.Second, 800 * time.Second}
		if !r.Thorough() {
			offsets = offsets[:6]
		}
		reloads := 0
		closedAt := 1 // the original session is closed before the replay at offsets[closedAt]
		if rec%2 == 1 {
			closedAt = 0
		}
		for oi, off := range offsets {
			if oi == closedAt && closer != nil {
				closer()
				closer = nil
			}
			if d := t0.Add(off).Sub(time.Now()); d > 0 {
				time.Sleep(d)
			}
			// server-side management events between recording and replay: even recordings see a reload before the
			// replays of EVERY offset (variants cycling, so reloads also accumulate), odd ones only at two offsets
			if rec%2 == 0 {
				e.reload(1+(oi+rec/2)%5, user)
				reloads++
			} else if oi == 2 || oi == 4 {
				e.reload(map[int]int{2: 1, 4: 4}[oi], user)
				reloads++
			}
			// a fresh genuine client connects at the same moment
			fresh, ferr := e.startGenuine([]string{"alice", "bob"}[oi%2], freshIP, rng.Fork(), rng.Bytes(64))
			var ps []probe
			for _, v := range vs {
				if oi < lateFrom[v.kind] {
					continue
				}
				for di, d := range v.data {
					opens, tsOK := headerOpens(d, time.Now())
					dup, tag := e.cacheHolds(d[:16])
					kind := v.kind
					if len(v.data) > 1 {
						kind = fmt.Sprintf("%s", v.kind)
					}
					srcIP := proberIP
					if transport == "tcp" && oi%3 == 2 {
						srcIP = captureIP // TCP uses the empty tag: the source address must not matter
					}
					ps = append(ps, probe{tag: "R", kind: kind, field: fmt.Sprintf("+%ds", int(off/time.Second)), data: d, srcIP: srcIP,
						opens: opens, tsOK: tsOK, dup: dup, sid: c.sid,
						info: fmt.Sprintf("recording %d (%s, %d bytes) datagram %d at +%v, original closed=%v, %d management reload(s) since the recording, cache tag %q", rec, user, size, di, off, closer == nil, reloads, tag)})
					// inside the window the cache must still hold the signature (C06 no-miss)
					if off < 360*time.Second && !dup {
						r.Fail("replay-cache-forgot-signature", fmt.Sprintf("%s: +%v after acceptance (%d management reload(s) in between) the replay cache no longer holds the signature", transport, off, reloads),
							map[string]interface{}{"transport": transport, "offset_s": int(off / time.Second), "first16": vh.Hex(d[:16]), "reloads": reloads})
					}
				}
			}
			if transport == "tcp" {
				pending = append(pending, e.tcpFire(ps, "replay-"))
			} else {
				e.batch(ps, "replay-")
			}
			if ferr != nil {
				r.Fail("replay-fresh-client-disturbed", fmt.Sprintf("%s: a fresh genuine client could not connect during replays at +%v: %v", transport, off, ferr), map[string]string{"transport": transport})
			} else if _, err := fresh.finish(); err != nil {
				r.Fail("replay-fresh-client-disturbed", fmt.Sprintf("%s: a fresh genuine client failed during replays at +%v: %v", transport, off, err), map[string]string{"transport": transport})
			}
			// UDP, same source address as the original: outside the property; observed and reported
			if transport == "udp" && off <= 239*time.Second {
				host, portS, _ := net.SplitHostPort(c.src)
				var port int
				fmt.Sscan(portS, &port)
				src := simnet.Addr{Net: "udp", IP: host, Prt: port}
				accBefore := e.acceptedFrom(c.src)
				pos := len(e.rg.Net.Log.Snapshot())
				for _, d := range c.dgrams {
					e.rg.Net.SendRaw(src, serverAddr, d)
				}
				time.Sleep(3 * time.Second)
				replies := 0
				for _, ev := range e.rg.Net.Log.Snapshot()[pos:] {
					if ev.Kind == "udp-send" && ev.Src == serverAddr && ev.Dst == c.src {
						replies++
					}
				}
				key := fmt.Sprintf("same-source +%ds original-%s", int(off/time.Second), map[bool]string{true: "closed", false: "open"}[closer == nil])
				sameSrc[key+fmt.Sprintf(" -> replies=%d new-sessions=%d", b01(replies > 0), e.acceptedFrom(c.src)-accBefore)]++
			}
		}
		if closer != nil {
			closer()
		}
		if len(pending) > 0 {
			time.Sleep(135 * time.Second)
			for _, h := range pending {
				e.tcpCollect(h)
			}
		}
	}
	if transport == "udp" {
		s := ""
		for k, v := range sameSrc {
			s += fmt.Sprintf("%s (x%d); ", k, v)
		}
		r.Rep.Notes["udp-same-source-replay"] = s
	}
	rounds, gerr := g.finish()
	if gerr != nil || rounds < 1 {
		r.Fail("replay-genuine-transfer-disturbed", fmt.Sprintf("%s: the concurrent genuine client failed after %d rounds: %v", transport, rounds, gerr), map[string]string{"transport": transport})
	}
}

func transports() []string {
	if *only != "" {
		return []string{*only}
	}
	return []string{"tcp", "udp"}
}

func main() {
	r := vh.Start("c05")
	r.Rep.Notes = map[string]string{}
	defer r.Finish()
	switch *mode {
	case "probe":
		for _, tr := range transports() {
			runProbe(r, tr, "plain", nil, nil, true)
		}
		for _, tr := range transports() {
			runManagement(r, tr) // reload histories and user-list configurations (manage.go)
		}
		if r.Thorough() {
			pats := []*appctlpb.TrafficPattern{
				{Seed: ip(3), UnlockAll: proto.Bool(true)},
				{Seed: ip(11), Padding: &appctlpb.PaddingPattern{MaxMiddlePaddingLen: ip(200), MaxEndPaddingLen: ip(255)}},
				{Seed: ip(5), UnlockAll: proto.Bool(true), TcpFragment: &appctlpb.TCPFragment{Enable: proto.Bool(true), MaxSleepMs: ip(20)}},
			}
			for i, p := range pats {
				for _, tr := range transports() {
					runProbe(r, tr, fmt.Sprintf("pattern%d", i), p, p, false)
				}
			}
		}
		r.Rep.Rule = "Probes against a real server Mux on simnet (TCP and UDP, virtual time) with a concurrent genuine echo client: every strict prefix (0..71 bytes) and every single-bit flip (576) of the 72-byte header of captured genuine first segments (flips followed by the rest of the segment; on UDP also from the genuine client's own source address), random strings of boundary and random lengths 0..65536, constant/ASCII strings, well-formed refcodec handshakes under a wrong password, an unknown user, a real user's hint with a foreign key, another user's password; every proper prefix (from the header on) of complete first segments / first datagrams sealed by refcodec with a registered credential (piggybacked payload, suffix padding up to 255; each probe cut from its own freshly sealed segment so that the replay cache does not mask the parser; on TCP followed by a stall and by the prober closing), and on UDP such complete datagrams followed by k extra bytes (all multiples of 256 +-1 and the maximum in quick, every k up to 1500 bytes in thorough); the complete crafted segment itself must be accepted. Management events: the user list is reloaded (user removed, all removed, all replaced, other password, unchanged, every entry unusable, sequences of these, and a reload between TCP connect and first byte) and handshakes sealed with the removed credential must meet silence; user lists with entries that carry no secret / a damaged hash / duplicate, empty or oversized names are published and a prober that knows every name seals with the empty password, the name as password and digests of public strings; after every publication the registry's compiled table is compared with compile_users of the last list. A class is non-trivial when it differs in (server pattern, transport, kind, mutated field, length class, dup flag, source)."
	case "replay":
		for _, tr := range transports() {
			runReplay(r, tr)
		}
		r.Rep.Rule = "Before anything is replayed: three fresh genuine clients per fixed nonce prefix length (NONCE_TYPE_FIXED, 0,1,4,7,8,9,12 bytes; 0..12 thorough; applied to every UDP packet) must all be served and the new-session replay counters must not move. Then recorded genuine sessions (both users, several sizes) replayed on new TCP connections (whole stream, every prefix at a segment boundary up to 6 and the last, first segment alone, header alone, header+1, first segment minus one byte) or as datagrams from another source address (first datagram, and every recorded datagram - open request, data, acks, close - individually, each from its own fresh address; further short sessions are closed at once and their datagrams replayed for the first time only at +6 s resp. +30 s, after the session was cleaned), at +0 s, +6 s, +30 s, +119 s, +239 s (inside the retention of the replay cache) and +400 s, +800 s (after it; key and timestamp expired), with the original still open or closed, each time concurrently with a fresh genuine client, and with server-side management reloads (Mux.SetServerUsers = the Reload RPC: users unchanged, another user added, removed again, the victim's quota changed, two reloads in a row) between recording and replay - before the replays of every offset for even recordings, at +30 s and +239 s only for odd ones; the case line carries what refcodec (opens, timestamp) and the cache snapshot (dup) say at that instant."
	default:
		panic("unknown -mode " + *mode)
	}
}
