package main

import (
	"fmt"
	"net"
	"time"

	"verifharness/simnet"
	"verifharness/vh"
)

// reflectedServerDatagrams: a party that knows no credential can still RECORD what the server itself emits. A short
// genuine UDP session is run from its own address and closed; once the server has cleaned it (>= 5 s), every datagram the
// server had sent to that client - which the server has never received, so its record of recent traffic does not know
// them, and which authenticate because both directions share one key - is sent to the server port, each from a fresh
// address without a session. The server must stay silent and create nothing (judged by the property text only: the
// ServerFront model has no server-to-client segment types).
func (e *env) reflectedServerDatagrams(rng *vh.Rng) {
	r := e.r
	const fromIP = lateIP1 // an address whose sessions the test server application serves
	start := len(e.rg.Net.Log.Snapshot())
	// every second datagram of the server toward this client is lost on the way (the retransmission gets through): the lost
	// copies were received by nobody, so no record of recent traffic in this process knows them
	oldFate := e.rg.Net.Fate
	lost := map[int]bool{}
	nth := 0
	e.rg.Net.Fate = func(d *simnet.Datagram) []simnet.Delivery {
		if host, _, _ := net.SplitHostPort(d.Dst); d.Src == serverAddr && host == fromIP {
			nth++
			if nth%2 == 0 {
				lost[d.ID] = true
				return nil
			}
		}
		if oldFate != nil {
			return oldFate(d)
		}
		return []simnet.Delivery{{}}
	}
	_, _, err := e.record("alice", 100, rng, false, fromIP) // echoes 100 bytes, closes, waits 3 s
	if err != nil {
		r.Fail("genuine-client-cannot-connect", "reflect: "+err.Error(), map[string]string{"transport": e.transport})
		return
	}
	e.rg.Net.Fate = oldFate
	var own [][]byte
	for _, ev := range e.rg.Net.Log.Snapshot()[start:] {
		if ev.Kind != "udp-send" || ev.Src != serverAddr {
			continue
		}
		if host, _, _ := net.SplitHostPort(ev.Dst); host == fromIP && (lost[ev.ID] || len(own) < 4) {
			own = append(own, ev.Data) // the lost ones, and a few delivered ones
		}
	}
	time.Sleep(7 * time.Second) // the closed session has been removed by the server's clean-up
	if len(own) > 40 {
		own = append(own[:20], own[len(own)-20:]...)
	}
	pos := len(e.rg.Net.Log.Snapshot())
	srcs := map[string]int{}
	for i, d := range own {
		e.udpPort++
		a := simnet.Addr{Net: "udp", IP: "203.0.113.62", Prt: e.udpPort}
		srcs[a.String()] = i
		e.rg.Net.SendRaw(a, serverAddr, d)
	}
	time.Sleep(5 * time.Second)
	to := map[string]int{}
	for _, ev := range e.rg.Net.Log.Snapshot()[pos:] {
		if ev.Kind == "udp-send" && ev.Src == serverAddr {
			if _, mine := srcs[ev.Dst]; mine {
				to[ev.Dst]++
			}
		}
	}
	r.Count(fmt.Sprintf("udp:reflect:server-datagrams=%d", len(own)))
	r.Distinct(fmt.Sprintf("%s/udp/reflected-server-datagram/%d", e.label, lenClass(len(own))))
	if len(own) == 0 {
		r.Fail("driver-recorded-no-server-datagram", "reflect: the recording holds no datagram of the server", map[string]string{"transport": "udp"})
	}
	for src, i := range srcs {
		c := map[string]interface{}{"transport": "udp", "server": e.label, "kind": "reflected-server-datagram", "src": src, "len": len(own[i]), "data_hex": vh.Hex(clip(own[i], 3200)),
			"info": "datagram number " + fmt.Sprint(i) + " that the server sent to a genuine client whose session is closed and cleaned, sent back to the server port from a fresh address"}
		if to[src] > 0 {
			r.Fail("udp-datagram-to-prober", fmt.Sprintf("the server sent %d datagram(s) to %s after one of its own recorded datagrams was sent to it from that address (no credential needed)", to[src], src), c)
		}
		if e.acceptedFrom(src) > 0 {
			r.Fail("udp-session-accepted", fmt.Sprintf("Accept returned a session of %s after a reflected server datagram", src), c)
		}
	}
}
