// go2coq translates a fixed list of pure integer functions of /repo's CURRENT source into Gallina
// (coq/gen/Translated.v), in terms of the definitions of coq/base/MiniGo.v.  It is run on every check; the
// theorems of coq/proofs/Translated*Proofs.v prove the translated definitions equal to the hand-written model
// functions that the property theorems are about.
//
// Fragment: parameters, locals and results of integer or bool type (named types by their underlying type, type
// parameters by the instantiation given in the table); var / := / = / op= / ++ / -- / tuple assignment; if / else;
// switch on a value with constant-free or constant cases (no fallthrough, no break); for with init, condition and
// post statement (no break / continue / return inside); return as the last statement of a path; expressions over
// + - * / % & | ^ &^ << >> unary - ^ ! comparisons && || conversions between integer types, named constants
// (folded by go/types), calls of other translated loop-free total functions, and math/bits.RotateLeft64 (by its
// specification, MiniGo.go_rotl64).  A shift by a signed non-constant count (run-time panic when negative) makes the
// function PARTIAL: its result is an option, None = the Go function panics; the test `0 <= count` is emitted in
// front of the statement that holds the shift (under the left operand of an enclosing && / ||), and is accepted only
// on straight-line paths (not inside a loop or a branch that falls through); the same for / and % by a divisor that
// is not a constant (test `divisor != 0`).  Results and locals of type error are booleans (true = an error was
// returned: nil is false, fmt.Errorf(..) / errors.New(..) are true, the message is dropped); a struct whose fields are
// all integers or booleans is the tuple of its fields (composite literals, field reads, zero value); a call of a
// translated function with several results may be assigned to several variables or returned as it is.
// A METHOD is translated when the table names its receiver type: the receiver may only be used in field accesses
// `c.f`; every field the body mentions becomes a parameter f_<field>, every field it assigns becomes a result (after the
// method's own results, in the order of the struct declaration).  Fields (not locals, not parameters) may be slices of
// an integer type: a `list Z` with len(c.f) = go_len, c.f[j] = go_nth (a partial operation: the test 0 <= j < len is
// emitted in front of the statement, None = index out of range), c.f[j] = v / op= / ++ = go_upd; nothing else may be done
// with a slice (no append, reslicing, copying into a variable, passing on), so no two names ever share an array.
// `for i := range c.f` / `for range c.f` / `for i := range n` is a counting loop whose bound is evaluated once and
// whose fuel is that bound + 1; `break` is accepted as the last statement of an `if` (or its else) that stands
// directly in the loop body: an exit flag is threaded through the loop state.  `panic(..)` ends a path with None.  In a
// partial function loops are `whileP` (the body may have no value).
// Anything else is refused with
// file:line and the construct; the function is then omitted from the output and the exit status is 1.
//
// Types and constant values come from go/types over the compiler's export data (go list -export), i.e. exactly
// what the compiler sees for the current tree.
package main

import (
	"bytes"
	"crypto/sha256"
	"flag"
	"fmt"
	"go/ast"
	"go/build"
	"go/constant"
	"go/importer"
	"go/parser"
	"go/token"
	"go/types"
	"io"
	"os"
	"os/exec"
	"path/filepath"
	"sort"
	"strings"
)

type spec struct {
	Dir  string            // package directory relative to the repository root
	Name string            // function name
	Fuel int               // fuel of every loop in the function (0: the function must be loop free)
	Inst map[string]string // type parameter -> basic type name, for generic functions
	Sfx  string            // suffix of the Coq name for an instantiation
	Recv string            // receiver type name, for a method
}

// The table of translated functions.  Callees before callers.
var table = []spec{
	{Dir: "pkg/mathext", Name: "Min", Inst: map[string]string{"T": "int"}, Sfx: "_int"},
	{Dir: "pkg/mathext", Name: "Max", Inst: map[string]string{"T": "int"}, Sfx: "_int"},
	{Dir: "pkg/mathext", Name: "Abs", Inst: map[string]string{"T": "int"}, Sfx: "_int"},
	{Dir: "pkg/mathext", Name: "RepeatUint32"},
	{Dir: "pkg/mathext", Name: "pdepGeneric", Fuel: 65},
	{Dir: "pkg/mathext", Name: "pextGeneric", Fuel: 65},
	{Dir: "pkg/protocol", Name: "maxFragmentSizeInternal"},
	{Dir: "pkg/protocol", Name: "maxPaddingSize"},
	{Dir: "pkg/protocol", Name: "isSessionProtocol"},
	{Dir: "pkg/protocol", Name: "isLowEntropyProtocol"},
	{Dir: "pkg/protocol", Name: "isDataProtocol"},
	{Dir: "pkg/protocol", Name: "isAckProtocol"},
	{Dir: "pkg/protocol", Name: "isDataAckProtocol"},
	{Dir: "pkg/protocol", Name: "isValidLowEntropyRotation"},
	{Dir: "pkg/protocol", Name: "lowBits"},
	{Dir: "pkg/protocol", Name: "rotateLowEntropyMask"},
	{Dir: "pkg/protocol", Name: "lowEntropyChunkMask"},
	{Dir: "pkg/protocol", Name: "buildLowEntropyParams"},
	{Dir: "pkg/protocol", Name: "lowEntropyEncodedPayloadLen"},
	{Dir: "pkg/protocol", Name: "maxFragmentSize"},
	{Dir: "pkg/protocol", Name: "validateLowEntropyCodecParams"},
	{Dir: "pkg/cipher", Name: "increaseNonce", Recv: "aeadBlockCipher"},
	{Dir: "pkg/mathext", Name: "Mid", Inst: map[string]string{"T": "uint32"}, Sfx: "_uint32"},
	{Dir: "pkg/mathext", Name: "WithinRange", Inst: map[string]string{"T": "uint32"}, Sfx: "_uint32"},
	{Dir: "pkg/protocol", Name: "Equals", Recv: "protocolType"},
	{Dir: "pkg/protocol", Name: "Protocol", Recv: "sessionStruct"},
	{Dir: "pkg/protocol", Name: "Protocol", Recv: "dataAckStruct"},
	{Dir: "pkg/protocol", Name: "Marshal", Recv: "sessionStruct"},
	{Dir: "pkg/protocol", Name: "Unmarshal", Recv: "sessionStruct"},
	{Dir: "pkg/protocol", Name: "Marshal", Recv: "dataAckStruct"},
}

type pkgInfo struct {
	fset  *token.FileSet
	files []*ast.File
	info  *types.Info
	pkg   *types.Package
	src   map[string][]byte
}

var (
	repo    = flag.String("repo", "/repo", "repository root")
	outPath = flag.String("out", "", "output .v file (default stdout)")
	extra   = flag.String("table", "", "optional extra table file: lines 'dir name fuel [recv=Type] [T=type ...]'")
)

func modulePath() string {
	b, err := os.ReadFile(filepath.Join(*repo, "go.mod"))
	if err == nil {
		for _, l := range strings.Split(string(b), "\n") {
			f := strings.Fields(l)
			if len(f) == 2 && f[0] == "module" {
				return f[1]
			}
		}
	}
	return "repo"
}

func loadPkg(dir string) (*pkgInfo, error) {
	abs := filepath.Join(*repo, dir)
	fset := token.NewFileSet()
	ctx := build.Default
	ents, err := os.ReadDir(abs)
	if err != nil {
		return nil, err
	}
	p := &pkgInfo{fset: fset, src: map[string][]byte{}}
	for _, e := range ents {
		n := e.Name()
		if !strings.HasSuffix(n, ".go") || strings.HasSuffix(n, "_test.go") || strings.HasPrefix(n, "zz_verif") {
			continue
		}
		if ok, _ := ctx.MatchFile(abs, n); !ok {
			continue
		}
		b, err := os.ReadFile(filepath.Join(abs, n))
		if err != nil {
			return nil, err
		}
		f, err := parser.ParseFile(fset, filepath.Join(dir, n), b, parser.ParseComments)
		if err != nil {
			return nil, err
		}
		p.src[filepath.Join(dir, n)] = b
		p.files = append(p.files, f)
	}
	cmd := exec.Command("go", "list", "-export", "-deps", "-f", "{{.ImportPath}} {{.Export}}", "./"+dir)
	cmd.Dir = *repo
	var stderr bytes.Buffer
	cmd.Stderr = &stderr
	out, err := cmd.Output()
	if err != nil {
		return nil, fmt.Errorf("go list -export ./%s: %v: %s", dir, err, stderr.String())
	}
	exports := map[string]string{}
	for _, l := range strings.Split(string(out), "\n") {
		f := strings.Fields(l)
		if len(f) == 2 {
			exports[f[0]] = f[1]
		}
	}
	lookup := func(path string) (io.ReadCloser, error) {
		e, ok := exports[path]
		if !ok {
			return nil, fmt.Errorf("no export data for %s", path)
		}
		return os.Open(e)
	}
	var terrs []string
	conf := types.Config{Importer: importer.ForCompiler(fset, "gc", lookup), Error: func(err error) { terrs = append(terrs, err.Error()) }}
	p.info = &types.Info{Types: map[ast.Expr]types.TypeAndValue{}, Defs: map[*ast.Ident]types.Object{}, Uses: map[*ast.Ident]types.Object{}, Instances: map[*ast.Ident]types.Instance{}, Selections: map[*ast.SelectorExpr]*types.Selection{}}
	p.pkg, _ = conf.Check(modulePath()+"/"+dir, fset, p.files, p.info)
	if len(terrs) > 0 {
		return nil, fmt.Errorf("type errors in %s: %s", dir, strings.Join(terrs, "; "))
	}
	return p, nil
}

// ---------------------------------------------------------------------------------------------------------

type unsupported struct {
	pos  token.Position
	what string
}

func (u *unsupported) Error() string { return fmt.Sprintf("%s: not in the translated fragment: %s", u.pos, u.what) }

type tr struct {
	p       *pkgInfo
	sp      spec
	names   map[types.Object]string
	used    map[string]int
	option  bool // the function has loops or can panic: result is option
	partial bool // the function has an operation that can panic (None = panic)
	guards  []string // conditions under which the expressions translated since the last takeGuards do not panic
	recv    types.Object    // the receiver variable of a method
	fields  []*types.Var    // receiver fields the body mentions (struct order): parameters
	asg     []*types.Var    // receiver fields the body assigns (struct order): results
	optK    map[string]bool // continuations whose type is an option (a None may be emitted in front of them)
	breakK  string          // continuation of a `break` of the innermost loop ("" = no break allowed here)
	results int
	total   map[string]string // "pkgpath.Name<sfx>" -> coq name of already translated loop-free functions
	// slices that are not receiver fields: locals created by make (never copied, so never aliased) and read-only parameters
	sliceLocal map[types.Object]bool
	sliceParam map[types.Object]bool
	constLen   map[types.Object]int64 // locals created by make with a constant length: indexes inside it need no test
	usesNow    bool                   // the body calls time.Now().Unix(): the clock becomes the last parameter v_now
	fieldKey   map[*types.Var]string  // receiver field -> index path (one path per field object)
	valueRecv  bool                   // method of an integer type: the receiver is an ordinary first parameter
}

// methodInfo: a translated total method of a struct type that assigns no field (callable from other methods of the type).
type methodInfo struct {
	coq    string
	fields []*types.Var
	keys   []string
}

var methods = map[string]methodInfo{}

func (t *tr) bad(n ast.Node, format string, a ...interface{}) error {
	if n == nil {
		return &unsupported{token.Position{}, fmt.Sprintf(format, a...)}
	}
	return &unsupported{t.p.fset.Position(n.Pos()), fmt.Sprintf(format, a...)}
}

func basicName(b *types.Basic) string { return b.Name() }

// ity returns the MiniGo type term of an integer type, "bool" for booleans.
func (t *tr) ity(ty types.Type, n ast.Node) (string, error) {
	if tp, ok := ty.(*types.TypeParam); ok {
		bn, ok := t.sp.Inst[tp.Obj().Name()]
		if !ok {
			return "", t.bad(n, "type parameter %s without instantiation", tp.Obj().Name())
		}
		return ityOfName(bn, func() error { return t.bad(n, "instantiation %s", bn) })
	}
	b, ok := ty.Underlying().(*types.Basic)
	if !ok {
		return "", t.bad(n, "type %s", ty)
	}
	return ityOfName(b.Name(), func() error { return t.bad(n, "type %s", ty) })
}

func ityOfName(name string, bad func() error) (string, error) {
	switch name {
	case "int", "int64":
		return "(I 64)", nil
	case "int32", "rune":
		return "(I 32)", nil
	case "int16":
		return "(I 16)", nil
	case "int8":
		return "(I 8)", nil
	case "uint", "uint64", "uintptr":
		return "(U 64)", nil
	case "uint32":
		return "(U 32)", nil
	case "uint16":
		return "(U 16)", nil
	case "uint8", "byte":
		return "(U 8)", nil
	case "bool", "untyped bool":
		return "bool", nil
	}
	return "", bad()
}

func isError(ty types.Type) bool {
	return ty != nil && types.Identical(ty, types.Universe.Lookup("error").Type())
}

// structFields: the fields of a struct type made of integers and booleans only (nil otherwise).
func (t *tr) structFields(ty types.Type) []*types.Var {
	if ty == nil {
		return nil
	}
	st, ok := ty.Underlying().(*types.Struct)
	if !ok || st.NumFields() == 0 {
		return nil
	}
	var fs []*types.Var
	for i := 0; i < st.NumFields(); i++ {
		if _, err := t.ity(st.Field(i).Type(), nil); err != nil {
			return nil
		}
		fs = append(fs, st.Field(i))
	}
	return fs
}

// sliceElem: the element type of a slice of integers.
func (t *tr) sliceElem(ty types.Type) (types.Type, bool) {
	if ty == nil {
		return nil, false
	}
	sl, ok := ty.Underlying().(*types.Slice)
	if !ok {
		return nil, false
	}
	if s, err := t.ity(sl.Elem(), nil); err != nil || s == "bool" {
		return nil, false
	}
	return sl.Elem(), true
}

// recvPath: e is `c.f` or `c.g.f` (g a struct-typed field, not a pointer) with c the receiver; returns the field and its
// index path from the receiver's struct.
func (t *tr) recvPath(e ast.Expr) (*types.Var, []int) {
	se, ok := e.(*ast.SelectorExpr)
	if !ok || t.recv == nil {
		return nil, nil
	}
	sel := t.p.info.Selections[se]
	if sel == nil || sel.Kind() != types.FieldVal {
		return nil, nil
	}
	f, ok := sel.Obj().(*types.Var)
	if !ok || !f.IsField() {
		return nil, nil
	}
	if id, ok := se.X.(*ast.Ident); ok && t.p.info.Uses[id] == t.recv {
		return f, append([]int{}, sel.Index()...)
	}
	g, idx := t.recvPath(se.X)
	if g == nil {
		return nil, nil
	}
	if _, ok := g.Type().Underlying().(*types.Struct); !ok {
		return nil, nil
	}
	return f, append(idx, sel.Index()...)
}

// recvField: e is a field of the receiver (possibly nested); returns the field.
func (t *tr) recvField(e ast.Expr) *types.Var {
	f, idx := t.recvPath(e)
	if f == nil {
		return nil
	}
	key := fmt.Sprint(idx)
	if old, ok := t.fieldKey[f]; ok && old != key {
		return nil // the same field object reached through two paths: not in the fragment
	}
	t.fieldKey[f] = key
	return f
}

// sliceRef: e must be a slice-typed receiver field, a local slice created by make, or a slice parameter; returns its
// Coq name.
func (t *tr) sliceRef(e ast.Expr) (string, types.Type, error) {
	for {
		pe, ok := e.(*ast.ParenExpr)
		if !ok {
			break
		}
		e = pe.X
	}
	if id, ok := e.(*ast.Ident); ok {
		o := t.p.info.Uses[id]
		if o != nil && (t.sliceLocal[o] || t.sliceParam[o]) {
			el, ok := t.sliceElem(o.Type())
			if !ok {
				return "", nil, t.bad(e, "variable %s of type %s used as a slice of integers", id.Name, o.Type())
			}
			return t.name(o), el, nil
		}
	}
	f := t.recvField(e)
	if f == nil {
		return "", nil, t.bad(e, "slice that is neither a field of the receiver, a local made by make, nor a parameter")
	}
	el, ok := t.sliceElem(f.Type())
	if !ok {
		return "", nil, t.bad(e, "field %s of type %s used as a slice of integers", f.Name(), f.Type())
	}
	return t.name(f), el, nil
}

// sliceObj: the variable behind a slice expression that is a plain identifier (nil for a receiver field).
func (t *tr) sliceObj(e ast.Expr) types.Object {
	for {
		pe, ok := e.(*ast.ParenExpr)
		if !ok {
			break
		}
		e = pe.X
	}
	if id, ok := e.(*ast.Ident); ok {
		return t.p.info.Uses[id]
	}
	return nil
}

// inConstLen: the w elements from the constant index of e on lie inside a local of constant length (no run-time test).
func (t *tr) inConstLen(x ast.Expr, index ast.Expr, w int64) bool {
	o := t.sliceObj(x)
	if o == nil {
		return false
	}
	n, ok := t.constLen[o]
	if !ok {
		return false
	}
	var c int64
	if index != nil {
		v := t.p.info.Types[index].Value
		if v == nil || v.Kind() != constant.Int {
			return false
		}
		c, ok = constant.Int64Val(v)
		if !ok {
			return false
		}
	}
	return 0 <= c && c+w <= n
}

// beCall: e is binary.BigEndian.<name>(args); returns name.
func (t *tr) beCall(e *ast.CallExpr) string {
	se, ok := e.Fun.(*ast.SelectorExpr)
	if !ok {
		return ""
	}
	in, ok := se.X.(*ast.SelectorExpr)
	if !ok || in.Sel.Name != "BigEndian" {
		return ""
	}
	pk, ok := in.X.(*ast.Ident)
	if !ok {
		return ""
	}
	pn, ok := t.p.info.Uses[pk].(*types.PkgName)
	if !ok || pn.Imported().Path() != "encoding/binary" {
		return ""
	}
	return se.Sel.Name
}

// beArg: the slice operand of a binary.BigEndian call: `b` or `b[k:]`; returns the slice expression and the offset (nil = 0).
func (t *tr) beArg(a ast.Expr) (ast.Expr, ast.Expr, error) {
	if sl, ok := a.(*ast.SliceExpr); ok {
		if sl.High != nil || sl.Max != nil || sl.Slice3 {
			return nil, nil, t.bad(a, "slice expression other than b[k:]")
		}
		return sl.X, sl.Low, nil
	}
	return a, nil, nil
}

var beWidth = map[string]int64{"Uint16": 2, "Uint32": 4, "Uint64": 8, "PutUint16": 2, "PutUint32": 4, "PutUint64": 8}

// beAccess translates the slice and offset of a binary.BigEndian access of width w and records its bounds test.
func (t *tr) beAccess(a ast.Expr, w int64) (string, string, types.Object, error) {
	xe, off, err := t.beArg(a)
	if err != nil {
		return "", "", nil, err
	}
	x, el, err := t.sliceRef(xe)
	if err != nil {
		return "", "", nil, err
	}
	if s, _ := t.ity(el, a); s != "(U 8)" {
		return "", "", nil, t.bad(a, "binary.BigEndian on a slice that is not []byte")
	}
	k := "0"
	if off != nil {
		if k, err = t.expr(off); err != nil {
			return "", "", nil, err
		}
	}
	if !t.inConstLen(xe, off, w) {
		if !t.partial {
			return "", "", nil, t.bad(a, "internal: slice access in a function not marked partial")
		}
		t.guards = append(t.guards, fmt.Sprintf("(andb (Z.leb 0 %s) (Z.leb (%s + %d) (go_len %s)))", k, k, w, x))
	}
	return x, k, t.sliceObj(xe), nil
}

func (t *tr) coqType(ty types.Type, n ast.Node) (string, error) {
	if isError(ty) {
		return "bool", nil
	}
	if _, ok := t.sliceElem(ty); ok {
		return "(list Z)", nil
	}
	if fs := t.structFields(ty); fs != nil {
		var cs []string
		for _, f := range fs {
			c, err := t.coqType(f.Type(), n)
			if err != nil {
				return "", err
			}
			cs = append(cs, c)
		}
		if len(cs) == 1 {
			return cs[0], nil
		}
		return "(" + strings.Join(cs, " * ") + ")", nil
	}
	s, err := t.ity(ty, n)
	if err != nil {
		return "", err
	}
	if s == "bool" {
		return "bool", nil
	}
	return "Z", nil
}

func (t *tr) name(o types.Object) string {
	if s, ok := t.names[o]; ok {
		return s
	}
	base := "v_" + o.Name()
	if o.Name() == "_" {
		base = "v_blank"
	}
	if v, ok := o.(*types.Var); ok && v.IsField() {
		base = "f_" + o.Name()
	}
	t.used[base]++
	s := base
	if t.used[base] > 1 {
		s = fmt.Sprintf("%s_%d", base, t.used[base])
	}
	t.names[o] = s
	return s
}

func (t *tr) fresh(base string) string {
	t.used[base]++
	if t.used[base] > 1 {
		return fmt.Sprintf("%s_%d", base, t.used[base])
	}
	return base
}

func zlit(v constant.Value) string {
	s := v.ExactString()
	if strings.HasPrefix(s, "-") {
		return "(" + s + ")"
	}
	return s
}

func (t *tr) isUnsignedOrConst(e ast.Expr) bool {
	tv := t.p.info.Types[e]
	if tv.Value != nil {
		return constant.Sign(tv.Value) >= 0
	}
	s, err := t.ity(tv.Type, e)
	return err == nil && strings.HasPrefix(s, "(U")
}

func (t *tr) expr(e ast.Expr) (string, error) {
	tv, ok := t.p.info.Types[e]
	if ok && tv.Value != nil {
		switch tv.Value.Kind() {
		case constant.Int:
			return zlit(tv.Value), nil
		case constant.Bool:
			if constant.BoolVal(tv.Value) {
				return "true", nil
			}
			return "false", nil
		default:
			return "", t.bad(e, "constant of kind %v", tv.Value.Kind())
		}
	}
	if ok && tv.IsNil() {
		return "false", nil // nil of type error (any other nil is refused where it is used)
	}
	switch e := e.(type) {
	case *ast.ParenExpr:
		return t.expr(e.X)
	case *ast.CompositeLit:
		fs := t.structFields(tv.Type)
		if fs == nil {
			return "", t.bad(e, "composite literal of type %s", tv.Type)
		}
		vals := make([]string, len(fs))
		for i, f := range fs {
			z, err := t.zero(f.Type(), e)
			if err != nil {
				return "", err
			}
			vals[i] = z
		}
		for i, el := range e.Elts {
			idx, ve := i, el
			if kv, ok := el.(*ast.KeyValueExpr); ok {
				id, ok := kv.Key.(*ast.Ident)
				if !ok {
					return "", t.bad(el, "composite literal key")
				}
				idx = -1
				for j, f := range fs {
					if f.Name() == id.Name {
						idx = j
					}
				}
				ve = kv.Value
			}
			if idx < 0 || idx >= len(fs) {
				return "", t.bad(el, "composite literal element")
			}
			v, err := t.expr(ve)
			if err != nil {
				return "", err
			}
			vals[idx] = v
		}
		if len(vals) == 1 {
			return vals[0], nil
		}
		return "(" + strings.Join(vals, ", ") + ")", nil
	case *ast.IndexExpr:
		x, el, err := t.sliceRef(e.X)
		if err != nil {
			return "", err
		}
		if !t.partial && !t.inConstLen(e.X, e.Index, 1) {
			return "", t.bad(e, "internal: index expression in a function not marked partial")
		}
		if _, err := t.ity(el, e); err != nil {
			return "", err
		}
		j, err := t.expr(e.Index)
		if err != nil {
			return "", err
		}
		if !t.inConstLen(e.X, e.Index, 1) {
			t.guards = append(t.guards, "(andb (Z.leb 0 "+j+") (Z.ltb "+j+" (go_len "+x+")))")
		}
		return "(go_nth " + x + " " + j + ")", nil
	case *ast.SelectorExpr:
		if f := t.recvField(e); f != nil {
			if _, ok := t.sliceElem(f.Type()); ok {
				return "", t.bad(e, "slice field %s used as a value (only len, index and range are translated)", f.Name())
			}
			if _, err := t.coqType(f.Type(), e); err != nil {
				return "", err
			}
			return t.name(f), nil
		}
		// field read of a struct-typed local (package-qualified constants were folded above)
		xtv, ok := t.p.info.Types[e.X]
		if !ok {
			return "", t.bad(e, "selector %s", e.Sel.Name)
		}
		fs := t.structFields(xtv.Type)
		if fs == nil {
			return "", t.bad(e, "field %s of %s", e.Sel.Name, xtv.Type)
		}
		x, err := t.expr(e.X)
		if err != nil {
			return "", err
		}
		if len(fs) == 1 {
			return x, nil
		}
		var pat []string
		pick := ""
		for _, f := range fs {
			if f.Name() == e.Sel.Name {
				pick = "fld_" + f.Name()
				pat = append(pat, pick)
			} else {
				pat = append(pat, "_")
			}
		}
		if pick == "" {
			return "", t.bad(e, "field %s", e.Sel.Name)
		}
		return "(let '(" + strings.Join(pat, ", ") + ") := " + x + " in " + pick + ")", nil
	case *ast.Ident:
		o := t.p.info.Uses[e]
		if o == nil {
			o = t.p.info.Defs[e]
		}
		if o != nil && o == t.recv {
			return "", t.bad(e, "use of the receiver other than in a field access")
		}
		if v, ok := o.(*types.Var); ok && !v.IsField() {
			if _, isSlice := v.Type().Underlying().(*types.Slice); isSlice {
				if t.sliceLocal[v] || t.sliceParam[v] {
					return t.name(v), nil // a value only where no second name for the array can arise (return, call argument)
				}
				return "", t.bad(e, "slice variable %s (only receiver fields, locals made by make and parameters may be slices)", e.Name)
			}
			if v.Parent() == t.p.pkg.Scope() || (v.Pkg() != nil && v.Parent() == v.Pkg().Scope()) {
				return "", t.bad(e, "package-level variable %s", e.Name)
			}
			return t.name(v), nil
		}
		return "", t.bad(e, "identifier %s", e.Name)
	case *ast.UnaryExpr:
		x, err := t.expr(e.X)
		if err != nil {
			return "", err
		}
		switch e.Op {
		case token.NOT:
			return "(negb " + x + ")", nil
		case token.ADD:
			return x, nil
		case token.SUB, token.XOR:
			ty, err := t.ity(tv.Type, e)
			if err != nil {
				return "", err
			}
			if ty == "bool" {
				return "", t.bad(e, "unary %s on bool", e.Op)
			}
			if e.Op == token.SUB {
				return "(go_neg " + ty + " " + x + ")", nil
			}
			return "(go_not " + ty + " " + x + ")", nil
		}
		return "", t.bad(e, "unary operator %s", e.Op)
	case *ast.BinaryExpr:
		x, err := t.expr(e.X)
		if err != nil {
			return "", err
		}
		ng := len(t.guards)
		y, err := t.expr(e.Y)
		if err != nil {
			return "", err
		}
		if e.Op == token.LAND || e.Op == token.LOR {
			for i := ng; i < len(t.guards); i++ { // the right operand is evaluated only if the left one does not decide
				if e.Op == token.LAND {
					t.guards[i] = "(orb (negb " + x + ") " + t.guards[i] + ")"
				} else {
					t.guards[i] = "(orb " + x + " " + t.guards[i] + ")"
				}
			}
		}
		switch e.Op {
		case token.LAND:
			return "(andb " + x + " " + y + ")", nil
		case token.LOR:
			return "(orb " + x + " " + y + ")", nil
		case token.EQL, token.NEQ, token.LSS, token.LEQ, token.GTR, token.GEQ:
			if isError(t.p.info.Types[e.X].Type) || isError(t.p.info.Types[e.Y].Type) {
				switch e.Op {
				case token.EQL:
					return "(Bool.eqb " + x + " " + y + ")", nil
				case token.NEQ:
					return "(negb (Bool.eqb " + x + " " + y + "))", nil
				}
				return "", t.bad(e, "ordering of errors")
			}
			oty, err := t.ity(t.p.info.Types[e.X].Type, e.X)
			if err != nil {
				// an untyped constant operand: take the other side
				oty, err = t.ity(t.p.info.Types[e.Y].Type, e.Y)
				if err != nil {
					return "", err
				}
			}
			if oty == "bool" {
				switch e.Op {
				case token.EQL:
					return "(Bool.eqb " + x + " " + y + ")", nil
				case token.NEQ:
					return "(negb (Bool.eqb " + x + " " + y + "))", nil
				}
				return "", t.bad(e, "ordering of booleans")
			}
			switch e.Op {
			case token.EQL:
				return "(Z.eqb " + x + " " + y + ")", nil
			case token.NEQ:
				return "(negb (Z.eqb " + x + " " + y + "))", nil
			case token.LSS:
				return "(Z.ltb " + x + " " + y + ")", nil
			case token.LEQ:
				return "(Z.leb " + x + " " + y + ")", nil
			case token.GTR:
				return "(Z.ltb " + y + " " + x + ")", nil
			default:
				return "(Z.leb " + y + " " + x + ")", nil
			}
		}
		ty, err := t.ity(tv.Type, e)
		if err != nil {
			return "", err
		}
		if ty == "bool" {
			return "", t.bad(e, "operator %s on bool", e.Op)
		}
		switch e.Op {
		case token.ADD:
			return "(go_add " + ty + " " + x + " " + y + ")", nil
		case token.SUB:
			return "(go_sub " + ty + " " + x + " " + y + ")", nil
		case token.MUL:
			return "(go_mul " + ty + " " + x + " " + y + ")", nil
		case token.QUO, token.REM:
			yv := t.p.info.Types[e.Y].Value
			if yv != nil && constant.Sign(yv) == 0 {
				return "", t.bad(e, "%s by the constant zero", e.Op)
			}
			if yv == nil {
				if !t.partial {
					return "", t.bad(e, "%s with a divisor that is not a non-zero constant", e.Op)
				}
				t.guards = append(t.guards, "(negb (Z.eqb "+y+" 0))")
			}
			if e.Op == token.QUO {
				return "(go_quo " + ty + " " + x + " " + y + ")", nil
			}
			return "(go_rem " + ty + " " + x + " " + y + ")", nil
		case token.AND:
			return "(Z.land " + x + " " + y + ")", nil
		case token.OR:
			return "(Z.lor " + x + " " + y + ")", nil
		case token.XOR:
			return "(Z.lxor " + x + " " + y + ")", nil
		case token.AND_NOT:
			return "(go_andnot " + ty + " " + x + " " + y + ")", nil
		case token.SHL, token.SHR:
			if !t.isUnsignedOrConst(e.Y) {
				if !t.partial {
					return "", t.bad(e, "shift by a signed non-constant count")
				}
				t.guards = append(t.guards, "(Z.leb 0 "+y+")")
			}
			if e.Op == token.SHL {
				return "(go_shl " + ty + " " + x + " " + y + ")", nil
			}
			return "(go_shr " + ty + " " + x + " " + y + ")", nil
		}
		return "", t.bad(e, "binary operator %s", e.Op)
	case *ast.CallExpr:
		if ftv, ok := t.p.info.Types[e.Fun]; ok && ftv.IsType() {
			if len(e.Args) != 1 {
				return "", t.bad(e, "conversion with %d arguments", len(e.Args))
			}
			to, err := t.ity(ftv.Type, e)
			if err != nil {
				return "", err
			}
			from, err := t.ity(t.p.info.Types[e.Args[0]].Type, e.Args[0])
			if err != nil {
				return "", err
			}
			x, err := t.expr(e.Args[0])
			if err != nil {
				return "", err
			}
			if to == "bool" || from == "bool" {
				if to == from {
					return x, nil
				}
				return "", t.bad(e, "conversion between bool and integer")
			}
			return "(go_cast " + to + " " + x + ")", nil
		}
		if fid, ok := e.Fun.(*ast.Ident); ok {
			if b, ok := t.p.info.Uses[fid].(*types.Builtin); ok && b.Name() == "len" && len(e.Args) == 1 {
				x, _, err := t.sliceRef(e.Args[0])
				if err != nil {
					return "", err
				}
				return "(go_len " + x + ")", nil
			}
		}
		if fid, ok := e.Fun.(*ast.Ident); ok {
			if b, ok := t.p.info.Uses[fid].(*types.Builtin); ok && b.Name() == "make" && len(e.Args) == 2 {
				if _, ok := t.sliceElem(tv.Type); !ok {
					return "", t.bad(e, "make of %s", tv.Type)
				}
				n, err := t.expr(e.Args[1])
				if err != nil {
					return "", err
				}
				if nv := t.p.info.Types[e.Args[1]].Value; nv == nil || constant.Sign(nv) < 0 {
					if !t.partial {
						return "", t.bad(e, "make with a length that is not a non-negative constant")
					}
					t.guards = append(t.guards, "(Z.leb 0 "+n+")")
				}
				return "(go_make " + n + ")", nil
			}
		}
		if name := t.beCall(e); name != "" {
			w, ok := beWidth[name]
			if !ok || strings.HasPrefix(name, "Put") || len(e.Args) != 1 {
				return "", t.bad(e, "binary.BigEndian.%s as an expression", name)
			}
			x, k, _, err := t.beAccess(e.Args[0], w)
			if err != nil {
				return "", err
			}
			return fmt.Sprintf("(go_be%d %s %s)", w*8, x, k), nil
		}
		if se, ok := e.Fun.(*ast.SelectorExpr); ok && se.Sel.Name == "Unix" && len(e.Args) == 0 {
			if in, ok := se.X.(*ast.CallExpr); ok && len(in.Args) == 0 {
				if ise, ok := in.Fun.(*ast.SelectorExpr); ok && ise.Sel.Name == "Now" {
					if pk, ok := ise.X.(*ast.Ident); ok {
						if pn, ok := t.p.info.Uses[pk].(*types.PkgName); ok && pn.Imported().Path() == "time" {
							t.usesNow = true
							return "v_now", nil // the clock (seconds since the Unix epoch) is a parameter
						}
					}
				}
			}
		}
		if se, ok := e.Fun.(*ast.SelectorExpr); ok {
			if sel := t.p.info.Selections[se]; sel != nil && sel.Kind() == types.MethodVal {
				fo := sel.Obj().(*types.Func)
				rt := fo.Type().(*types.Signature).Recv().Type()
				if pt, ok := rt.(*types.Pointer); ok {
					rt = pt.Elem()
				}
				nt, ok := rt.(*types.Named)
				if !ok || fo.Pkg() == nil {
					return "", t.bad(e, "call of method %s", fo.Name())
				}
				key := fo.Pkg().Path() + "." + nt.Obj().Name() + "." + fo.Name()
				var args []string
				for _, a := range e.Args {
					x, err := t.expr(a)
					if err != nil {
						return "", err
					}
					args = append(args, x)
				}
				if id, ok := se.X.(*ast.Ident); ok && t.recv != nil && t.p.info.Uses[id] == t.recv {
					mi, ok := methods[key]
					if !ok {
						return "", t.bad(e, "call of %s, which is not a translated total method without field assignments", key)
					}
					for i, f := range mi.fields {
						if old, ok := t.fieldKey[f]; ok && old != mi.keys[i] {
							return "", t.bad(e, "field %s reached through two paths", f.Name())
						}
						t.fieldKey[f] = mi.keys[i]
						args = append(args, t.name(f))
					}
					return "(" + mi.coq + " " + strings.Join(args, " ") + ")", nil
				}
				if xs, err := t.ity(t.p.info.Types[se.X].Type, se.X); err == nil && xs != "bool" {
					cn, ok := t.total[key]
					if !ok {
						return "", t.bad(e, "call of %s, which is not a translated loop-free method", key)
					}
					x, err := t.expr(se.X)
					if err != nil {
						return "", err
					}
					return "(" + cn + " " + strings.Join(append([]string{x}, args...), " ") + ")", nil
				}
				return "", t.bad(e, "call of method %s on %s", fo.Name(), t.p.info.Types[se.X].Type)
			}
		}
		var id *ast.Ident
		switch f := e.Fun.(type) {
		case *ast.Ident:
			id = f
		case *ast.SelectorExpr:
			id = f.Sel
		case *ast.IndexExpr: // explicit instantiation f[T](..)
			switch g := f.X.(type) {
			case *ast.Ident:
				id = g
			case *ast.SelectorExpr:
				id = g.Sel
			}
		}
		if id == nil {
			return "", t.bad(e, "call of a non-identifier")
		}
		fo, ok := t.p.info.Uses[id].(*types.Func)
		if !ok || fo.Pkg() == nil {
			return "", t.bad(e, "call of %s", id.Name)
		}
		key := fo.Pkg().Path() + "." + fo.Name()
		if (key == "fmt.Errorf" || key == "errors.New") && isError(tv.Type) {
			return "true", nil // an error value: only its presence is kept
		}
		if (key == "math/bits.OnesCount32" || key == "math/bits.OnesCount64" || key == "math/bits.OnesCount") && len(e.Args) == 1 {
			x, err := t.expr(e.Args[0])
			if err != nil {
				return "", err
			}
			return "(go_popcount " + x + ")", nil // by specification: the number of one bits of an unsigned value
		}
		if key == "math/bits.RotateLeft64" && len(e.Args) == 2 {
			x, err := t.expr(e.Args[0])
			if err != nil {
				return "", err
			}
			k, err := t.expr(e.Args[1])
			if err != nil {
				return "", err
			}
			return "(go_rotl64 " + x + " " + k + ")", nil
		}
		if inst, ok := t.p.info.Instances[id]; ok && inst.TypeArgs != nil {
			for i := 0; i < inst.TypeArgs.Len(); i++ {
				ta := inst.TypeArgs.At(i)
				if tp, ok := ta.(*types.TypeParam); ok {
					key += "_" + t.sp.Inst[tp.Obj().Name()]
				} else if b, ok := ta.Underlying().(*types.Basic); ok {
					key += "_" + b.Name()
				} else {
					return "", t.bad(e, "instantiation at %s", ta)
				}
			}
		}
		cn, ok := t.total[key]
		if !ok {
			return "", t.bad(e, "call of %s, which is not a translated loop-free function", key)
		}
		s := "(" + cn
		for _, a := range e.Args {
			x, err := t.expr(a)
			if err != nil {
				return "", err
			}
			s += " " + x
		}
		return s + ")", nil
	}
	return "", t.bad(e, "expression %T", e)
}

// ---- statements ----

func hasReturn(list []ast.Stmt) bool {
	found := false
	for _, s := range list {
		ast.Inspect(s, func(n ast.Node) bool {
			if _, ok := n.(*ast.ReturnStmt); ok {
				found = true
			}
			if _, ok := n.(*ast.FuncLit); ok {
				return false
			}
			return true
		})
	}
	return found
}

func hasJump(list []ast.Stmt) (ast.Node, bool) {
	var at ast.Node
	for _, s := range list {
		ast.Inspect(s, func(n ast.Node) bool {
			switch n.(type) {
			case *ast.BranchStmt, *ast.ReturnStmt, *ast.GoStmt, *ast.DeferStmt, *ast.LabeledStmt:
				if at == nil {
					at = n
				}
			}
			return true
		})
	}
	return at, at != nil
}

func elseList(s *ast.IfStmt) []ast.Stmt {
	switch e := s.Else.(type) {
	case nil:
		return nil
	case *ast.BlockStmt:
		return e.List
	default:
		return []ast.Stmt{e}
	}
}

func isPanic(s ast.Stmt) bool {
	es, ok := s.(*ast.ExprStmt)
	if !ok {
		return false
	}
	c, ok := es.X.(*ast.CallExpr)
	if !ok {
		return false
	}
	id, ok := c.Fun.(*ast.Ident)
	return ok && id.Name == "panic"
}

func hasPanic(list []ast.Stmt) bool {
	found := false
	for _, s := range list {
		ast.Inspect(s, func(n ast.Node) bool {
			if st, ok := n.(ast.Stmt); ok && isPanic(st) {
				found = true
			}
			return true
		})
	}
	return found
}

func endsInBreak(list []ast.Stmt) bool {
	if len(list) == 0 {
		return false
	}
	b, ok := list[len(list)-1].(*ast.BranchStmt)
	return ok && b.Tok == token.BREAK && b.Label == nil
}

// checkBreaks: in a loop body a `break` may only be the last statement of an `if` (or of its else block) that stands
// directly in the body; no other jump.  Returns whether there is such a break, and the first offending node.
func checkBreaks(body []ast.Stmt) (bool, ast.Node) {
	uses := false
	part := func(l []ast.Stmt) ast.Node {
		if endsInBreak(l) {
			uses = true
			l = l[:len(l)-1]
		}
		if at, bad := hasJump(l); bad {
			return at
		}
		return nil
	}
	for _, st := range body {
		if is, ok := st.(*ast.IfStmt); ok {
			if is.Init != nil {
				if at, bad := hasJump([]ast.Stmt{is.Init}); bad {
					return uses, at
				}
			}
			if at := part(is.Body.List); at != nil {
				return uses, at
			}
			if at := part(elseList(is)); at != nil {
				return uses, at
			}
			continue
		}
		if at, bad := hasJump([]ast.Stmt{st}); bad {
			return uses, at
		}
	}
	return uses, nil
}

func terminates(list []ast.Stmt) bool {
	if len(list) == 0 {
		return false
	}
	switch s := list[len(list)-1].(type) {
	case *ast.ReturnStmt:
		return true
	case *ast.ExprStmt:
		return isPanic(s)
	case *ast.BlockStmt:
		return terminates(s.List)
	case *ast.IfStmt:
		return s.Else != nil && terminates(s.Body.List) && terminates(elseList(s))
	case *ast.SwitchStmt:
		hasDefault := false
		for _, c := range s.Body.List {
			cc := c.(*ast.CaseClause)
			if cc.List == nil {
				hasDefault = true
			}
			if !terminates(cc.Body) {
				return false
			}
		}
		return hasDefault
	}
	return false
}

// assignedOutside: variables assigned in the statements whose declaration lies outside [lo, hi).
func (t *tr) assignedOutside(lists [][]ast.Stmt, lo, hi token.Pos) []types.Object {
	seen := map[types.Object]bool{}
	var out []types.Object
	add := func(e ast.Expr) {
		if ie, ok := e.(*ast.IndexExpr); ok {
			e = ie.X
		}
		var o types.Object
		if f := t.recvField(e); f != nil {
			o = f
		} else {
			id, ok := e.(*ast.Ident)
			if !ok || id.Name == "_" {
				return
			}
			o = t.p.info.Defs[id]
			if o == nil {
				o = t.p.info.Uses[id]
			}
		}
		if o == nil || seen[o] {
			return
		}
		if o.Pos() >= lo && o.Pos() < hi {
			return
		}
		seen[o] = true
		out = append(out, o)
	}
	for _, l := range lists {
		for _, s := range l {
			ast.Inspect(s, func(n ast.Node) bool {
				switch n := n.(type) {
				case *ast.AssignStmt:
					for _, l := range n.Lhs {
						add(l)
					}
				case *ast.IncDecStmt:
					add(n.X)
				}
				return true
			})
		}
	}
	sort.Slice(out, func(i, j int) bool { return out[i].Pos() < out[j].Pos() })
	return out
}

func (t *tr) tuple(vs []types.Object) string {
	if len(vs) == 1 {
		return t.name(vs[0])
	}
	var ns []string
	for _, v := range vs {
		ns = append(ns, t.name(v))
	}
	return "(" + strings.Join(ns, ", ") + ")"
}

func (t *tr) pat(vs []types.Object) string {
	if len(vs) == 1 {
		return t.name(vs[0])
	}
	return "'" + t.tuple(vs)
}

func (t *tr) ret(vals []string) string {
	for _, f := range t.asg {
		vals = append(vals, t.name(f))
	}
	v := vals[0]
	if len(vals) > 1 {
		v = "(" + strings.Join(vals, ", ") + ")"
	}
	if t.option {
		return "Some " + v
	}
	return v
}

func (t *tr) zero(ty types.Type, n ast.Node) (string, error) {
	if fs := t.structFields(ty); fs != nil && !isError(ty) {
		var zs []string
		for _, f := range fs {
			z, err := t.zero(f.Type(), n)
			if err != nil {
				return "", err
			}
			zs = append(zs, z)
		}
		if len(zs) == 1 {
			return zs[0], nil
		}
		return "(" + strings.Join(zs, ", ") + ")", nil
	}
	c, err := t.coqType(ty, n)
	if err != nil {
		return "", err
	}
	if c == "bool" {
		return "false", nil
	}
	return "0", nil
}

func (t *tr) lhs(e ast.Expr) (string, error) {
	if f := t.recvField(e); f != nil {
		if _, ok := t.sliceElem(f.Type()); ok {
			return "", t.bad(e, "assignment to the slice field %s itself", f.Name())
		}
		if _, err := t.coqType(f.Type(), e); err != nil {
			return "", err
		}
		return t.name(f), nil
	}
	id, ok := e.(*ast.Ident)
	if !ok {
		return "", t.bad(e, "assignment to %T", e)
	}
	if id.Name == "_" {
		return "_", nil
	}
	o := t.p.info.Defs[id]
	if o == nil {
		o = t.p.info.Uses[id]
	}
	v, ok := o.(*types.Var)
	if !ok || v.IsField() || (v.Pkg() != nil && v.Parent() == v.Pkg().Scope()) {
		return "", t.bad(e, "assignment to %s", id.Name)
	}
	return t.name(v), nil
}

var opOfAssign = map[token.Token]token.Token{
	token.ADD_ASSIGN: token.ADD, token.SUB_ASSIGN: token.SUB, token.MUL_ASSIGN: token.MUL, token.QUO_ASSIGN: token.QUO,
	token.REM_ASSIGN: token.REM, token.AND_ASSIGN: token.AND, token.OR_ASSIGN: token.OR, token.XOR_ASSIGN: token.XOR,
	token.SHL_ASSIGN: token.SHL, token.SHR_ASSIGN: token.SHR, token.AND_NOT_ASSIGN: token.AND_NOT,
}

// simple translates a statement without control flow into "let … := … in\n" ("" for an empty statement).
func (t *tr) simple(s ast.Stmt, ind string) (string, error) {
	switch s := s.(type) {
	case nil, *ast.EmptyStmt:
		return "", nil
	case *ast.DeclStmt:
		gd, ok := s.Decl.(*ast.GenDecl)
		if !ok || gd.Tok != token.VAR {
			if ok && gd.Tok == token.CONST {
				return "", nil // constants are folded at their uses
			}
			return "", t.bad(s, "declaration")
		}
		out := ""
		for _, sp := range gd.Specs {
			vs := sp.(*ast.ValueSpec)
			for i, id := range vs.Names {
				o := t.p.info.Defs[id]
				var val string
				var err error
				if len(vs.Values) == len(vs.Names) {
					val, err = t.expr(vs.Values[i])
				} else if len(vs.Values) == 0 {
					val, err = t.zero(o.Type(), id)
				} else {
					err = t.bad(s, "multi-value var declaration")
				}
				if err != nil {
					return "", err
				}
				if _, err := t.coqType(o.Type(), id); err != nil {
					return "", err
				}
				if _, isSlice := o.Type().Underlying().(*types.Slice); isSlice {
					return "", t.bad(s, "var declaration of a slice (a local slice must be created by `x := make(..)`)")
				}
				out += ind + "let " + t.name(o) + " := " + val + " in\n"
			}
		}
		return out, nil
	case *ast.IncDecStmt:
		ty, err := t.ity(t.p.info.Types[s.X].Type, s)
		if err != nil {
			return "", err
		}
		op := "go_add"
		if s.Tok == token.DEC {
			op = "go_sub"
		}
		if ie, ok := s.X.(*ast.IndexExpr); ok {
			old, err := t.expr(ie)
			if err != nil {
				return "", err
			}
			return t.indexStore(ie, "("+op+" "+ty+" "+old+" 1)", ind)
		}
		l, err := t.lhs(s.X)
		if err != nil {
			return "", err
		}
		return ind + "let " + l + " := (" + op + " " + ty + " " + l + " 1) in\n", nil
	case *ast.ExprStmt:
		call, ok := s.X.(*ast.CallExpr)
		if !ok {
			return "", t.bad(s, "statement %T", s)
		}
		name := t.beCall(call)
		w, ok := beWidth[name]
		if !ok || !strings.HasPrefix(name, "Put") || len(call.Args) != 2 {
			return "", t.bad(s, "statement %T", s)
		}
		x, k, obj, err := t.beAccess(call.Args[0], w)
		if err != nil {
			return "", err
		}
		if obj != nil && t.sliceParam[obj] {
			return "", t.bad(s, "store into the slice parameter %s (parameters are read-only in the fragment)", obj.Name())
		}
		v, err := t.expr(call.Args[1])
		if err != nil {
			return "", err
		}
		return fmt.Sprintf("%slet %s := (go_put_be%d %s %s %s) in\n", ind, x, w*8, x, k, v), nil
	case *ast.AssignStmt:
		for i, r := range s.Rhs {
			if _, isSlice := t.p.info.Types[r].Type.Underlying().(*types.Slice); isSlice {
				call, ok := r.(*ast.CallExpr)
				fid, ok2 := ast.Expr(nil), false
				if ok {
					fid, ok2 = call.Fun.(*ast.Ident)
				}
				isMake := false
				if ok2 {
					if b, ok := t.p.info.Uses[fid.(*ast.Ident)].(*types.Builtin); ok && b.Name() == "make" {
						isMake = true
					}
				}
				lid, lok := s.Lhs[i%len(s.Lhs)].(*ast.Ident)
				if !isMake || s.Tok != token.DEFINE || len(s.Lhs) != len(s.Rhs) || !lok || !t.sliceLocal[t.p.info.Defs[lid]] {
					return "", t.bad(s, "assignment of a slice other than `x := make(..)` (two names for one array are not in the fragment)")
				}
			}
		}
		if len(s.Lhs) > 1 && len(s.Lhs) == len(s.Rhs) && s.Tok == token.ASSIGN {
			anyIdx := false
			for _, l := range s.Lhs {
				if _, ok := l.(*ast.IndexExpr); ok {
					anyIdx = true
				}
			}
			if anyIdx { // a[i], a[j] = x, y : the right-hand sides are evaluated first, then the stores happen left to right
				var tmps []string
				out := ""
				for _, r := range s.Rhs {
					v, err := t.expr(r)
					if err != nil {
						return "", err
					}
					tmp := t.fresh("v_tmp")
					tmps = append(tmps, tmp)
					out += ind + "let " + tmp + " := " + v + " in\n"
				}
				for i, l := range s.Lhs {
					if ie, ok := l.(*ast.IndexExpr); ok {
						if tvI := t.p.info.Types[ie.Index]; tvI.Value == nil {
							return "", t.bad(s, "tuple assignment to an element with a non-constant index")
						}
						st, err := t.indexStore(ie, tmps[i], ind)
						if err != nil {
							return "", err
						}
						out += st
						continue
					}
					x, err := t.lhs(l)
					if err != nil {
						return "", err
					}
					out += ind + "let " + x + " := " + tmps[i] + " in\n"
				}
				return out, nil
			}
		}
		if ie, ok := s.Lhs[0].(*ast.IndexExpr); ok && s.Tok == token.ASSIGN && len(s.Lhs) == 1 && len(s.Rhs) == 1 {
			v, err := t.expr(s.Rhs[0])
			if err != nil {
				return "", err
			}
			return t.indexStore(ie, v, ind)
		}
		if s.Tok == token.ASSIGN || s.Tok == token.DEFINE {
			if len(s.Lhs) > 1 && len(s.Rhs) == 1 {
				call, ok := s.Rhs[0].(*ast.CallExpr)
				if !ok {
					return "", t.bad(s, "multi-value assignment from %T", s.Rhs[0])
				}
				if tup, ok := t.p.info.Types[call].Type.(*types.Tuple); !ok || tup.Len() != len(s.Lhs) {
					return "", t.bad(s, "assignment of a multi-value call")
				}
				r, err := t.expr(call)
				if err != nil {
					return "", err
				}
				var ls []string
				for _, l := range s.Lhs {
					x, err := t.lhs(l)
					if err != nil {
						return "", err
					}
					ls = append(ls, x)
				}
				return ind + "let '(" + strings.Join(ls, ", ") + ") := " + r + " in\n", nil
			}
			if len(s.Lhs) != len(s.Rhs) {
				return "", t.bad(s, "assignment of a multi-value call")
			}
			var ls, rs []string
			for i := range s.Lhs {
				r, err := t.expr(s.Rhs[i])
				if err != nil {
					return "", err
				}
				l, err := t.lhs(s.Lhs[i])
				if err != nil {
					return "", err
				}
				ls, rs = append(ls, l), append(rs, r)
			}
			if len(ls) == 1 {
				return ind + "let " + ls[0] + " := " + rs[0] + " in\n", nil
			}
			return ind + "let '(" + strings.Join(ls, ", ") + ") := (" + strings.Join(rs, ", ") + ") in\n", nil
		}
		op, ok := opOfAssign[s.Tok]
		if !ok || len(s.Lhs) != 1 {
			return "", t.bad(s, "assignment %s", s.Tok)
		}
		// x op= y  is  x = x op (y); the type of the operation is the type of x
		be := &ast.BinaryExpr{X: s.Lhs[0], Op: op, Y: s.Rhs[0], OpPos: s.TokPos}
		t.p.info.Types[be] = types.TypeAndValue{Type: t.p.info.Types[s.Lhs[0]].Type}
		if op == token.SHL || op == token.SHR {
			t.p.info.Types[be] = types.TypeAndValue{Type: t.p.info.Types[s.Lhs[0]].Type}
		}
		r, err := t.expr(be)
		if err != nil {
			return "", err
		}
		if ie, ok := s.Lhs[0].(*ast.IndexExpr); ok {
			return t.indexStore(ie, r, ind)
		}
		l, err := t.lhs(s.Lhs[0])
		if err != nil {
			return "", err
		}
		return ind + "let " + l + " := " + r + " in\n", nil
	}
	return "", t.bad(s, "statement %T", s)
}

// indexStore: c.f[j] = val (the index test joins the guards of the statement).
func (t *tr) indexStore(ie *ast.IndexExpr, val string, ind string) (string, error) {
	x, _, err := t.sliceRef(ie.X)
	if err != nil {
		return "", err
	}
	if o := t.sliceObj(ie.X); o != nil && t.sliceParam[o] {
		return "", t.bad(ie, "store into the slice parameter %s (parameters are read-only in the fragment)", o.Name())
	}
	safe := t.inConstLen(ie.X, ie.Index, 1)
	if !t.partial && !safe {
		return "", t.bad(ie, "internal: index store in a function not marked partial")
	}
	j, err := t.expr(ie.Index)
	if err != nil {
		return "", err
	}
	if !safe {
		t.guards = append(t.guards, "(andb (Z.leb 0 "+j+") (Z.ltb "+j+" (go_len "+x+")))")
	}
	return ind + "let " + x + " := (go_upd " + x + " " + j + " " + val + ") in\n", nil
}

// takeGuards returns (and forgets) the conjunction of the no-panic conditions collected since the last call; "" if none.
// They can be tested only where the continuation is the function's own result (k == "").
func (t *tr) takeGuards(k string, n ast.Node) (string, error) {
	if len(t.guards) == 0 {
		return "", nil
	}
	g := t.guards[0]
	for _, x := range t.guards[1:] {
		g = "(andb " + g + " " + x + ")"
	}
	t.guards = nil
	if k != "" && !t.optK[k] {
		return "", t.bad(n, "operation that can panic inside a branch that falls through (or inside the loop of a total function)")
	}
	return g, nil
}

func guarded(g, ind, inner string) string {
	if g == "" {
		return inner
	}
	return ind + "if " + g + " then\n" + inner + ind + "else None\n"
}

// seq translates a statement list followed by the final term k ("" = the list must end in a return).
func (t *tr) seq(list []ast.Stmt, k string, ind string) (string, error) {
	if len(list) == 0 {
		if k == "" {
			return "", fmt.Errorf("%s: a path falls off the end of the function without a return", t.sp.Name)
		}
		return ind + k + "\n", nil
	}
	s, rest := list[0], list[1:]
	switch s := s.(type) {
	case *ast.ReturnStmt:
		if k != "" {
			return "", t.bad(s, "return inside a branch that also falls through, or inside a loop")
		}
		if len(s.Results) == 1 && t.results > 1 {
			if call, ok := s.Results[0].(*ast.CallExpr); ok {
				if tup, ok := t.p.info.Types[call].Type.(*types.Tuple); ok && tup.Len() == t.results {
					v, err := t.expr(call)
					if err != nil {
						return "", err
					}
					g, err := t.takeGuards(k, s)
					if err != nil {
						return "", err
					}
					return guarded(g, ind, ind+t.ret([]string{v})+"\n"), nil
				}
			}
		}
		if len(s.Results) != t.results || (t.results == 0 && len(t.asg) == 0) {
			return "", t.bad(s, "return with %d values (bare returns of named results are not translated)", len(s.Results))
		}
		var vals []string
		for _, r := range s.Results {
			v, err := t.expr(r)
			if err != nil {
				return "", err
			}
			vals = append(vals, v)
		}
		g, err := t.takeGuards(k, s)
		if err != nil {
			return "", err
		}
		return guarded(g, ind, ind+t.ret(vals)+"\n"), nil
	case *ast.BlockStmt:
		return t.seq(append(append([]ast.Stmt{}, s.List...), rest...), k, ind)
	case *ast.IfStmt:
		pre, err := t.simple(s.Init, ind)
		if err != nil {
			return "", err
		}
		g1, err := t.takeGuards(k, s)
		if err != nil {
			return "", err
		}
		c, err := t.expr(s.Cond)
		if err != nil {
			return "", err
		}
		g2, err := t.takeGuards(k, s)
		if err != nil {
			return "", err
		}
		body, err := t.branch(c, s.Body.List, elseList(s), rest, k, ind, s)
		return guarded(g1, ind, pre+guarded(g2, ind, body)), err
	case *ast.SwitchStmt:
		pre, err := t.simple(s.Init, ind)
		if err != nil {
			return "", err
		}
		g1, err := t.takeGuards(k, s)
		if err != nil {
			return "", err
		}
		body, err := t.switchStmt(s, rest, k, ind)
		return guarded(g1, ind, pre+body), err
	case *ast.ForStmt:
		if s.Cond == nil {
			return "", t.bad(s, "for without a condition")
		}
		if t.sp.Fuel <= 0 {
			return "", t.bad(s, "loop in a function registered without fuel")
		}
		pre, err := t.simple(s.Init, ind)
		if err != nil {
			return "", err
		}
		g1, err := t.takeGuards(k, s)
		if err != nil {
			return "", err
		}
		out, err := t.loop(s, s.Body, s.Post, func() (string, error) { return t.expr(s.Cond) }, nil, "", fmt.Sprint(t.sp.Fuel)+"%nat", rest, k, ind)
		if err != nil {
			return "", err
		}
		return guarded(g1, ind, pre+out), nil
	case *ast.RangeStmt:
		if s.Value != nil {
			return "", t.bad(s, "range with a value variable")
		}
		var key types.Object
		if s.Key != nil {
			id, ok := s.Key.(*ast.Ident)
			if !ok || s.Tok != token.DEFINE {
				return "", t.bad(s, "range key that is not a new variable")
			}
			if id.Name != "_" {
				key = t.p.info.Defs[id]
			}
		}
		var bound string
		if _, ok := t.sliceElem(t.p.info.Types[s.X].Type); ok {
			x, _, err := t.sliceRef(s.X)
			if err != nil {
				return "", err
			}
			bound = "(go_len " + x + ")"
		} else if ty, err := t.ity(t.p.info.Types[s.X].Type, s.X); err == nil && ty != "bool" {
			if bound, err = t.expr(s.X); err != nil {
				return "", err
			}
		} else {
			return "", t.bad(s, "range over %s", t.p.info.Types[s.X].Type)
		}
		g1, err := t.takeGuards(k, s)
		if err != nil {
			return "", err
		}
		// the bound is evaluated once; the counter is a fresh state variable (the key, if there is one)
		lenN := t.fresh("v_len")
		var iN string
		if key != nil {
			iN = t.name(key)
		} else {
			iN = t.fresh("v_idx")
		}
		pre := ind + "let " + lenN + " := " + bound + " in\n" + ind + "let " + iN + " := 0 in\n"
		out, err := t.loop(s, s.Body, nil, func() (string, error) { return "(Z.ltb " + iN + " " + lenN + ")", nil },
			[]string{iN}, "let "+iN+" := (go_add (I 64) "+iN+" 1) in ", "(Datatypes.S (Z.to_nat "+lenN+"))", rest, k, ind)
		if err != nil {
			return "", err
		}
		return guarded(g1, ind, pre+out), nil
	case *ast.ExprStmt:
		if isPanic(s) {
			if b, ok := t.p.info.Uses[s.X.(*ast.CallExpr).Fun.(*ast.Ident)].(*types.Builtin); ok && b.Name() == "panic" {
				if !t.partial || (k != "" && !t.optK[k]) {
					return "", t.bad(s, "panic where the result has no None")
				}
				return ind + "None\n", nil
			}
		}
		pre, err := t.simple(s, ind)
		if err != nil {
			return "", err
		}
		g, err := t.takeGuards(k, s)
		if err != nil {
			return "", err
		}
		r, err := t.seq(rest, k, ind)
		return guarded(g, ind, pre+r), err
	case *ast.BranchStmt:
		if s.Tok == token.BREAK && s.Label == nil && t.breakK != "" && len(rest) == 0 {
			return ind + t.breakK + "\n", nil
		}
		return "", t.bad(s, "%s here", s.Tok)
	case *ast.GoStmt, *ast.DeferStmt, *ast.LabeledStmt, *ast.SelectStmt, *ast.SendStmt, *ast.TypeSwitchStmt:
		return "", t.bad(s, "statement %T", s)
	default:
		pre, err := t.simple(s, ind)
		if err != nil {
			return "", err
		}
		g, err := t.takeGuards(k, s)
		if err != nil {
			return "", err
		}
		r, err := t.seq(rest, k, ind)
		return guarded(g, ind, pre+r), err
	}
}

// loop emits one loop: body (+ post statement) as the loop body, cond() as its test (translated after the state
// variables are known), own = state variables that belong to the loop itself (the range counter), postStr = text put in
// front of the body's final state (the counter's increment), fuel = a nat term.
func (t *tr) loop(s ast.Stmt, body *ast.BlockStmt, post ast.Stmt, cond func() (string, error), own []string, postStr, fuel string,
	rest []ast.Stmt, k, ind string) (string, error) {
	usesBreak, at := checkBreaks(body.List)
	if at != nil {
		return "", t.bad(at, "jump inside a loop other than a break that ends an if standing directly in the loop body")
	}
	inner := append([]ast.Stmt{}, body.List...)
	if post != nil {
		if at, bad := hasJump([]ast.Stmt{post}); bad {
			return "", t.bad(at, "jump in a post statement")
		}
		inner = append(inner, post)
	}
	vs := t.assignedOutside([][]ast.Stmt{inner}, body.Pos(), body.End())
	var names []string
	for _, v := range vs {
		n := t.name(v)
		dup := false
		for _, o := range own {
			dup = dup || o == n
		}
		if !dup {
			names = append(names, n)
		}
	}
	names = append(names, own...)
	pre := ""
	brk := ""
	if usesBreak {
		brk = t.fresh("v_brk")
		pre = ind + "let " + brk + " := false in\n"
	}
	if len(names) == 0 {
		return "", t.bad(s, "loop that assigns no variable declared outside its body")
	}
	state := func(b string) string {
		l := names
		if brk != "" {
			l = append([]string{b}, names...)
		}
		if len(l) == 1 {
			return l[0]
		}
		return "(" + strings.Join(l, ", ") + ")"
	}
	pat := state(brk)
	if strings.HasPrefix(pat, "(") {
		pat = "'" + pat
	}
	c, err := cond()
	if err != nil {
		return "", err
	}
	if len(t.guards) > 0 {
		t.guards = nil
		return "", t.bad(s, "operation that can panic in a loop condition")
	}
	if brk != "" {
		c = "(andb (negb " + brk + ") " + c + ")"
	}
	op, some := "while", ""
	if t.partial {
		op, some = "whileP", "Some "
	}
	kBody := postStr + some + state("false")
	kBreak := some + state("true")
	if t.partial {
		t.optK[kBody] = true
	}
	saved := t.breakK
	t.breakK = ""
	if usesBreak {
		t.breakK = kBreak
	}
	b, err := t.seq(inner, kBody, ind+"    ")
	t.breakK = saved
	if err != nil {
		return "", err
	}
	k2, err := t.seq(rest, k, ind+"  ")
	if err != nil {
		return "", err
	}
	if !t.option {
		return "", t.bad(s, "internal: loop in a function not marked option")
	}
	return pre + ind + "match " + op + " " + fuel + "\n" +
		ind + "  (fun " + pat + " => " + c + ")\n" +
		ind + "  (fun " + pat + " =>\n" + b + ind + "  )\n" +
		ind + "  " + state(brk) + " with\n" +
		ind + "| None => None\n" +
		ind + "| Some " + state(brk) + " =>\n" + k2 + ind + "end\n", nil
}

func (t *tr) branch(c string, A, B, rest []ast.Stmt, k string, ind string, at ast.Node) (string, error) {
	cat0 := func(x, y []ast.Stmt) []ast.Stmt { return append(append([]ast.Stmt{}, x...), y...) }
	if (hasPanic(A) || hasPanic(B)) && k != "" && !t.optK[k] {
		return "", t.bad(at, "panic inside a branch that falls through (or inside the loop of a total function)")
	}
	if bA, bB := endsInBreak(A), endsInBreak(B); bA || bB {
		if t.breakK == "" {
			return "", t.bad(at, "break outside the statement list of a loop body")
		}
		la, lb := A, B
		if !bA {
			la = cat0(A, rest)
		}
		if !bB {
			lb = cat0(B, rest)
		}
		a, err := t.seq(la, k, ind+"  ")
		if err != nil {
			return "", err
		}
		b, err := t.seq(lb, k, ind+"  ")
		if err != nil {
			return "", err
		}
		return ind + "if " + c + " then\n" + a + ind + "else\n" + b, nil
	}
	tA, tB := terminates(A), terminates(B)
	rA, rB := hasReturn(A), hasReturn(B)
	cat := func(x, y []ast.Stmt) []ast.Stmt { return append(append([]ast.Stmt{}, x...), y...) }
	var a, b string
	var err error
	switch {
	case tA && tB:
		if a, err = t.seq(A, "", ind+"  "); err != nil {
			return "", err
		}
		if b, err = t.seq(B, "", ind+"  "); err != nil {
			return "", err
		}
	case tA && !rB:
		if a, err = t.seq(A, "", ind+"  "); err != nil {
			return "", err
		}
		if b, err = t.seq(cat(B, rest), k, ind+"  "); err != nil {
			return "", err
		}
	case tB && !rA:
		if a, err = t.seq(cat(A, rest), k, ind+"  "); err != nil {
			return "", err
		}
		if b, err = t.seq(B, "", ind+"  "); err != nil {
			return "", err
		}
	case !rA && !rB:
		if at1, bad := hasJump(cat(A, B)); bad {
			return "", t.bad(at1, "break / continue / goto inside a branch")
		}
		vs := t.assignedOutside([][]ast.Stmt{A, B}, at.Pos(), at.End())
		if len(vs) == 0 {
			return t.seq(rest, k, ind)
		}
		if a, err = t.seq(A, t.tuple(vs), ind+"    "); err != nil {
			return "", err
		}
		if b, err = t.seq(B, t.tuple(vs), ind+"    "); err != nil {
			return "", err
		}
		r, err := t.seq(rest, k, ind)
		if err != nil {
			return "", err
		}
		return ind + "let " + t.pat(vs) + " :=\n" + ind + "  if " + c + " then\n" + a + ind + "  else\n" + b + ind + "in\n" + r, nil
	default:
		return "", t.bad(at, "branch that returns on some paths and falls through on others")
	}
	return ind + "if " + c + " then\n" + a + ind + "else\n" + b, nil
}

func (t *tr) switchStmt(s *ast.SwitchStmt, rest []ast.Stmt, k string, ind string) (string, error) {
	var clauses []*ast.CaseClause
	var deflt []ast.Stmt
	for _, c := range s.Body.List {
		cc := c.(*ast.CaseClause)
		for _, st := range cc.Body {
			if b, ok := st.(*ast.BranchStmt); ok {
				return "", t.bad(b, "%s inside switch", b.Tok)
			}
		}
		if cc.List == nil {
			deflt = cc.Body
		} else {
			clauses = append(clauses, cc)
		}
	}
	if len(clauses) == 0 {
		return t.seq(append(append([]ast.Stmt{}, deflt...), rest...), k, ind)
	}
	cc := clauses[0]
	var conds []string
	for _, v := range cc.List {
		x, err := t.expr(v)
		if err != nil {
			return "", err
		}
		if s.Tag == nil {
			conds = append(conds, x)
			continue
		}
		tag, err := t.expr(s.Tag)
		if err != nil {
			return "", err
		}
		ty, err := t.ity(t.p.info.Types[s.Tag].Type, s.Tag)
		if err != nil {
			return "", err
		}
		if ty == "bool" {
			conds = append(conds, "(Bool.eqb "+tag+" "+x+")")
		} else {
			conds = append(conds, "(Z.eqb "+tag+" "+x+")")
		}
	}
	if len(t.guards) > 0 {
		t.guards = nil
		return "", t.bad(s, "operation that can panic in a switch tag or case expression")
	}
	c := conds[0]
	for _, x := range conds[1:] {
		c = "(orb " + c + " " + x + ")"
	}
	// the remaining clauses as a synthetic switch (the expression nodes keep their type information)
	var remList []ast.Stmt
	for _, r := range clauses[1:] {
		remList = append(remList, r)
	}
	if deflt != nil {
		remList = append(remList, &ast.CaseClause{Body: deflt})
	}
	var B []ast.Stmt
	if len(remList) > 0 {
		B = []ast.Stmt{&ast.SwitchStmt{Switch: s.Switch, Tag: s.Tag, Body: &ast.BlockStmt{Lbrace: s.Body.Lbrace, List: remList, Rbrace: s.Body.Rbrace}}}
	}
	return t.branch(c, cc.Body, B, rest, k, ind, s)
}

func hasLoop(b *ast.BlockStmt) bool {
	found := false
	ast.Inspect(b, func(n ast.Node) bool {
		switch n.(type) {
		case *ast.ForStmt, *ast.RangeStmt:
			found = true
		}
		return true
	})
	return found
}

// canPanic: the body holds a shift by a signed count that is not a constant, or an integer division by a divisor that is
// not a constant (the run-time panics the fragment admits).
func (t *tr) canPanic(b *ast.BlockStmt) bool {
	found := false
	ast.Inspect(b, func(n ast.Node) bool {
		switch n := n.(type) {
		case *ast.ExprStmt:
			if isPanic(n) {
				found = true
			}
		case *ast.IndexExpr:
			if _, ok := t.sliceElem(t.p.info.Types[n.X].Type); ok && !t.inConstLen(n.X, n.Index, 1) {
				found = true
			}
		case *ast.CallExpr:
			if w, ok := beWidth[t.beCall(n)]; ok && len(n.Args) >= 1 {
				if xe, off, err := t.beArg(n.Args[0]); err != nil || !t.inConstLen(xe, off, w) {
					found = true
				}
			}
			if fid, ok := n.Fun.(*ast.Ident); ok && len(n.Args) == 2 {
				if b, ok := t.p.info.Uses[fid].(*types.Builtin); ok && b.Name() == "make" {
					if nv := t.p.info.Types[n.Args[1]].Value; nv == nil || constant.Sign(nv) < 0 {
						found = true
					}
				}
			}
		case *ast.BinaryExpr:
			if (n.Op == token.SHL || n.Op == token.SHR) && !t.isUnsignedOrConst(n.Y) {
				found = true
			}
			if (n.Op == token.QUO || n.Op == token.REM) && t.p.info.Types[n.Y].Value == nil {
				if _, err := t.ity(t.p.info.Types[n.X].Type, nil); err == nil { // integer division (floats are refused anyway)
					found = true
				}
			}
		case *ast.AssignStmt:
			if (n.Tok == token.SHL_ASSIGN || n.Tok == token.SHR_ASSIGN) && len(n.Rhs) == 1 && !t.isUnsignedOrConst(n.Rhs[0]) {
				found = true
			}
			if (n.Tok == token.QUO_ASSIGN || n.Tok == token.REM_ASSIGN) && len(n.Rhs) == 1 && t.p.info.Types[n.Rhs[0]].Value == nil {
				found = true
			}
		}
		return true
	})
	return found
}

// scanFields collects the receiver fields the body mentions (parameters) and those it assigns (results), in the order of
// the struct declaration.
func (t *tr) scanFields(fd *ast.FuncDecl) error {
	used, asg := map[string]*types.Var{}, map[string]*types.Var{}
	var bad error
	note := func(m map[string]*types.Var, e ast.Expr) bool {
		f, idx := t.recvPath(e)
		if f == nil {
			return false
		}
		m[fmt.Sprint(idx)] = f
		return true
	}
	mark := func(e ast.Expr) {
		if ie, ok := e.(*ast.IndexExpr); ok {
			e = ie.X
		}
		note(asg, e)
	}
	ast.Inspect(fd.Body, func(n ast.Node) bool {
		switch n := n.(type) {
		case *ast.SelectorExpr:
			if note(used, n) {
				return false
			}
		case *ast.CallExpr:
			if se, ok := n.Fun.(*ast.SelectorExpr); ok {
				if id, ok := se.X.(*ast.Ident); ok && t.p.info.Uses[id] == t.recv {
					if sel := t.p.info.Selections[se]; sel != nil && sel.Kind() == types.MethodVal {
						if nt, ok := derefNamed(sel.Obj().(*types.Func).Type().(*types.Signature).Recv().Type()); ok {
							if mi, ok := methods[sel.Obj().Pkg().Path()+"."+nt.Obj().Name()+"."+sel.Obj().Name()]; ok {
								for i, f := range mi.fields {
									used[mi.keys[i]] = f
								}
							}
						}
					}
				}
			}
			if name := t.beCall(n); strings.HasPrefix(name, "Put") && len(n.Args) >= 1 {
				if xe, _, err := t.beArg(n.Args[0]); err == nil {
					mark(xe)
				}
			}
		case *ast.AssignStmt:
			for _, l := range n.Lhs {
				mark(l)
			}
		case *ast.IncDecStmt:
			mark(n.X)
		}
		return true
	})
	rt := t.recv.Type()
	if pt, ok := rt.(*types.Pointer); ok {
		rt = pt.Elem()
	}
	st, ok := rt.Underlying().(*types.Struct)
	if !ok {
		return t.bad(fd, "receiver of type %s", t.recv.Type())
	}
	var walk func(st *types.Struct, idx []int)
	walk = func(st *types.Struct, idx []int) {
		for i := 0; i < st.NumFields(); i++ {
			f := st.Field(i)
			key := fmt.Sprint(append(append([]int{}, idx...), i))
			u, a := used[key], asg[key]
			if u != nil || a != nil {
				if old, ok := t.fieldKey[f]; ok && old != key {
					bad = t.bad(fd, "field %s reached through two paths", f.Name())
				}
				t.fieldKey[f] = key
				if u != nil || a != nil {
					t.fields = append(t.fields, f) // an assigned field is also a parameter (its value on entry)
				}
				if a != nil {
					t.asg = append(t.asg, f)
				}
				continue
			}
			if in, ok := f.Type().Underlying().(*types.Struct); ok {
				walk(in, append(append([]int{}, idx...), i))
			}
		}
	}
	walk(st, nil)
	return bad
}

func derefNamed(ty types.Type) (*types.Named, bool) {
	if pt, ok := ty.(*types.Pointer); ok {
		ty = pt.Elem()
	}
	nt, ok := ty.(*types.Named)
	return nt, ok
}

func translate(p *pkgInfo, sp spec, total map[string]string) (coqName, text string, isTotal bool, err error) {
	var fd *ast.FuncDecl
	for _, f := range p.files {
		for _, d := range f.Decls {
			g, ok := d.(*ast.FuncDecl)
			if !ok || g.Name.Name != sp.Name {
				continue
			}
			if sp.Recv == "" && g.Recv == nil {
				fd = g
			}
			if sp.Recv != "" && g.Recv != nil && len(g.Recv.List) == 1 {
				rt := g.Recv.List[0].Type
				if st, ok := rt.(*ast.StarExpr); ok {
					rt = st.X
				}
				if id, ok := rt.(*ast.Ident); ok && id.Name == sp.Recv {
					fd = g
				}
			}
		}
	}
	coqName = "xl_" + p.pkg.Name() + "_" + sp.Name + sp.Sfx
	if fd == nil || fd.Body == nil {
		return coqName, "", false, fmt.Errorf("%s: function %s not found (or has no body)", sp.Dir, sp.Name)
	}
	t := &tr{p: p, sp: sp, names: map[types.Object]string{}, used: map[string]int{}, total: total, optK: map[string]bool{},
		sliceLocal: map[types.Object]bool{}, sliceParam: map[types.Object]bool{}, constLen: map[types.Object]int64{}, fieldKey: map[*types.Var]string{}}
	if sp.Recv != "" {
		coqName = "xl_" + p.pkg.Name() + "_" + sp.Recv + "_" + sp.Name + sp.Sfx
		if sp.Recv == "aeadBlockCipher" { // the first translated method keeps its published name
			coqName = "xl_" + p.pkg.Name() + "_" + sp.Name + sp.Sfx
		}
	}
	sig := p.info.Defs[fd.Name].(*types.Func).Type().(*types.Signature)
	params := ""
	if fd.Recv != nil {
		if len(fd.Recv.List[0].Names) != 1 {
			return coqName, "", false, t.bad(fd, "method without a receiver name")
		}
		rv := p.info.Defs[fd.Recv.List[0].Names[0]]
		if rs, err := t.ity(rv.Type(), nil); err == nil && rs != "bool" {
			t.valueRecv = true // method of an integer type: the receiver is the first parameter
			params += " (" + t.name(rv) + " : Z)"
		} else {
			t.recv = rv
			if err := t.scanFields(fd); err != nil {
				return coqName, "", false, err
			}
		}
	}
	// local slices: `x := make([]T, n)`, each name defined once
	ast.Inspect(fd.Body, func(n ast.Node) bool {
		as, ok := n.(*ast.AssignStmt)
		if !ok || as.Tok != token.DEFINE || len(as.Lhs) != len(as.Rhs) {
			return true
		}
		for i, r := range as.Rhs {
			call, ok := r.(*ast.CallExpr)
			if !ok || len(call.Args) != 2 {
				continue
			}
			fid, ok := call.Fun.(*ast.Ident)
			if !ok {
				continue
			}
			if b, ok := p.info.Uses[fid].(*types.Builtin); !ok || b.Name() != "make" {
				continue
			}
			lid, ok := as.Lhs[i].(*ast.Ident)
			if !ok || p.info.Defs[lid] == nil {
				continue
			}
			if _, ok := t.sliceElem(p.info.Defs[lid].Type()); !ok {
				continue
			}
			t.sliceLocal[p.info.Defs[lid]] = true
			if nv := p.info.Types[call.Args[1]].Value; nv != nil && nv.Kind() == constant.Int {
				if c, ok := constant.Int64Val(nv); ok && c >= 0 {
					t.constLen[p.info.Defs[lid]] = c
				}
			}
		}
		return true
	})
	for i := 0; i < sig.Params().Len(); i++ {
		if _, ok := t.sliceElem(sig.Params().At(i).Type()); ok {
			t.sliceParam[sig.Params().At(i)] = true
		}
	}
	t.partial = t.canPanic(fd.Body)
	t.option = hasLoop(fd.Body) || t.partial
	for i := 0; i < sig.Params().Len(); i++ {
		v := sig.Params().At(i)
		ct, err := t.coqType(v.Type(), fd)
		if err != nil {
			return coqName, "", false, err
		}
		params += " (" + t.name(v) + " : " + ct + ")"
	}
	for _, f := range t.fields {
		ct, err := t.coqType(f.Type(), fd)
		if err != nil {
			return coqName, "", false, err
		}
		params += " (" + t.name(f) + " : " + ct + ")"
	}
	var rts []string
	for i := 0; i < sig.Results().Len(); i++ {
		ct, err := t.coqType(sig.Results().At(i).Type(), fd)
		if err != nil {
			return coqName, "", false, err
		}
		rts = append(rts, ct)
	}
	t.results = len(rts)
	for _, f := range t.asg {
		ct, _ := t.coqType(f.Type(), fd)
		rts = append(rts, ct)
	}
	if len(rts) == 0 {
		return coqName, "", false, t.bad(fd, "function without results that assigns no receiver field")
	}
	rt := strings.Join(rts, " * ")
	if len(rts) > 1 {
		rt = "(" + rt + ")"
	}
	if t.option {
		rt = "option " + rt
	}
	kTop := ""
	if t.results == 0 { // no result of its own: falling off the end returns the assigned fields
		kTop = t.ret(nil)
		if t.option {
			t.optK[kTop] = true
		}
	}
	body, err := t.seq(fd.Body.List, kTop, "  ")
	if err != nil {
		return coqName, "", false, err
	}
	if t.usesNow {
		params += " (v_now : Z)"
	}
	pos := p.fset.Position(fd.Pos())
	end := p.fset.Position(fd.End())
	src := p.src[pos.Filename][pos.Offset:end.Offset]
	h := sha256.Sum256(src)
	var sb strings.Builder
	fmt.Fprintf(&sb, "(* %s:%d  func %s%s  sha256(source text)=%x *)\n", pos.Filename, pos.Line, sp.Name, sp.Sfx, h[:8])
	for _, l := range strings.Split(strings.TrimRight(string(src), "\n"), "\n") {
		fmt.Fprintf(&sb, "(*   %s *)\n", strings.ReplaceAll(strings.ReplaceAll(strings.ReplaceAll(l, "\t", "    "), "(*", "( *"), "*)", "* )"))
	}
	fmt.Fprintf(&sb, "Definition %s%s : %s :=\n%s.\n", coqName, params, rt, strings.TrimRight(body, "\n"))
	if sp.Recv != "" && !t.option && !t.usesNow {
		key := p.pkg.Path() + "." + sp.Recv + "." + sp.Name + sp.Sfx
		if t.valueRecv {
			total[key] = coqName
		} else if len(t.asg) == 0 {
			mi := methodInfo{coq: coqName, fields: t.fields}
			for _, f := range t.fields {
				mi.keys = append(mi.keys, t.fieldKey[f])
			}
			methods[key] = mi
		}
		return coqName, sb.String(), false, nil
	}
	return coqName, sb.String(), !t.option && !t.usesNow, nil
}

func main() {
	flag.Parse()
	specs := append([]spec{}, table...)
	if *extra != "" {
		b, err := os.ReadFile(*extra)
		if err != nil {
			fmt.Fprintln(os.Stderr, err)
			os.Exit(2)
		}
		for _, l := range strings.Split(string(b), "\n") {
			f := strings.Fields(l)
			if len(f) < 3 || strings.HasPrefix(f[0], "#") {
				continue
			}
			sp := spec{Dir: f[0], Name: f[1]}
			fmt.Sscan(f[2], &sp.Fuel)
			for _, kv := range f[3:] {
				if strings.HasPrefix(kv, "recv=") {
					sp.Recv = kv[len("recv="):]
					continue
				}
				if i := strings.Index(kv, "="); i > 0 {
					if sp.Inst == nil {
						sp.Inst = map[string]string{}
					}
					sp.Inst[kv[:i]] = kv[i+1:]
					sp.Sfx += "_" + kv[i+1:]
				}
			}
			specs = append(specs, sp)
		}
	}
	pkgs := map[string]*pkgInfo{}
	perr := map[string]error{}
	total := map[string]string{}
	var out strings.Builder
	out.WriteString("(* GENERATED by harness/cmd/go2coq from the current source of /repo on every run. Do not edit, do not commit.\n" +
		"   One Definition per translated Go function, in terms of M.base.MiniGo only; the Go source text is quoted above each. *)\n" +
		"From Coq Require Import ZArith Bool.\nFrom M.base Require Import MiniGo.\nOpen Scope Z_scope.\n\n")
	failed := 0
	for _, sp := range specs {
		p, ok := pkgs[sp.Dir]
		if !ok && perr[sp.Dir] == nil {
			var err error
			p, err = loadPkg(sp.Dir)
			if err != nil {
				perr[sp.Dir] = err
			} else {
				pkgs[sp.Dir] = p
			}
		}
		if err := perr[sp.Dir]; err != nil {
			fmt.Fprintf(os.Stderr, "NOT TRANSLATED %s.%s: %v\n", sp.Dir, sp.Name, err)
			fmt.Fprintf(&out, "(* NOT TRANSLATED %s.%s%s: package did not load *)\n\n", sp.Dir, sp.Name, sp.Sfx)
			failed++
			continue
		}
		name, text, isTotal, err := translate(p, sp, total)
		if err != nil {
			fmt.Fprintf(os.Stderr, "NOT TRANSLATED %s.%s: %v\n", sp.Dir, sp.Name, err)
			fmt.Fprintf(&out, "(* NOT TRANSLATED %s.%s%s: %s *)\n\n", sp.Dir, sp.Name, sp.Sfx, strings.ReplaceAll(err.Error(), "*)", "* )"))
			failed++
			continue
		}
		if isTotal {
			total[p.pkg.Path()+"."+sp.Name+sp.Sfx] = name
		}
		out.WriteString(text + "\n")
	}
	if *outPath == "" {
		fmt.Print(out.String())
	} else {
		old, _ := os.ReadFile(*outPath)
		if string(old) != out.String() {
			if err := os.WriteFile(*outPath, []byte(out.String()), 0o644); err != nil {
				fmt.Fprintln(os.Stderr, err)
				os.Exit(2)
			}
		}
	}
	if failed > 0 {
		os.Exit(1)
	}
}
