// Driver for C15 (faketime): Close completes, unblocks everyone, leaves nothing running; deadlines bound calls.
//
// A scenario starts a real server Mux and client Mux on simnet (fresh network per scenario), opens 1..N sessions
// (the client writes a small greeting so the server side is accepted), then runs a script of timed operations.
// Every operation belongs to an actor = (session index, end c|s, role R|W|C); every actor is its own goroutine and
// issues its operations in order, each not before its time offset (virtual ms since the scenario start).
// Operations: Read, Write n, SetReadDeadline d, SetWriteDeadline d, SetDeadline d (d ms from now; 0 = clear),
// Close (session), CMux / SMux (Mux.Close of the client / server, issued by a control actor), Reset (simnet TCP
// reset of every connection), Hole (UDP black hole: every datagram dropped from now on), ApiStop (apis Stop).
//
// Output protocol (cases.txt / impl.txt), one scenario = a block of lines in global event order:
//   S id transport kind nsess flags            impl "-"
//   D end sess which abs_us t                  a deadline setter returned (which: R W B; abs_us 0 = cleared)     impl "-"
//   I end sess call kind t                     a Read/Write/Close call was issued at t (us)                         impl "-"
//   T end sess call kind t0 t1 n facts...      the call returned at t1 (t1 = -1: still blocked at the horizon)     impl "<class>"
//       facts for Read:  data_at clo chi elo ehi   (us; -1 = never): earliest time unread data was available,
//                        window in which closedChan of this end closed, window in which inputErr closed
//       facts for Write: stall clo chi olo ohi creq  stall=1 if the send queue cannot move (peer stopped reading),
//                        closedChan window, outputErr window, creq = time closeRequested was set (-1 never)
//       facts for Close: first stall   (first=1: first Close of that object)
//   X id                                       end of scenario                                                     impl "-"
// The model runner replays D/I/T through Deadline.v (effective deadline of every call under the code's
// reset-on-return rule) and classifies every T line with Lifecycle.v's exit table; it prints the observed class
// when the model accepts it and its own prediction otherwise.
// Classes: DATA EOF TIMEOUT UEOF CLOSED OK ERR BLOCKED.
package main

import (
	"context"
	"encoding/json"
	"errors"
	"fmt"
	"io"
	"net"
	"os"
	"regexp"
	"runtime"
	"sort"
	"strings"
	"sync"
	"sync/atomic"
	"syscall"
	"time"
	"unsafe"

	apiclient "github.com/enfein/mieru/v3/apis/client"
	apiserver "github.com/enfein/mieru/v3/apis/server"
	pb "github.com/enfein/mieru/v3/pkg/appctl/appctlpb"
	"github.com/enfein/mieru/v3/pkg/protocol"
	"google.golang.org/protobuf/proto"
	"github.com/enfein/mieru/v3/pkg/stderror"
	"verifharness/rig"
	"verifharness/simnet"
	"verifharness/vh"
)

// ---------------------------------------------------------------------------------------------- scenario

type Op struct {
	Sess  int    `json:"sess"`
	End   string `json:"end"`   // "c" | "s" | "x" (control)
	Role  string `json:"role"`  // R W C
	At    int    `json:"at_ms"` // not before this offset
	Kind  string `json:"kind"`  // Read Write SetRD SetWD SetD Close CMux SMux Reset Hole
	Arg   int    `json:"arg"`
	index int
}

type Scenario struct {
	ID        int    `json:"id"`
	Transport string `json:"transport"`
	Kind      string `json:"kind"`
	NSess     int    `json:"nsess"`
	Cap       int    `json:"cap"`        // TCP pipe capacity (0 = unbounded)
	OneUnderlay bool `json:"one_underlay"` // all sessions multiplexed on one underlay (client multiplex factor 1000)
	PumpGapMs int    `json:"pump_gap_ms"`  // > 0: a Flood op writes 1000 bytes every PumpGapMs ms (an active writer, peer reading)
	WriteOnly bool   `json:"write_only"` // set-up without any client Read: the client only ever writes (over TCP its session stays ATTACHED)
	Apis      bool   `json:"apis"`       // both ends through apis/client and apis/server (Start / Stop); CMux / SMux then mean Stop
	Stall     bool   `json:"stall"`      // server app never reads & the client floods first (back-pressure)
	FloodDLms int    `json:"flood_deadline_ms"` // write deadline set before every Write of a Flood op (0 = none)
	HorizonMs int    `json:"horizon_ms"` // when still-blocked calls are declared BLOCKED
	LatencyMs int    `json:"latency_ms"`
	Ops       []Op   `json:"ops"`
}

type rec struct {
	op     Op
	seqI   int64
	seqT   int64
	t0, t1 int64 // us since scenario start; t1=-1 blocked
	class  string
	n      int
	done   atomic.Bool
	abs    int64 // for deadline setters: absolute us (0 = clear)
	curStart atomic.Int64 // Flood / Drain: start of the call in progress
	nreads atomic.Int64 // Drain: number of Read calls issued
	dump   string // goroutine dump taken 3 s after a Close started (if it was still running)
}

var evSeq atomic.Int64

func classify(n int, err error) string {
	switch {
	case err == nil:
		if n > 0 {
			return "DATA"
		}
		return "OK"
	case errors.Is(err, io.ErrUnexpectedEOF):
		return "UEOF"
	case errors.Is(err, io.EOF):
		return "EOF"
	case errors.Is(err, io.ErrClosedPipe):
		return "CLOSED"
	case stderror.IsTimeout(err):
		return "TIMEOUT"
	}
	return "ERR"
}

// fixedListen makes the apis server, which binds the wildcard address, listen on the simulated server address.
type fixedListen struct{ n *simnet.Net }

func (f fixedListen) Listen(ctx context.Context, network, address string) (net.Listener, error) {
	_, port, _ := net.SplitHostPort(address)
	return f.n.Listen(ctx, network, net.JoinHostPort("192.0.2.1", port))
}

func (f fixedListen) ListenPacket(ctx context.Context, network, address string) (net.PacketConn, error) {
	_, port, _ := net.SplitHostPort(address)
	return f.n.ListenPacketAt(net.JoinHostPort("192.0.2.1", port))
}

// recDialer hands out simnet TCP connections and remembers them (for Reset).
type recDialer struct {
	n     *simnet.Net
	mu    sync.Mutex
	conns []*simnet.Conn
}

func (d *recDialer) DialContext(ctx context.Context, network, address string) (net.Conn, error) {
	c, err := d.n.DialFrom(d.n.ClientIP, address)
	if err != nil {
		return nil, err
	}
	d.mu.Lock()
	d.conns = append(d.conns, c)
	d.mu.Unlock()
	return c, nil
}

type world struct {
	sc      *Scenario
	r       *rig.Rig
	closeC  func() error
	closeS  func() error
	dial    *recDialer
	start   time.Time
	cs, ss  []net.Conn
	recs    []*rec
	holed   atomic.Bool
	dumpMu  sync.Mutex
	over    atomic.Bool
	holeAt  int64
	resetAt int64
	muxC    []*rec // mux close records
}

func (w *world) now() int64 { return time.Since(w.start).Microseconds() }

var mieruFrame = regexp.MustCompile(`github\.com/enfein/mieru/v3/[\w/]+\.(?:\(\*?\w+\)\.)?\w+`)

// mieruGoroutines returns, per goroutine that has a mieru frame, its top-most mieru function.
func mieruGoroutines(baseline map[string]int) map[string]int {
	buf := make([]byte, 4<<20)
	n := runtime.Stack(buf, true)
	out := map[string]int{}
	for _, g := range strings.Split(string(buf[:n]), "\n\n") {
		m := mieruFrame.FindString(g)
		if m == "" {
			continue
		}
		// the creating function also counts as a frame ("created by")
		out[strings.TrimPrefix(m, "github.com/enfein/mieru/v3/")]++
	}
	for k, v := range baseline {
		out[k] -= v
		if out[k] <= 0 {
			delete(out, k)
		}
	}
	return out
}

func keys(m map[string]int) []string {
	var ks []string
	for k := range m {
		ks = append(ks, k)
	}
	sort.Strings(ks)
	return ks
}

var sigClean = regexp.MustCompile(`[^A-Za-z0-9]+`)

func shortFn(s string) string {
	if i := strings.LastIndex(s, "/"); i >= 0 {
		s = s[i+1:]
	}
	return strings.Trim(sigClean.ReplaceAllString(s, "-"), "-")
}


// watched runs f; if f has not returned after 3 s (virtual) a dump of all goroutines is stored into *dump (under mu)
// - also when f never returns.
func watched(f func(), dump *string, mu *sync.Mutex) (durUs int64) {
	done := make(chan struct{})
	fin := make(chan struct{})
	go func() {
		defer close(fin)
		select {
		case <-done:
		case <-time.After(3 * time.Second):
			buf := make([]byte, 8<<20)
			d := string(buf[:runtime.Stack(buf, true)])
			mu.Lock()
			*dump = d
			mu.Unlock()
		}
	}()
	a := time.Now()
	f()
	durUs = time.Since(a).Microseconds()
	close(done)
	<-fin
	return
}

var readTimeoutUs = protocol.VerifC15ReadOneSegmentTimeoutNs() / 1000

// blockedCloseCause names where a Close that took more than 3 s was waiting, from the goroutine dump taken 3 s
// after it started and from how long it took in the end (durUs < 0: it never returned).  Only the two causes that
// are known findings get their own name; everything else is named after the innermost mieru frame of the closer.
func blockedCloseCause(kind string, dump string, durUs int64) (cause string, rearm bool) {
	gs := strings.Split(dump, "\n\n")
	has := func(g string, subs ...string) bool {
		for _, x := range subs {
			if !strings.Contains(g, x) {
				return false
			}
		}
		return true
	}
	var (
		selfDeadlock   bool // closeWithError waits for a mutex while its own caller chain is the output loop (lock holder = waiter)
		sessLockWaiter bool // some other goroutine sits in closeWithError -> Mutex.Lock
		writeStalled   bool // the output loop is inside conn.Write (and holds oLock)
		muxWaitsLoops  bool // Mux.Close itself in serverUnderlayLoopWG.Wait
		muxInSessWg    bool // Mux.Close -> underlay Close -> s.wg.Wait (session loops still running)
		loopInRead     bool // a server underlay event loop is inside its network read
	)
	closerFrame := "unknown"
	for _, g := range gs {
		inOut := has(g, "runOutputOnceStream") || has(g, "runOutputOncePacket")
		if has(g, "(*Session).closeWithError", "sync.(*Mutex).Lock") {
			if inOut {
				selfDeadlock = true
			} else {
				sessLockWaiter = true
			}
		}
		if has(g, "runOutputOnceStream", "writeOneSegment", "simnet.(*pipe).write") {
			writeStalled = true
		}
		if has(g, "protocol.(*Mux).Close(") {
			if kind == "SMux" || kind == "CMux" {
				closerFrame = shortFn(mieruFrame.FindString(g))
			}
			if has(g, "sync.(*WaitGroup).Wait") {
				if has(g, "baseUnderlay).Close") {
					muxInSessWg = true
				} else {
					muxWaitsLoops = true
				}
			}
		} else if kind == "Close" && has(g, "(*Session).closeWithError") && !inOut && !has(g, "baseUnderlay).Close") && !has(g, "runInputLoop") {
			closerFrame = shortFn(mieruFrame.FindString(g))
		}
		if has(g, "RunEventLoop", "readOneSegment", "startServerUnderlayEventLoop") && (has(g, "simnet.(*pipe).read") || has(g, "simnet.(*PacketConn).ReadFrom")) {
			loopInRead = true
		}
	}
	switch {
	case selfDeadlock:
		return "olock-self-deadlock-closewitherror-under-output-loop", false
	case kind == "Close" && sessLockWaiter && writeStalled:
		// known finding: only the application's Session.Close; a mux / underlay Close interrupts the stalled write
		return "session-olock-behind-stalled-conn-write", false
	case kind == "SMux" && muxWaitsLoops && loopInRead && !sessLockWaiter && !writeStalled && !muxInSessWg && (durUs < 0 || durUs <= readTimeoutUs+2_000_000):
		// the re-armed read timeout bounds the wait: it cannot last longer than one full timeout
		return "server-mux-eventloop-rearmed-read-timeout", true
	case (kind == "SMux" || kind == "CMux") && writeStalled:
		return "mux-close-behind-stalled-conn-write", false
	case (kind == "SMux" || kind == "CMux") && sessLockWaiter:
		return "mux-close-waits-session-closewitherror-olock", false
	case (kind == "SMux" || kind == "CMux") && muxInSessWg:
		return "mux-close-waits-session-loops", false
	}
	return strings.ToLower(kind) + "-at-" + closerFrame, false
}

const tolUs = 60_000 // tolerance for "at the same time" (scheduling, 1 ms polls, simulated latency)

// ---------------------------------------------------------------------------------------------- running

type runner struct {
	r        *vh.Run
	baseline map[string]int
	wallDead time.Time
	abort    string // set when a scenario left calls / closes blocked for good: leaked pollers make virtual time expensive, stop here
}

func (rn *runner) fail(sig, what string, sc *Scenario, extra map[string]interface{}) {
	c := map[string]interface{}{"scenario": sc}
	for k, v := range extra {
		c[k] = v
	}
	rn.r.Count("fail:" + sig)
	// vh keeps at most 200 failures: record only the first few per signature so that a new signature
	// cannot be crowded out by repetitions of known ones (the full count is in the distribution)
	if rn.r.Rep.Distribution["fail:"+sig] <= 4 {
		rn.r.Fail(sig, what, c)
	}
}

func (rn *runner) run(sc *Scenario) {
	r := rn.r
	if pf := os.Getenv("C15_PROGRESS"); pf != "" {
		b, _ := json.Marshal(sc)
		os.WriteFile(pf, b, 0o644)
	}
	r.Count("kind:" + sc.Kind)
	r.Count("transport:" + sc.Transport)
	nw := simnet.New()
	if sc.LatencyMs > 0 {
		nw.Latency = time.Duration(sc.LatencyMs) * time.Millisecond
	}
	w := &world{sc: sc, holeAt: -1, resetAt: -1}
	if sc.Cap > 0 {
		cap := sc.Cap
		nw.TCPPolicy = func(id int, c, s string) (*simnet.PipePolicy, *simnet.PipePolicy) {
			return &simnet.PipePolicy{Cap: cap}, &simnet.PipePolicy{Cap: cap}
		}
	}
	nw.Fate = func(d *simnet.Datagram) []simnet.Delivery {
		if w.holed.Load() {
			return nil
		}
		return []simnet.Delivery{{}}
	}
	user := fmt.Sprintf("u%d", sc.ID)
	w.dial = &recDialer{n: nw}
	var dialSess func() (net.Conn, error)
	var acceptSess func() (net.Conn, error)
	if sc.Apis {
		proto_ := pb.TransportProtocol_TCP
		if sc.Transport == "udp" {
			proto_ = pb.TransportProtocol_UDP
		}
		pbind := []*pb.PortBinding{{Port: proto.Int32(8964), Protocol: proto_.Enum()}}
		srv := apiserver.NewServer()
		if err := srv.Store(&apiserver.ServerConfig{
			Config:                &pb.ServerConfig{PortBindings: pbind, Users: []*pb.User{{Name: proto.String(user), Password: proto.String("pw-" + user)}}},
			StreamListenerFactory: fixedListen{nw}, PacketListenerFactory: fixedListen{nw}}); err != nil {
			panic(err)
		}
		if err := srv.Start(); err != nil {
			panic(err)
		}
		cli := apiclient.NewClient()
		if err := cli.Store(&apiclient.ClientConfig{
			Profile: &pb.ClientProfile{ProfileName: proto.String("p"), User: &pb.User{Name: proto.String(user), Password: proto.String("pw-" + user)},
				Servers:       []*pb.ServerEndpoint{{IpAddress: proto.String("192.0.2.1"), PortBindings: pbind}},
				HandshakeMode: pb.HandshakeMode_HANDSHAKE_NO_WAIT.Enum()},
			Dialer: w.dial, PacketDialer: simnet.PacketDialer{N: nw}}); err != nil {
			panic(err)
		}
		if err := cli.Start(); err != nil {
			panic(err)
		}
		w.closeC, w.closeS = cli.Stop, srv.Stop
		dialSess = func() (net.Conn, error) {
			ctx, cancel := context.WithTimeout(context.Background(), 10*time.Second)
			defer cancel()
			return cli.DialContext(ctx, &net.TCPAddr{IP: net.ParseIP("198.51.100.7"), Port: 80})
		}
		acceptSess = func() (net.Conn, error) {
			type res struct {
				c   net.Conn
				err error
			}
			ch := make(chan res, 1)
			go func() { c, _, err := srv.Accept(); ch <- res{c, err} }()
			select {
			case r := <-ch:
				return r.c, r.err
			case <-time.After(15 * time.Second):
				return nil, fmt.Errorf("apis Accept: nothing within 15 s")
			}
		}
	} else {
		rg, err := rig.Start(rig.Opts{Transport: sc.Transport, Net: nw, Users: map[string]string{user: "pw-" + user}, ClientUser: user, ClientPass: "pw-" + user, Multiplex: map[bool]int{false: 1, true: 1000}[sc.OneUnderlay]})
		if err != nil {
			panic(err)
		}
		w.r = rg
		rg.Client.SetDialer(w.dial)
		w.closeC, w.closeS = rg.Client.Close, rg.Server.Close
		dialSess = rg.Dial
		acceptSess = func() (net.Conn, error) { return rg.Accept(5 * time.Second) }
	}
	for i := 0; i < sc.NSess; i++ {
		c, err := dialSess()
		if err != nil {
			panic(fmt.Sprintf("dial: %v", err))
		}
		greeted := make(chan error, 1)
		go func() { _, err := c.Write([]byte(fmt.Sprintf("hello-%d", i))); greeted <- err }()
		s, err := acceptSess()
		if err != nil {
			panic(fmt.Sprintf("accept: %v", err))
		}
		if sc.Apis {
			// the application behind apis/server answers the socks5 request (success, 0.0.0.0:0); the client's
			// first Write (early connection) waits for this answer
			if _, err := s.Write([]byte{5, 0, 0, 1, 0, 0, 0, 0, 0, 0}); err != nil {
				panic(fmt.Sprintf("socks5 response: %v", err))
			}
		}
		if err := <-greeted; err != nil {
			panic(fmt.Sprintf("greeting: %v", err))
		}
		buf := make([]byte, 64)
		if _, err := s.Read(buf); err != nil {
			panic(fmt.Sprintf("greeting read: %v", err))
		}
		if !sc.WriteOnly {
			// server answers so that the client session becomes ESTABLISHED and its 10 s arming is consumed
			if _, err := s.Write([]byte("welcome")); err != nil {
				panic(fmt.Sprintf("welcome: %v", err))
			}
			if _, err := c.Read(buf); err != nil {
				panic(fmt.Sprintf("welcome read: %v", err))
			}
		}
		w.cs = append(w.cs, c)
		w.ss = append(w.ss, s)
	}
	w.start = time.Now()

	// group ops per actor
	actors := map[string][]*rec{}
	var order []string
	for i := range sc.Ops {
		sc.Ops[i].index = i
		rc := &rec{op: sc.Ops[i], t1: -1, class: "BLOCKED"}
		w.recs = append(w.recs, rc)
		k := fmt.Sprintf("%d/%s/%s", rc.op.Sess, rc.op.End, rc.op.Role)
		if _, ok := actors[k]; !ok {
			order = append(order, k)
		}
		actors[k] = append(actors[k], rc)
	}
	var wg sync.WaitGroup
	for _, k := range order {
		wg.Add(1)
		go func(list []*rec) {
			defer wg.Done()
			for _, rc := range list {
				if d := time.Duration(rc.op.At)*time.Millisecond - time.Since(w.start); d > 0 {
					time.Sleep(d)
				}
				if w.over.Load() {
					return // the horizon passed while an earlier call of this actor was blocked: the rest is never issued
				}
				w.exec(rc)
			}
		}(actors[k])
	}
	finished := make(chan struct{})
	go func() { wg.Wait(); close(finished) }()
	horizon := time.Duration(sc.HorizonMs) * time.Millisecond
	select {
	case <-finished:
		// let the remote effects of the last operation settle, then still wait for the horizon (virtual time is free)
		if d := horizon - time.Since(w.start); d > 0 {
			time.Sleep(d)
		}
	case <-time.After(horizon):
	}
	w.over.Store(true)
	hz := w.now()
	// snapshot: which calls are still blocked
	type snap struct {
		done   bool
		t1     int64
		class  string
		n      int
		seqT   int64
	}
	snaps := make([]snap, len(w.recs))
	for i, rc := range w.recs {
		if rc.done.Load() {
			snaps[i] = snap{true, rc.t1, rc.class, rc.n, rc.seqT}
		} else {
			snaps[i] = snap{false, -1, "BLOCKED", 0, 1 << 60}
		}
	}
	_ = hz

	// teardown: close both muxes, everything still blocked must return
	td0 := time.Now()
	tdDone := make(chan struct{})
	var tdC, tdS atomic.Int64
	var stage atomic.Int32
	var dumpC, dumpS string
	go func() {
		stage.Store(1)
		tdC.Store(watched(func() { w.closeC(); w.closeC() }, &dumpC, &w.dumpMu))
		stage.Store(2)
		tdS.Store(watched(func() { w.closeS(); w.closeS() }, &dumpS, &w.dumpMu))
		stage.Store(3)
		close(tdDone)
	}()
	tdBlocked := false
	select {
	case <-tdDone:
	case <-time.After(20 * time.Second):
		// closing both muxes is a matter of seconds (1 s per session at worst); after 20 s it is a hang
		tdBlocked = true
	}
	tdUs := time.Since(td0).Microseconds()
	select {
	case <-finished:
	case <-time.After(5 * time.Second):
	}
	var stuck []string
	for _, rc := range w.recs {
		if rc.seqI > 0 && !rc.done.Load() {
			stuck = append(stuck, fmt.Sprintf("%s%d.%s", rc.op.End, rc.op.Sess, rc.op.Kind))
		}
	}
	// goroutines: settle, then look
	leakAfter := int64(-1)
	var leaked map[string]int
	settle := []time.Duration{3 * time.Second, 7 * time.Second, 20 * time.Second, 100 * time.Second, 120 * time.Second}
	if tdBlocked || len(stuck) > 0 {
		settle = settle[:1]
		rn.abort = fmt.Sprintf("scenario %d (%s/%s): teardown blocked=%v, calls still blocked=%v", sc.ID, sc.Transport, sc.Kind, tdBlocked, stuck)
	}
	var waited time.Duration
	for _, d := range settle {
		time.Sleep(d)
		waited += d
		leaked = mieruGoroutines(rn.baseline)
		if len(leaked) == 0 {
			break
		}
		leakAfter = waited.Microseconds()
		mieruLast = strings.Join(keys(leaked), ",")
	}

	rn.emit(w, sc, func(i int) (bool, int64, string, int, int64) {
		s := snaps[i]
		return s.done, s.t1, s.class, s.n, s.seqT
	})

	// ------------------------------------------------------------------ oracle (property text)
	if tdBlocked || tdUs > 3_000_000+2_000_000*int64(sc.NSess) {
		w.dumpMu.Lock()
		kind, dump, dur := "CMux", dumpC, tdC.Load()
		if stage.Load() >= 2 && (tdS.Load() > tdC.Load() || stage.Load() == 2) {
			kind, dump, dur = "SMux", dumpS, tdS.Load()
		}
		w.dumpMu.Unlock()
		if tdBlocked {
			dur = -1
		}
		cause, _ := blockedCloseCause(kind, dump, dur)
		rn.fail(fmt.Sprintf("close-blocked-%s-%s", cause, sc.Transport), fmt.Sprintf("closing both muxes at the end of the scenario took %d ms (client mux %d ms, server mux %d ms, never returned=%v); where: %s", tdUs/1000, tdC.Load()/1000, tdS.Load()/1000, tdBlocked, cause), sc, nil)
	}
	if len(stuck) > 0 {
		rn.fail("call-not-unblocked-by-mux-close-"+strings.ToLower(w.firstStuckKind()), fmt.Sprintf("calls still blocked 5 s after both muxes were closed: %v", stuck), sc, nil)
	}
	if len(leaked) > 0 {
		ks := keys(leaked)
		rn.fail("goroutine-leak-"+shortFn(ks[0]), fmt.Sprintf("goroutines with mieru frames %d s after both muxes were closed: %v", waited/time.Second, leaked), sc, nil)
	} else if leakAfter >= 0 {
		r.Count(fmt.Sprintf("settle-needed-over-%ds", leakAfter/1_000_000))
		if leakAfter >= 10_000_000 {
			lk := mieruLast
			rn.fail("goroutine-linger-"+shortFn(lk), fmt.Sprintf("goroutines with mieru frames were still running %d s after both muxes were closed (gone later): %v", leakAfter/1_000_000, lk), sc, nil)
		}
	}
	rn.oracle(w, sc, func(i int) (bool, int64, string) { return snaps[i].done, snaps[i].t1, snaps[i].class })
}

var mieruLast string

func (w *world) firstStuckKind() string {
	for _, rc := range w.recs {
		if rc.seqI > 0 && !rc.done.Load() {
			return rc.op.Kind
		}
	}
	return "none"
}

func (w *world) conn(rc *rec) net.Conn {
	if rc.op.End == "c" {
		return w.cs[rc.op.Sess]
	}
	return w.ss[rc.op.Sess]
}

func (w *world) exec(rc *rec) {
	op := rc.op
	rc.seqI = evSeq.Add(1)
	rc.t0 = w.now()
	fin := func(class string, n int) {
		rc.t1 = w.now()
		rc.class, rc.n = class, n
		rc.seqT = evSeq.Add(1)
		rc.done.Store(true)
	}
	dl := func(ms int) (time.Time, int64) {
		if ms == 0 {
			return time.Time{}, 0
		}
		t := time.Now().Add(time.Duration(ms) * time.Millisecond)
		return t, t.Sub(w.start).Microseconds()
	}
	switch op.Kind {
	case "Read":
		buf := make([]byte, 1<<20)
		n, err := w.conn(rc).Read(buf)
		fin(classify(n, err), n)
	case "Write":
		b := make([]byte, op.Arg)
		for i := range b {
			b[i] = byte(i)
		}
		n, err := w.conn(rc).Write(b)
		c := classify(0, err)
		fin(c, n)
	case "Flood":
		// op.Arg writes of 16 bytes, each under its own fresh write deadline of floodDLms (0 = none);
		// returns at the first error; rc.late = longest single Write in us
		one := make([]byte, 16)
		if w.sc.PumpGapMs > 0 {
			one = make([]byte, 1000)
		}
		cnt, cls := 0, "OK"
		for i := 0; i < op.Arg && !w.over.Load(); i++ {
			if w.sc.PumpGapMs > 0 && i > 0 {
				time.Sleep(time.Duration(w.sc.PumpGapMs) * time.Millisecond)
			}
			if w.sc.FloodDLms > 0 {
				w.conn(rc).SetWriteDeadline(time.Now().Add(time.Duration(w.sc.FloodDLms) * time.Millisecond))
			}
			rc.curStart.Store(w.now())
			_, err := w.conn(rc).Write(one)
			if err != nil {
				cls = classify(0, err)
				break
			}
			cnt++
		}
		fin(cls, cnt)
	case "Drain":
		// reads until the first error; n = bytes read, rc.abs = number of Read calls, curStart = start of the last one
		buf := make([]byte, 1<<16)
		total, cls := 0, "OK"
		for {
			rc.curStart.Store(w.now())
			rc.nreads.Add(1)
			n, err := w.conn(rc).Read(buf)
			total += n
			if err != nil {
				cls = classify(0, err)
				break
			}
		}
		fin(cls, total)
	case "SetRD":
		t, abs := dl(op.Arg)
		w.conn(rc).SetReadDeadline(t)
		rc.abs = abs
		fin("OK", 0)
	case "SetWD":
		t, abs := dl(op.Arg)
		w.conn(rc).SetWriteDeadline(t)
		rc.abs = abs
		fin("OK", 0)
	case "SetD":
		t, abs := dl(op.Arg)
		w.conn(rc).SetDeadline(t)
		rc.abs = abs
		fin("OK", 0)
	case "Close", "CMux", "SMux":
		var err error
		stop := make(chan struct{})
		dumped := make(chan struct{})
		go func() {
			defer close(dumped)
			select {
			case <-stop:
			case <-time.After(3 * time.Second):
				buf := make([]byte, 8<<20)
				w.dumpMu.Lock()
				rc.dump = string(buf[:runtime.Stack(buf, true)])
				w.dumpMu.Unlock()
			}
		}()
		switch op.Kind {
		case "Close":
			err = w.conn(rc).Close()
		case "CMux":
			err = w.closeC()
		default:
			err = w.closeS()
		}
		close(stop)
		<-dumped
		fin(classify(0, err), 0)
	case "Reset":
		w.resetAt = w.now()
		w.dial.mu.Lock()
		for _, c := range w.dial.conns {
			c.Reset()
		}
		w.dial.mu.Unlock()
		fin("OK", 0)
	case "Hole":
		w.holeAt = w.now()
		w.holed.Store(true)
		fin("OK", 0)
	default:
		panic("unknown op " + op.Kind)
	}
}

// ---------------------------------------------------------------------------------------------- facts + lines

type window struct{ lo, hi int64 } // -1 = never / not within the horizon

// closure causes at (end, sess): returns the window in which closedChan closed.
// lo = earliest time a cause started, hi = time by which it is certainly closed (cause completed + propagation).
// spec = true: what the property asks for (a completed close at the peer reaches this end over a live network);
// spec = false: what the code does (UDP server Mux.Close closes the socket before the close requests leave; a close
// request sent to an end whose own mux is closing may find its socket gone).
func (w *world) closedWindow(end string, sess int, get func(i int) (bool, int64, string), spec bool) (window, window) {
	cl := window{-1, -1}
	er := window{-1, -1}
	add := func(win *window, lo, hi int64) {
		if lo >= 0 && (win.lo < 0 || lo < win.lo) {
			win.lo = lo
		}
		if hi >= 0 && (win.hi < 0 || hi < win.hi) {
			win.hi = hi
		}
	}
	other := "s"
	if end == "s" {
		other = "c"
	}
	netDead := func(t int64) bool {
		return (w.holeAt >= 0 && w.holeAt <= t) || (w.resetAt >= 0 && w.resetAt <= t)
	}
	for i, rc := range w.recs {
		done, t1, _ := get(i)
		hi := int64(-1)
		switch rc.op.Kind {
		case "Close":
			if rc.op.Sess != sess {
				continue
			}
			if rc.op.End == end {
				if done {
					hi = t1
					if t1-rc.t0 < 900 {
						// returned at once: possibly the loser of the closeRequested CAS (a no-op); the winner
						// (another Close, or the input loop handling the peer's close request) then completes
						// within its 1 s poll
						hi = t1 + 1_000_000 + tolUs
					}
				}
				add(&cl, rc.t0, hi)
			} else if rc.op.End == other {
				// the peer's close request travels over the network; lost if the network is dead
				// (or, on UDP, if the peer's server mux closed its socket before)
				if done && !netDead(t1) && (spec || (!(w.sc.Transport == "udp" && w.muxClosedBefore(other, rc.t0)) && !w.muxClosedBefore(end, t1))) {
					// this end answers the close request and then runs its own closeWithError, whose close request may
					// not get out any more (the peer is gone): up to one full 1 s poll before closedChan is closed
					hi = t1 + 1_000_000 + tolUs
				}
				add(&cl, rc.t0, hi)
				add(&er, rc.t0, -1)
			}
		case "CMux", "SMux":
			mine := (rc.op.Kind == "CMux") == (end == "c")
			if mine {
				if done {
					hi = t1
				}
				add(&cl, rc.t0, hi)
			} else {
				if done && !netDead(t1) && (spec || !(w.sc.Transport == "udp" && rc.op.Kind == "SMux")) {
					// sessions of the underlay are closed one after the other, up to 1 s each
					hi = t1 + int64(w.sc.NSess)*1_000_000 + tolUs
				}
				add(&cl, rc.t0, hi)
				// the reply to the peer's close request can fail on a connection the peer already closed: inputErr
				add(&er, rc.t0, -1)
			}
		}
	}
	if w.resetAt >= 0 {
		// underlay failure: the event loop fails, the underlay closes every session
		add(&cl, w.resetAt, w.resetAt+int64(w.sc.NSess+1)*1_000_000)
	}
	if w.holeAt >= 0 && w.sc.Transport == "udp" {
		// black hole: idle-session timeout checked when the event loop wakes up, or retransmission budget
		add(&cl, w.holeAt+50_000_000, -1)
	}
	// inputErr / outputErr windows: only on underlay failure
	if w.resetAt >= 0 {
		add(&er, w.resetAt, -1)
	}
	if w.holeAt >= 0 {
		add(&er, w.holeAt+50_000_000, -1)
	}
	return cl, er
}

func (rn *runner) emit(w *world, sc *Scenario, get func(i int) (bool, int64, string, int, int64)) {
	r := rn.r
	flags := "-"
	if sc.Stall {
		flags = "stall"
	}
	r.Case(fmt.Sprintf("S %d %s %s %d %s %d", sc.ID, sc.Transport, sc.Kind, sc.NSess, flags, int64(sc.HorizonMs)*1000), "-")
	type ev struct {
		seq  int64
		line string
		impl string
	}
	var evs []ev
	get3 := func(i int) (bool, int64, string) { d, t, c, _, _ := get(i); return d, t, c }
	// bytes written towards each (end,sess): list of (t_issue, t_ret, n)
	type wr struct{ t0, t1 int64; n int }
	written := map[string][]wr{}
	maybe := map[string][]wr{}
	for _, rc := range w.recs {
		if rc.op.Kind == "Flood" && rc.seqI > 0 {
			to := "s"
			if rc.op.End == "s" {
				to = "c"
			}
			k := fmt.Sprintf("%s%d", to, rc.op.Sess)
			maybe[k] = append(maybe[k], wr{rc.t0, -1, rc.op.Arg * 1000})
		}
	}
	for i, rc := range w.recs {
		if rc.op.Kind == "Write" {
			done, t1, class, n, _ := get(i)
			to := "s"
			if rc.op.End == "s" {
				to = "c"
			}
			k := fmt.Sprintf("%s%d", to, rc.op.Sess)
			if done && class == "OK" && n > 0 {
				written[k] = append(written[k], wr{rc.t0, t1, n})
			} else if rc.seqI > 0 && rc.op.Arg > 0 && rc.op.Kind == "Write" {
				// a Write is not atomic: any prefix of a Write that is still running (or that failed) may arrive
				maybe[k] = append(maybe[k], wr{rc.t0, t1, rc.op.Arg})
			}
		}
	}
	// reads in order of return per (end,sess) to compute consumption
	for i, rc := range w.recs {
		if rc.seqI == 0 {
			continue
		}
		done, t1, class, n, seqT := get(i)
		op := rc.op
		isC := 0
		if op.End == "c" {
			isC = 1
		}
		_ = isC
		switch op.Kind {
		case "SetRD", "SetWD", "SetD":
			which := map[string]string{"SetRD": "R", "SetWD": "W", "SetD": "B"}[op.Kind]
			evs = append(evs, ev{rc.seqT, fmt.Sprintf("D %s %d %s %d %d", op.End, op.Sess, which, rc.abs, rc.t1), "-"})
		case "Reset", "Hole":
			// environment only
		default:
			evs = append(evs, ev{rc.seqI, fmt.Sprintf("I %s %d %d %s %d", op.End, op.Sess, i, op.Kind, rc.t0), "-"})
			cl, er := w.closedWindow(op.End, op.Sess, get3, false)
			facts := ""
			switch op.Kind {
			case "Drain":
				facts = fmt.Sprintf("%d %d %d %d %d %d %d", int64(-2), cl.lo, cl.hi, er.lo, er.hi, rc.curStart.Load(), rc.nreads.Load())
			case "Read":
				// earliest time unread data is available: total written towards this end before t vs consumed by earlier reads
				k := fmt.Sprintf("%s%d", op.End, op.Sess)
				consumed := 0
				for j, o := range w.recs {
					if j != i && o.op.Kind == "Read" && o.op.End == op.End && o.op.Sess == op.Sess {
						d2, t2, c2, n2, s2 := get(j)
						if d2 && c2 == "DATA" && s2 < rc.seqI {
							_ = t2
							consumed += n2
						}
					}
				}
				dataAt := int64(-1)
				acc := 0
				ws := append([]wr(nil), written[k]...)
				sort.Slice(ws, func(a, b int) bool { return ws[a].t0 < ws[b].t0 })
				for _, x := range ws {
					acc += x.n
					if acc > consumed {
						dataAt = x.t0
						break
					}
				}
				if dataAt >= 0 && ((w.holeAt >= 0 && dataAt >= w.holeAt) || (w.resetAt >= 0 && dataAt >= w.resetAt) || sc.Stall || (cl.lo >= 0 && dataAt >= cl.lo-tolUs)) {
					dataAt = -2 // written but possibly never delivered: unknown
				}
				if dataAt != -2 {
					// a prefix of a Write that is still running (or that failed) may have arrived earlier than
					// the first byte that is certainly available
					for _, x := range maybe[k] {
						if (x.t0 <= t1 || !done) && (dataAt == -1 || x.t0 < dataAt) {
							dataAt = -2
							break
						}
					}
				}
				facts = fmt.Sprintf("%d %d %d %d %d", dataAt, cl.lo, cl.hi, er.lo, er.hi)
			case "Write", "Flood":
				creq := int64(-1)
				for j, o := range w.recs {
					if o.op.Kind == "Close" && o.op.End == op.End && o.op.Sess == op.Sess || (o.op.Kind == "CMux" && op.End == "c") || (o.op.Kind == "SMux" && op.End == "s") {
						_ = j
						if creq < 0 || o.t0 < creq {
							if o.seqI > 0 {
								creq = o.t0
							}
						}
					}
				}
				st := 0
				if sc.Stall && op.End == "c" && op.Sess == 0 {
					st = 1
				}
				facts = fmt.Sprintf("%d %d %d %d %d %d", st, cl.lo, cl.hi, er.lo, er.hi, creq)
				if op.Kind == "Flood" {
					facts += fmt.Sprintf(" %d %d", rc.curStart.Load(), int64(sc.FloodDLms)*1000)
				}
			default: // Close CMux SMux
				first := 1
				for _, o := range w.recs {
					if o.op.Kind == op.Kind && o.op.End == op.End && o.op.Sess == op.Sess && o.seqI > 0 && o.seqI < rc.seqI {
						first = 0
					}
				}
				st := 0
				if sc.Stall && op.Sess == 0 && op.Kind == "Close" && op.End == "c" {
					st = 1
				}
				facts = fmt.Sprintf("%d %d", first, st)
			}
			t1x := t1
			if !done {
				t1x = -1
				class = "BLOCKED"
			}
			evs = append(evs, ev{seqT, fmt.Sprintf("T %s %d %d %s %d %d %d %s", op.End, op.Sess, i, op.Kind, rc.t0, t1x, n, facts), class})
		}
	}
	sort.SliceStable(evs, func(a, b int) bool { return evs[a].seq < evs[b].seq })
	for _, e := range evs {
		r.Case(e.line, e.impl)
	}
	r.Case(fmt.Sprintf("X %d", sc.ID), "-")
}

// ---------------------------------------------------------------------------------------------- oracle

// oracle judges the scenario against the property text (spec semantics: deadlines persist until changed).
func (rn *runner) oracle(w *world, sc *Scenario, get func(i int) (bool, int64, string)) {
	r := rn.r
	// spec deadlines per (end,sess): replay setters in return order
	type dlState struct{ rd, wd int64 }
	type setter struct {
		seq   int64
		which string
		abs   int64
	}
	setters := map[string][]setter{}
	for _, rc := range w.recs {
		switch rc.op.Kind {
		case "SetRD", "SetWD", "SetD":
			k := fmt.Sprintf("%s%d", rc.op.End, rc.op.Sess)
			setters[k] = append(setters[k], setter{rc.seqT, rc.op.Kind, rc.abs})
		}
	}
	specDeadline := func(rc *rec) int64 {
		k := fmt.Sprintf("%s%d", rc.op.End, rc.op.Sess)
		var d int64
		for _, s := range setters[k] {
			if s.seq < rc.seqI {
				if (rc.op.Kind == "Read" && (s.which == "SetRD" || s.which == "SetD")) || ((rc.op.Kind == "Write" || rc.op.Kind == "Flood") && (s.which == "SetWD" || s.which == "SetD")) {
					d = s.abs
				}
			}
		}
		return d
	}
	for i, rc := range w.recs {
		if rc.seqI == 0 {
			continue
		}
		done, t1, class := get(i)
		op := rc.op
		where := fmt.Sprintf("%s/%s", sc.Transport, sc.Kind)
		switch op.Kind {
		case "Close", "CMux", "SMux":
			// closing an underlay closes its sessions one after the other, and a session whose close request cannot be
			// transmitted any more uses its whole 1 s poll: the bound the code can give grows with the session count
			lim := int64(3_000_000) + int64(sc.NSess)*1_000_000
			if !done || t1-rc.t0 > lim {
				dur := int64(-1)
				took := "never (until the horizon)"
				if done {
					dur = t1 - rc.t0
					took = fmt.Sprintf("%d ms", dur/1000)
				}
				w.dumpMu.Lock()
				dump := rc.dump
				w.dumpMu.Unlock()
				cause, _ := blockedCloseCause(op.Kind, dump, dur)
				rn.fail(fmt.Sprintf("close-blocked-%s-%s", cause, sc.Transport),
					fmt.Sprintf("%s at end %s returned after %s (bound 3 s); where: %s [%s]", op.Kind, op.End, took, cause, where), sc, map[string]interface{}{"op": op})
			}
			if done && class != "OK" {
				rn.fail("close-returned-error", fmt.Sprintf("%s returned %s", op.Kind, class), sc, map[string]interface{}{"op": op})
			}
		case "Read", "Write", "Flood", "Drain":
			if op.Kind == "Flood" && sc.FloodDLms > 0 {
				end := t1
				if !done {
					end = int64(sc.HorizonMs) * 1000
				}
				if cur := rc.curStart.Load(); end-cur > int64(sc.FloodDLms)*1000+tolUs {
					rn.fail("write-deadline-ignored-peer-not-reading-"+sc.Transport,
						fmt.Sprintf("Write issued at %d ms right after SetWriteDeadline(now+%d ms) with the peer not reading: returned=%v class=%s at %d ms [%s]",
							cur/1000, sc.FloodDLms, done, class, end/1000, where), sc, map[string]interface{}{"op": op})
				}
			}
			// (a) deadline bounds the call (spec semantics)
			if d := specDeadline(rc); d > 0 && !(op.Kind == "Flood" && sc.FloodDLms > 0) && op.Kind != "Drain" {
				late := (!done && d+tolUs < int64(sc.HorizonMs)*1000) || (done && t1 > maxI(d, rc.t0)+tolUs)
				if late {
					sig := rn.deadlineSig(w, rc, d)
					took := "still blocked at the horizon"
					if done {
						took = fmt.Sprintf("returned %s at %d ms", class, t1/1000)
					}
					rn.fail(sig, fmt.Sprintf("%s issued at %d ms with %s deadline %d ms set earlier and not changed: %s [%s]",
						op.Kind, rc.t0/1000, strings.ToLower(op.Kind), d/1000, took, where), sc, map[string]interface{}{"op": op})
				}
			}
			// (b) close unblocks: local close completed => call returns; remote close => bounded
			cl, _ := w.closedWindow(op.End, op.Sess, get, true)
			if cl.hi >= 0 {
				// a close that reaches this end through the underlay (peer's mux close, connection failure) closes the
				// sessions of the underlay one after the other, up to 1 s each
				lim := maxI(cl.hi, rc.t0) + 1_000_000*int64(sc.NSess)
				if !done || t1 > lim {
					by := w.closeCause(op.End, op.Sess)
					kindName := map[string]string{"Read": "read", "Drain": "read", "Write": "write", "Flood": "write"}[op.Kind]
					rn.fail(fmt.Sprintf("%s-not-unblocked-by-%s-%s", kindName, by, sc.Transport),
						fmt.Sprintf("%s at end %s issued at %d ms did not return within 1 s of the close that completed at %d ms (returned: %v at %d ms) [%s]",
							op.Kind, op.End, rc.t0/1000, cl.hi/1000, done, t1/1000, where), sc, map[string]interface{}{"op": op})
				}
			}
		}
	}
	_ = r
}

func wallNow() int64 {
	var ts syscall.Timespec
	syscall.Syscall(syscall.SYS_CLOCK_GETTIME, 1, uintptr(unsafe.Pointer(&ts)), 0)
	return ts.Sec*1_000_000_000 + ts.Nsec
}

func maxI(a, b int64) int64 {
	if a > b {
		return a
	}
	return b
}

func (w *world) muxClosedBefore(end string, t int64) bool {
	for _, rc := range w.recs {
		if rc.seqI > 0 && rc.t0 <= t && ((rc.op.Kind == "SMux" && end == "s") || (rc.op.Kind == "CMux" && end == "c")) {
			return true
		}
	}
	return false
}

func (w *world) anyMuxClose() bool {
	for _, rc := range w.recs {
		if rc.seqI > 0 && (rc.op.Kind == "SMux" || rc.op.Kind == "CMux") {
			return true
		}
	}
	return false
}

func (w *world) closeCause(end string, sess int) string {
	best, bt := "none", int64(-1)
	for _, rc := range w.recs {
		var name string
		switch rc.op.Kind {
		case "Close":
			if rc.op.Sess != sess {
				continue
			}
			if rc.op.End == end {
				name = "local-close"
			} else {
				name = "remote-close"
			}
		case "CMux", "SMux":
			if (rc.op.Kind == "CMux") == (end == "c") {
				name = "local-mux-close"
			} else {
				name = "remote-mux-close"
			}
		default:
			continue
		}
		if rc.seqI > 0 && (bt < 0 || rc.t0 < bt) {
			best, bt = name, rc.t0
		}
	}
	if w.resetAt >= 0 && (bt < 0 || w.resetAt < bt) {
		best = "tcp-reset"
	}
	return best
}

// deadlineSig names the cause of a missed (spec) deadline using what happened since the deadline was set.
func (rn *runner) deadlineSig(w *world, rc *rec, d int64) string {
	kind := strings.ToLower(rc.op.Kind)
	if kind == "flood" {
		kind = "write"
	}
	// find the setter
	var setSeq int64
	for _, o := range w.recs {
		if o.op.End == rc.op.End && o.op.Sess == rc.op.Sess && o.seqT < rc.seqI && o.seqT > setSeq {
			if (rc.op.Kind == "Read" && (o.op.Kind == "SetRD" || o.op.Kind == "SetD")) || ((rc.op.Kind == "Write" || rc.op.Kind == "Flood") && (o.op.Kind == "SetWD" || o.op.Kind == "SetD")) {
				setSeq = o.seqT
			}
		}
	}
	prevSame, prevWrite := false, false
	for _, o := range w.recs {
		if o.op.End == rc.op.End && o.op.Sess == rc.op.Sess && o.done.Load() && o.seqT > setSeq && o.seqT < rc.seqI+0 {
			if o.op.Kind == rc.op.Kind || (o.op.Kind == "Write" && rc.op.Kind == "Flood") {
				prevSame = true
			}
			if o.op.Kind == "Write" && rc.op.Kind == "Read" && rc.op.End == "c" && o.class == "OK" {
				prevWrite = true
			}
		}
	}
	// a same-kind call that was still running when this one was issued also resets on return: count those that returned before our return
	switch {
	case prevWrite && !prevSame:
		return "read-deadline-overwritten-by-client-write"
	case prevSame:
		return kind + "-deadline-cleared-by-previous-" + kind
	case kind == "write" && !w.sc.Stall && (w.holeAt >= 0 || w.resetAt >= 0 || w.anyMuxClose()):
		return "write-deadline-ignored-peer-gone-" + w.sc.Transport
	case kind == "write" && w.sc.Stall:
		return "write-deadline-ignored-peer-not-reading-" + w.sc.Transport
	}
	return kind + "-deadline-not-honoured"
}

// ---------------------------------------------------------------------------------------------- generation

func corpus(thorough bool) []*Scenario {
	var out []*Scenario
	for _, tp := range []string{"tcp", "udp"} {
		for _, end := range []string{"s", "c"} {
			// the witness of C15_deadline_refuted: SetReadDeadline d; Read; Read
			out = append(out, &Scenario{Transport: tp, Kind: "deadline-read-read-" + end, NSess: 1, HorizonMs: 15000, Ops: []Op{
				{0, end, "R", 0, "SetRD", 200, 0}, {0, end, "R", 10, "Read", 0, 0}, {0, end, "R", 20, "Read", 0, 0}}})
			// deadline set once, data arrives for the first read, second read must still time out
			other := map[string]string{"c": "s", "s": "c"}[end]
			out = append(out, &Scenario{Transport: tp, Kind: "deadline-data-then-read-" + end, NSess: 1, HorizonMs: 15000, Ops: []Op{
				{0, end, "R", 0, "SetRD", 500, 0}, {0, end, "R", 10, "Read", 0, 0}, {0, end, "R", 20, "Read", 0, 0},
				{0, other, "W", 100, "Write", 100, 0}}})
			// SetDeadline covers both
			out = append(out, &Scenario{Transport: tp, Kind: "setdeadline-read-" + end, NSess: 1, HorizonMs: 15000, Ops: []Op{
				{0, end, "R", 0, "SetD", 300, 0}, {0, end, "R", 10, "Read", 0, 0}}})
			// local close unblocks a blocked read; repeated close
			out = append(out, &Scenario{Transport: tp, Kind: "close-unblocks-read-" + end, NSess: 1, HorizonMs: 8000, Ops: []Op{
				{0, end, "R", 0, "Read", 0, 0}, {0, other, "R", 0, "Read", 0, 0},
				{0, end, "C", 300, "Close", 0, 0}, {0, end, "C", 310, "Close", 0, 0}, {0, end, "C", 2000, "Close", 0, 0},
				{0, end, "W", 2500, "Write", 10, 0}, {0, end, "R", 2600, "Read", 0, 0}}})
		}
		// client write arms 10 s: user deadline overwritten
		out = append(out, &Scenario{Transport: tp, Kind: "deadline-then-client-write", NSess: 1, HorizonMs: 15000, Ops: []Op{
			{0, "c", "R", 0, "SetRD", 300, 0}, {0, "c", "R", 50, "Write", 2000, 0}, {0, "c", "R", 100, "Read", 0, 0}}})
		// mux close with blocked calls at both ends
		for _, mk := range []string{"CMux", "SMux"} {
			out = append(out, &Scenario{Transport: tp, Kind: "muxclose-" + strings.ToLower(mk), NSess: 2, HorizonMs: 8000, Ops: []Op{
				{0, "c", "R", 0, "Read", 0, 0}, {0, "s", "R", 0, "Read", 0, 0}, {1, "c", "R", 0, "Read", 0, 0}, {1, "s", "R", 0, "Read", 0, 0},
				{0, "x", "C", 500, mk, 0, 0}, {0, "x", "C", 600, mk, 0, 0}}})
		}
		// idle longer than the housekeeping tick / than the idle-session timeout, then close
		for _, idle := range []int{3000, 7000, 70000} {
			out = append(out, &Scenario{Transport: tp, Kind: fmt.Sprintf("idle-%ds-then-close", idle/1000), NSess: 1, HorizonMs: idle + 6000, Ops: []Op{
				{0, "s", "R", 0, "Read", 0, 0}, {0, "c", "C", idle, "Close", 0, 0}, {0, "c", "C", idle + 1500, "Close", 0, 0}}})
		}
	}
	// upload only: the client writes, never reads, closes; the server reads everything and must then get EOF / an error
	// in bounded time (the close request has to be sent from every state in which the peer may hold the session)
	for _, tp := range []string{"tcp", "udp"} {
		out = append(out, &Scenario{Transport: tp, Kind: "writeonly-close", NSess: 1, WriteOnly: true, HorizonMs: 8000, Ops: []Op{
			{Sess: 0, End: "s", Role: "R", At: 0, Kind: "Drain"}, {Sess: 0, End: "c", Role: "W", At: 100, Kind: "Write", Arg: 4096},
			{Sess: 0, End: "c", Role: "W", At: 200, Kind: "Write", Arg: 40000}, {Sess: 0, End: "c", Role: "C", At: 600, Kind: "Close"},
			{Sess: 0, End: "c", Role: "C", At: 900, Kind: "Close"}}})
	}
	// aged mux: sessions kept open across minutes (housekeeping ticks of mux and underlays in between, client UDP
	// scheduler disabled after 60 s and idle 2..3 min later), with and without traffic, then client Mux.Close /
	// session Close / peer Close.  Everything still has to be released.
	ages := []int{260}
	if thorough {
		ages = []int{70, 130, 260, 370}
	}
	for _, tp := range []string{"tcp", "udp"} {
		for _, age := range ages {
			for _, traffic := range []bool{false, true} {
				for _, ev := range []string{"CMux", "cClose", "sClose"} {
					if !thorough && (traffic || ev != "CMux") {
						continue
					}
					sc := &Scenario{Transport: tp, NSess: 2, OneUnderlay: true, HorizonMs: age*1000 + 8000,
						Kind: fmt.Sprintf("aged-%ds-%s-%s", age, map[bool]string{false: "idle", true: "traffic"}[traffic], strings.ToLower(ev))}
					for i := 0; i < 2; i++ {
						sc.Ops = append(sc.Ops, Op{Sess: i, End: "c", Role: "R", At: 0, Kind: "Read"})
						if traffic {
							sc.PumpGapMs = 5000
							sc.Ops = append(sc.Ops, Op{Sess: i, End: "s", Role: "R", At: 0, Kind: "Drain"},
								Op{Sess: i, End: "c", Role: "W", At: 1000 + 7*i, Kind: "Flood", Arg: 100000})
						} else {
							sc.Ops = append(sc.Ops, Op{Sess: i, End: "s", Role: "R", At: 0, Kind: "Read"})
						}
					}
					at := age * 1000
					switch ev {
					case "CMux":
						sc.Ops = append(sc.Ops, Op{End: "x", Role: "C", At: at, Kind: "CMux"}, Op{End: "x", Role: "C", At: at + 700, Kind: "CMux"})
					case "cClose":
						sc.Ops = append(sc.Ops, Op{Sess: 0, End: "c", Role: "C", At: at, Kind: "Close"}, Op{Sess: 1, End: "c", Role: "C", At: at + 300, Kind: "Close"})
					default:
						sc.Ops = append(sc.Ops, Op{Sess: 0, End: "s", Role: "C", At: at, Kind: "Close"}, Op{Sess: 1, End: "s", Role: "C", At: at + 300, Kind: "Close"})
					}
					out = append(out, sc)
				}
			}
		}
	}
	// simultaneous close: one end closes its Mux (which closes the sessions of a shared underlay one after the other, each
	// with its bounded graceful wait, after the underlay's connection has been told to fail reads and writes) while the
	// other end closes the same sessions a little later: the later close requests are processed by an end whose writes
	// already fail (error path of the close response).  Every Close and every blocked Read still has to return.
	for _, tp := range []string{"tcp", "udp"} {
		for _, mk := range []string{"CMux", "SMux"} {
			other := map[string]string{"CMux": "s", "SMux": "c"}[mk]
			for _, off := range []int{100, 300, 1200} {
				if !thorough && off == 100 {
					continue
				}
				sc := &Scenario{Transport: tp, NSess: 3, OneUnderlay: true, HorizonMs: 12000,
					Kind: fmt.Sprintf("simultaneous-close-%s-%dms", strings.ToLower(mk), off)}
				for i := 0; i < 3; i++ {
					sc.Ops = append(sc.Ops, Op{Sess: i, End: "c", Role: "R", At: 0, Kind: "Read"}, Op{Sess: i, End: "s", Role: "R", At: 0, Kind: "Read"})
					if i < 2 {
						sc.Ops = append(sc.Ops, Op{Sess: i, End: other, Role: "C", At: 500 + off + 10*i, Kind: "Close"})
					}
				}
				sc.Ops = append(sc.Ops, Op{End: "x", Role: "C", At: 500, Kind: mk}, Op{End: "x", Role: "C", At: 6000, Kind: mk})
				out = append(out, sc)
			}
		}
	}
	// the public API: apis/client Stop and apis/server Stop with blocked calls at both ends, repeated Stop
	for _, tp := range []string{"tcp", "udp"} {
		for _, mk := range []string{"CMux", "SMux"} {
			out = append(out, &Scenario{Transport: tp, Apis: true, Kind: "apis-stop-" + map[string]string{"CMux": "client", "SMux": "server"}[mk], NSess: 2, HorizonMs: 8000, Ops: []Op{
				{0, "c", "R", 0, "Read", 0, 0}, {0, "s", "R", 0, "Read", 0, 0}, {1, "c", "R", 0, "Read", 0, 0}, {1, "s", "R", 0, "Read", 0, 0},
				{1, "c", "W", 200, "Write", 3000, 0},
				{0, "x", "C", 500, mk, 0, 0}, {0, "x", "C", 600, mk, 0, 0}}})
		}
	}
	// abrupt loss of the network
	out = append(out, &Scenario{Transport: "tcp", Kind: "tcp-reset-blocked-reads", NSess: 2, HorizonMs: 8000, Ops: []Op{
		{0, "c", "R", 0, "Read", 0, 0}, {0, "s", "R", 0, "Read", 0, 0}, {1, "s", "R", 0, "Read", 0, 0},
		{0, "x", "C", 700, "Reset", 0, 0}, {0, "c", "C", 3000, "Close", 0, 0}, {0, "s", "C", 3000, "Close", 0, 0}}})
	out = append(out, &Scenario{Transport: "udp", Kind: "udp-hole-then-close", NSess: 1, HorizonMs: 260000, Ops: []Op{
		{0, "c", "W", 100, "Write", 3000, 0}, {0, "s", "R", 0, "Read", 0, 0}, {0, "s", "R", 200, "Read", 0, 0},
		{0, "x", "C", 1000, "Hole", 0, 0}, {0, "c", "C", 2000, "Close", 0, 0}}})
	// mid-transfer: two sessions on ONE underlay, each with a blocked reader and an active writer (the peer drains);
	// then the connection is reset / the client mux is closed / the server mux is closed.  Expected on the unchanged
	// tree: every call returns within the bound (sessions of an underlay are torn down one after the other).
	for _, tp := range []string{"tcp", "udp"} {
		for _, ev := range []string{"Reset", "CMux", "SMux"} {
			if ev == "Reset" && tp == "udp" {
				continue
			}
			sc := &Scenario{Transport: tp, Kind: "midtransfer-" + strings.ToLower(ev), NSess: 2, OneUnderlay: true, PumpGapMs: 5, HorizonMs: 9000}
			for i := 0; i < 2; i++ {
				sc.Ops = append(sc.Ops, Op{Sess: i, End: "c", Role: "R", At: 0, Kind: "Read"}, Op{Sess: i, End: "s", Role: "R", At: 0, Kind: "Drain"},
					Op{Sess: i, End: "c", Role: "W", At: 100 + 3*i, Kind: "Flood", Arg: 100000})
			}
			sc.Ops = append(sc.Ops, Op{End: "x", Role: "C", At: 1500, Kind: ev})
			if ev != "Reset" {
				sc.Ops = append(sc.Ops, Op{End: "x", Role: "C", At: 1600, Kind: ev})
			}
			out = append(out, sc)
		}
	}
	// peer stopped reading: back-pressure (TCP: down to the socket, Cap-bounded pipe; UDP: windows and queues)
	out = append(out, &Scenario{Transport: "tcp", Kind: "stall-close", NSess: 1, Cap: 4096, Stall: true, FloodDLms: 300, HorizonMs: 12000, Ops: []Op{
		{Sess: 0, End: "c", Role: "W", At: 0, Kind: "Flood", Arg: 6000}, {Sess: 0, End: "c", Role: "C", At: 4000, Kind: "Close"}}})
	out = append(out, &Scenario{Transport: "tcp", Kind: "stall-muxclose", NSess: 1, Cap: 4096, Stall: true, HorizonMs: 9000, Ops: []Op{
		{Sess: 0, End: "c", Role: "W", At: 0, Kind: "Flood", Arg: 6000}, {Sess: 0, End: "x", Role: "C", At: 4000, Kind: "CMux"}}})
	out = append(out, &Scenario{Transport: "tcp", Kind: "stall-remote-close", NSess: 1, Cap: 4096, Stall: true, HorizonMs: 9000, Ops: []Op{
		{Sess: 0, End: "c", Role: "W", At: 0, Kind: "Flood", Arg: 6000}, {Sess: 0, End: "s", Role: "C", At: 4000, Kind: "Close"}}})
	if thorough {
		out = append(out, &Scenario{Transport: "udp", Kind: "stall-close", NSess: 1, Stall: true, FloodDLms: 300, HorizonMs: 40000, Ops: []Op{
			{Sess: 0, End: "c", Role: "W", At: 0, Kind: "Flood", Arg: 14000}, {Sess: 0, End: "c", Role: "C", At: 30000, Kind: "Close"}}})
	}
	out = append(out, &Scenario{Transport: "udp", Kind: "stall-wd-then-flood", NSess: 1, Stall: true, HorizonMs: 13000, Ops: []Op{
		{Sess: 0, End: "c", Role: "W", At: 0, Kind: "SetWD", Arg: 300}, {Sess: 0, End: "c", Role: "W", At: 10, Kind: "Write", Arg: 16},
		{Sess: 0, End: "c", Role: "W", At: 20, Kind: "Flood", Arg: 14000}, {Sess: 0, End: "c", Role: "C", At: 9000, Kind: "Close"}}})
	for i, s := range out {
		s.ID = i + 1
	}
	return out
}

func randomScenario(rng *vh.Rng, id int, long bool) *Scenario {
	sc := &Scenario{ID: id, Kind: "random", NSess: rng.Range(1, 3)}
	if rng.Intn(2) == 0 {
		sc.Transport = "tcp"
	} else {
		sc.Transport = "udp"
	}
	if sc.Transport == "udp" && rng.Intn(3) == 0 {
		sc.LatencyMs = rng.Range(1, 5)
	}
	span := 3000
	if long {
		span = []int{9000, 16000, 75000}[rng.Intn(3)]
		sc.Kind = fmt.Sprintf("random-long-%ds", span/1000)
	}
	// distinct phases per role so that two events never share a virtual instant
	phase := map[string]int{"cR": 0, "cW": 17, "cC": 34, "sR": 51, "sW": 68, "sC": 85, "xC": 93}
	at := func(k string) int { return rng.Intn(span/100)*100 + phase[k] }
	for s := 0; s < sc.NSess; s++ {
		for _, end := range []string{"c", "s"} {
			// reader
			nr := rng.Range(1, 4)
			var ts []int
			for i := 0; i < nr*2; i++ {
				ts = append(ts, at(end+"R"))
			}
			sort.Ints(ts)
			for i := 0; i < nr; i++ {
				switch rng.Intn(4) {
				case 0:
					sc.Ops = append(sc.Ops, Op{Sess: s, End: end, Role: "R", At: ts[2*i], Kind: "SetRD", Arg: rng.Range(1, 30) * 100})
				case 1:
					sc.Ops = append(sc.Ops, Op{Sess: s, End: end, Role: "R", At: ts[2*i], Kind: "SetD", Arg: rng.Range(1, 30) * 100})
				case 2:
					if rng.Intn(3) == 0 {
						sc.Ops = append(sc.Ops, Op{Sess: s, End: end, Role: "R", At: ts[2*i], Kind: "SetRD", Arg: 0})
					}
				}
				sc.Ops = append(sc.Ops, Op{Sess: s, End: end, Role: "R", At: ts[2*i+1], Kind: "Read"})
			}
			// writer
			nw := rng.Range(0, 3)
			ts = ts[:0]
			for i := 0; i < nw; i++ {
				ts = append(ts, at(end+"W"))
			}
			sort.Ints(ts)
			for i := 0; i < nw; i++ {
				if rng.Intn(4) == 0 {
					sc.Ops = append(sc.Ops, Op{Sess: s, End: end, Role: "W", At: ts[i], Kind: "SetWD", Arg: rng.Range(1, 20) * 100})
				}
				size := []int{1, 100, 1500, 40000, 200000}[rng.Intn(5)]
				sc.Ops = append(sc.Ops, Op{Sess: s, End: end, Role: "W", At: ts[i], Kind: "Write", Arg: size})
			}
			// closer
			if rng.Intn(3) != 0 {
				t := at(end + "C")
				sc.Ops = append(sc.Ops, Op{Sess: s, End: end, Role: "C", At: t, Kind: "Close"})
				if rng.Bool() {
					sc.Ops = append(sc.Ops, Op{Sess: s, End: end, Role: "C", At: t + rng.Range(0, 1500), Kind: "Close"})
				}
			}
		}
	}
	// control: mux close / network failure
	switch rng.Intn(6) {
	case 0:
		sc.Ops = append(sc.Ops, Op{End: "x", Role: "C", At: at("xC"), Kind: "CMux"})
	case 1:
		sc.Ops = append(sc.Ops, Op{End: "x", Role: "C", At: at("xC"), Kind: "SMux"})
	case 2:
		if sc.Transport == "tcp" {
			sc.Ops = append(sc.Ops, Op{End: "x", Role: "C", At: at("xC"), Kind: "Reset"})
		} else if long {
			sc.Ops = append(sc.Ops, Op{End: "x", Role: "C", At: at("xC"), Kind: "Hole"})
		}
	}
	sc.HorizonMs = span + 5000
	for _, o := range sc.Ops {
		if o.Kind == "Hole" {
			sc.HorizonMs = span + 260000
		}
	}
	return sc
}

func main() {
	r := vh.Start("c15")
	rn := &runner{r: r}
	// baseline: process-wide daemons that exist before any Mux is created
	time.Sleep(10 * time.Millisecond)
	rn.baseline = mieruGoroutines(nil)
	only := os.Getenv("C15_ONLY")
	budget := 40 * time.Second
	nrand, nlong := 40, 4
	if r.Thorough() {
		budget = 8 * time.Minute
		nrand, nlong = 600, 40
	}
	wall0 := wallNow()
	id := 0
	for _, sc := range corpus(r.Thorough()) {
		id = sc.ID
		if only != "" && !strings.Contains(sc.Kind, only) {
			continue
		}
		if rn.abort != "" {
			break
		}
		wa := wallNow()
		rn.run(sc)
		r.Rep.Distribution["wallms:"+sc.Transport+"/"+sc.Kind] += int((wallNow() - wa) / 1_000_000)
		r.Distinct(sc.Transport + "/" + sc.Kind)
	}
	if only == "" {
		for i := 0; i < nrand+nlong; i++ {
			if wallNow()-wall0 > budget.Nanoseconds() && i >= 12 {
				r.Count("budget-exhausted")
				break
			}
			id++
			if rn.abort != "" {
				break
			}
			sc := randomScenario(r.Rng.Fork(), id, i >= nrand)
			rn.run(sc)
			var ks []string
			for _, o := range sc.Ops {
				if o.Kind == "Close" || o.Kind == "CMux" || o.Kind == "SMux" || o.Kind == "Reset" || o.Kind == "Hole" {
					ks = append(ks, o.End+o.Kind)
				}
			}
			sort.Strings(ks)
			r.Distinct(sc.Transport + "/" + strings.Join(ks, ","))
		}
	}
	if rn.abort != "" {
		r.Count("aborted-after-hang")
		r.Rep.Notes = map[string]string{"aborted": rn.abort}
	}
	r.Rep.Rule = "corpus of scripted scenarios (deadline witnesses, close with blocked calls at both ends, repeated close, mux close, idle 3/7/70 s, TCP reset, UDP black hole, peer not reading) on TCP and UDP, then random scenarios: 1..3 sessions, per session and end a reader, a writer and a closer goroutine with timed operations from the PRNG, optional client/server Mux.Close, TCP reset or UDP black hole; one evaluation = one line (call issued / call returned with its class / deadline set); non-trivial = distinct (transport, multiset of close/failure operations)"
	r.Finish()
}
