package main

import (
	"context"
	"fmt"
	"net"
	"time"

	"github.com/enfein/mieru/v3/pkg/cipher"
	"github.com/enfein/mieru/v3/pkg/protocol"
)

func init() {
	z("KeyRefreshInterval_ns", int64(cipher.KeyRefreshInterval/time.Nanosecond))
	z("cacheValidInterval_ns", int64(cipher.VerifCacheValidInterval/time.Nanosecond))
	z("cacheValidMaxJitterMs", int64(cipher.VerifCacheValidMaxJitterMs))
	z("KeyIter", int64(cipher.KeyIter))
	z("DefaultNonceSize", int64(cipher.DefaultNonceSize))
	z("DefaultOverhead", int64(cipher.DefaultOverhead))
	z("DefaultKeyLen", int64(cipher.DefaultKeyLen))
	z("NoncePrefixLenForUserHint", int64(cipher.NoncePrefixLenForUserHint))
	z("NonceSuffixLenForUserHint", int64(cipher.NonceSuffixLenForUserHint))
	z("packetUnderlayScheduleWindow_ns", probePacketUnderlayWindow())
}

// probePacketUnderlayWindow measures, on the compiled code, for how long a client PacketUnderlay made by the real
// constructor keeps taking new sessions (all of which are opened with the one key it was created with): the distance
// between its creation and its scheduler's disable time. This binary runs on the real clock, so one measurement only
// brackets the window (disable - after <= window <= disable - before, monotonic readings); the brackets of many
// constructions are intersected and the window is the one whole millisecond in the intersection. The C08 virtual-time
// driver (c08t, K case) measures the same quantity exactly and compares it with this constant to the nanosecond.
// An underlay that never stops taking sessions is reported as 2^62 ns.
func probePacketUnderlayWindow() int64 {
	block, err := cipher.BlockCipherFromPassword(cipher.HashPassword([]byte("probe-password"), []byte("probe")), true)
	if err != nil {
		panic(err)
	}
	lo, hi := int64(-1<<62), int64(1<<62)
	for i := 0; i < 400; i++ {
		before := time.Now()
		u, err := protocol.NewPacketUnderlay(context.Background(), nullPacketDialer{}, nil, "udp", "192.0.2.1:8964", 1400, block, nil)
		after := time.Now()
		if err != nil {
			panic(err)
		}
		dt := u.Scheduler().DisableTime()
		u.Close()
		if dt.IsZero() {
			return 1 << 62
		}
		if l := int64(dt.Sub(after)); l > lo {
			lo = l
		}
		if h := int64(dt.Sub(before)); h < hi {
			hi = h
		}
		const ms = int64(time.Millisecond)
		first := (lo + ms - 1) / ms * ms // smallest whole millisecond >= lo (lo > 0 in practice)
		if lo <= hi && first <= hi && first+ms > hi && i >= 20 {
			return first
		}
	}
	panic(fmt.Sprintf("cannot bracket the scheduling window of a client PacketUnderlay to one millisecond: [%d, %d] ns", lo, hi))
}

type nullPacketDialer struct{}

func (nullPacketDialer) ListenPacket(ctx context.Context, network, laddr, raddr string) (net.PacketConn, error) {
	return &nullPacketConn{}, nil
}

type nullPacketConn struct{}

func (*nullPacketConn) ReadFrom(p []byte) (int, net.Addr, error)  { return 0, nil, net.ErrClosed }
func (*nullPacketConn) WriteTo(p []byte, a net.Addr) (int, error) { return len(p), nil }
func (*nullPacketConn) Close() error                              { return nil }
func (*nullPacketConn) LocalAddr() net.Addr {
	return &net.UDPAddr{IP: net.IPv4(10, 0, 0, 2), Port: 40000}
}
func (*nullPacketConn) SetDeadline(t time.Time) error      { return nil }
func (*nullPacketConn) SetReadDeadline(t time.Time) error  { return nil }
func (*nullPacketConn) SetWriteDeadline(t time.Time) error { return nil }
