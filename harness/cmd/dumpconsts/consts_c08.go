package main

import (
	"time"

	"github.com/enfein/mieru/v3/pkg/cipher"
)

func init() {
	z("KeyRefreshInterval_ns", int64(cipher.KeyRefreshInterval/time.Nanosecond))
	z("cacheValidInterval_ns", int64(cipher.VerifCacheValidInterval/time.Nanosecond))
	z("cacheValidMaxJitterMs", int64(cipher.VerifCacheValidMaxJitterMs))
	z("KeyIter", int64(cipher.KeyIter))
	z("DefaultNonceSize", int64(cipher.DefaultNonceSize))
	z("DefaultOverhead", int64(cipher.DefaultOverhead))
	z("DefaultKeyLen", int64(cipher.DefaultKeyLen))
	z("NoncePrefixLenForUserHint", int64(cipher.NoncePrefixLenForUserHint))
	z("NonceSuffixLenForUserHint", int64(cipher.NonceSuffixLenForUserHint))
}
