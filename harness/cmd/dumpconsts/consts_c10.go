package main

import (
	"github.com/enfein/mieru/v3/apis/constant"
	"github.com/enfein/mieru/v3/pkg/protocol"
	"github.com/enfein/mieru/v3/pkg/stderror"
)

// Constants of property C10 (dispatch of network input): protocol type numbers, the
// metadata bound checked by Unmarshal, the error type enumeration of pkg/stderror and the
// SOCKS5 address type numbers.
func init() {
	names := []string{"CloseConnRequest", "CloseConnResponse", "OpenSessionRequest", "OpenSessionResponse", "CloseSessionRequest",
		"CloseSessionResponse", "DataClientToServer", "DataServerToClient", "AckClientToServer", "AckServerToClient",
		"DataClientToServerLE", "DataServerToClientLE"}
	for i, v := range protocol.VerifC10ProtocolNumbers() {
		z("C10_Proto"+names[i], v)
	}
	z("C10_MaxSessionOpenPayload", int64(protocol.MaxSessionOpenPayload))
	z("C10_packetNonHeaderPosition", int64(protocol.VerifC10PacketNonHeaderPosition))
	z("C10_ErrNoError", int64(stderror.NO_ERROR))
	z("C10_ErrUnknown", int64(stderror.UNKNOWN_ERROR))
	z("C10_ErrProtocol", int64(stderror.PROTOCOL_ERROR))
	z("C10_ErrNetwork", int64(stderror.NETWORK_ERROR))
	z("C10_ErrCrypto", int64(stderror.CRYPTO_ERROR))
	z("C10_ErrReplay", int64(stderror.REPLAY_ERROR))
	z("C10_Socks5Version", int64(constant.Socks5Version))
	z("C10_Socks5IPv4Address", int64(constant.Socks5IPv4Address))
	z("C10_Socks5FQDNAddress", int64(constant.Socks5FQDNAddress))
	z("C10_Socks5IPv6Address", int64(constant.Socks5IPv6Address))
}
