package main

// Constants of property C16 (traffic pattern: validation bounds, generation ranges, padding and
// low-entropy constants).  Named Go constants are read through the verif export files.  Bounds
// that exist only as literals inside function bodies of apis/trafficpattern/config.go cannot be
// exported by an add-only hook; they are recovered *behaviourally* here (largest value Validate
// accepts; extreme values NewConfig generates over seeds 0..4095), so that a changed literal
// changes coq/gen/Consts.v and with it the side conditions of the C16 proofs.

import (
	"sort"
	"strings"

	"github.com/enfein/mieru/v3/apis/trafficpattern"
	"github.com/enfein/mieru/v3/pkg/appctl/appctlpb"
	"github.com/enfein/mieru/v3/pkg/common"
	"github.com/enfein/mieru/v3/pkg/protocol"
	"google.golang.org/protobuf/proto"
)

// c16MaxAccepted returns the largest v >= 0 such that every value in [0, v] passes Validate (-1 if 0 fails).
func c16MaxAccepted(mk func(v int32) *appctlpb.TrafficPattern) int64 {
	v := int32(0)
	for v <= 100000 && trafficpattern.Validate(mk(v)) == nil {
		v++
	}
	return int64(v) - 1
}

func c16ValidEnum(mk func(v int32) *appctlpb.TrafficPattern) []int64 {
	var out []int64
	for v := int32(-300); v <= 1000; v++ {
		if trafficpattern.Validate(mk(v)) == nil {
			out = append(out, int64(v))
		}
	}
	sort.Slice(out, func(i, j int) bool { return out[i] < out[j] })
	return out
}

// c16GenRange returns the extreme values of one effective field over seeds 0..4095.
func c16GenRange(unlock bool, get func(e *appctlpb.TrafficPattern) int64) (lo, hi int64) {
	first := true
	for seed := int32(0); seed < 4096; seed++ {
		c, err := trafficpattern.NewConfig(&appctlpb.TrafficPattern{Seed: proto.Int32(seed), UnlockAll: proto.Bool(unlock)})
		if err != nil {
			panic(err)
		}
		v := get(c.Effective())
		if first || v < lo {
			lo = v
		}
		if first || v > hi {
			hi = v
		}
		first = false
	}
	return
}

func init() {
	z("C16_maxPaddingLen", int64(trafficpattern.VerifC16MaxPaddingLen))
	z("C16_packetOverhead", int64(protocol.VerifC16PacketOverhead))
	z("C16_protoDataC2SLowEntropy", int64(protocol.VerifC16DataClientToServerLowEntropy))
	z("C16_protoDataS2CLowEntropy", int64(protocol.VerifC16DataServerToClientLowEntropy))
	z("C16_padHardMax", int64(protocol.VerifC16MaxPaddingSize(1500, common.StreamTransport, 0, 0)))

	z("C16_nonceTypeRandom", int64(appctlpb.NonceType_NONCE_TYPE_RANDOM))
	z("C16_nonceTypePrintable", int64(appctlpb.NonceType_NONCE_TYPE_PRINTABLE))
	z("C16_nonceTypePrintableSubset", int64(appctlpb.NonceType_NONCE_TYPE_PRINTABLE_SUBSET))
	z("C16_nonceTypeFixed", int64(appctlpb.NonceType_NONCE_TYPE_FIXED))
	z("C16_leModeOff", int64(appctlpb.LowEntropyMode_LOW_ENTROPY_MODE_OFF))
	z("C16_leRotNone", int64(appctlpb.LowEntropyMaskRotation_LOW_ENTROPY_MASK_NO_ROTATION))
	z("C16_leModeCount", int64(len(appctlpb.LowEntropyMode_name)))
	z("C16_leRotationCount", int64(len(appctlpb.LowEntropyMaskRotation_name)))

	// validation bounds (behavioural)
	z("C16_valMaxSleepMs", c16MaxAccepted(func(v int32) *appctlpb.TrafficPattern {
		return &appctlpb.TrafficPattern{TcpFragment: &appctlpb.TCPFragment{MaxSleepMs: proto.Int32(v)}}
	}))
	z("C16_valNonceMinLenMax", c16MaxAccepted(func(v int32) *appctlpb.TrafficPattern {
		return &appctlpb.TrafficPattern{Nonce: &appctlpb.NoncePattern{MinLen: proto.Int32(v)}}
	}))
	z("C16_valNonceMaxLenMax", c16MaxAccepted(func(v int32) *appctlpb.TrafficPattern {
		return &appctlpb.TrafficPattern{Nonce: &appctlpb.NoncePattern{MaxLen: proto.Int32(v)}}
	}))
	z("C16_valHexMaxBytes", c16MaxAccepted(func(v int32) *appctlpb.TrafficPattern {
		return &appctlpb.TrafficPattern{Nonce: &appctlpb.NoncePattern{CustomHexStrings: []string{strings.Repeat("ab", int(v%1000))}}}
	})%1000)
	z("C16_valPadMidMax", c16MaxAccepted(func(v int32) *appctlpb.TrafficPattern {
		return &appctlpb.TrafficPattern{Padding: &appctlpb.PaddingPattern{MaxMiddlePaddingLen: proto.Int32(v)}}
	}))
	z("C16_valPadEndMax", c16MaxAccepted(func(v int32) *appctlpb.TrafficPattern {
		return &appctlpb.TrafficPattern{Padding: &appctlpb.PaddingPattern{MaxEndPaddingLen: proto.Int32(v)}}
	}))
	zlist("C16_leModes", c16ValidEnum(func(v int32) *appctlpb.TrafficPattern {
		return &appctlpb.TrafficPattern{LowEntropy: &appctlpb.LowEntropyPattern{Mode: appctlpb.LowEntropyMode(v).Enum()}}
	}))
	zlist("C16_leRotations", c16ValidEnum(func(v int32) *appctlpb.TrafficPattern {
		return &appctlpb.TrafficPattern{LowEntropy: &appctlpb.LowEntropyPattern{MaskRotation: appctlpb.LowEntropyMaskRotation(v).Enum()}}
	}))

	// generation ranges (behavioural: extreme values over seeds 0..4095, nothing set explicitly)
	for _, u := range []bool{false, true} {
		sfx := "L"
		if u {
			sfx = "U"
		}
		lo, hi := c16GenRange(u, func(e *appctlpb.TrafficPattern) int64 { return int64(e.GetTcpFragment().GetMaxSleepMs()) })
		z("C16_genSleepLo"+sfx, lo)
		z("C16_genSleepHi"+sfx, hi)
		lo, hi = c16GenRange(u, func(e *appctlpb.TrafficPattern) int64 { return int64(e.GetNonce().GetType()) })
		z("C16_genTypeLo"+sfx, lo)
		z("C16_genTypeHi"+sfx, hi)
		lo, hi = c16GenRange(u, func(e *appctlpb.TrafficPattern) int64 { return int64(e.GetNonce().GetMinLen()) })
		z("C16_genMinLo"+sfx, lo)
		z("C16_genMinHi"+sfx, hi)
		_, hi = c16GenRange(u, func(e *appctlpb.TrafficPattern) int64 { return int64(e.GetNonce().GetMaxLen()) })
		z("C16_genMaxHi"+sfx, hi)
		lo, hi = c16GenRange(u, func(e *appctlpb.TrafficPattern) int64 { return int64(e.GetPadding().GetMaxMiddlePaddingLen()) })
		z("C16_genMidLo"+sfx, lo)
		z("C16_genMidHi"+sfx, hi)
		lo, hi = c16GenRange(u, func(e *appctlpb.TrafficPattern) int64 { return int64(e.GetPadding().GetMaxEndPaddingLen()) })
		z("C16_genEndLo"+sfx, lo)
		z("C16_genEndHi"+sfx, hi)
		lo, hi = c16GenRange(u, func(e *appctlpb.TrafficPattern) int64 { return int64(e.GetLowEntropy().GetMode()) })
		z("C16_genModeLo"+sfx, lo)
		z("C16_genModeHi"+sfx, hi)
	}
}
