package main

// Constants of property C16 (traffic pattern: validation bounds, generation ranges, padding and
// low-entropy constants).  Named Go constants are read through the verif export files.  Bounds
// that exist only as literals inside function bodies of apis/trafficpattern/config.go cannot be
// exported by an add-only hook; they are recovered *behaviourally* here (largest value Validate
// accepts; extreme values NewConfig generates over seeds 0..4095), so that a changed literal
// changes coq/gen/Consts.v and with it the side conditions of the C16 proofs.

import (
	"encoding/json"
	"fmt"
	"os"
	"os/exec"
	"sort"
	"strings"

	"github.com/enfein/mieru/v3/apis/trafficpattern"
	"github.com/enfein/mieru/v3/pkg/appctl/appctlpb"
	"github.com/enfein/mieru/v3/pkg/common"
	"github.com/enfein/mieru/v3/pkg/protocol"
	"google.golang.org/protobuf/proto"
)

// c16MaxAccepted returns the largest v >= 0 such that every value in [0, v] passes Validate (-1 if 0 fails).
func c16MaxAccepted(mk func(v int32) *appctlpb.TrafficPattern) int64 {
	v := int32(0)
	for v <= 100000 && trafficpattern.Validate(mk(v)) == nil {
		v++
	}
	return int64(v) - 1
}

func c16ValidEnum(mk func(v int32) *appctlpb.TrafficPattern) []int64 {
	var out []int64
	for v := int32(-300); v <= 1000; v++ {
		if trafficpattern.Validate(mk(v)) == nil {
			out = append(out, int64(v))
		}
	}
	sort.Slice(out, func(i, j int) bool { return out[i] < out[j] })
	return out
}

// c16GenRange returns the extreme values of one effective field over seeds 0..4095.
func c16GenRange(unlock bool, get func(e *appctlpb.TrafficPattern) int64) (lo, hi int64) {
	first := true
	for seed := int32(0); seed < 4096; seed++ {
		c, err := trafficpattern.NewConfig(&appctlpb.TrafficPattern{Seed: proto.Int32(seed), UnlockAll: proto.Bool(unlock)})
		if err != nil {
			panic(err)
		}
		v := get(c.Effective())
		if first || v < lo {
			lo = v
		}
		if first || v > hi {
			hi = v
		}
		first = false
	}
	return
}

// The generation ranges are measured in a FRESH child process per unlockAll value (this binary re-executed with
// "c16gen 0|1"): rng.FixedInt keeps a process-wide hint cache and config.go asks the same hint with different ranges
// depending on unlockAll, so measuring both in one process would let a history-dependent rng shift the constants
// (that defect is the business of the c16 driver's history-independence oracle, not of the constants).
type c16Range struct {
	Name   string
	Lo, Hi int64
}

func c16GenRanges(u bool) []c16Range {
	sfx := "L"
	if u {
		sfx = "U"
	}
	var out []c16Range
	add := func(name string, get func(e *appctlpb.TrafficPattern) int64) {
		lo, hi := c16GenRange(u, get)
		out = append(out, c16Range{name + sfx, lo, hi})
	}
	add("Sleep", func(e *appctlpb.TrafficPattern) int64 { return int64(e.GetTcpFragment().GetMaxSleepMs()) })
	add("Type", func(e *appctlpb.TrafficPattern) int64 { return int64(e.GetNonce().GetType()) })
	add("Min", func(e *appctlpb.TrafficPattern) int64 { return int64(e.GetNonce().GetMinLen()) })
	add("Max", func(e *appctlpb.TrafficPattern) int64 { return int64(e.GetNonce().GetMaxLen()) })
	add("Mid", func(e *appctlpb.TrafficPattern) int64 { return int64(e.GetPadding().GetMaxMiddlePaddingLen()) })
	add("End", func(e *appctlpb.TrafficPattern) int64 { return int64(e.GetPadding().GetMaxEndPaddingLen()) })
	add("Mode", func(e *appctlpb.TrafficPattern) int64 { return int64(e.GetLowEntropy().GetMode()) })
	return out
}

func c16GenRangesFresh(u bool) []c16Range {
	exe, err := os.Executable()
	if err != nil {
		panic(err)
	}
	arg := "0"
	if u {
		arg = "1"
	}
	out, err := exec.Command(exe, "c16gen", arg).Output()
	if err != nil {
		panic(fmt.Errorf("dumpconsts c16gen child failed: %v", err))
	}
	var rs []c16Range
	if err := json.Unmarshal(out, &rs); err != nil {
		panic(err)
	}
	return rs
}

func init() {
	if len(os.Args) == 3 && os.Args[1] == "c16gen" {
		b, _ := json.Marshal(c16GenRanges(os.Args[2] == "1"))
		os.Stdout.Write(b)
		os.Exit(0)
	}
	z("C16_maxPaddingLen", int64(trafficpattern.VerifC16MaxPaddingLen))
	z("C16_packetOverhead", int64(protocol.VerifC16PacketOverhead))
	z("C16_protoDataC2SLowEntropy", int64(protocol.VerifC16DataClientToServerLowEntropy))
	z("C16_protoDataS2CLowEntropy", int64(protocol.VerifC16DataServerToClientLowEntropy))
	z("C16_padHardMax", int64(protocol.VerifC16MaxPaddingSize(1500, common.StreamTransport, 0, 0)))

	z("C16_nonceTypeRandom", int64(appctlpb.NonceType_NONCE_TYPE_RANDOM))
	z("C16_nonceTypePrintable", int64(appctlpb.NonceType_NONCE_TYPE_PRINTABLE))
	z("C16_nonceTypePrintableSubset", int64(appctlpb.NonceType_NONCE_TYPE_PRINTABLE_SUBSET))
	z("C16_nonceTypeFixed", int64(appctlpb.NonceType_NONCE_TYPE_FIXED))
	z("C16_leModeOff", int64(appctlpb.LowEntropyMode_LOW_ENTROPY_MODE_OFF))
	z("C16_leRotNone", int64(appctlpb.LowEntropyMaskRotation_LOW_ENTROPY_MASK_NO_ROTATION))
	z("C16_leModeCount", int64(len(appctlpb.LowEntropyMode_name)))
	z("C16_leRotationCount", int64(len(appctlpb.LowEntropyMaskRotation_name)))

	// validation bounds (behavioural)
	z("C16_valMaxSleepMs", c16MaxAccepted(func(v int32) *appctlpb.TrafficPattern {
		return &appctlpb.TrafficPattern{TcpFragment: &appctlpb.TCPFragment{MaxSleepMs: proto.Int32(v)}}
	}))
	z("C16_valNonceMinLenMax", c16MaxAccepted(func(v int32) *appctlpb.TrafficPattern {
		return &appctlpb.TrafficPattern{Nonce: &appctlpb.NoncePattern{MinLen: proto.Int32(v)}}
	}))
	z("C16_valNonceMaxLenMax", c16MaxAccepted(func(v int32) *appctlpb.TrafficPattern {
		return &appctlpb.TrafficPattern{Nonce: &appctlpb.NoncePattern{MaxLen: proto.Int32(v)}}
	}))
	z("C16_valHexMaxBytes", c16MaxAccepted(func(v int32) *appctlpb.TrafficPattern {
		return &appctlpb.TrafficPattern{Nonce: &appctlpb.NoncePattern{CustomHexStrings: []string{strings.Repeat("ab", int(v%1000))}}}
	})%1000)
	z("C16_valPadMidMax", c16MaxAccepted(func(v int32) *appctlpb.TrafficPattern {
		return &appctlpb.TrafficPattern{Padding: &appctlpb.PaddingPattern{MaxMiddlePaddingLen: proto.Int32(v)}}
	}))
	z("C16_valPadEndMax", c16MaxAccepted(func(v int32) *appctlpb.TrafficPattern {
		return &appctlpb.TrafficPattern{Padding: &appctlpb.PaddingPattern{MaxEndPaddingLen: proto.Int32(v)}}
	}))
	zlist("C16_leModes", c16ValidEnum(func(v int32) *appctlpb.TrafficPattern {
		return &appctlpb.TrafficPattern{LowEntropy: &appctlpb.LowEntropyPattern{Mode: appctlpb.LowEntropyMode(v).Enum()}}
	}))
	zlist("C16_leRotations", c16ValidEnum(func(v int32) *appctlpb.TrafficPattern {
		return &appctlpb.TrafficPattern{LowEntropy: &appctlpb.LowEntropyPattern{MaskRotation: appctlpb.LowEntropyMaskRotation(v).Enum()}}
	}))

	// generation ranges (behavioural: extreme values over seeds 0..4095, nothing set explicitly)
	for _, u := range []bool{false, true} {
		for _, rg := range c16GenRangesFresh(u) {
			if !strings.HasPrefix(rg.Name, "Max") {
				z("C16_gen"+strings.TrimRight(rg.Name, "LU")+"Lo"+rg.Name[len(rg.Name)-1:], rg.Lo)
			}
			z("C16_gen"+strings.TrimRight(rg.Name, "LU")+"Hi"+rg.Name[len(rg.Name)-1:], rg.Hi)
		}
	}
}
