package main

// Constants of properties C02 / C13 (reliable ordered UDP transport: windows, retransmission limits, segment sizes,
// protocol type numbers). They come through pkg/protocol/zz_verif_export_c02.go.

import "github.com/enfein/mieru/v3/pkg/protocol"

func init() {
	z("C02_segmentTreeCapacity", int64(protocol.VerifC02SegmentTreeCapacity))
	z("C02_minWindowSize", int64(protocol.VerifC02MinWindowSize))
	z("C02_maxWindowSize", int64(protocol.VerifC02MaxWindowSize))
	z("C02_txCountLimit", int64(protocol.VerifC02TxCountLimit))
	z("C02_earlyRetransmission", int64(protocol.VerifC02EarlyRetransmission))
	z("C02_earlyRetransmissionLimit", int64(protocol.VerifC02EarlyRetransmissionLimit))
	z("C02_maxPDU", int64(protocol.VerifC02MaxPDU))
	z("C02_packetOverhead", int64(protocol.VerifC02PacketOverhead))
	z("C02_MaxSessionOpenPayload", int64(protocol.VerifC02MaxSessionOpenPayload))

	z("C02_ProtoOpenSessionRequest", int64(protocol.VerifC02OpenSessionRequest))
	z("C02_ProtoOpenSessionResponse", int64(protocol.VerifC02OpenSessionResponse))
	z("C02_ProtoCloseSessionRequest", int64(protocol.VerifC02CloseSessionRequest))
	z("C02_ProtoCloseSessionResponse", int64(protocol.VerifC02CloseSessionResponse))
	z("C02_ProtoDataClientToServer", int64(protocol.VerifC02DataClientToServer))
	z("C02_ProtoDataServerToClient", int64(protocol.VerifC02DataServerToClient))
	z("C02_ProtoAckClientToServer", int64(protocol.VerifC02AckClientToServer))
	z("C02_ProtoAckServerToClient", int64(protocol.VerifC02AckServerToClient))
	z("C02_ProtoDataClientToServerLE", int64(protocol.VerifC02DataClientToServerLowEntropy))
	z("C02_ProtoDataServerToClientLE", int64(protocol.VerifC02DataServerToClientLowEntropy))

	// behavioural probe: the receive buffer of PacketUnderlay.readOneSegment for underlays configured with different LOCAL MTUs
	// (client and server): the largest datagram that is received untruncated. A peer may use any legal MTU.
	z("C02_readBufLen_client_mtu1280", int64(protocol.VerifC02ReadBufferLen(1280, true)))
	z("C02_readBufLen_client_mtu1400", int64(protocol.VerifC02ReadBufferLen(1400, true)))
	z("C02_readBufLen_client_mtu1500", int64(protocol.VerifC02ReadBufferLen(1500, true)))
	z("C02_readBufLen_server_mtu1280", int64(protocol.VerifC02ReadBufferLen(1280, false)))
	z("C02_readBufLen_server_mtu1400", int64(protocol.VerifC02ReadBufferLen(1400, false)))
	z("C02_readBufLen_server_mtu1500", int64(protocol.VerifC02ReadBufferLen(1500, false)))
}
