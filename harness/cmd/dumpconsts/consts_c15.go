package main

// Constants of property C15 (close / deadlines / life cycle).  Named constants come through
// pkg/protocol/zz_verif_export_c15.go.  The graceful-close poll (`for i := 0; i < 1000; i++ { time.Sleep(time.Millisecond)`
// in Session.closeWithError) exists only as literals inside the function body; it is recovered from the source text
// of /repo/pkg/protocol/session.go (-1 if the loop no longer has that shape, which breaks C15_consts_ok).

import (
	"os"
	"regexp"
	"strconv"

	"github.com/enfein/mieru/v3/pkg/protocol"
)

func c15CloseWait() (iters int64, sleepNs int64) {
	repo := os.Getenv("VERIF_REPO")
	if repo == "" {
		repo = "/repo"
	}
	src, err := os.ReadFile(repo + "/pkg/protocol/session.go")
	if err != nil {
		return -1, -1
	}
	re := regexp.MustCompile(`for i := 0; i < (\d+); i\+\+ \{\s*time\.Sleep\(time\.(Millisecond|Microsecond|Second)\)\s*if s\.lastSend\.Load\(\) >= closeRequestSeq`)
	m := re.FindSubmatch(src)
	if m == nil {
		return -1, -1
	}
	n, err := strconv.ParseInt(string(m[1]), 10, 64)
	if err != nil {
		return -1, -1
	}
	unit := map[string]int64{"Millisecond": 1000000, "Microsecond": 1000, "Second": 1000000000}[string(m[2])]
	return n, unit
}

func init() {
	z("C15_serverRespTimeout_ns", protocol.VerifC15ServerRespTimeoutNs)
	z("C15_heartbeatInterval_ns", protocol.VerifC15SessionHeartbeatIntervalNs)
	z("C15_heartbeatJitter_ms", protocol.VerifC15SessionHeartbeatJitterMs)
	z("C15_periodicOutputInterval_ns", protocol.VerifC15PeriodicOutputIntervalNs)
	z("C15_backPressureDelay_ns", protocol.VerifC15BackPressureDelayNs)
	z("C15_maxBackOffDuration_ns", protocol.VerifC15MaxBackOffDurationNs)
	z("C15_segmentChanCapacity", protocol.VerifC15SegmentChanCapacity)
	z("C15_segmentTreeCapacity", protocol.VerifC15SegmentTreeCapacity)
	z("C15_sessionChanCapacity", protocol.VerifC15SessionChanCapacity)
	z("C15_sessionCleanInterval_ns", protocol.VerifC15SessionCleanIntervalNs)
	z("C15_underlayCleanInterval_ns", protocol.VerifC15UnderlayCleanIntervalNs)
	z("C15_idleSessionTimeout_ns", protocol.VerifC15IdleSessionTimeoutNs)
	z("C15_txCountLimit", protocol.VerifC15TxCountLimit)
	z("C15_maxPDU", protocol.VerifC15MaxPDU)
	z("C15_readOneSegmentTimeout_ns", protocol.VerifC15ReadOneSegmentTimeoutNs())
	it, sl := c15CloseWait()
	z("C15_closeWaitIterations", it)
	z("C15_closeWaitSleep_ns", sl)
}
