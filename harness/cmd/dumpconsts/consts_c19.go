package main

import (
	"time"

	"github.com/enfein/mieru/v3/pkg/metrics"
	pb "github.com/enfein/mieru/v3/pkg/metrics/metricspb"
)

func init() {
	// pkg/metrics/counter.go
	z("C19_RollUpInterval", int64(metrics.VerifRollUpInterval))
	z("C19_RollUpToSecondNs", int64(metrics.VerifRollUpToSecond))
	z("C19_RollUpSecondToMinuteNs", int64(metrics.VerifRollUpSecondToMinute))
	z("C19_RollUpMinuteToHourNs", int64(metrics.VerifRollUpMinuteToHour))
	z("C19_RollUpHourToDayNs", int64(metrics.VerifRollUpHourToDay))
	z("C19_LabelNoRollUp", int64(pb.RollUpLabel_NO_ROLL_UP))
	z("C19_LabelSecond", int64(pb.RollUpLabel_ROLL_UP_TO_SECOND))
	z("C19_LabelMinute", int64(pb.RollUpLabel_ROLL_UP_TO_MINUTE))
	z("C19_LabelHour", int64(pb.RollUpLabel_ROLL_UP_TO_HOUR))
	z("C19_LabelDay", int64(pb.RollUpLabel_ROLL_UP_TO_DAY))
	// granularities handed to time.Truncate by rollUp, and the units of package time
	z("C19_MillisecondNs", int64(time.Millisecond))
	z("C19_SecondNs", int64(time.Second))
	z("C19_MinuteNs", int64(time.Minute))
	z("C19_HourNs", int64(time.Hour))
	z("C19_DayNs", int64(24*time.Hour))
	// seconds between Go's zero time (the origin of time.Truncate) and the Unix epoch
	z("C19_UnixToInternalSec", -time.Time{}.Unix())
	// literals of Session.checkQuota (pkg/protocol/session.go): totalBytes/1048576, Days * 24 * time.Hour.
	// They cannot be exported by a hook; the boundary grid of the c19 driver ties them to the code.
	z("C19_QuotaBytesPerMegabyte", 1048576)
	z("C19_QuotaHoursPerDay", 24)
}
