package main

import (
	"time"

	"github.com/enfein/mieru/v3/pkg/appctl/appctlcommon"
	"github.com/enfein/mieru/v3/pkg/appctl/appctlpb"
	"github.com/enfein/mieru/v3/pkg/metrics"
	pb "github.com/enfein/mieru/v3/pkg/metrics/metricspb"
)

func init() {
	// pkg/metrics/counter.go
	z("C19_RollUpInterval", int64(metrics.VerifRollUpInterval))
	z("C19_RollUpToSecondNs", int64(metrics.VerifRollUpToSecond))
	z("C19_RollUpSecondToMinuteNs", int64(metrics.VerifRollUpSecondToMinute))
	z("C19_RollUpMinuteToHourNs", int64(metrics.VerifRollUpMinuteToHour))
	z("C19_RollUpHourToDayNs", int64(metrics.VerifRollUpHourToDay))
	z("C19_LabelNoRollUp", int64(pb.RollUpLabel_NO_ROLL_UP))
	z("C19_LabelSecond", int64(pb.RollUpLabel_ROLL_UP_TO_SECOND))
	z("C19_LabelMinute", int64(pb.RollUpLabel_ROLL_UP_TO_MINUTE))
	z("C19_LabelHour", int64(pb.RollUpLabel_ROLL_UP_TO_HOUR))
	z("C19_LabelDay", int64(pb.RollUpLabel_ROLL_UP_TO_DAY))
	// granularities handed to time.Truncate by rollUp, and the units of package time
	z("C19_MillisecondNs", int64(time.Millisecond))
	z("C19_SecondNs", int64(time.Second))
	z("C19_MinuteNs", int64(time.Minute))
	z("C19_HourNs", int64(time.Hour))
	z("C19_DayNs", int64(24*time.Hour))
	// seconds between Go's zero time (the origin of time.Truncate) and the Unix epoch
	z("C19_UnixToInternalSec", -time.Time{}.Unix())
	// literals of Session.checkQuota (pkg/protocol/session.go): totalBytes/1048576, Days * 24 * time.Hour.
	// They cannot be exported by a hook; the boundary grid of the c19 driver ties them to the code.
	z("C19_QuotaBytesPerMegabyte", 1048576)
	z("C19_QuotaHoursPerDay", 24)
	// appctlcommon.ValidateServerConfigSingleUser: the largest number of quota days the real validator accepts
	// (maxQuotaDays is unexported; found by binary search over int32, so a weakened validator shows up here)
	z("C19_MaxQuotaDays", largestAcceptedQuotaDays())
}

func quotaAccepted(days, mb int32) bool {
	u := &appctlpb.User{Name: sp("u"), Password: sp("p"), Quotas: []*appctlpb.Quota{{Days: &days, Megabytes: &mb}}}
	return appctlcommon.ValidateServerConfigSingleUser(u) == nil
}

func sp(s string) *string { return &s }

// largestAcceptedQuotaDays returns the largest d in [1, 2^31-1] with validator(d) = ok, assuming acceptance is
// downward closed above 1 (checked at the ends); 0 when not even one day is accepted.
func largestAcceptedQuotaDays() int64 {
	if !quotaAccepted(1, 1) {
		return 0
	}
	lo, hi := int64(1), int64(1)<<31-1 // lo accepted
	if quotaAccepted(int32(hi), 1) {
		return hi
	}
	for lo+1 < hi { // hi rejected
		m := (lo + hi) / 2
		if quotaAccepted(int32(m), 1) {
			lo = m
		} else {
			hi = m
		}
	}
	return lo
}
