package main

// Constants of property C01 (TCP transport integrity): framing lengths, protocol type numbers,
// chunk / fragment sizes, low entropy source bytes per mode.

import (
	"github.com/enfein/mieru/v3/pkg/cipher"
	"github.com/enfein/mieru/v3/pkg/protocol"
)

func init() {
	z("C01_MetadataLength", int64(protocol.MetadataLength))
	z("C01_MaxSessionOpenPayload", int64(protocol.MaxSessionOpenPayload))
	z("C01_TagOverhead", int64(cipher.DefaultOverhead))
	z("C01_NonceSize", int64(cipher.DefaultNonceSize))
	z("C01_maxPDU", int64(protocol.VerifC01MaxPDU))
	z("C01_lowEntropyChunkLen", int64(protocol.VerifC01LowEntropyChunkLen))
	z("C01_MaxUint16", int64(protocol.VerifC01MaxUint16))
	z("C01_segmentTreeCapacity", int64(protocol.VerifC01SegmentTreeCapacity))
	z("C01_ProtoOpenSessionRequest", int64(protocol.VerifC01OpenSessionRequest))
	z("C01_ProtoOpenSessionResponse", int64(protocol.VerifC01OpenSessionResponse))
	z("C01_ProtoCloseSessionRequest", int64(protocol.VerifC01CloseSessionRequest))
	z("C01_ProtoCloseSessionResponse", int64(protocol.VerifC01CloseSessionResponse))
	z("C01_ProtoDataClientToServer", int64(protocol.VerifC01DataClientToServer))
	z("C01_ProtoDataServerToClient", int64(protocol.VerifC01DataServerToClient))
	z("C01_ProtoAckClientToServer", int64(protocol.VerifC01AckClientToServer))
	z("C01_ProtoAckServerToClient", int64(protocol.VerifC01AckServerToClient))
	z("C01_ProtoDataClientToServerLE", int64(protocol.VerifC01DataClientToServerLE))
	z("C01_ProtoDataServerToClientLE", int64(protocol.VerifC01DataServerToClientLE))
	// sourceBytesPerChunk of low entropy modes 0..7 (0 = invalid / off)
	var src []int64
	for m := int32(0); m < 8; m++ {
		src = append(src, int64(protocol.VerifC01LESourceBytes(m)))
	}
	zlist("C01_leSourceBytes", src)
}
