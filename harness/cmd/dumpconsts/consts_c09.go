package main

import (
	"time"

	"github.com/enfein/mieru/v3/pkg/appctl/appctlpb"
	"github.com/enfein/mieru/v3/pkg/cipher"
	"github.com/enfein/mieru/v3/pkg/protocol"
)

// Constants of property C09 (wire format): everything docs/protocol.md fixes as a number.
func init() {
	z("C09_MetadataLength", int64(protocol.MetadataLength))
	z("C09_MaxSessionOpenPayload", int64(protocol.MaxSessionOpenPayload))
	z("C09_maxPDU", int64(protocol.VerifC09MaxPDU))
	z("C09_lowEntropyChunkLen", int64(protocol.VerifC09LowEntropyChunkLen))
	z("C09_streamOverhead", int64(protocol.VerifC09StreamOverhead))
	z("C09_packetOverhead", int64(protocol.VerifC09PacketOverhead))
	z("C09_packetNonHeaderPosition", int64(protocol.VerifC09PacketNonHeaderPosition))
	z("C09_NonceSize", int64(cipher.DefaultNonceSize))
	z("C09_TagOverhead", int64(cipher.DefaultOverhead))
	z("C09_KeyLen", int64(cipher.DefaultKeyLen))
	z("C09_KeyIter", int64(cipher.KeyIter))
	z("C09_KeyRefreshInterval_s", int64(cipher.KeyRefreshInterval/time.Second))
	z("C09_HintInputLen", int64(cipher.NoncePrefixLenForUserHint))
	z("C09_HintLen", int64(cipher.NonceSuffixLenForUserHint))
	names := []string{"CloseConnRequest", "CloseConnResponse", "OpenSessionRequest", "OpenSessionResponse", "CloseSessionRequest",
		"CloseSessionResponse", "DataClientToServer", "DataServerToClient", "AckClientToServer", "AckServerToClient",
		"DataClientToServerLE", "DataServerToClientLE"}
	for i, v := range protocol.VerifC09ProtocolNumbers() {
		z("C09_Proto"+names[i], v)
	}
	// low entropy mode table: for every mode number 0..7 the source bytes per chunk and the
	// number of one bits of the half mask (0 0 for a mode the code rejects)
	var src, ones []int64
	for m := int32(0); m < 8; m++ {
		s, o := protocol.VerifC09LEParams(m)
		src = append(src, int64(s))
		ones = append(ones, int64(o))
	}
	zlist("C09_modeSourceBytes", src)
	zlist("C09_modeHalfMaskOnes", ones)
	z("C09_RotNone", int64(appctlpb.LowEntropyMaskRotation_LOW_ENTROPY_MASK_NO_ROTATION))
	z("C09_RotRight1", int64(appctlpb.LowEntropyMaskRotation_LOW_ENTROPY_MASK_ROTATE_RIGHT_1))
	z("C09_RotRight15", int64(appctlpb.LowEntropyMaskRotation_LOW_ENTROPY_MASK_ROTATE_RIGHT_15))
	z("C09_RotLeft1", int64(appctlpb.LowEntropyMaskRotation_LOW_ENTROPY_MASK_ROTATE_LEFT_1))
	z("C09_RotLeft15", int64(appctlpb.LowEntropyMaskRotation_LOW_ENTROPY_MASK_ROTATE_LEFT_15))
}
