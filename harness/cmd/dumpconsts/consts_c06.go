package main

import (
	"github.com/enfein/mieru/v3/pkg/protocol"
)

// C06: capacity and expire interval of the two process-wide replay caches as constructed
// at package initialisation of pkg/protocol (KeyRefreshInterval_ns and DefaultOverhead, the
// number of leading bytes used as the signature input, are registered by consts_c08.go).
func init() {
	z("streamReplayCapacity", int64(protocol.VerifStreamReplayCache().VerifCapacity()))
	z("streamReplayInterval_ns", protocol.VerifStreamReplayCache().VerifExpireIntervalNanos())
	z("packetReplayCapacity", int64(protocol.VerifPacketReplayCache().VerifCapacity()))
	z("packetReplayInterval_ns", protocol.VerifPacketReplayCache().VerifExpireIntervalNanos())
}
