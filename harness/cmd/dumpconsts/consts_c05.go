package main

import (
	"crypto/sha256"
	"github.com/enfein/mieru/v3/pkg/cipher"
	"github.com/enfein/mieru/v3/pkg/protocol"
)

// C05 (server front door): header layout and protocol numbers used by coq/model/ServerFront.v.
// The replay-cache parameters (streamReplayCapacity, packetReplayInterval_ns, ...) are registered
// by consts_c06.go, KeyRefreshInterval_ns / DefaultOverhead by consts_c08.go.
func init() {
	// length of a registered credential (serveruser.buildCredential: [sha256.Size]byte)
	z("C05_CredentialLen", int64(sha256.Size))
	z("C05_packetNonHeaderPosition", int64(protocol.VerifC05PacketNonHeaderPosition))
	z("C05_packetOverhead", int64(protocol.VerifC05PacketOverhead))
	z("C05_streamOverhead", int64(protocol.VerifC05StreamOverhead))
	z("C05_MetadataLength", int64(protocol.MetadataLength))
	z("C05_MaxSessionOpenPayload", int64(protocol.MaxSessionOpenPayload))
	z("C05_NonceSize", int64(cipher.DefaultNonceSize))
	z("C05_TagOverhead", int64(cipher.DefaultOverhead))
	z("C05_ReadOneSegmentTimeout_ns", protocol.VerifC05ReadOneSegmentTimeoutNanos())
	z("C05_ProtoOpenSessionRequest", int64(protocol.VerifC05OpenSessionRequest))
	z("C05_ProtoOpenSessionResponse", int64(protocol.VerifC05OpenSessionResponse))
	z("C05_ProtoCloseSessionRequest", int64(protocol.VerifC05CloseSessionRequest))
	z("C05_ProtoCloseSessionResponse", int64(protocol.VerifC05CloseSessionResponse))
	z("C05_ProtoDataClientToServer", int64(protocol.VerifC05DataClientToServer))
	z("C05_ProtoDataServerToClient", int64(protocol.VerifC05DataServerToClient))
	z("C05_ProtoAckClientToServer", int64(protocol.VerifC05AckClientToServer))
	z("C05_ProtoAckServerToClient", int64(protocol.VerifC05AckServerToClient))
	z("C05_ProtoDataClientToServerLE", int64(protocol.VerifC05DataClientToServerLowEntropy))
	z("C05_ProtoDataServerToClientLE", int64(protocol.VerifC05DataServerToClientLowEntropy))
}
