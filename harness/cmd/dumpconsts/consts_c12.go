package main

import (
	"context"

	"github.com/enfein/mieru/v3/apis/constant"
	"github.com/enfein/mieru/v3/pkg/appctl/appctlpb"
	"github.com/enfein/mieru/v3/pkg/egress"
	"github.com/enfein/mieru/v3/pkg/socks5"
)

// c12Flat renders a list of names as bytes, each name terminated by a 0 byte.
func c12Flat(names []string) []int64 {
	var out []int64
	for _, n := range names {
		for _, c := range []byte(n) {
			out = append(out, int64(c))
		}
		out = append(out, 0)
	}
	return out
}

// c12ProbeDomainLiteral reports whether the tree contains fixes/C12-domain-literal.diff: a CONNECT of the
// unknown user to the domain-typed literal "127.0.0.1" and to "localhost." is refused.
func c12ProbeDomainLiteral() int64 {
	s, err := socks5.New(&socks5.Config{})
	if err != nil {
		panic(err)
	}
	refused := func(host string) bool {
		data := append([]byte{constant.Socks5Version, constant.Socks5ConnectCmd, 0, constant.Socks5FQDNAddress, byte(len(host))}, host...)
		data = append(data, 0, 80)
		in := egress.Input{Protocol: appctlpb.ProxyProtocol_SOCKS5_PROXY_PROTOCOL, Data: data}
		return s.FindAction(context.Background(), in).Action == appctlpb.EgressAction_REJECT
	}
	if refused("127.0.0.1") && refused("localhost.") {
		return 1
	}
	return 0
}

func init() {
	z("C12_fixDomainLiteral", c12ProbeDomainLiteral())
	z("C12_Socks5Version", int64(constant.Socks5Version))
	z("C12_ConnectCmd", int64(constant.Socks5ConnectCmd))
	z("C12_UDPAssociateCmd", int64(constant.Socks5UDPAssociateCmd))
	z("C12_IPv4Address", int64(constant.Socks5IPv4Address))
	z("C12_FQDNAddress", int64(constant.Socks5FQDNAddress))
	z("C12_IPv6Address", int64(constant.Socks5IPv6Address))
	z("C12_ReplyNotAllowedByRuleSet", int64(constant.Socks5ReplyNotAllowedByRuleSet))
	z("C12_ActionPROXY", int64(appctlpb.EgressAction_PROXY))
	z("C12_ActionDIRECT", int64(appctlpb.EgressAction_DIRECT))
	z("C12_ActionREJECT", int64(appctlpb.EgressAction_REJECT))
	zlist("C12_wellKnownIPv4LocalDomainNames", c12Flat(socks5.VerifC12WellKnownIPv4LocalDomainNames()))
	zlist("C12_wellKnownIPv6LocalDomainNames", c12Flat(socks5.VerifC12WellKnownIPv6LocalDomainNames()))
}
