package main

import (
	"strings"

	"github.com/enfein/mieru/v3/apis/constant"
	"github.com/enfein/mieru/v3/pkg/appctl"
	"github.com/enfein/mieru/v3/pkg/appctl/appctlcommon"
	pb "github.com/enfein/mieru/v3/pkg/appctl/appctlpb"
	"google.golang.org/protobuf/proto"
)

// Bounds that are literals in the Go source (no named constant to export) are recovered from the
// behaviour of the validators: the largest / smallest accepted value in a probed interval.
func c20Largest(lo, hi int64, ok func(int64) bool) int64 {
	best := lo - 1
	for v := lo; v <= hi; v++ {
		if ok(v) {
			best = v
		}
	}
	return best
}

func c20Smallest(lo, hi int64, ok func(int64) bool) int64 {
	for v := lo; v <= hi; v++ {
		if ok(v) {
			return v
		}
	}
	return hi + 1
}

func init() {
	z("C20_MaxUserNameLen", int64(constant.MaxUserNameLen))
	z("C20_TransportUnknown", int64(pb.TransportProtocol_UNKNOWN_TRANSPORT_PROTOCOL))
	z("C20_TransportUDP", int64(pb.TransportProtocol_UDP))
	z("C20_TransportTCP", int64(pb.TransportProtocol_TCP))
	z("C20_Socks5ProxyProtocol", int64(pb.ProxyProtocol_SOCKS5_PROXY_PROTOCOL))
	z("C20_UnknownProxyProtocol", int64(pb.ProxyProtocol_UNKNOWN_PROXY_PROTOCOL))
	z("C20_EgressActionProxy", int64(pb.EgressAction_PROXY))
	z("C20_MaxQuotaDays", int64(appctlcommon.VerifMaxQuotaDays))
	userOK := func(u *pb.User) bool { return appctlcommon.ValidateServerConfigSingleUser(u) == nil }
	z("C20_MaxPasswordLen", c20Largest(1, 300, func(n int64) bool {
		return userOK(&pb.User{Name: proto.String("u"), Password: proto.String(strings.Repeat("p", int(n)))})
	}))
	mtuOK := func(v int64) bool {
		return appctl.ValidateServerConfigPatch(&pb.ServerConfig{Mtu: proto.Int32(int32(v))}) == nil
	}
	z("C20_MtuMin", c20Smallest(1, 3000, mtuOK))
	z("C20_MtuMax", c20Largest(1, 3000, mtuOK))
	portOK := func(v int64) bool {
		_, err := appctlcommon.FlatPortBindings([]*pb.PortBinding{{Port: proto.Int32(int32(v)), Protocol: pb.TransportProtocol_TCP.Enum()}})
		return err == nil
	}
	z("C20_PortMin", c20Smallest(-5, 70000, func(v int64) bool { return v != 0 && portOK(v) }))
	z("C20_PortMax", c20Largest(1, 70000, portOK))
	z("C20_MinMetricsIntervalNs", c20Smallest(1, 3000, func(ms int64) bool {
		d := (timeMs(ms))
		return appctl.ValidateServerConfigPatch(&pb.ServerConfig{AdvancedSettings: &pb.ServerAdvancedSettings{MetricsLoggingInterval: proto.String(d)}}) == nil
	})*1000000)
}

func timeMs(ms int64) string { return itoa(ms) + "ms" }

func itoa(v int64) string {
	if v == 0 {
		return "0"
	}
	s := ""
	for v > 0 {
		s = string(rune('0'+v%10)) + s
		v /= 10
	}
	return s
}
