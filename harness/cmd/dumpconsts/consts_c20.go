package main

import (
	"github.com/enfein/mieru/v3/apis/constant"
	pb "github.com/enfein/mieru/v3/pkg/appctl/appctlpb"
)

func init() {
	z("C20_MaxUserNameLen", int64(constant.MaxUserNameLen))
	z("C20_TransportUnknown", int64(pb.TransportProtocol_UNKNOWN_TRANSPORT_PROTOCOL))
	z("C20_TransportUDP", int64(pb.TransportProtocol_UDP))
	z("C20_TransportTCP", int64(pb.TransportProtocol_TCP))
}
