package main

import (
	"bytes"
	"errors"
	"net"
	"strings"
	"time"

	apicommon "github.com/enfein/mieru/v3/apis/common"
	"github.com/enfein/mieru/v3/apis/constant"
	"github.com/enfein/mieru/v3/pkg/socks5"
	"github.com/enfein/mieru/v3/pkg/stderror"
)

// The frame markers, the length-field width and the maximum length are literals inside
// PacketOverStreamTunnel.Read/Write, and the "<= 6" test is a literal inside
// parseSocks5UDPDatagram; they cannot be exported, so they are *measured* on the compiled code.

type c18BufConn struct{ bytes.Buffer }

func (c *c18BufConn) Close() error                       { return nil }
func (c *c18BufConn) LocalAddr() net.Addr                { return &net.TCPAddr{} }
func (c *c18BufConn) RemoteAddr() net.Addr               { return &net.TCPAddr{} }
func (c *c18BufConn) SetDeadline(t time.Time) error      { return nil }
func (c *c18BufConn) SetReadDeadline(t time.Time) error  { return nil }
func (c *c18BufConn) SetWriteDeadline(t time.Time) error { return nil }

func init() {
	z("C18_Socks5IPv4Address", int64(constant.Socks5IPv4Address))
	z("C18_Socks5FQDNAddress", int64(constant.Socks5FQDNAddress))
	z("C18_Socks5IPv6Address", int64(constant.Socks5IPv6Address))

	// frame of the 1-byte datagram 0x5a: start marker, bytes before the data, end marker
	c := &c18BufConn{}
	t := apicommon.NewPacketOverStreamTunnel(c)
	if _, err := t.Write([]byte{0x5a}); err != nil {
		panic(err)
	}
	w := c.Bytes()
	pos := bytes.IndexByte(w, 0x5a)
	z("C18_FrameStartMarker", int64(w[0]))
	z("C18_FrameEndMarker", int64(w[len(w)-1]))
	z("C18_FrameLenBytes", int64(pos-1))
	z("C18_FrameOverhead", int64(len(w)-1))
	// largest datagram Write accepts (binary search between 0 and 2^20)
	lo, hi := 0, 1<<20
	for lo < hi {
		mid := (lo + hi + 1) / 2
		c.Reset()
		if _, err := t.Write(make([]byte, mid)); err == nil {
			lo = mid
		} else {
			hi = mid - 1
		}
	}
	z("C18_FrameMaxLen", int64(lo))

	// largest packet length that parseSocks5UDPDatagram refuses as "too short" before looking at it
	short := -1
	for n := 0; n < 64; n++ {
		pkt := make([]byte, n)
		if n > 3 {
			pkt[3] = 0x63 // no such address type
		}
		err := c18Parse(pkt)
		if errors.Is(err, stderror.ErrNoEnoughData) {
			short = n
		} else {
			break
		}
	}
	z("C18_Socks5UdpShortLimit", int64(short))

	// the same literal inside UDPAssociateWrapper.ReadFrom
	wshort := -1
	for n := 0; n < 64; n++ {
		pkt := make([]byte, n)
		if n > 3 {
			pkt[3] = 0x63
		}
		w := apicommon.NewUDPAssociateWrapper(&c18OnePacket{pkt: pkt})
		_, _, err := w.ReadFrom(make([]byte, 128))
		if err != nil && strings.Contains(err.Error(), "too short") {
			wshort = n
		} else {
			break
		}
	}
	z("C18_WrapperShortLimit", int64(wshort))
	// extra room the wrapper adds to the caller's buffer for the header
	probe := &c18OnePacket{}
	apicommon.NewUDPAssociateWrapper(probe).ReadFrom(make([]byte, 100))
	z("C18_WrapperHeaderRoom", int64(probe.asked-100))
}

// c18Parse: a panic of the parser counts as "not refused as too short" (the constant then differs and the
// obligations that unfold it fail; the driver reports the panicking input).
func c18Parse(pkt []byte) (err error) {
	defer func() {
		if x := recover(); x != nil {
			err = errors.New("panic")
		}
	}()
	_, _, _, err = socks5.VerifC18ParseSocks5UDPDatagram(pkt)
	return err
}

type c18OnePacket struct {
	net.PacketConn
	pkt   []byte
	asked int
}

func (c *c18OnePacket) ReadFrom(p []byte) (int, net.Addr, error) {
	c.asked = len(p)
	return copy(p, c.pkt), &net.UDPAddr{}, nil
}
