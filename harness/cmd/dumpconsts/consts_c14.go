package main

// Constants of property C14 (sizes: fragment size, padding budget, low-entropy expansion, datagram layout).
// Named Go constants come through pkg/protocol/zz_verif_export_c14.go.  Three kinds of numbers exist only as
// literals inside function bodies and are recovered *behaviourally* (so that a changed literal changes
// coq/gen/Consts.v and with it the side conditions of the C14 proofs):
//   - the validated MTU range (smallest / largest non-zero MTU the server-config and the client-profile
//     validators accept, scanned over 1..4000, plus a contiguity flag),
//   - the padding caps of maxPaddingSize (value on a stream; value on a packet transport with unlimited room),
//   - sourceBytesPerChunk of every low-entropy mode (buildLowEntropyParams).

import (
	"math"

	"github.com/enfein/mieru/v3/apis/trafficpattern"
	"github.com/enfein/mieru/v3/pkg/appctl"
	"github.com/enfein/mieru/v3/pkg/appctl/appctlcommon"
	"github.com/enfein/mieru/v3/pkg/appctl/appctlpb"
	"github.com/enfein/mieru/v3/pkg/cipher"
	"github.com/enfein/mieru/v3/pkg/common"
	"github.com/enfein/mieru/v3/pkg/protocol"
	"google.golang.org/protobuf/proto"
)

// c14Range scans 1..4000 and returns (min accepted, max accepted, 1 if the accepted set is an interval else 0).
func c14Range(ok func(m int32) bool) (int64, int64, int64) {
	lo, hi, n := int64(-1), int64(-1), int64(0)
	for m := int32(1); m <= 4000; m++ {
		if ok(m) {
			if lo < 0 {
				lo = int64(m)
			}
			hi = int64(m)
			n++
		}
	}
	contiguous := int64(0)
	if lo >= 0 && hi-lo+1 == n {
		contiguous = 1
	}
	return lo, hi, contiguous
}

func init() {
	z("C14_MetadataLength", int64(protocol.MetadataLength))
	z("C14_MaxSessionOpenPayload", int64(protocol.MaxSessionOpenPayload))
	z("C14_maxPDU", int64(protocol.VerifC14MaxPDU))
	z("C14_packetOverhead", int64(protocol.VerifC14PacketOverhead))
	z("C14_packetNonHeaderPosition", int64(protocol.VerifC14PacketNonHeaderPosition))
	z("C14_streamOverhead", int64(protocol.VerifC14StreamOverhead))
	z("C14_lowEntropyChunkLen", int64(protocol.VerifC14LowEntropyChunkLen))
	z("C14_segmentTreeCapacity", int64(protocol.VerifC14SegmentTreeCapacity))
	z("C14_NonceSize", int64(cipher.DefaultNonceSize))
	z("C14_TagOverhead", int64(cipher.DefaultOverhead))
	z("C14_MaxUint16", int64(math.MaxUint16))
	z("C14_MaxUint8", int64(math.MaxUint8))
	z("C14_DefaultMTU", int64(common.DefaultMTU))

	z("C14_TransportUnknown", int64(common.UnknownTransport))
	z("C14_TransportStream", int64(common.StreamTransport))
	z("C14_TransportPacket", int64(common.PacketTransport))

	z("C14_ModeOff", int64(appctlpb.LowEntropyMode_LOW_ENTROPY_MODE_OFF))
	z("C14_Mode32", int64(appctlpb.LowEntropyMode_LOW_ENTROPY_MODE_32))
	z("C14_Mode40", int64(appctlpb.LowEntropyMode_LOW_ENTROPY_MODE_40))
	z("C14_Mode48", int64(appctlpb.LowEntropyMode_LOW_ENTROPY_MODE_48))
	z("C14_Mode56", int64(appctlpb.LowEntropyMode_LOW_ENTROPY_MODE_56))
	src := func(m appctlpb.LowEntropyMode) int64 {
		n, err := protocol.VerifC14SourceBytesPerChunk(int32(m))
		if err != nil {
			return -1
		}
		return int64(n)
	}
	z("C14_Src32", src(appctlpb.LowEntropyMode_LOW_ENTROPY_MODE_32))
	z("C14_Src40", src(appctlpb.LowEntropyMode_LOW_ENTROPY_MODE_40))
	z("C14_Src48", src(appctlpb.LowEntropyMode_LOW_ENTROPY_MODE_48))
	z("C14_Src56", src(appctlpb.LowEntropyMode_LOW_ENTROPY_MODE_56))
	// number of mode values (other than OFF and the four above) for which buildLowEntropyParams succeeds: must be 0
	extra := int64(0)
	for m := int32(-300); m <= 300; m++ {
		if m >= 0 && m <= 4 {
			continue
		}
		if _, err := protocol.VerifC14SourceBytesPerChunk(m); err == nil {
			extra++
		}
	}
	z("C14_ExtraLEModes", extra)

	z("C14_ProtoOpenSessionRequest", int64(protocol.VerifC14OpenSessionRequest))
	z("C14_ProtoOpenSessionResponse", int64(protocol.VerifC14OpenSessionResponse))
	z("C14_ProtoCloseSessionRequest", int64(protocol.VerifC14CloseSessionRequest))
	z("C14_ProtoCloseSessionResponse", int64(protocol.VerifC14CloseSessionResponse))
	z("C14_ProtoDataClientToServer", int64(protocol.VerifC14DataClientToServer))
	z("C14_ProtoDataServerToClient", int64(protocol.VerifC14DataServerToClient))
	z("C14_ProtoAckClientToServer", int64(protocol.VerifC14AckClientToServer))
	z("C14_ProtoAckServerToClient", int64(protocol.VerifC14AckServerToClient))
	z("C14_ProtoDataClientToServerLE", int64(protocol.VerifC14DataClientToServerLowEntropy))
	z("C14_ProtoDataServerToClientLE", int64(protocol.VerifC14DataServerToClientLowEntropy))

	// padding caps as maxPaddingSize computes them
	z("C14_StreamPaddingCap", int64(protocol.VerifC14MaxPaddingSize(0, common.StreamTransport, 0, 0)))
	z("C14_PacketPaddingCap", int64(protocol.VerifC14MaxPaddingSize(1<<30, common.PacketTransport, 0, 0)))
	// largest configured padding maximum the traffic pattern validator accepts
	maxCfg := func(mk func(v int32) *appctlpb.PaddingPattern) int64 {
		v := int32(0)
		for v <= 100000 && trafficpattern.Validate(&appctlpb.TrafficPattern{Padding: mk(v)}) == nil {
			v++
		}
		return int64(v) - 1
	}
	z("C14_MaxConfiguredMiddlePadding", maxCfg(func(v int32) *appctlpb.PaddingPattern {
		return &appctlpb.PaddingPattern{MaxMiddlePaddingLen: proto.Int32(v)}
	}))
	z("C14_MaxConfiguredEndPadding", maxCfg(func(v int32) *appctlpb.PaddingPattern {
		return &appctlpb.PaddingPattern{MaxEndPaddingLen: proto.Int32(v)}
	}))

	// validated MTU range
	slo, shi, sc := c14Range(func(m int32) bool {
		return appctl.ValidateServerConfigPatch(&appctlpb.ServerConfig{Mtu: proto.Int32(m)}) == nil
	})
	z("C14_ServerMinMTU", slo)
	z("C14_ServerMaxMTU", shi)
	z("C14_ServerMTURangeContiguous", sc)
	profile := func(m int32) *appctlpb.ClientProfile {
		return &appctlpb.ClientProfile{
			ProfileName: proto.String("p"),
			User:        &appctlpb.User{Name: proto.String("u"), Password: proto.String("pw")},
			Servers: []*appctlpb.ServerEndpoint{{
				IpAddress:    proto.String("192.0.2.1"),
				PortBindings: []*appctlpb.PortBinding{{Port: proto.Int32(4000), Protocol: appctlpb.TransportProtocol_UDP.Enum()}},
			}},
			Mtu: proto.Int32(m),
		}
	}
	clo, chi, cc := c14Range(func(m int32) bool {
		return appctlcommon.ValidateClientConfigSingleProfile(profile(m)) == nil
	})
	z("C14_ClientMinMTU", clo)
	z("C14_ClientMaxMTU", chi)
	z("C14_ClientMTURangeContiguous", cc)
}
