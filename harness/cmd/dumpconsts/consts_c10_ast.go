package main

// C10: a syntactic tie between the lemma read_one_error_typed (model/Dispatch.v) and the code.
// StreamUnderlay.RunEventLoop panics on an error of readOneSegment that is not a top-level
// stderror.TypedError. This probe walks the syntax tree of /repo/pkg/protocol and checks, for
// (*StreamUnderlay).readOneSegment and every function of the package whose error result it hands on,
// that every `return ..., <err>` returns
//   - nil, or
//   - a call of a typed constructor of pkg/stderror (stderror.Wrap... / stderror.New...), or
//   - a variable whose reaching assignments (assignments in blocks that end with a return do not
//     reach) are all of these two kinds or calls of package functions that pass the same check.
// It emits the number of returns that fail the check (C10_StreamReadUntypedReturns, must be 0; -1 if
// the function is not found) and the number of non-nil error returns examined (non-vacuity).

import (
	"go/ast"
	"go/parser"
	"go/token"
	"os"
	"path/filepath"
	"strings"
)

type c10Fn struct {
	decl *ast.FuncDecl
	recv string // receiver type name, "" for plain functions
	rvar *ast.Object
}

type c10Probe struct {
	fns      map[string]*c10Fn // "Recv.name" or "name"
	state    map[string]int    // 0 unknown, 1 in progress, 2 done
	untyped  int
	examined int
}

func c10Key(recv, name string) string {
	if recv == "" {
		return name
	}
	return recv + "." + name
}

func c10LoadPackage(dir string) map[string]*c10Fn {
	fset := token.NewFileSet()
	pkgs, err := parser.ParseDir(fset, dir, func(fi os.FileInfo) bool {
		n := fi.Name()
		return !strings.HasSuffix(n, "_test.go") && !strings.HasPrefix(n, "zz_verif")
	}, 0)
	if err != nil {
		return nil
	}
	fns := map[string]*c10Fn{}
	for _, p := range pkgs {
		for _, f := range p.Files {
			for _, d := range f.Decls {
				fd, ok := d.(*ast.FuncDecl)
				if !ok || fd.Body == nil {
					continue
				}
				fn := &c10Fn{decl: fd}
				if fd.Recv != nil && len(fd.Recv.List) == 1 {
					t := fd.Recv.List[0].Type
					if st, ok := t.(*ast.StarExpr); ok {
						t = st.X
					}
					if id, ok := t.(*ast.Ident); ok {
						fn.recv = id.Name
					}
					if len(fd.Recv.List[0].Names) == 1 {
						fn.rvar = fd.Recv.List[0].Names[0].Obj
					}
				}
				fns[c10Key(fn.recv, fd.Name.Name)] = fn
			}
		}
	}
	return fns
}

func c10ReturnsError(fd *ast.FuncDecl) bool {
	if fd.Type.Results == nil || len(fd.Type.Results.List) == 0 {
		return false
	}
	last := fd.Type.Results.List[len(fd.Type.Results.List)-1].Type
	id, ok := last.(*ast.Ident)
	return ok && id.Name == "error"
}

func c10IsNil(e ast.Expr) bool {
	id, ok := e.(*ast.Ident)
	return ok && id.Name == "nil"
}

// typed constructor of pkg/stderror
func c10IsTypedCtor(e ast.Expr) bool {
	c, ok := e.(*ast.CallExpr)
	if !ok {
		return false
	}
	se, ok := c.Fun.(*ast.SelectorExpr)
	if !ok {
		return false
	}
	x, ok := se.X.(*ast.Ident)
	return ok && x.Name == "stderror" && (strings.HasPrefix(se.Sel.Name, "Wrap") || strings.HasPrefix(se.Sel.Name, "New"))
}

// callee of a call expression inside fn, as a key of the package's function table ("" = not a package function)
func (p *c10Probe) callee(fn *c10Fn, e ast.Expr) string {
	c, ok := e.(*ast.CallExpr)
	if !ok {
		return ""
	}
	switch f := c.Fun.(type) {
	case *ast.Ident:
		if _, ok := p.fns[f.Name]; ok {
			return f.Name
		}
	case *ast.SelectorExpr:
		if x, ok := f.X.(*ast.Ident); ok && fn.rvar != nil && x.Obj == fn.rvar {
			k := c10Key(fn.recv, f.Sel.Name)
			if _, ok := p.fns[k]; ok {
				return k
			}
		}
	}
	return ""
}

// a value expression is acceptable as the origin of a returned error
func (p *c10Probe) okOrigin(fn *c10Fn, e ast.Expr) bool {
	if e == nil || c10IsNil(e) || c10IsTypedCtor(e) {
		return true
	}
	if k := p.callee(fn, e); k != "" && c10ReturnsError(p.fns[k].decl) {
		return p.check(k)
	}
	return false
}

func c10Terminates(b *ast.BlockStmt) bool {
	if b == nil || len(b.List) == 0 {
		return false
	}
	switch s := b.List[len(b.List)-1].(type) {
	case *ast.ReturnStmt:
		return true
	case *ast.ExprStmt:
		if c, ok := s.X.(*ast.CallExpr); ok {
			if id, ok := c.Fun.(*ast.Ident); ok && id.Name == "panic" {
				return true
			}
		}
	}
	return false
}

// origins of obj assigned by stmt that can fall through to the statements after it.
// dominating: after stmt, obj certainly has one of the collected origins (or stmt never falls through).
func c10Assigns(stmt ast.Stmt, obj *ast.Object) (origins []ast.Expr, found, dominating bool) {
	switch s := stmt.(type) {
	case *ast.AssignStmt:
		for i, l := range s.Lhs {
			if id, ok := l.(*ast.Ident); ok && id.Obj == obj {
				if len(s.Rhs) == len(s.Lhs) {
					return []ast.Expr{s.Rhs[i]}, true, true
				}
				return []ast.Expr{s.Rhs[0]}, true, true
			}
		}
	case *ast.DeclStmt:
		if gd, ok := s.Decl.(*ast.GenDecl); ok {
			for _, sp := range gd.Specs {
				if vs, ok := sp.(*ast.ValueSpec); ok {
					for i, n := range vs.Names {
						if n.Obj == obj {
							if i < len(vs.Values) {
								return []ast.Expr{vs.Values[i]}, true, true
							}
							return []ast.Expr{nil}, true, true // zero value: nil
						}
					}
				}
			}
		}
	case *ast.BlockStmt:
		return c10BlockAssigns(s, obj)
	case *ast.IfStmt:
		allDom := true
		var branches []ast.Stmt
		branches = append(branches, s.Body)
		if s.Else != nil {
			branches = append(branches, s.Else)
		} else {
			allDom = false
		}
		for _, b := range branches {
			if blk, ok := b.(*ast.BlockStmt); ok && c10Terminates(blk) {
				continue
			}
			o, f, d := c10Assigns(b, obj)
			origins = append(origins, o...)
			found = found || f
			if !d {
				allDom = false
			}
		}
		return origins, found, allDom
	case *ast.ForStmt:
		o, f, _ := c10BlockAssigns(s.Body, obj)
		return o, f, false
	case *ast.RangeStmt:
		o, f, _ := c10BlockAssigns(s.Body, obj)
		return o, f, false
	case *ast.SwitchStmt, *ast.TypeSwitchStmt, *ast.SelectStmt:
		var unknown []ast.Expr
		ast.Inspect(stmt, func(n ast.Node) bool {
			if as, ok := n.(*ast.AssignStmt); ok {
				if o, f, _ := c10Assigns(as, obj); f {
					unknown = append(unknown, o...)
				}
			}
			return true
		})
		return unknown, len(unknown) > 0, false
	}
	return nil, false, false
}

func c10BlockAssigns(b *ast.BlockStmt, obj *ast.Object) (origins []ast.Expr, found, dominating bool) {
	if b == nil || c10Terminates(b) {
		return nil, false, true
	}
	for i := len(b.List) - 1; i >= 0; i-- {
		o, f, d := c10Assigns(b.List[i], obj)
		origins = append(origins, o...)
		found = found || f
		if f && d {
			return origins, true, true
		}
	}
	return origins, found, false
}

// reaching origins of obj at the return statement ret (path: nodes from the function body down to ret)
func c10Reaching(path []ast.Node, obj *ast.Object) (origins []ast.Expr, resolved bool) {
	for i := len(path) - 2; i >= 0; i-- {
		child := path[i+1]
		switch n := path[i].(type) {
		case *ast.IfStmt:
			if n.Init != nil && child != n.Init {
				if o, f, _ := c10Assigns(n.Init, obj); f {
					return append(origins, o...), true
				}
			}
		case *ast.BlockStmt:
			idx := -1
			for j, s := range n.List {
				if s == child {
					idx = j
				}
			}
			for j := idx - 1; j >= 0; j-- {
				o, f, d := c10Assigns(n.List[j], obj)
				origins = append(origins, o...)
				if f && d {
					return origins, true
				}
			}
		case *ast.CaseClause:
			idx := -1
			for j, s := range n.Body {
				if s == child {
					idx = j
				}
			}
			for j := idx - 1; j >= 0; j-- {
				o, f, d := c10Assigns(n.Body[j], obj)
				origins = append(origins, o...)
				if f && d {
					return origins, true
				}
			}
		}
	}
	return origins, false
}

// check reports whether every error return of the function is typed (and counts the ones that are not)
func (p *c10Probe) check(key string) bool {
	switch p.state[key] {
	case 1:
		return true // recursion: judged by the other returns
	case 2:
		return p.state[key+"#ok"] == 1
	}
	p.state[key] = 1
	fn := p.fns[key]
	ok := true
	var path []ast.Node
	ast.Inspect(fn.decl.Body, func(n ast.Node) bool {
		if n == nil {
			path = path[:len(path)-1]
			return true
		}
		if _, isLit := n.(*ast.FuncLit); isLit {
			path = append(path, n)
			return true // returns inside are skipped below by the FuncLit test
		}
		path = append(path, n)
		ret, isRet := n.(*ast.ReturnStmt)
		if !isRet || len(ret.Results) == 0 {
			return true
		}
		for _, a := range path {
			if _, isLit := a.(*ast.FuncLit); isLit {
				return true
			}
		}
		e := ret.Results[len(ret.Results)-1]
		if c10IsNil(e) {
			return true
		}
		p.examined++
		good := false
		if id, isID := e.(*ast.Ident); isID && id.Obj != nil {
			full := append([]ast.Node{fn.decl.Body}, path[1:]...)
			if len(path) > 0 && path[0] != ast.Node(fn.decl.Body) {
				full = append([]ast.Node{fn.decl.Body}, path...)
			}
			origins, resolved := c10Reaching(full, id.Obj)
			good = resolved && len(origins) > 0
			for _, o := range origins {
				if !p.okOrigin(fn, o) {
					good = false
				}
			}
		} else {
			good = p.okOrigin(fn, e)
		}
		if !good {
			p.untyped++
			ok = false
		}
		return true
	})
	p.state[key] = 2
	if ok {
		p.state[key+"#ok"] = 1
	}
	return ok
}

func c10StreamReadReturns() (untyped, examined int64) {
	repo := os.Getenv("VERIF_REPO")
	if repo == "" {
		repo = "/repo"
	}
	fns := c10LoadPackage(filepath.Join(repo, "pkg", "protocol"))
	root := "StreamUnderlay.readOneSegment"
	if fns == nil || fns[root] == nil || !c10ReturnsError(fns[root].decl) {
		return -1, 0
	}
	p := &c10Probe{fns: fns, state: map[string]int{}}
	p.check(root)
	return int64(p.untyped), int64(p.examined)
}

func init() {
	u, n := c10StreamReadReturns()
	z("C10_StreamReadUntypedReturns", u)
	z("C10_StreamReadErrorReturns", n)
}
