package main

import "github.com/enfein/mieru/v3/apis/constant"

// SOCKS5 authentication constants (RFC 1928 section 3, RFC 1929) as pkg/socks5/auth.go uses them.
func init() {
	z("C11_Socks5Version", int64(constant.Socks5Version))
	z("C11_Socks5NoAuth", int64(constant.Socks5NoAuth))
	z("C11_Socks5UserPassAuth", int64(constant.Socks5UserPassAuth))
	z("C11_Socks5NoAcceptableAuth", int64(constant.Socks5NoAcceptableAuth))
	z("C11_Socks5UserPassAuthVersion", int64(constant.Socks5UserPassAuthVersion))
	z("C11_Socks5AuthSuccess", int64(constant.Socks5AuthSuccess))
	z("C11_Socks5AuthFailure", int64(constant.Socks5AuthFailure))
}
