package main

// Constants of property C03 (graceful close).  Named constants come through
// pkg/protocol/zz_verif_export_c03.go.  The bounded wait of closeWithError exists only as literals
// inside the function body (`for i := 0; i < 1000; i++ { time.Sleep(time.Millisecond) ...`); they
// are read from the syntax tree of /repo/pkg/protocol/session.go, and the C03 driver measures the
// wait of the compiled code under virtual time and compares it with iterations x tick.

import (
	"go/ast"
	"go/parser"
	"go/token"
	"os"
	"path/filepath"
	"strconv"
	"time"

	"github.com/enfein/mieru/v3/pkg/protocol"
)

// c03CloseWait returns (iterations, tick in ns) of the first counting loop in closeWithError that
// sleeps; (-1, -1) if the shape is not recognised.
func c03CloseWait() (int64, int64) {
	repo := os.Getenv("VERIF_REPO")
	if repo == "" {
		repo = "/repo"
	}
	fset := token.NewFileSet()
	f, err := parser.ParseFile(fset, filepath.Join(repo, "pkg", "protocol", "session.go"), nil, 0)
	if err != nil {
		return -1, -1
	}
	iters, tick := int64(-1), int64(-1)
	units := map[string]int64{"Nanosecond": 1, "Microsecond": int64(time.Microsecond), "Millisecond": int64(time.Millisecond), "Second": int64(time.Second)}
	durOf := func(e ast.Expr) int64 {
		// time.X  or  N * time.X
		if se, ok := e.(*ast.SelectorExpr); ok {
			if u, ok := units[se.Sel.Name]; ok {
				return u
			}
		}
		if be, ok := e.(*ast.BinaryExpr); ok && be.Op == token.MUL {
			var lit *ast.BasicLit
			var sel *ast.SelectorExpr
			for _, x := range []ast.Expr{be.X, be.Y} {
				if l, ok := x.(*ast.BasicLit); ok {
					lit = l
				}
				if s, ok := x.(*ast.SelectorExpr); ok {
					sel = s
				}
			}
			if lit != nil && sel != nil {
				n, err := strconv.ParseInt(lit.Value, 0, 64)
				if u, ok := units[sel.Sel.Name]; ok && err == nil {
					return n * u
				}
			}
		}
		return -1
	}
	for _, d := range f.Decls {
		fd, ok := d.(*ast.FuncDecl)
		if !ok || fd.Name.Name != "closeWithError" {
			continue
		}
		ast.Inspect(fd.Body, func(n ast.Node) bool {
			fs, ok := n.(*ast.ForStmt)
			if !ok || iters >= 0 {
				return true
			}
			cond, ok := fs.Cond.(*ast.BinaryExpr)
			if !ok || cond.Op != token.LSS {
				return true
			}
			lit, ok := cond.Y.(*ast.BasicLit)
			if !ok {
				return true
			}
			n64, err := strconv.ParseInt(lit.Value, 0, 64)
			if err != nil {
				return true
			}
			t := int64(-1)
			ast.Inspect(fs.Body, func(m ast.Node) bool {
				ce, ok := m.(*ast.CallExpr)
				if !ok {
					return true
				}
				if se, ok := ce.Fun.(*ast.SelectorExpr); ok && se.Sel.Name == "Sleep" && len(ce.Args) == 1 && t < 0 {
					t = durOf(ce.Args[0])
				}
				return true
			})
			if t > 0 {
				iters, tick = n64, t
			}
			return true
		})
	}
	return iters, tick
}

func init() {
	it, tick := c03CloseWait()
	z("C03_closeWaitIterations", it)
	z("C03_closeWaitTickNs", tick)
	z("C03_segmentTreeCapacity", int64(protocol.VerifC03SegmentTreeCapacity))
	z("C03_segmentChanCapacity", int64(protocol.VerifC03SegmentChanCapacity))
	z("C03_txCountLimit", int64(protocol.VerifC03TxCountLimit))
	z("C03_minWindowSize", int64(protocol.VerifC03MinWindowSize))
	z("C03_maxWindowSize", int64(protocol.VerifC03MaxWindowSize))
	z("C03_periodicOutputIntervalNs", protocol.VerifC03PeriodicOutputIntervalNs)
	z("C03_ProtoCloseSessionRequest", int64(protocol.VerifC03CloseSessionRequest))
	z("C03_ProtoCloseSessionResponse", int64(protocol.VerifC03CloseSessionResponse))
}
