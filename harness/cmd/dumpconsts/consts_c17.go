package main

import (
	"github.com/enfein/mieru/v3/pkg/appctl/appctlpb"
	"github.com/enfein/mieru/v3/pkg/protocol"
)

// Constants of the low-entropy codec (C17). The mode tables are indexed by the numeric
// mode 0..7; 0 stands for "buildLowEntropyParams returns an error".
func init() {
	z("C17_lowEntropyChunkLen", int64(protocol.VerifLowEntropyChunkLen))
	z("C17_maxPDU", int64(protocol.VerifMaxPDU))
	z("C17_protoLowEntropyC2S", int64(protocol.VerifDataClientToServerLowEntropy))
	z("C17_protoLowEntropyS2C", int64(protocol.VerifDataServerToClientLowEntropy))
	z("C17_rotNone", int64(appctlpb.LowEntropyMaskRotation_LOW_ENTROPY_MASK_NO_ROTATION))
	z("C17_rotRight1", int64(appctlpb.LowEntropyMaskRotation_LOW_ENTROPY_MASK_ROTATE_RIGHT_1))
	z("C17_rotRight15", int64(appctlpb.LowEntropyMaskRotation_LOW_ENTROPY_MASK_ROTATE_RIGHT_15))
	z("C17_rotLeft1", int64(appctlpb.LowEntropyMaskRotation_LOW_ENTROPY_MASK_ROTATE_LEFT_1))
	z("C17_rotLeft15", int64(appctlpb.LowEntropyMaskRotation_LOW_ENTROPY_MASK_ROTATE_LEFT_15))
	var src, ones []int64
	for m := int32(0); m < 8; m++ {
		c, w, err := protocol.VerifLEParams(m)
		if err != nil {
			c, w = 0, 0
		}
		src = append(src, int64(c))
		ones = append(ones, int64(w))
	}
	zlist("C17_modeSourceBytes", src)
	zlist("C17_modeHalfMaskOnes", ones)
}
