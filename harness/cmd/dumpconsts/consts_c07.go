package main

import (
	"github.com/enfein/mieru/v3/apis/constant"
	"github.com/enfein/mieru/v3/pkg/protocol/serveruser"
)

// C07: geometry and lifetime of the source-user cache, the capacity of tryState's
// attempted-id set (it is declared with sourceUserCacheUsers), the match-origin codes.
func init() {
	z("sourceUserCacheBucketCount", int64(serveruser.VerifSourceUserCacheBucketCount))
	z("sourceUserCacheWays", int64(serveruser.VerifSourceUserCacheWays))
	z("sourceUserCacheUsers", int64(serveruser.VerifSourceUserCacheUsers))
	z("sourceUserCacheLockStripes", int64(serveruser.VerifSourceUserCacheLockStripes))
	z("sourceUserCacheLifeSeconds", int64(serveruser.VerifSourceUserCacheLifeSeconds))
	z("serveruserMetadataLength", int64(serveruser.VerifMetadataLength))
	z("MaxUserNameLen", int64(constant.MaxUserNameLen))
	z("matchCachedHint", int64(serveruser.VerifMatchCachedHint))
	z("matchRegistryHint", int64(serveruser.VerifMatchRegistryHint))
	z("matchCachedFallback", int64(serveruser.VerifMatchCachedFallback))
	z("matchRegistryFallback", int64(serveruser.VerifMatchRegistryFallback))
}
