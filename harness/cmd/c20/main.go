// Driver for C20: configuration handling (pkg/appctl).
// Runs the real Store/Load/Apply/merge/link code on generated valid configurations and patches
// (both file formats, special characters in names and passwords) and on malformed text; writes
// case lines for the extracted Coq model (merge, hashing, link guards, port parsing) together with
// the implementation's canonicalised observation, and judges every case against the property text.
package main

import (
	"bytes"
	"context"
	"crypto/sha256"
	"encoding/base64"
	"encoding/hex"
	"fmt"
	"net"
	"net/url"
	"os"
	"path/filepath"
	"sort"
	"strconv"
	"strings"
	"time"

	apicommon "github.com/enfein/mieru/v3/apis/common"
	"github.com/enfein/mieru/v3/apis/trafficpattern"
	"github.com/enfein/mieru/v3/pkg/appctl"
	"github.com/enfein/mieru/v3/pkg/appctl/appctlcommon"
	pb "github.com/enfein/mieru/v3/pkg/appctl/appctlpb"
	"github.com/enfein/mieru/v3/pkg/cipher"
	"github.com/enfein/mieru/v3/pkg/common"
	"github.com/enfein/mieru/v3/pkg/protocol/serveruser"
	"google.golang.org/protobuf/encoding/protojson"
	"google.golang.org/protobuf/proto"
	"google.golang.org/protobuf/types/known/emptypb"
	"verifharness/vh"
)

var r *vh.Run
var tmp string

// ---------------------------------------------------------------- helpers

func hx(s string) string { return hex.EncodeToString([]byte(s)) }

func guard(fn string, input interface{}, f func()) (panicked bool) {
	defer func() {
		if e := recover(); e != nil {
			panicked = true
			r.Fail("panic-"+fn, fmt.Sprintf("%s panicked: %v", fn, e), input)
		}
	}()
	f()
	return
}

func det(m proto.Message) []byte {
	b, err := proto.MarshalOptions{Deterministic: true}.Marshal(m)
	if err != nil {
		panic(err)
	}
	return b
}

// toy hash table: sha256hex -> candidate pre-image. The real hashed password is re-expressed as
// "H<preimage>" when it is the hash of one of the candidate pre-images of the case.
var preimages = map[string]string{}

func regPre(pw, name string) {
	for _, c := range []string{pw + "\x00" + name, name + "\x00" + pw, pw + name, pw, pw + "\x00"} {
		h := sha256.Sum256([]byte(c))
		k := hex.EncodeToString(h[:])
		if _, ok := preimages[k]; !ok || c == pw+"\x00"+name {
			preimages[k] = c
		}
	}
}

func docHash(pw, name string) string {
	h := sha256.Sum256([]byte(pw + "\x00" + name))
	return hex.EncodeToString(h[:])
}

func ob(p *string) string {
	if p == nil {
		return "N"
	}
	return "S" + hx(*p)
}
func oi(p *int32) string {
	if p == nil {
		return "N"
	}
	return "I" + strconv.Itoa(int(*p))
}
func obool(p *bool) string {
	if p == nil {
		return "N"
	}
	if *p {
		return "T"
	}
	return "F"
}
func omsg(isNil bool, m proto.Message) string {
	if isNil {
		return "N"
	}
	return "S" + hex.EncodeToString(det(m))
}

func tokUser(u *pb.User, out bool) string {
	c := proto.Clone(u).(*pb.User)
	c.Name, c.Password, c.HashedPassword = nil, nil, nil
	h := ob(u.HashedPassword)
	if out && u.HashedPassword != nil {
		if pre, ok := preimages[u.GetHashedPassword()]; ok {
			h = "H" + hx(pre)
		}
	}
	q := []string{strconv.Itoa(len(u.Quotas))}
	for _, x := range u.Quotas {
		q = append(q, strconv.Itoa(int(x.GetDays())), strconv.Itoa(int(x.GetMegabytes())))
	}
	return strings.Join([]string{ob(u.Name), ob(u.Password), h, strings.Join(q, " "), vh.Hex(det(c))}, " ")
}

func hb(s string) string { return vh.Hex([]byte(s)) }

func tokAdv(isNil bool, m proto.Message, interval string) string {
	if isNil {
		return "N"
	}
	ns := "N"
	if d, err := time.ParseDuration(interval); err == nil {
		ns = "I" + strconv.FormatInt(int64(d), 10)
	}
	return strings.Join([]string{"A", vh.Hex(det(m)), hb(interval), ns}, " ")
}

func tokTp(tp *pb.TrafficPattern) string {
	if tp == nil {
		return "N"
	}
	return strings.Join([]string{"T", vh.Hex(det(tp)), b2(trafficpattern.Validate(tp) == nil)}, " ")
}

func tokEgress(e *pb.Egress) string {
	if e == nil {
		return "N"
	}
	f := []string{"E", vh.Hex(det(e)), strconv.Itoa(len(e.Proxies))}
	for _, p := range e.Proxies {
		f = append(f, hb(p.GetName()), strconv.Itoa(int(p.GetProtocol())), hb(p.GetHost()), strconv.Itoa(int(p.GetPort())),
			hb(p.GetSocks5Authentication().GetUser()), hb(p.GetSocks5Authentication().GetPassword()))
	}
	f = append(f, strconv.Itoa(len(e.Rules)))
	for _, ru := range e.Rules {
		f = append(f, strconv.Itoa(len(ru.IpRanges)))
		for _, ipr := range ru.IpRanges {
			_, _, err := net.ParseCIDR(ipr)
			f = append(f, b2(ipr == "*" || err == nil))
		}
		f = append(f, strconv.Itoa(len(ru.DomainNames)))
		for _, d := range ru.DomainNames {
			f = append(f, hb(d))
		}
		f = append(f, strconv.Itoa(int(ru.GetAction())), strconv.Itoa(len(ru.ProxyNames)))
		for _, n := range ru.ProxyNames {
			f = append(f, hb(n))
		}
	}
	return strings.Join(f, " ")
}

func tokDNS(d *pb.DNS) string {
	if d == nil {
		return "N"
	}
	keys := make([]string, 0, len(d.Hosts))
	for k := range d.Hosts {
		keys = append(keys, k)
	}
	sort.Strings(keys)
	f := []string{"D", vh.Hex(det(d)), strconv.Itoa(len(keys))}
	for _, k := range keys {
		f = append(f, hb(k), hb(apicommon.NormalizeDomainName(k)), b2(net.ParseIP(d.Hosts[k]) != nil))
	}
	return strings.Join(f, " ")
}

func tokEp(s *pb.ServerEndpoint) string {
	return strings.Join([]string{hb(s.GetIpAddress()), b2(net.ParseIP(s.GetIpAddress()) != nil), hb(s.GetDomainName()),
		b2(net.ParseIP(s.GetDomainName()) != nil), tokPBs(s.PortBindings)}, " ")
}

func tokDialer(d *pb.ClientDialer) string {
	if d == nil {
		return "N"
	}
	return strings.Join([]string{"Y", strconv.Itoa(int(d.GetProtocol())), hb(d.GetHost()), strconv.Itoa(int(d.GetPort())),
		b2(d.Socks5Authentication != nil), hb(d.GetSocks5Authentication().GetUser()), hb(d.GetSocks5Authentication().GetPassword())}, " ")
}

func tokUsers(us []*pb.User, out bool) string {
	parts := []string{strconv.Itoa(len(us))}
	for _, u := range us {
		parts = append(parts, tokUser(u, out))
	}
	return strings.Join(parts, " ")
}

func tokPB(b *pb.PortBinding) string {
	var pr *int32
	if b.Protocol != nil {
		v := int32(*b.Protocol)
		pr = &v
	}
	return strings.Join([]string{oi(b.Port), oi(pr), ob(b.PortRange)}, " ")
}

func tokPBs(bs []*pb.PortBinding) string {
	parts := []string{strconv.Itoa(len(bs))}
	for _, b := range bs {
		parts = append(parts, tokPB(b))
	}
	return strings.Join(parts, " ")
}

func oenum[T ~int32](p *T) string {
	if p == nil {
		return "N"
	}
	return "I" + strconv.Itoa(int(*p))
}

func tokServer(c *pb.ServerConfig, out bool) string {
	ports := "N"
	if c.PortBindings != nil {
		ports = "L " + tokPBs(c.PortBindings)
	}
	return strings.Join([]string{ports, tokUsers(c.Users, out),
		tokAdv(c.AdvancedSettings == nil, c.AdvancedSettings, c.GetAdvancedSettings().GetMetricsLoggingInterval()), oenum(c.LoggingLevel), oi(c.Mtu),
		tokEgress(c.Egress), tokDNS(c.Dns), tokTp(c.TrafficPattern)}, " ")
}

func tokProfile(p *pb.ClientProfile, out bool) string {
	c := proto.Clone(p).(*pb.ClientProfile)
	c.ProfileName, c.User = nil, nil
	u := "N"
	if p.User != nil {
		u = "U " + tokUser(p.User, out)
	}
	sv := []string{strconv.Itoa(len(p.Servers))}
	for _, x := range p.Servers {
		sv = append(sv, tokEp(x))
	}
	var mux *int32
	if p.Multiplexing != nil && p.Multiplexing.Level != nil {
		v := int32(p.Multiplexing.GetLevel())
		mux = &v
	}
	return strings.Join([]string{ob(p.ProfileName), u, strings.Join(sv, " "), oi(p.Mtu), oi(mux), oenum(p.HandshakeMode),
		tokTp(p.TrafficPattern), tokDialer(p.Dialer), vh.Hex(det(c))}, " ")
}

func tokClient(c *pb.ClientConfig, out bool) string {
	parts := []string{strconv.Itoa(len(c.Profiles))}
	for _, p := range c.Profiles {
		parts = append(parts, tokProfile(p, out))
	}
	auth := "N"
	if c.Socks5Authentication != nil {
		a := []string{"L", strconv.Itoa(len(c.Socks5Authentication))}
		for _, x := range c.Socks5Authentication {
			a = append(a, vh.Hex(det(x)), hb(x.GetUser()), hb(x.GetPassword()))
		}
		auth = strings.Join(a, " ")
	}
	parts = append(parts, ob(c.ActiveProfile), oi(c.RpcPort), oi(c.Socks5Port), tokAdv(c.AdvancedSettings == nil, c.AdvancedSettings, c.GetAdvancedSettings().GetMetricsLoggingInterval()),
		oenum(c.LoggingLevel), obool(c.Socks5ListenLAN), oi(c.HttpProxyPort), obool(c.HttpProxyListenLAN), auth)
	return strings.Join(parts, " ")
}

// ---------------------------------------------------------------- generators

var specials = []string{" ", "%", "#", "?", "@", ":", "/", "&", "=", "+", "\"", "\\", "'", "<", ">", ";", ",", "~", "é", "日本", "😀", "ß", "\t", "%2F", "%zz", "[", "]", "{", "}", "|", "^", "`", "$", "!", "*", "(", ")"}

const alnum = "abcdefghijklmnopqrstuvwxyzABCDEFGHIJKLMNOPQRSTUVWXYZ0123456789"

func alnumStr(n int) string {
	b := make([]byte, n)
	for i := range b {
		b[i] = alnum[r.Rng.Intn(len(alnum))]
	}
	return string(b)
}

// special: string of at most max bytes mixing plain and special characters. class records which kind.
func special(max int) string {
	s := ""
	n := r.Rng.Range(1, 6)
	for i := 0; i < n; i++ {
		var p string
		if r.Rng.Intn(3) == 0 {
			p = alnumStr(r.Rng.Range(1, 4))
		} else {
			p = specials[r.Rng.Intn(len(specials))]
		}
		if len(s)+len(p) > max {
			break
		}
		s += p
	}
	if s == "" {
		s = "x"
	}
	return s
}

func genName(prefix string) string {
	switch r.Rng.Intn(4) {
	case 0:
		return prefix + alnumStr(r.Rng.Range(1, 8))
	default:
		return prefix + special(40)
	}
}

// passwords always carry an ASCII marker "pw" + 6 alnum so that the raw stored bytes can be scanned
func genPassword() string {
	m := "pw" + alnumStr(6)
	if r.Rng.Intn(3) == 0 {
		return m
	}
	return special(24) + m + special(24)
}

func pickEnum(m map[int32]string) int32 {
	keys := make([]int, 0, len(m))
	for k := range m {
		keys = append(keys, int(k))
	}
	sort.Ints(keys)
	return int32(keys[r.Rng.Intn(len(keys))])
}

func genTrafficPattern() *pb.TrafficPattern {
	tp := &pb.TrafficPattern{}
	if r.Rng.Bool() {
		tp.Seed = proto.Int32(int32(r.Rng.Intn(1 << 30)))
	}
	if r.Rng.Intn(3) == 0 {
		tp.UnlockAll = proto.Bool(r.Rng.Bool())
	}
	if r.Rng.Bool() {
		tp.TcpFragment = &pb.TCPFragment{}
		if r.Rng.Bool() {
			tp.TcpFragment.Enable = proto.Bool(r.Rng.Bool())
		}
		if r.Rng.Bool() {
			tp.TcpFragment.MaxSleepMs = proto.Int32(int32(r.Rng.Intn(101)))
		}
	}
	if r.Rng.Bool() {
		n := &pb.NoncePattern{}
		if r.Rng.Bool() {
			n.Type = pb.NonceType(pickEnum(pb.NonceType_name)).Enum()
		}
		if r.Rng.Bool() {
			n.ApplyToAllUDPPacket = proto.Bool(r.Rng.Bool())
		}
		lo := int32(r.Rng.Intn(13))
		hi := lo + int32(r.Rng.Intn(int(13-lo)))
		if r.Rng.Bool() {
			n.MinLen = proto.Int32(lo)
		}
		if r.Rng.Bool() {
			n.MaxLen = proto.Int32(hi)
		}
		for i := r.Rng.Intn(3); i > 0; i-- {
			n.CustomHexStrings = append(n.CustomHexStrings, hex.EncodeToString(r.Rng.Bytes(r.Rng.Intn(13))))
		}
		tp.Nonce = n
	}
	if r.Rng.Bool() {
		tp.Padding = &pb.PaddingPattern{}
		if r.Rng.Bool() {
			tp.Padding.MaxMiddlePaddingLen = proto.Int32(int32(r.Rng.Intn(17)))
		}
		if r.Rng.Bool() {
			tp.Padding.MaxEndPaddingLen = proto.Int32(int32(r.Rng.Intn(17)))
		}
	}
	if r.Rng.Bool() {
		tp.LowEntropy = &pb.LowEntropyPattern{}
		if r.Rng.Bool() {
			tp.LowEntropy.Mode = pb.LowEntropyMode(pickEnum(pb.LowEntropyMode_name)).Enum()
		}
		if r.Rng.Bool() {
			tp.LowEntropy.MaskRotation = pb.LowEntropyMaskRotation(pickEnum(pb.LowEntropyMaskRotation_name)).Enum()
		}
	}
	if trafficpattern.Validate(tp) != nil { // keep the generator valid whatever the limits are
		return &pb.TrafficPattern{Seed: proto.Int32(1)}
	}
	return tp
}

func genPortBindings() []*pb.PortBinding {
	var out []*pb.PortBinding
	for i := r.Rng.Range(1, 3); i > 0; i-- {
		b := &pb.PortBinding{}
		if r.Rng.Bool() {
			b.Protocol = pb.TransportProtocol_TCP.Enum()
		} else {
			b.Protocol = pb.TransportProtocol_UDP.Enum()
		}
		switch r.Rng.Intn(8) {
		case 0:
			b.Port = proto.Int32(1)
		case 1:
			b.Port = proto.Int32(65535)
		case 2, 3:
			lo := r.Rng.Range(1, 65535)
			hi := lo + r.Rng.Intn(20)
			if hi > 65535 {
				hi = 65535
			}
			b.PortRange = proto.String(fmt.Sprintf("%d-%d", lo, hi))
		case 4:
			lo := r.Rng.Range(1, 9000)
			b.PortRange = proto.String(fmt.Sprintf("%05d-%05d", lo, lo+r.Rng.Intn(5))) // leading zeros are accepted
		case 5:
			b.Port = proto.Int32(int32(r.Rng.Range(1, 65535)))
			b.PortRange = proto.String([]string{"x", "7-9", "", "0-0", "9-7"}[r.Rng.Intn(5)]) // the port wins
		default:
			b.Port = proto.Int32(int32(r.Rng.Range(1, 65535)))
		}
		out = append(out, b)
	}
	return out
}

func genUser(server bool, name string) *pb.User {
	u := &pb.User{Name: proto.String(name)}
	switch r.Rng.Intn(5) {
	case 0: // only a hash
		u.HashedPassword = proto.String(hex.EncodeToString(r.Rng.Bytes(32)))
	case 1: // both
		u.Password = proto.String(genPassword())
		u.HashedPassword = proto.String(hex.EncodeToString(r.Rng.Bytes(32)))
	case 2: // explicit empty password and a hash
		u.Password = proto.String("")
		u.HashedPassword = proto.String(hex.EncodeToString(r.Rng.Bytes(32)))
	default:
		u.Password = proto.String(genPassword())
	}
	if len(u.GetPassword()) > 64 {
		u.Password = proto.String(u.GetPassword()[len(u.GetPassword())-8:])
	}
	if u.Password != nil {
		regPre(u.GetPassword(), name)
	}
	if server {
		for i := r.Rng.Intn(3); i > 0; i-- {
			u.Quotas = append(u.Quotas, &pb.Quota{Days: proto.Int32(int32(r.Rng.Range(1, 90))), Megabytes: proto.Int32(int32(r.Rng.Range(1, 100000)))})
		}
		if r.Rng.Intn(3) == 0 {
			u.AllowPrivateIP = proto.Bool(r.Rng.Bool())
		}
		if r.Rng.Intn(3) == 0 {
			u.AllowLoopbackIP = proto.Bool(r.Rng.Bool())
		}
	}
	return u
}

var userPool []string

func pickUserName() string {
	if len(userPool) == 0 {
		userPool = append(userPool, strings.Repeat("日", 21)+"a", strings.Repeat("é", 32), strings.Repeat("😀", 16), strings.Repeat("n", 64))
	}
	if len(userPool) < 16 {
		n := genName("")
		for len(n) > 64 {
			n = n[:len(n)/2]
		}
		n = strings.ToValidUTF8(n, "_")
		userPool = append(userPool, n)
		return n
	}
	return userPool[r.Rng.Intn(len(userPool))]
}

func genEgress() *pb.Egress {
	e := &pb.Egress{}
	var names []string
	for i := r.Rng.Intn(3); i > 0; i-- {
		n := genName("px") + strconv.Itoa(i)
		names = append(names, n)
		p := &pb.EgressProxy{Name: proto.String(n), Protocol: pb.ProxyProtocol_SOCKS5_PROXY_PROTOCOL.Enum(),
			Host: proto.String("127.0.0.1"), Port: proto.Int32(int32(r.Rng.Range(1, 65535)))}
		if r.Rng.Bool() {
			p.Socks5Authentication = &pb.Auth{User: proto.String(genName("")), Password: proto.String(genPassword())}
		}
		e.Proxies = append(e.Proxies, p)
	}
	for i := r.Rng.Intn(4); i > 0; i-- {
		rule := &pb.EgressRule{}
		for j := r.Rng.Intn(3); j > 0; j-- {
			rule.IpRanges = append(rule.IpRanges, []string{"*", "10.0.0.0/8", "192.168.1.0/24", "fd00::/8", "0.0.0.0/0"}[r.Rng.Intn(5)])
		}
		for j := r.Rng.Intn(3); j > 0; j-- {
			rule.DomainNames = append(rule.DomainNames, []string{"*", "example.com", "a.b-c.org", "xn--bcher-kva.example", "UPPER.example"}[r.Rng.Intn(5)])
		}
		if len(names) > 0 && r.Rng.Bool() {
			rule.Action = pb.EgressAction_PROXY.Enum()
			rule.ProxyNames = []string{names[r.Rng.Intn(len(names))]}
		} else if r.Rng.Bool() {
			rule.Action = pb.EgressAction_DIRECT.Enum()
		} else {
			rule.Action = pb.EgressAction_REJECT.Enum()
		}
		e.Rules = append(e.Rules, rule)
	}
	return e
}

func genDNS() *pb.DNS {
	d := &pb.DNS{}
	if r.Rng.Bool() {
		d.DualStack = pb.DualStack(pickEnum(pb.DualStack_name)).Enum()
	}
	n := r.Rng.Intn(4)
	if n > 0 {
		d.Hosts = map[string]string{}
		for i := 0; i < n; i++ {
			d.Hosts[fmt.Sprintf("h%d.%s.example", i, strings.ToLower(alnumStr(3)))] = []string{"1.2.3.4", "2001:db8::1", "::1", "10.0.0.1"}[r.Rng.Intn(4)]
		}
	}
	return d
}

// genServer: full = a configuration ValidateFullServerConfig accepts; otherwise a patch (any subset of fields).
func genServer(full bool) *pb.ServerConfig {
	c := &pb.ServerConfig{}
	if full || r.Rng.Intn(3) == 0 {
		c.PortBindings = genPortBindings()
	}
	for i := r.Rng.Intn(5); i > 0; i-- {
		c.Users = append(c.Users, genUser(true, pickUserName()))
	}
	if r.Rng.Intn(3) == 0 {
		a := &pb.ServerAdvancedSettings{}
		if r.Rng.Bool() {
			a.MetricsLoggingInterval = proto.String([]string{"1s", "30s", "1m", "1h30m"}[r.Rng.Intn(4)])
		}
		if r.Rng.Bool() {
			a.UserHintIsMandatory = proto.Bool(r.Rng.Bool())
		}
		c.AdvancedSettings = a
	}
	if r.Rng.Intn(3) == 0 {
		c.LoggingLevel = pb.LoggingLevel(pickEnum(pb.LoggingLevel_name)).Enum()
	}
	if r.Rng.Intn(3) == 0 {
		c.Mtu = proto.Int32(int32(r.Rng.Range(1280, 1500)))
	}
	if r.Rng.Intn(3) == 0 {
		c.Egress = genEgress()
	}
	if r.Rng.Intn(3) == 0 {
		c.Dns = genDNS()
	}
	if r.Rng.Intn(3) == 0 {
		c.TrafficPattern = genTrafficPattern()
	}
	return c
}

var domains = []string{"example.com", "a.b-c.org", "xn--bcher-kva.example", "localhost", "h-1.test"}
var ips = []string{"1.2.3.4", "2001:db8::1", "::1", "10.0.0.1", "255.255.255.255"}

func genProfile(name string) *pb.ClientProfile {
	un := pickUserName()
	u := genUser(false, un)
	if u.GetPassword() == "" { // links need a password; keep some hash-only users too
		if r.Rng.Intn(3) != 0 {
			u.Password = proto.String(genPassword())
			if len(u.GetPassword()) > 64 {
				u.Password = proto.String(u.GetPassword()[len(u.GetPassword())-8:])
			}
			regPre(u.GetPassword(), un)
		}
	}
	p := &pb.ClientProfile{ProfileName: proto.String(name), User: u}
	for i := r.Rng.Range(1, 3); i > 0; i-- {
		s := &pb.ServerEndpoint{PortBindings: genPortBindings()}
		if r.Rng.Bool() {
			s.DomainName = proto.String(domains[r.Rng.Intn(len(domains))])
		} else {
			s.IpAddress = proto.String(ips[r.Rng.Intn(len(ips))])
		}
		p.Servers = append(p.Servers, s)
	}
	if r.Rng.Intn(3) == 0 {
		p.Mtu = proto.Int32(int32(r.Rng.Range(1280, 1500)))
	}
	if r.Rng.Intn(3) == 0 {
		p.Multiplexing = &pb.MultiplexingConfig{Level: pb.MultiplexingLevel(pickEnum(pb.MultiplexingLevel_name)).Enum()}
	}
	if r.Rng.Intn(3) == 0 {
		p.HandshakeMode = pb.HandshakeMode(pickEnum(pb.HandshakeMode_name)).Enum()
	}
	if r.Rng.Intn(3) == 0 {
		p.TrafficPattern = genTrafficPattern()
	}
	if r.Rng.Intn(6) == 0 {
		d := &pb.ClientDialer{Protocol: pb.ProxyProtocol_SOCKS5_PROXY_PROTOCOL.Enum(), Host: proto.String("127.0.0.1"), Port: proto.Int32(int32(r.Rng.Range(1, 65535)))}
		if r.Rng.Bool() {
			d.Socks5UDPAssociate = proto.Bool(r.Rng.Bool())
		}
		if r.Rng.Bool() {
			d.Socks5Authentication = &pb.Auth{User: proto.String(genName("")), Password: proto.String(genPassword())}
		}
		p.Dialer = d
	}
	return p
}

var profilePool []string

func pickProfileName() string {
	if len(profilePool) < 8 {
		n := strings.ToValidUTF8(genName(""), "_")
		profilePool = append(profilePool, n)
		return n
	}
	return profilePool[r.Rng.Intn(len(profilePool))]
}

// genClient: full = accepted by ValidateFullClientConfig; otherwise a patch.
func genClient(full bool, knownProfiles []string) *pb.ClientConfig {
	c := &pb.ClientConfig{}
	n := r.Rng.Intn(4)
	if full && n == 0 {
		n = 1
	}
	names := append([]string(nil), knownProfiles...)
	for i := 0; i < n; i++ {
		pn := pickProfileName()
		c.Profiles = append(c.Profiles, genProfile(pn))
		names = append(names, pn)
	}
	if full || (len(names) > 0 && r.Rng.Intn(3) == 0) {
		c.ActiveProfile = proto.String(names[r.Rng.Intn(len(names))])
	}
	if full || r.Rng.Intn(3) == 0 {
		c.Socks5Port = proto.Int32(int32(r.Rng.Range(9000, 9999)))
	}
	if r.Rng.Intn(2) == 0 {
		c.RpcPort = proto.Int32(int32(r.Rng.Range(8000, 8999)))
		if r.Rng.Intn(5) == 0 {
			c.RpcPort = proto.Int32(0)
		}
	}
	if r.Rng.Intn(3) == 0 {
		c.HttpProxyPort = proto.Int32(int32(r.Rng.Range(10000, 10999)))
	}
	if r.Rng.Intn(3) == 0 {
		c.LoggingLevel = pb.LoggingLevel(pickEnum(pb.LoggingLevel_name)).Enum()
	}
	if r.Rng.Intn(3) == 0 {
		c.Socks5ListenLAN = proto.Bool(r.Rng.Bool())
	}
	if r.Rng.Intn(3) == 0 {
		c.HttpProxyListenLAN = proto.Bool(r.Rng.Bool())
	}
	if r.Rng.Intn(3) == 0 {
		a := &pb.ClientAdvancedSettings{}
		if r.Rng.Bool() {
			a.NoCheckUpdate = proto.Bool(r.Rng.Bool())
		}
		if r.Rng.Bool() {
			a.MetricsLoggingInterval = proto.String([]string{"1s", "30s", "1m"}[r.Rng.Intn(3)])
		}
		c.AdvancedSettings = a
	}
	if r.Rng.Intn(3) == 0 {
		for i := r.Rng.Range(1, 2); i > 0; i-- {
			c.Socks5Authentication = append(c.Socks5Authentication, &pb.Auth{User: proto.String(genName("")), Password: proto.String(genPassword())})
		}
	}
	return c
}

// ---------------------------------------------------------------- oracles written from the property text

func lastUser(us []*pb.User, name string) *pb.User {
	var f *pb.User
	for _, u := range us {
		if u.GetName() == name {
			f = u
		}
	}
	return f
}

func eqMsg(aNil bool, a proto.Message, bNil bool, b proto.Message) bool {
	if aNil || bNil {
		return aNil == bNil
	}
	return proto.Equal(a, b)
}

// "applying a patch changes only what the patch sets"
func judgeServerMerge(old, patch, res *pb.ServerConfig) string {
	pick := func(set bool) *pb.ServerConfig {
		if set {
			return patch
		}
		return old
	}
	if s := pick(patch.PortBindings != nil); !proto.Equal(&pb.ServerConfig{PortBindings: s.PortBindings}, &pb.ServerConfig{PortBindings: res.PortBindings}) {
		return "portBindings"
	}
	if s := pick(patch.AdvancedSettings != nil); !eqMsg(s.AdvancedSettings == nil, s.AdvancedSettings, res.AdvancedSettings == nil, res.AdvancedSettings) {
		return "advancedSettings"
	}
	if s := pick(patch.LoggingLevel != nil); s.GetLoggingLevel() != res.GetLoggingLevel() {
		return "loggingLevel"
	}
	if s := pick(patch.Mtu != nil); s.GetMtu() != res.GetMtu() {
		return "mtu"
	}
	if s := pick(patch.Egress != nil); !eqMsg(s.Egress == nil, s.Egress, res.Egress == nil, res.Egress) {
		return "egress"
	}
	if s := pick(patch.Dns != nil); !eqMsg(s.Dns == nil, s.Dns, res.Dns == nil, res.Dns) {
		return "dns"
	}
	if s := pick(patch.TrafficPattern != nil); !eqMsg(s.TrafficPattern == nil, s.TrafficPattern, res.TrafficPattern == nil, res.TrafficPattern) {
		return "trafficPattern"
	}
	names := map[string]bool{}
	for _, u := range old.Users {
		names[u.GetName()] = true
	}
	for _, u := range patch.Users {
		names[u.GetName()] = true
	}
	if len(res.Users) != len(names) {
		return fmt.Sprintf("users: %d entries for %d distinct names", len(res.Users), len(names))
	}
	for n := range names {
		want := lastUser(patch.Users, n)
		if want == nil {
			want = lastUser(old.Users, n)
		}
		got := lastUser(res.Users, n)
		if got == nil || !proto.Equal(got, want) {
			return fmt.Sprintf("user %q", n)
		}
	}
	return ""
}

func lastProfile(ps []*pb.ClientProfile, name string) *pb.ClientProfile {
	var f *pb.ClientProfile
	for _, p := range ps {
		if p.GetProfileName() == name {
			f = p
		}
	}
	return f
}

func judgeClientMerge(old, patch, res *pb.ClientConfig) string {
	pick := func(set bool) *pb.ClientConfig {
		if set {
			return patch
		}
		return old
	}
	if pick(patch.ActiveProfile != nil).GetActiveProfile() != res.GetActiveProfile() {
		return "activeProfile"
	}
	if s := pick(patch.RpcPort != nil); (s.RpcPort == nil) != (res.RpcPort == nil) || s.GetRpcPort() != res.GetRpcPort() {
		return "rpcPort"
	}
	if pick(patch.Socks5Port != nil).GetSocks5Port() != res.GetSocks5Port() {
		return "socks5Port"
	}
	if s := pick(patch.AdvancedSettings != nil); !eqMsg(s.AdvancedSettings == nil, s.AdvancedSettings, res.AdvancedSettings == nil, res.AdvancedSettings) {
		return "advancedSettings"
	}
	if pick(patch.LoggingLevel != nil).GetLoggingLevel() != res.GetLoggingLevel() {
		return "loggingLevel"
	}
	if s := pick(patch.Socks5ListenLAN != nil); (s.Socks5ListenLAN == nil) != (res.Socks5ListenLAN == nil) || s.GetSocks5ListenLAN() != res.GetSocks5ListenLAN() {
		return "socks5ListenLAN"
	}
	if s := pick(patch.HttpProxyPort != nil); (s.HttpProxyPort == nil) != (res.HttpProxyPort == nil) || s.GetHttpProxyPort() != res.GetHttpProxyPort() {
		return "httpProxyPort"
	}
	if s := pick(patch.HttpProxyListenLAN != nil); (s.HttpProxyListenLAN == nil) != (res.HttpProxyListenLAN == nil) || s.GetHttpProxyListenLAN() != res.GetHttpProxyListenLAN() {
		return "httpProxyListenLAN"
	}
	if s := pick(len(patch.Socks5Authentication) != 0); !proto.Equal(&pb.ClientConfig{Socks5Authentication: s.Socks5Authentication}, &pb.ClientConfig{Socks5Authentication: res.Socks5Authentication}) {
		return "socks5Authentication"
	}
	names := map[string]bool{}
	for _, p := range old.Profiles {
		names[p.GetProfileName()] = true
	}
	for _, p := range patch.Profiles {
		names[p.GetProfileName()] = true
	}
	if len(res.Profiles) != len(names) {
		return fmt.Sprintf("profiles: %d entries for %d distinct names", len(res.Profiles), len(names))
	}
	for n := range names {
		want := lastProfile(patch.Profiles, n)
		if want == nil {
			want = lastProfile(old.Profiles, n)
		}
		got := lastProfile(res.Profiles, n)
		if got == nil || !proto.Equal(got, want) {
			return fmt.Sprintf("profile %q", n)
		}
	}
	return ""
}

// the documented stored form of a user: SHA-256(password || 0x00 || name) in hex, plaintext removed
func docHashUser(u *pb.User, keep bool) {
	if u == nil || u.GetPassword() == "" {
		return
	}
	u.HashedPassword = proto.String(docHash(u.GetPassword(), u.GetName()))
	if !keep {
		u.Password = proto.String("")
	}
}

func pwMarkers(us []*pb.User) [][]byte {
	var out [][]byte
	for _, u := range us {
		pw := u.GetPassword()
		if i := strings.LastIndex(pw, "pw"); i >= 0 && len(pw) >= i+8 {
			out = append(out, []byte(pw[i:i+8]))
		}
	}
	return out
}

func jsonOf(m proto.Message) string {
	b, _ := protojson.Marshal(m)
	return string(b)
}

// ---------------------------------------------------------------- server: store / load / apply

var fileSeq int

func setServerPath(jsonFmt bool) string {
	fileSeq++
	os.Unsetenv("MITA_CONFIG_FILE")
	os.Unsetenv("MITA_CONFIG_JSON_FILE")
	ext := ".pb"
	if jsonFmt {
		ext = ".json"
	}
	path := filepath.Join(tmp, fmt.Sprintf("server%d.conf%s", fileSeq%4, ext))
	os.Remove(path)
	switch fileSeq % 2 {
	case 0: // as the tests do: the package variables; the type follows from the extension
		appctl.VerifSetServerConfigPath(tmp, path)
	default: // the documented environment variables
		if jsonFmt {
			os.Setenv("MITA_CONFIG_JSON_FILE", path)
		} else {
			os.Setenv("MITA_CONFIG_FILE", path)
		}
	}
	return path
}

func parseStoredServer(raw []byte, jsonFmt bool) (*pb.ServerConfig, error) {
	c := &pb.ServerConfig{}
	if jsonFmt {
		return c, protojson.Unmarshal(raw, c)
	}
	return c, proto.Unmarshal(raw, c)
}

// storeLoadServer: returns the configuration as loaded (nil on failure)
func storeLoadServer(cfg *pb.ServerConfig, jsonFmt bool, emit bool) *pb.ServerConfig {
	orig := proto.Clone(cfg).(*pb.ServerConfig)
	path := setServerPath(jsonFmt)
	input := map[string]interface{}{"server": jsonOf(orig), "json": jsonFmt}
	var err error
	if guard("StoreServerConfig", input, func() { err = appctl.StoreServerConfig(cfg) }) {
		return nil
	}
	if err != nil {
		r.Fail("store-valid-server-rejected", "StoreServerConfig failed on a valid configuration: "+err.Error(), input)
		return nil
	}
	raw, _ := os.ReadFile(path)
	for _, m := range pwMarkers(orig.Users) {
		if bytes.Contains(raw, m) {
			r.Fail("plaintext-password-stored", "the stored server file contains a plaintext password", input)
			break
		}
	}
	if st, perr := parseStoredServer(raw, jsonFmt); perr == nil {
		for _, u := range st.Users {
			if u.GetPassword() != "" {
				r.Fail("plaintext-password-stored", "the stored server file has a user with a non-empty password field", input)
				break
			}
		}
	}
	var loaded *pb.ServerConfig
	if guard("LoadServerConfig", input, func() { loaded, err = appctl.LoadServerConfig() }) {
		return nil
	}
	if err != nil {
		r.Fail("load-stored-server-failed", "LoadServerConfig failed on what StoreServerConfig wrote: "+err.Error(), input)
		return nil
	}
	want := proto.Clone(orig).(*pb.ServerConfig)
	for _, u := range want.Users {
		docHashUser(u, false)
	}
	if !proto.Equal(loaded, want) {
		r.Fail("server-store-load-differs", "store-then-load is not the configuration with hashed passwords", input)
	}
	if emit {
		r.Case("SS "+tokServer(orig, false), tokServer(loaded, true))
		r.Count("server-store-load")
	}
	return loaded
}

func serverRound(i int) {
	jsonFmt := i%2 == 0
	old := genServer(true)
	if err := appctl.ValidateFullServerConfig(old); err != nil {
		r.Count("gen-invalid-server")
		return
	}
	// "can be started": the parts of StartServerProxy that interpret the configuration
	if i%5 == 0 {
		guard("server-start-path", jsonOf(old), func() {
			if _, err := appctlcommon.PortBindingsToUnderlayProperties(old.GetPortBindings(), 1400); err != nil {
				r.Fail("valid-server-not-startable", err.Error(), jsonOf(old))
			}
			if _, err := trafficpattern.NewConfig(old.GetTrafficPattern()); err != nil {
				r.Fail("valid-server-not-startable", err.Error(), jsonOf(old))
			}
		})
	}
	// direct merge (model + oracle)
	patch := genServer(false)
	{
		dst := proto.Clone(old).(*pb.ServerConfig)
		src := proto.Clone(patch).(*pb.ServerConfig)
		if r.Rng.Intn(8) == 0 && src.PortBindings == nil {
			src.PortBindings = []*pb.PortBinding{} // non-nil empty slice
		}
		caseLine := "MS " + tokServer(dst, false) + " " + tokServer(src, false)
		o2, p2 := proto.Clone(dst).(*pb.ServerConfig), proto.Clone(src).(*pb.ServerConfig)
		p2.PortBindings = src.PortBindings
		input := map[string]interface{}{"old": jsonOf(o2), "patch": jsonOf(p2)}
		if !guard("mergeServerConfig", input, func() { appctl.VerifMergeServerConfig(dst, src) }) {
			r.Case(caseLine, tokServer(dst, true))
			r.Count("server-merge")
			if len(src.PortBindings) > 0 || src.PortBindings == nil {
				if why := judgeServerMerge(o2, p2, dst); why != "" {
					r.Fail("server-patch-changes-unset-field", "merge result differs from 'patch if set else old' in "+why, input)
				}
			}
			// idempotence on the implementation
			again := proto.Clone(dst).(*pb.ServerConfig)
			appctl.VerifMergeServerConfig(again, proto.Clone(src).(*pb.ServerConfig))
			if !proto.Equal(again, dst) {
				r.Fail("server-merge-not-idempotent", "applying the same patch twice differs from applying it once", input)
			}
			r.Distinct(fmt.Sprintf("ms-%v-%v-%v-%v-%d", src.PortBindings != nil, src.Mtu != nil, src.Egress != nil, src.Dns != nil, len(src.Users)))
		}
	}
	// store / load
	loadedOld := storeLoadServer(proto.Clone(old).(*pb.ServerConfig), jsonFmt, true)
	if loadedOld == nil {
		return
	}
	r.Distinct(fmt.Sprintf("ss-%v-%d-%v-%v-%v", jsonFmt, len(old.Users), old.Egress != nil, old.Dns != nil, old.TrafficPattern != nil))
	// apply a JSON patch through the files
	if err := appctl.ValidateServerConfigPatch(patch); err != nil {
		r.Count("gen-invalid-server-patch")
		return
	}
	pj, err := common.MarshalJSON(patch)
	if err != nil {
		return
	}
	ppath := filepath.Join(tmp, "server_patch.json")
	os.WriteFile(ppath, pj, 0o600)
	input := map[string]interface{}{"old": jsonOf(old), "patch": string(pj), "json": jsonFmt}
	if guard("ApplyJSONServerConfig", input, func() { err = appctl.ApplyJSONServerConfig(ppath) }) {
		return
	}
	if err != nil {
		r.Fail("apply-valid-server-patch-rejected", "ApplyJSONServerConfig failed: "+err.Error(), input)
		return
	}
	path, _, _ := appctl.VerifServerConfigFilePath()
	raw, _ := os.ReadFile(path)
	all := append(append([]*pb.User{}, old.Users...), patch.Users...)
	for _, m := range pwMarkers(all) {
		if bytes.Contains(raw, m) {
			r.Fail("plaintext-password-stored", "after ApplyJSONServerConfig the stored server file contains a plaintext password", input)
			break
		}
	}
	var after *pb.ServerConfig
	if guard("LoadServerConfig", input, func() { after, err = appctl.LoadServerConfig() }) || err != nil {
		if err != nil {
			r.Fail("load-stored-server-failed", err.Error(), input)
		}
		return
	}
	r.Case("AS "+tokServer(loadedOld, true)+" "+tokServer(patch, false), tokServer(after, true))
	r.Count("server-apply")
	hp := proto.Clone(patch).(*pb.ServerConfig)
	for _, u := range hp.Users {
		docHashUser(u, false)
	}
	if why := judgeServerMerge(loadedOld, hp, after); why != "" {
		r.Fail("server-patch-changes-unset-field", "after ApplyJSONServerConfig the stored configuration differs from 'patch if set else old' in "+why, input)
	}
}

// ---------------------------------------------------------------- client: store / load / apply / links

func setClientPath(jsonFmt bool) string {
	fileSeq++
	os.Unsetenv("MIERU_CONFIG_FILE")
	os.Unsetenv("MIERU_CONFIG_JSON_FILE")
	appctl.VerifResetClientConfigPath()
	ext := ".pb"
	if jsonFmt {
		ext = ".json"
	}
	path := filepath.Join(tmp, fmt.Sprintf("client%d.conf%s", fileSeq%4, ext))
	os.Remove(path)
	if jsonFmt {
		os.Setenv("MIERU_CONFIG_JSON_FILE", path)
	} else {
		os.Setenv("MIERU_CONFIG_FILE", path)
	}
	return path
}

func storeLoadClient(cfg *pb.ClientConfig, jsonFmt bool, emit bool) *pb.ClientConfig {
	orig := proto.Clone(cfg).(*pb.ClientConfig)
	setClientPath(jsonFmt)
	input := map[string]interface{}{"client": jsonOf(orig), "json": jsonFmt}
	var err error
	if guard("StoreClientConfig", input, func() { err = appctl.StoreClientConfig(cfg) }) {
		return nil
	}
	if err != nil {
		r.Fail("store-valid-client-rejected", "StoreClientConfig failed on a valid configuration: "+err.Error(), input)
		return nil
	}
	var loaded *pb.ClientConfig
	if guard("LoadClientConfig", input, func() { loaded, err = appctl.LoadClientConfig() }) {
		return nil
	}
	if err != nil {
		r.Fail("load-stored-client-failed", "LoadClientConfig failed on what StoreClientConfig wrote: "+err.Error(), input)
		return nil
	}
	want := proto.Clone(orig).(*pb.ClientConfig)
	for _, p := range want.Profiles {
		docHashUser(p.User, true)
	}
	if !proto.Equal(loaded, want) {
		r.Fail("client-store-load-differs", "store-then-load is not the configuration (plus password hashes)", input)
	}
	if emit {
		r.Case("SC "+tokClient(orig, false), tokClient(loaded, true))
		r.Count("client-store-load")
	}
	return loaded
}

func profileNames(c *pb.ClientConfig) []string {
	var out []string
	for _, p := range c.Profiles {
		out = append(out, p.GetProfileName())
	}
	return out
}

var goodLinks []string

func clientRound(i int) {
	jsonFmt := i%2 == 0
	old := genClient(true, nil)
	if err := appctl.ValidateFullClientConfig(old); err != nil {
		r.Count("gen-invalid-client")
		return
	}
	if i%7 == 0 {
		if ap, err := appctl.GetActiveProfileFromConfig(old, old.GetActiveProfile()); err == nil {
			guard("NewClientMuxFromProfile", jsonOf(old), func() {
				mux, err := appctlcommon.NewClientMuxFromProfile(ap, nil, nil, nil, nil)
				if err != nil {
					r.Fail("valid-client-not-startable", err.Error(), jsonOf(old))
				} else {
					mux.Close()
				}
			})
		}
	}
	patch := genClient(false, profileNames(old))
	{
		dst := proto.Clone(old).(*pb.ClientConfig)
		src := proto.Clone(patch).(*pb.ClientConfig)
		if r.Rng.Intn(8) == 0 && src.Socks5Authentication == nil {
			src.Socks5Authentication = []*pb.Auth{}
		}
		caseLine := "MC " + tokClient(dst, false) + " " + tokClient(src, false)
		o2, p2 := proto.Clone(dst).(*pb.ClientConfig), proto.Clone(src).(*pb.ClientConfig)
		input := map[string]interface{}{"old": jsonOf(o2), "patch": jsonOf(p2)}
		if !guard("mergeClientConfigByProfile", input, func() { appctl.VerifMergeClientConfigByProfile(dst, src) }) {
			r.Case(caseLine, tokClient(dst, true))
			r.Count("client-merge")
			if src.Socks5Authentication == nil || len(src.Socks5Authentication) > 0 {
				if why := judgeClientMerge(o2, p2, dst); why != "" {
					r.Fail("client-patch-changes-unset-field", "merge result differs from 'patch if set else old' in "+why, input)
				}
			}
			again := proto.Clone(dst).(*pb.ClientConfig)
			appctl.VerifMergeClientConfigByProfile(again, proto.Clone(src).(*pb.ClientConfig))
			if !proto.Equal(again, dst) {
				r.Fail("client-merge-not-idempotent", "applying the same patch twice differs from applying it once", input)
			}
			r.Distinct(fmt.Sprintf("mc-%v-%v-%v-%d", src.ActiveProfile != nil, src.RpcPort != nil, src.Socks5Authentication != nil, len(src.Profiles)))
		}
	}
	loadedOld := storeLoadClient(proto.Clone(old).(*pb.ClientConfig), jsonFmt, true)
	if loadedOld == nil {
		return
	}
	r.Distinct(fmt.Sprintf("sc-%v-%d-%v", jsonFmt, len(old.Profiles), old.Socks5Authentication != nil))

	// ---- links of the whole configuration
	linkRoundTrip(old)

	// ---- apply a patch: JSON file, mieru:// link or mierus:// link
	if err := appctl.ValidateClientConfigPatch(patch); err != nil {
		r.Count("gen-invalid-client-patch")
		return
	}
	var err error
	how := i % 3
	input := map[string]interface{}{"old": jsonOf(old), "patch": jsonOf(patch), "json": jsonFmt, "how": how}
	applied := patch
	switch how {
	case 0:
		pj, _ := common.MarshalJSON(patch)
		ppath := filepath.Join(tmp, "client_patch.json")
		os.WriteFile(ppath, pj, 0o600)
		if guard("ApplyJSONClientConfig", input, func() { err = appctl.ApplyJSONClientConfig(ppath) }) {
			return
		}
	case 1:
		link, lerr := appctl.ClientConfigToURL(patch)
		if lerr != nil {
			return
		}
		if guard("ApplyURLClientConfig", input, func() { err = appctl.ApplyURLClientConfig(link) }) {
			return
		}
	case 2:
		if len(patch.Profiles) == 0 || patch.Profiles[0].GetUser().GetPassword() == "" {
			return
		}
		links, lerr := appctl.ClientProfileToMultiURLs(patch.Profiles[0])
		if lerr != nil || len(links) == 0 {
			return
		}
		pr, perr := appctl.URLToClientProfile(links[0])
		if perr != nil {
			return // judged in linkRoundTrip
		}
		applied = &pb.ClientConfig{Profiles: []*pb.ClientProfile{pr}}
		if guard("ApplyURLClientConfig", input, func() { err = appctl.ApplyURLClientConfig(links[0]) }) {
			return
		}
	}
	if err != nil {
		r.Fail("apply-valid-client-patch-rejected", "applying a valid client patch failed: "+err.Error(), input)
		return
	}
	var after *pb.ClientConfig
	if guard("LoadClientConfig", input, func() { after, err = appctl.LoadClientConfig() }) || err != nil {
		return
	}
	r.Count(fmt.Sprintf("client-apply-%d", how))
	hp := proto.Clone(applied).(*pb.ClientConfig)
	for _, p := range hp.Profiles {
		docHashUser(p.User, true)
	}
	if why := judgeClientMerge(loadedOld, hp, after); why != "" {
		r.Fail("client-patch-changes-unset-field", "after applying a client patch the stored configuration differs from 'patch if set else old' in "+why, input)
	}
}

// what a mierus:// link can carry of a profile with one server
func simpleView(p *pb.ClientProfile, s *pb.ServerEndpoint) *pb.ClientProfile {
	v := &pb.ClientProfile{ProfileName: proto.String(p.GetProfileName()),
		User: &pb.User{Name: proto.String(p.GetUser().GetName()), Password: proto.String(p.GetUser().GetPassword())}}
	se := &pb.ServerEndpoint{}
	if s.GetDomainName() != "" {
		se.DomainName = proto.String(s.GetDomainName())
	} else {
		se.IpAddress = proto.String(s.GetIpAddress())
	}
	for _, b := range s.PortBindings {
		nb := &pb.PortBinding{Protocol: b.GetProtocol().Enum()}
		if b.GetPort() == 0 { // a binding with a port is exported by its port (as FlatPortBindings reads it)
			parts := strings.Split(b.GetPortRange(), "-")
			lo, _ := strconv.Atoi(parts[0])
			hi, _ := strconv.Atoi(parts[1])
			nb.PortRange = proto.String(fmt.Sprintf("%d-%d", lo, hi)) // same ports, canonical spelling
		} else {
			nb.Port = proto.Int32(b.GetPort())
		}
		se.PortBindings = append(se.PortBindings, nb)
	}
	v.Servers = []*pb.ServerEndpoint{se}
	v.Mtu = p.Mtu
	if p.Multiplexing != nil && p.Multiplexing.Level != nil {
		v.Multiplexing = &pb.MultiplexingConfig{Level: p.Multiplexing.Level}
	}
	v.HandshakeMode = p.HandshakeMode
	if p.TrafficPattern != nil && len(det(p.TrafficPattern)) > 0 {
		v.TrafficPattern = p.TrafficPattern
	}
	return v
}

func linkRoundTrip(cfg *pb.ClientConfig) {
	input := map[string]interface{}{"client": jsonOf(cfg)}
	var link string
	var err error
	if guard("ClientConfigToURL", input, func() { link, err = appctl.ClientConfigToURL(cfg) }) || err != nil {
		return
	}
	linkCase(link)
	goodLinks = append(goodLinks, link)
	var back *pb.ClientConfig
	if !guard("ParseURLClientConfig", link, func() { back, err = appctl.ParseURLClientConfig(link) }) {
		if err != nil || !proto.Equal(back, cfg) {
			r.Fail("config-link-roundtrip-differs", "ClientConfigToURL then ParseURLClientConfig does not return the configuration", input)
		}
	}
	r.Count("link-roundtrip-config")
	for _, p := range cfg.Profiles {
		if p.GetUser().GetPassword() == "" {
			continue
		}
		pin := map[string]interface{}{"profile": jsonOf(p)}
		var links []string
		if guard("ClientProfileToMultiURLs", pin, func() { links, err = appctl.ClientProfileToMultiURLs(p) }) {
			continue
		}
		if err != nil || len(links) != len(p.Servers) {
			r.Fail("profile-link-export-failed", fmt.Sprintf("ClientProfileToMultiURLs on a valid profile: %v, %d links for %d servers", err, len(links), len(p.Servers)), pin)
			continue
		}
		for k, l := range links {
			simpleCase(l)
			goodLinks = append(goodLinks, l)
			var got *pb.ClientProfile
			if guard("URLToClientProfile", l, func() { got, err = appctl.URLToClientProfile(l) }) {
				continue
			}
			want := simpleView(p, p.Servers[k])
			if err != nil || !proto.Equal(got, want) {
				e := ""
				if err != nil {
					e = err.Error()
				}
				r.Fail("profile-link-roundtrip-differs", "export-then-import of a mierus:// link does not return the profile: "+e,
					map[string]interface{}{"profile": jsonOf(p), "link": l, "got": jsonOf(got), "want": jsonOf(want)})
			}
			r.Count("link-roundtrip-profile")
			r.Distinct(fmt.Sprintf("lp-%v-%v-%v-%v-%d", p.Mtu != nil, p.Multiplexing != nil, p.HandshakeMode != nil, p.TrafficPattern != nil, len(p.Servers[k].PortBindings)))
		}
	}
}

// ---------------------------------------------------------------- link parsers, case by case

func errStage(err error, table []string) string {
	m := err.Error()
	for i, p := range table {
		if p != "" && strings.HasPrefix(m, p) {
			return fmt.Sprintf("ERR %d", i)
		}
	}
	return "ERR ?" + m
}

var configStages = []string{"", "url.Parse() failed", "unrecognized URL scheme", "URL is opaque", "URL does not begin with mieru://",
	"base64.StdEncoding.DecodeString() failed", "proto.Unmarshal() failed"}

func b2(b bool) string {
	if b {
		return "1"
	}
	return "0"
}

func linkCase(s string) {
	u, perr := url.Parse(s)
	scheme, opaque := "", ""
	if perr == nil {
		scheme, opaque = u.Scheme, u.Opaque
	}
	b64ok, protook := false, false
	if len(s) >= 8 {
		if b, err := base64.StdEncoding.DecodeString(s[8:]); err == nil {
			b64ok = true
			protook = proto.Unmarshal(b, &pb.ClientConfig{}) == nil
		}
	}
	var err error
	impl := "OK"
	if guard("URLToClientConfig", s, func() { _, err = appctl.URLToClientConfig(s) }) {
		impl = "PANIC"
	} else if err != nil {
		impl = errStage(err, configStages)
	}
	r.Case(strings.Join([]string{"LG", vh.Hex([]byte(s)), b2(perr == nil), vh.Hex([]byte(scheme)), vh.Hex([]byte(opaque)), b2(b64ok), b2(protook)}, " "), impl)
	r.Count("LG")
	r.Distinct("lg-" + impl + fmt.Sprintf("-%d", imin(len(s), 10)))
}

var profileStages = []string{"", "url.Parse() failed", "unrecognized URL scheme", "URL is opaque", "URL has no user info", "URL has no user name",
	"URL has no password", "URL has no host", "url.ParseQuery() failed", "URL has no profile name", "URL has invalid MTU",
	"base64.StdEncoding.DecodeString() failed to decode traffic pattern", "proto.Unmarshal() failed to unmarshal traffic pattern",
	"URL has mismatched number", "URL has invalid port or port range", "URL has invalid begin of port range", "URL has invalid end of port range",
	"URL has invalid begin port number", "URL has invalid end port number", "URL's begin port number", "URL has invalid port number"}

func simpleCase(s string) {
	f := []string{"SL"}
	u, perr := url.Parse(s)
	if perr != nil {
		f = append(f, "0", "-", "-", "0", "-", "-", "-", "0", "0", "-", "-", "-", "0", "-", "0", "-", "0", "0", "0")
	} else {
		pw, _ := u.User.Password()
		host := u.Hostname()
		q, qerr := url.ParseQuery(u.RawQuery)
		tp := q.Get("traffic-pattern")
		tps := 0
		if tp != "" {
			if b, err := base64.StdEncoding.DecodeString(tp); err != nil {
				tps = 1
			} else if proto.Unmarshal(b, &pb.TrafficPattern{}) != nil {
				tps = 2
			}
		}
		f = append(f, "1", vh.Hex([]byte(u.Scheme)), vh.Hex([]byte(u.Opaque)), b2(u.User != nil), vh.Hex([]byte(u.User.Username())), vh.Hex([]byte(pw)),
			vh.Hex([]byte(host)), b2(net.ParseIP(host) != nil), b2(qerr == nil), vh.Hex([]byte(q.Get("profile"))), vh.Hex([]byte(q.Get("mtu"))),
			vh.Hex([]byte(q.Get("multiplexing"))), strconv.Itoa(int(pb.MultiplexingLevel_value[q.Get("multiplexing")])),
			vh.Hex([]byte(q.Get("handshake-mode"))), strconv.Itoa(int(pb.HandshakeMode_value[q.Get("handshake-mode")])),
			vh.Hex([]byte(tp)), strconv.Itoa(tps))
		f = append(f, strconv.Itoa(len(q["port"])))
		for _, p := range q["port"] {
			f = append(f, vh.Hex([]byte(p)))
		}
		f = append(f, strconv.Itoa(len(q["protocol"])))
		for _, p := range q["protocol"] {
			f = append(f, strconv.Itoa(int(pb.TransportProtocol_value[p])))
		}
	}
	var p *pb.ClientProfile
	var err error
	impl := ""
	if guard("URLToClientProfile", s, func() { p, err = appctl.URLToClientProfile(s) }) {
		impl = "PANIC"
	} else if err != nil {
		impl = errStage(err, profileStages)
	} else {
		o := []string{"OK", vh.Hex([]byte(p.GetProfileName())), vh.Hex([]byte(p.GetUser().GetName())), vh.Hex([]byte(p.GetUser().GetPassword()))}
		var sv *pb.ServerEndpoint
		if len(p.Servers) == 1 {
			sv = p.Servers[0]
		} else {
			sv = &pb.ServerEndpoint{}
			o[0] = fmt.Sprintf("OK?servers=%d", len(p.Servers))
		}
		var mux *int32
		if p.Multiplexing != nil {
			v := int32(p.Multiplexing.GetLevel())
			mux = &v
		}
		o = append(o, ob(sv.IpAddress), ob(sv.DomainName), oi(p.Mtu), oi(mux), oenum(p.HandshakeMode), b2(p.TrafficPattern != nil), strconv.Itoa(len(sv.PortBindings)))
		for _, b := range sv.PortBindings {
			if b.PortRange != nil {
				o = append(o, fmt.Sprintf("R%s/%d", b.GetPortRange(), int(b.GetProtocol())))
			} else {
				o = append(o, fmt.Sprintf("P%d/%d", b.GetPort(), int(b.GetProtocol())))
			}
		}
		impl = strings.Join(o, " ")
	}
	r.Case(strings.Join(f, " "), impl)
	r.Count("SL")
	k := impl
	if len(k) > 6 {
		k = k[:6]
	}
	r.Distinct("sl-" + k)
}

func anyString(s string) {
	linkCase(s)
	simpleCase(s)
	guard("ParseURLClientConfig", s, func() { appctl.ParseURLClientConfig(s) })
}

func mutate(s string) string {
	b := []byte(s)
	for k := r.Rng.Range(1, 3); k > 0; k-- {
		switch r.Rng.Intn(5) {
		case 0:
			if len(b) > 0 {
				b[r.Rng.Intn(len(b))] = byte(r.Rng.Intn(256))
			}
		case 1:
			if len(b) > 0 {
				i := r.Rng.Intn(len(b))
				b = append(b[:i], b[i+1:]...)
			}
		case 2:
			i := r.Rng.Intn(len(b) + 1)
			ins := specials[r.Rng.Intn(len(specials))]
			b = append(b[:i], append([]byte(ins), b[i:]...)...)
		case 3:
			if len(b) > 0 {
				b = b[:r.Rng.Intn(len(b))]
			}
		case 4:
			i := r.Rng.Intn(len(b) + 1)
			ins := []string{"&port=1", "&protocol=TCP", "&port=1-2", "&port=5-", "&port=-5-6", "&port=70000", "&port=0", "&mtu=x", "&mtu=99999999999", "&traffic-pattern=!!", "&traffic-pattern=/w==", ";", "%", "&multiplexing=NOPE", "&port=9-3", "&port=+7", "&port=1-99999"}[r.Rng.Intn(17)]
			b = append(b[:i], append([]byte(ins), b[i:]...)...)
		}
	}
	return string(b)
}

// ---------------------------------------------------------------- JSON parser

func jsonMalformed(n int) {
	sv := genServer(true)
	cl := genClient(true, nil)
	sj, _ := common.MarshalJSON(sv)
	cj, _ := common.MarshalJSON(cl)
	base := []string{string(sj), string(cj), "", "{", "}", "[]", "null", "{}", `{"users":null}`, `{"users":[null]}`, `{"portBindings":[{}]}`, `{"portBindings":[{"port":"x"}]}`,
		`{"mtu":1e99}`, `{"users":[{"name":"a","password":"b","quotas":[null]}]}`, `{"profiles":[null]}`, `{"profiles":[{"servers":[null]}]}`, `{"dns":{"hosts":{"":""}}}`,
		`{"egress":{"rules":[{"domainNames":[""]}]}}`, `{"egress":{"rules":[{"action":"PROXY"}]}}`, `{"trafficPattern":{"nonce":{"customHexStrings":["zz"]}}}`, "\x00", "\xff\xfe", `{"unknown":1}`,
		`{"profiles":[{"profileName":"p","user":{"name":"u","password":"p"},"servers":[{"ipAddress":"1.2.3.4","portBindings":[{"portRange":"5-","protocol":"TCP"}]}]}]}`,
		`{"advancedSettings":{"metricsLoggingInterval":"x"}}`, `{"loggingLevel":99}`, `{"loggingLevel":"NOPE"}`}
	path := filepath.Join(tmp, "malformed.json")
	for i := 0; i < n; i++ {
		var s string
		if i < len(base) {
			s = base[i]
		} else if i%3 == 0 {
			s = string(r.Rng.Bytes(r.Rng.Intn(40)))
		} else {
			s = mutate(base[r.Rng.Intn(2)])
		}
		os.WriteFile(path, []byte(s), 0o600)
		res := ""
		setServerPath(i%2 == 0)
		appctl.StoreServerConfig(proto.Clone(sv).(*pb.ServerConfig))
		guard("ApplyJSONServerConfig", s, func() {
			if appctl.ApplyJSONServerConfig(path) == nil {
				res += "s"
			}
		})
		setClientPath(i%2 == 0)
		appctl.StoreClientConfig(proto.Clone(cl).(*pb.ClientConfig))
		guard("ApplyJSONClientConfig", s, func() {
			if appctl.ApplyJSONClientConfig(path) == nil {
				res += "c"
			}
		})
		guard("common.UnmarshalJSON", s, func() { common.UnmarshalJSON([]byte(s), &pb.ServerConfig{}) })
		guard("common.UnmarshalJSON", s, func() { common.UnmarshalJSON([]byte(s), &pb.ClientConfig{}) })
		// whatever was accepted must still load and still hold no plaintext password
		if strings.Contains(res, "s") {
			if c, err := appctl.LoadServerConfig(); err != nil {
				r.Fail("load-stored-server-failed", "after an accepted JSON patch: "+err.Error(), s)
			} else {
				for _, u := range c.Users {
					if u.GetPassword() != "" {
						r.Fail("plaintext-password-stored", "after an accepted JSON patch a stored user has a password", s)
					}
				}
			}
		}
		r.Count("json-text-" + res)
		r.Rep.Evaluations++
	}
}

// ---------------------------------------------------------------- ports and numbers

func portCases() {
	ranges := []string{"1-1", "1-65535", "0-1", "1-65536", "65535-65535", "65536-65536", "2-1", "-1-2", "1-2-3", "1–2", "1-2\n", " 1-2", "1-2 ", "+1-2", "1-+2", "01-02",
		"99999999999999999999-1", "1-99999999999999999999", "9223372036854775808-1", "", "-", "1-", "-1", "a-b", "１-２", "2012-2022", "0-0", "00001-65535", "1--2", "1 - 2", "5"}
	n := 200
	if r.Thorough() {
		n = 20000
	}
	const alpha = "0123456789-+ 0123456789-"
	for i := 0; i < n; i++ {
		b := make([]byte, r.Rng.Intn(12))
		for j := range b {
			b[j] = alpha[r.Rng.Intn(len(alpha))]
		}
		ranges = append(ranges, string(b))
		lo, hi := r.Rng.Intn(70000), r.Rng.Intn(70000)
		ranges = append(ranges, fmt.Sprintf("%d-%d", lo, hi))
	}
	for _, s := range ranges {
		res, err := appctlcommon.FlatPortBindings([]*pb.PortBinding{{PortRange: proto.String(s), Protocol: pb.TransportProtocol_TCP.Enum()}})
		impl := "ERR"
		if err == nil {
			impl = fmt.Sprintf("OK %d", len(res))
		}
		r.Case("PR "+vh.Hex([]byte(s)), impl)
		r.Count("PR")
		r.Distinct("pr-" + impl[:2] + fmt.Sprintf("-%d", imin(len(s), 12)))
		// the link importer on the same text
		simpleCase("mierus://u:p@h.example?profile=x&port=" + url.QueryEscape(s) + "&protocol=TCP")
	}
	for i := 0; i < n; i++ {
		var bs []*pb.PortBinding
		for k := r.Rng.Range(0, 3); k > 0; k-- {
			b := &pb.PortBinding{}
			if r.Rng.Intn(6) != 0 {
				b.Protocol = pb.TransportProtocol(r.Rng.Intn(4)).Enum()
			}
			switch r.Rng.Intn(4) {
			case 0:
				b.Port = proto.Int32([]int32{0, -1, 1, 65535, 65536, 70000, -65535}[r.Rng.Intn(7)])
			case 1:
				b.Port = proto.Int32(int32(r.Rng.Range(1, 65535)))
			}
			if r.Rng.Intn(2) == 0 {
				b.PortRange = proto.String(ranges[r.Rng.Intn(len(ranges))])
			}
			bs = append(bs, b)
		}
		_, err := appctlcommon.FlatPortBindings(bs)
		impl := "OK"
		if err != nil {
			impl = "ERR"
		}
		r.Case("FB "+tokPBs(bs), impl)
		r.Count("FB")
	}
	nums := []string{"", "+", "-", "0", "-0", "+5", "0005", "9223372036854775807", "9223372036854775808", "-9223372036854775808", "-9223372036854775809",
		"1_000", " 1", "1 ", "0x10", "१२", "99999999999999999999999", "+-1", "--1", "1e3", "１"}
	for i := 0; i < n; i++ {
		b := make([]byte, r.Rng.Intn(22))
		for j := range b {
			b[j] = "0123456789+-_ 0123456789"[r.Rng.Intn(24)]
		}
		nums = append(nums, string(b))
	}
	for _, s := range nums {
		v, err := strconv.Atoi(s)
		impl := "ERR"
		if err == nil {
			impl = strconv.Itoa(v)
		}
		r.Case("AT "+vh.Hex([]byte(s)), impl)
		r.Count("AT")
	}
}

// ---------------------------------------------------------------- validated => usable: the first use of a name

// boundaryNames: byte length versus rune count around MaxUserNameLen (64), valid and invalid UTF-8.
func boundaryNames() []string {
	return []string{
		strings.Repeat("n", 63), strings.Repeat("n", 64), strings.Repeat("n", 65),
		strings.Repeat("日", 21) + "a", strings.Repeat("日", 21), strings.Repeat("日", 22), strings.Repeat("日", 30), strings.Repeat("日", 64),
		strings.Repeat("é", 32), strings.Repeat("é", 33), strings.Repeat("é", 64), strings.Repeat("é", 65),
		strings.Repeat("😀", 16), strings.Repeat("😀", 17), strings.Repeat("😀", 64),
		"a" + strings.Repeat("ß", 31) + "b", "a" + strings.Repeat("ß", 32),
		strings.Repeat("\xff", 64), strings.Repeat("\xff", 65), "ok\xc3", strings.Repeat("\xe6\x97", 40), "日本" + strings.Repeat("x", 59),
	}
}

var usableCache = map[string]string{}

// nameUsable: "" when the consumers of a user name (the nonce user hint on both sides, the server's user
// registry) take the name; otherwise what went wrong. Independent of any validator.
func nameUsable(name string) string {
	if v, ok := usableCache[name]; ok {
		return v
	}
	res := ""
	func() {
		defer func() {
			if e := recover(); e != nil {
				res = fmt.Sprintf("panic in the user hint: %v", e)
			}
		}()
		nonce := make([]byte, 24)
		out := cipher.VerifC09AddUserHint(name, nonce)
		if !cipher.CheckUserFromHint([]byte(name), out) {
			res = "the hint written for the name is not recognised for the same name"
		}
	}()
	if res == "" {
		func() {
			defer func() {
				if e := recover(); e != nil {
					res = fmt.Sprintf("panic in the user registry: %v", e)
				}
			}()
			st := serveruser.VerifBuildState(map[string]*pb.User{name: {Name: proto.String(name), Password: proto.String("pwUSABLE")}}, nil)
			_, names, _ := st.Users()
			if len(names) != 1 || names[0] != name {
				res = "the server's user registry drops the user"
			}
		}()
	}
	usableCache[name] = res
	return res
}

func judgeNames(what string, names []string, input interface{}) {
	for _, n := range names {
		if why := nameUsable(n); why != "" {
			sig := "validated-name-unusable"
			if strings.HasPrefix(why, "panic") {
				sig = "validated-name-panics-downstream"
			}
			r.Fail(sig, fmt.Sprintf("%s accepts user name %q (%d bytes) but %s", what, n, len(n), why), input)
		}
	}
}

func hintCases() {
	names := append(boundaryNames(), "", "a", strings.Repeat("x", 64), strings.Repeat("x", 200))
	names = append(names, userPool...)
	for _, n := range names {
		impl := "OK"
		func() {
			defer func() {
				if recover() != nil {
					impl = "PANIC"
				}
			}()
			cipher.CheckUserFromHint([]byte(n), make([]byte, 24))
		}()
		r.Case("NH "+hb(n), impl)
		r.Count("NH")
		r.Distinct(fmt.Sprintf("nh-%s-%d", impl, imin(len(n), 70)))
	}
}

// ---------------------------------------------------------------- operation histories on ONE server file

type hist struct {
	path    string
	jsonFmt bool
	markers [][]byte
	log     []string
}

func (h *hist) fileConfig() (*pb.ServerConfig, []byte, bool) {
	raw, err := os.ReadFile(h.path)
	if err != nil {
		return nil, nil, false
	}
	c, perr := parseStoredServer(raw, h.jsonFmt)
	if perr != nil {
		r.Fail("stored-file-unparsable", "the server file cannot be parsed independently: "+perr.Error(), h.log)
		return nil, raw, false
	}
	return c, raw, true
}

func (h *hist) noPlaintext(where string, text []byte, users []*pb.User) {
	for _, m := range h.markers {
		if bytes.Contains(text, m) {
			r.Fail("plaintext-password-visible", where+" shows a plaintext password", h.log)
			return
		}
	}
	for _, u := range users {
		if u.GetPassword() != "" {
			r.Fail("plaintext-password-visible", where+" returns a user with a non-empty password", h.log)
			return
		}
	}
}

// observe: Load (twice, mutating the first result in between), GetJSON and the raw file must all say the same.
func (h *hist) observe() string {
	fileCfg, raw, exists := h.fileConfig()
	var l1, l2 *pb.ServerConfig
	var e1, e2 error
	if guard("LoadServerConfig", h.log, func() { l1, e1 = appctl.LoadServerConfig() }) {
		return "PANIC"
	}
	if exists != (e1 == nil) {
		r.Fail("load-differs-from-file", fmt.Sprintf("file exists=%v but LoadServerConfig err=%v", exists, e1), h.log)
	}
	if !exists {
		return "NOFILE"
	}
	if e1 == nil && !proto.Equal(l1, fileCfg) {
		r.Fail("load-differs-from-file", "LoadServerConfig returns a configuration that is not what the file holds", h.log)
	}
	h.noPlaintext("the server file", raw, nil)
	if e1 == nil {
		h.noPlaintext("LoadServerConfig", nil, l1.Users)
		// the caller owns what Load returned: scribbling on it must not change what the next Load returns
		l1.Users = append(l1.Users, &pb.User{Name: proto.String("alias"), Password: proto.String("pwALIAS01")})
		l1.Mtu = proto.Int32(1)
		l1.PortBindings = nil
	}
	var js string
	var ej error
	if !guard("GetJSONServerConfig", h.log, func() { js, ej = appctl.GetJSONServerConfig() }) && ej == nil {
		jc := &pb.ServerConfig{}
		if err := protojson.Unmarshal([]byte(js), jc); err != nil || !proto.Equal(jc, fileCfg) {
			sig := "load-differs-from-file"
			if bytes.Contains([]byte(js), []byte("pwALIAS01")) {
				sig = "load-aliases-previous-result"
			}
			r.Fail(sig, "GetJSONServerConfig does not describe what the file holds", h.log)
		} else {
			h.noPlaintext("GetJSONServerConfig", []byte(js), nil)
		}
	}
	if guard("LoadServerConfig", h.log, func() { l2, e2 = appctl.LoadServerConfig() }) || e2 != nil {
		return "ERR"
	}
	if !proto.Equal(l2, fileCfg) {
		r.Fail("load-aliases-previous-result", "after the caller modified a loaded configuration the next LoadServerConfig returns the modification", h.log)
	}
	return tokServer(l2, true)
}

func (h *hist) note(c *pb.ServerConfig) {
	h.markers = append(h.markers, pwMarkers(c.Users)...)
	for _, u := range c.Users {
		if u.Password != nil {
			regPre(u.GetPassword(), u.GetName())
		}
	}
}

// do runs one operation, then observes; rejected operations must leave file and observation as they were.
func (h *hist) do(caseLine, what string, op func() error) {
	h.log = append(h.log, what)
	_, rawBefore, _ := h.fileConfig()
	var before *pb.ServerConfig
	if c, err := appctl.LoadServerConfig(); err == nil {
		before = proto.Clone(c).(*pb.ServerConfig)
	}
	var err error
	if guard("history-op", h.log, func() { err = op() }) {
		r.Case(caseLine, "PANIC")
		return
	}
	_, rawAfter, _ := h.fileConfig()
	if err != nil {
		var after *pb.ServerConfig
		if c, lerr := appctl.LoadServerConfig(); lerr == nil {
			after = c
		}
		if !bytes.Equal(rawBefore, rawAfter) {
			r.Fail("rejected-op-changed-file", "an operation that returned an error changed the server file: "+err.Error(), h.log)
		}
		if (before == nil) != (after == nil) || (before != nil && !proto.Equal(before, after)) {
			r.Fail("rejected-op-changed-observation", "after an operation that returned an error LoadServerConfig answers differently: "+err.Error(), h.log)
		}
	}
	obs := h.observe()
	if err != nil {
		r.Case(caseLine, "REJ "+obs)
		r.Count("hist-rejected")
	} else {
		r.Case(caseLine, "OK "+obs)
		r.Count("hist-accepted")
	}
}

func historyRound(i int) {
	h := &hist{jsonFmt: i%2 == 0}
	h.path = setServerPath(h.jsonFmt)
	h.log = []string{fmt.Sprintf("json=%v", h.jsonFmt)}
	r.Case("HR", "-")
	ppath := filepath.Join(tmp, "hist_patch.json")
	apply := func(patch *pb.ServerConfig, label string) {
		h.note(patch)
		pj, err := common.MarshalJSON(patch)
		if err != nil {
			return
		}
		os.WriteFile(ppath, pj, 0o600)
		h.do("HA "+tokServer(patch, false), label+" "+string(pj), func() error { return appctl.ApplyJSONServerConfig(ppath) })
	}
	store := func(c *pb.ServerConfig, label string) {
		h.note(c)
		line := "HS " + tokServer(c, false)
		h.do(line, label+" "+jsonOf(c), func() error { return appctl.StoreServerConfig(proto.Clone(c).(*pb.ServerConfig)) })
	}
	usersOnly := func() *pb.ServerConfig {
		c := &pb.ServerConfig{}
		for k := r.Rng.Range(1, 3); k > 0; k-- {
			c.Users = append(c.Users, genUser(true, pickUserName()))
		}
		if r.Rng.Bool() {
			c.LoggingLevel = pb.LoggingLevel(pickEnum(pb.LoggingLevel_name)).Enum()
		}
		return c
	}
	// ---- the starting point: often a configuration that is stored but not (yet) startable
	switch i % 5 {
	case 0:
		store(&pb.ServerConfig{}, "store-empty")
	case 1:
		store(usersOnly(), "store-users-only")
	case 2:
		c := genServer(true)
		c.Mtu = proto.Int32(5)
		store(c, "store-bad-mtu")
	case 3: // nothing stored yet
	default:
		store(genServer(true), "store-valid")
	}
	steps := r.Rng.Range(5, 12)
	for k := 0; k < steps; k++ {
		switch r.Rng.Intn(12) {
		case 0, 1:
			apply(usersOnly(), "apply-users-only")
		case 2:
			apply(&pb.ServerConfig{PortBindings: genPortBindings()}, "apply-ports-only")
		case 3:
			apply(genServer(false), "apply-generated-patch")
		case 4:
			bad := usersOnly()
			switch r.Rng.Intn(3) {
			case 0:
				bad.Mtu = proto.Int32(5)
			case 1:
				bad.Users[0].Name = proto.String("")
			default:
				bad.PortBindings = []*pb.PortBinding{{Port: proto.Int32(70000), Protocol: pb.TransportProtocol_TCP.Enum()}}
			}
			apply(bad, "apply-invalid-patch")
		case 5:
			txt := []string{"{", "", `{"users":[{"name":"a","password":"pwMALFORM1"`, "\xff", `{"nope":1}`}[r.Rng.Intn(5)]
			os.WriteFile(ppath, []byte(txt), 0o600)
			h.do("HM", "apply-malformed "+txt, func() error { return appctl.ApplyJSONServerConfig(ppath) })
		case 6:
			h.do("HL", "load", func() error { _, err := appctl.LoadServerConfig(); return err })
		case 7:
			h.do("HG", "getjson", func() error { _, err := appctl.GetJSONServerConfig(); return err })
		case 8:
			store(genServer(r.Rng.Bool()), "store")
		case 9:
			apply(&pb.ServerConfig{Mtu: proto.Int32(int32(r.Rng.Range(1280, 1500)))}, "apply-mtu-only")
		default:
			var names []string
			if cur, err := appctl.LoadServerConfig(); err == nil {
				for _, u := range cur.Users {
					if r.Rng.Bool() {
						names = append(names, u.GetName())
					}
				}
			}
			if r.Rng.Intn(3) == 0 {
				names = append(names, pickUserName())
			}
			f := []string{"HD", strconv.Itoa(len(names))}
			for _, n := range names {
				f = append(f, hb(n))
			}
			h.do(strings.Join(f, " "), fmt.Sprintf("delete-users %q", names), func() error { return appctl.DeleteServerUsers(names) })
		}
	}
	r.Distinct(fmt.Sprintf("hist-%d-%v-%d", i%5, h.jsonFmt, steps))
}

// ---------------------------------------------------------------- validators (case kinds VS VP VC VK)

var flatErrs = []string{"protocol is not set", "port number", "unknown protocol", "unable to parse port range", "unable to parse int", "begin of port range"}

func hasAnyPrefix(m string, ps []string) bool {
	for _, p := range ps {
		if strings.HasPrefix(m, p) {
			return true
		}
	}
	return false
}

func serverCode(err error) string {
	if err == nil {
		return "0"
	}
	m := err.Error()
	switch {
	case hasAnyPrefix(m, flatErrs):
		return "1"
	case strings.HasPrefix(m, "user name is not set"):
		return "21"
	case strings.HasPrefix(m, "user password is not set"):
		return "22"
	case strings.HasPrefix(m, "user name exceeds"):
		return "23"
	case strings.HasPrefix(m, "user password exceeds"):
		return "24"
	case strings.HasPrefix(m, "quota: number of days") && strings.Contains(m, "exceeds maximum"):
		return "26"
	case strings.HasPrefix(m, "quota: number of days"):
		return "25"
	case strings.HasPrefix(m, "quota: traffic volume"):
		return "27"
	case strings.HasPrefix(m, "MTU value"):
		return "3"
	case strings.HasPrefix(m, "egress proxy"), strings.HasPrefix(m, "found duplicate egress proxy name"):
		return "4"
	case strings.HasPrefix(m, "egress rule"):
		return "5"
	case strings.HasPrefix(m, "invalid DNS configuration"):
		return "6"
	case strings.HasPrefix(m, "metrics logging interval"):
		return "7"
	case strings.HasPrefix(m, "invalid traffic pattern"):
		return "8"
	case strings.HasPrefix(m, "server config is empty"):
		return "9"
	case strings.HasPrefix(m, "server port binding is not set"):
		return "10"
	}
	return "?" + m
}

func clientCode(err error) string {
	if err == nil {
		return "0"
	}
	m := err.Error()
	table := []struct {
		p string
		c string
	}{{"profile name is not set", "31"}, {"user name is not set", "32"}, {"user password is not set", "33"}, {"user name exceeds", "34"},
		{"user password exceeds", "35"}, {"user quota is not supported", "36"}, {"servers are not set", "37"}, {"neither server IP", "38"},
		{"failed to parse IP address", "39"}, {"server port binding is not set", "40"}, {"MTU value", "42"}, {"invalid traffic pattern", "43"},
		{"client profile dialer", "44"}, {"socks5 authentication", "51"}, {"metrics logging interval", "52"}, {"profiles are not set", "53"},
		{"active profile is not set", "54"}, {"active profile is not found", "55"}, {"HTTP proxy port number", ""}, {"RPC port number", ""}, {"socks5 port number", "57"}}
	if hasAnyPrefix(m, flatErrs) {
		return "41"
	}
	for _, t := range table {
		if strings.HasPrefix(m, t.p) {
			switch t.p {
			case "RPC port number":
				if strings.Contains(m, "is the same") {
					return "58"
				}
				return "56"
			case "HTTP proxy port number":
				if strings.Contains(m, "same as RPC") {
					return "60"
				}
				if strings.Contains(m, "same as socks5") {
					return "61"
				}
				return "59"
			}
			return t.c
		}
	}
	return "?" + m
}

func vServer(c *pb.ServerConfig) {
	var e1, e2 error
	if guard("ValidateFullServerConfig", jsonOf(c), func() { e1 = appctl.ValidateFullServerConfig(c); e2 = appctl.ValidateServerConfigPatch(c) }) {
		return
	}
	t := tokServer(c, false)
	r.Case("VS "+t, serverCode(e1))
	r.Case("VP "+t, serverCode(e2))
	if e2 == nil {
		var names []string
		for _, u := range c.Users {
			names = append(names, u.GetName())
		}
		judgeNames("ValidateServerConfigPatch", names, jsonOf(c))
	}
	r.Count("V-server")
	r.Distinct("vs-" + serverCode(e1))
}

func vClient(c *pb.ClientConfig) {
	var e1, e2 error
	if guard("ValidateFullClientConfig", jsonOf(c), func() { e1 = appctl.ValidateFullClientConfig(c); e2 = appctl.ValidateClientConfigPatch(c) }) {
		return
	}
	t := tokClient(c, false)
	r.Case("VC "+t, clientCode(e1))
	r.Case("VK "+t, clientCode(e2))
	if e2 == nil {
		var names []string
		for _, p := range c.Profiles {
			names = append(names, p.GetUser().GetName())
		}
		judgeNames("ValidateClientConfigPatch", names, jsonOf(c))
	}
	r.Count("V-client")
	r.Distinct("vc-" + clientCode(e1))
}

func rep(c string, n int) *string { return proto.String(strings.Repeat(c, n)) }

func firstUser(c *pb.ServerConfig) *pb.User {
	if len(c.Users) == 0 {
		c.Users = []*pb.User{{Name: proto.String("u0"), Password: proto.String("pwAAAAAA")}}
	}
	return c.Users[0]
}

func firstEgress(c *pb.ServerConfig) *pb.EgressProxy {
	c.Egress = &pb.Egress{Proxies: []*pb.EgressProxy{{Name: proto.String("px"), Protocol: pb.ProxyProtocol_SOCKS5_PROXY_PROTOCOL.Enum(), Host: proto.String("h"), Port: proto.Int32(1080)}}}
	return c.Egress.Proxies[0]
}

func serverBoundaries() []func(*pb.ServerConfig) {
	var ms []func(*pb.ServerConfig)
	add := func(f func(*pb.ServerConfig)) { ms = append(ms, f) }
	for _, n := range []int{0, 1, 63, 64, 65, 200} {
		n := n
		add(func(c *pb.ServerConfig) { firstUser(c).Name = rep("n", n) })
		add(func(c *pb.ServerConfig) { firstUser(c).Password = rep("p", n) })
		add(func(c *pb.ServerConfig) { u := firstUser(c); u.Password = rep("p", n); u.HashedPassword = nil })
	}
	for _, bn := range boundaryNames() {
		bn := bn
		add(func(c *pb.ServerConfig) { firstUser(c).Name = proto.String(bn) })
	}
	add(func(c *pb.ServerConfig) { u := firstUser(c); u.Password = nil; u.HashedPassword = nil })
	add(func(c *pb.ServerConfig) { u := firstUser(c); u.Password = nil; u.HashedPassword = proto.String("00") })
	for _, d := range []int32{-1, 0, 1, 106750, 106751, 106752, 2147483647, -2147483648} {
		d := d
		add(func(c *pb.ServerConfig) {
			firstUser(c).Quotas = []*pb.Quota{{Days: proto.Int32(d), Megabytes: proto.Int32(1)}}
		})
		add(func(c *pb.ServerConfig) {
			firstUser(c).Quotas = []*pb.Quota{{Days: proto.Int32(1), Megabytes: proto.Int32(d)}}
		})
		add(func(c *pb.ServerConfig) {
			firstUser(c).Quotas = []*pb.Quota{{Days: proto.Int32(1), Megabytes: proto.Int32(1)}, {Days: proto.Int32(d), Megabytes: proto.Int32(0)}}
		})
	}
	add(func(c *pb.ServerConfig) { firstUser(c).Quotas = []*pb.Quota{{}} })
	for _, m := range []int32{-1, 0, 1, 1279, 1280, 1281, 1499, 1500, 1501, 65535} {
		m := m
		add(func(c *pb.ServerConfig) { c.Mtu = proto.Int32(m) })
	}
	for _, p := range []int32{-1, 0, 1, 65535, 65536, 2147483647} {
		p := p
		add(func(c *pb.ServerConfig) {
			c.PortBindings = []*pb.PortBinding{{Port: proto.Int32(p), Protocol: pb.TransportProtocol_TCP.Enum()}}
		})
		add(func(c *pb.ServerConfig) { firstEgress(c).Port = proto.Int32(p) })
	}
	for _, rg := range []string{"1-65535", "0-1", "2-1", "1-65536", "65535-65535", "", "5", "1-2-3", "+1-2"} {
		rg := rg
		add(func(c *pb.ServerConfig) {
			c.PortBindings = []*pb.PortBinding{{PortRange: proto.String(rg), Protocol: pb.TransportProtocol_UDP.Enum()}}
		})
	}
	for _, pr := range []int32{0, 1, 2, 3} {
		pr := pr
		add(func(c *pb.ServerConfig) {
			c.PortBindings = []*pb.PortBinding{{Port: proto.Int32(5), Protocol: pb.TransportProtocol(pr).Enum()}}
		})
		add(func(c *pb.ServerConfig) { firstEgress(c).Protocol = pb.ProxyProtocol(pr).Enum() })
	}
	add(func(c *pb.ServerConfig) { c.PortBindings = nil })
	add(func(c *pb.ServerConfig) { c.PortBindings = []*pb.PortBinding{} })
	add(func(c *pb.ServerConfig) { proto.Reset(c) })
	add(func(c *pb.ServerConfig) { proto.Reset(c); c.Mtu = proto.Int32(0) })
	add(func(c *pb.ServerConfig) {
		proto.Reset(c)
		c.Users = []*pb.User{{Name: proto.String("a"), Password: proto.String("b")}}
	})
	add(func(c *pb.ServerConfig) { firstEgress(c).Name = proto.String("") })
	add(func(c *pb.ServerConfig) { firstEgress(c).Host = proto.String("") })
	add(func(c *pb.ServerConfig) {
		p := firstEgress(c)
		c.Egress.Proxies = append(c.Egress.Proxies, proto.Clone(p).(*pb.EgressProxy))
	})
	add(func(c *pb.ServerConfig) { firstEgress(c).Socks5Authentication = &pb.Auth{User: proto.String("u")} })
	add(func(c *pb.ServerConfig) { firstEgress(c).Socks5Authentication = &pb.Auth{Password: proto.String("p")} })
	add(func(c *pb.ServerConfig) {
		firstEgress(c).Socks5Authentication = &pb.Auth{User: proto.String("u"), Password: proto.String("p")}
	})
	add(func(c *pb.ServerConfig) { firstEgress(c).Socks5Authentication = &pb.Auth{} })
	rule := func(ru *pb.EgressRule) func(*pb.ServerConfig) {
		return func(c *pb.ServerConfig) { firstEgress(c); c.Egress.Rules = []*pb.EgressRule{ru} }
	}
	add(rule(&pb.EgressRule{IpRanges: []string{"bad"}, Action: pb.EgressAction_DIRECT.Enum()}))
	add(rule(&pb.EgressRule{IpRanges: []string{"*", "10.0.0.0/8"}, Action: pb.EgressAction_REJECT.Enum()}))
	add(rule(&pb.EgressRule{IpRanges: []string{"10.0.0.1"}, Action: pb.EgressAction_REJECT.Enum()}))
	for _, d := range []string{"", ".", ".a", "a.", "a", "*", "a..b"} {
		add(rule(&pb.EgressRule{DomainNames: []string{d}, Action: pb.EgressAction_DIRECT.Enum()}))
	}
	add(rule(&pb.EgressRule{Action: pb.EgressAction_PROXY.Enum()}))
	add(rule(&pb.EgressRule{}))
	add(rule(&pb.EgressRule{ProxyNames: []string{"px"}}))
	add(rule(&pb.EgressRule{Action: pb.EgressAction_PROXY.Enum(), ProxyNames: []string{"px"}}))
	add(rule(&pb.EgressRule{Action: pb.EgressAction_PROXY.Enum(), ProxyNames: []string{"px", "nope"}}))
	add(rule(&pb.EgressRule{Action: pb.EgressAction_DIRECT.Enum(), ProxyNames: []string{"px"}}))
	for _, h := range []map[string]string{{".a": "1.2.3.4"}, {"a.": "1.2.3.4"}, {"": "1.2.3.4"}, {"A.example": "1.2.3.4", "a.example": "1.2.3.4"},
		{"a.example": "nope"}, {"a.example": ""}, {"a.example": "::1", "b.example": "1.2.3.4"}, {}} {
		h := h
		add(func(c *pb.ServerConfig) { c.Dns = &pb.DNS{Hosts: h} })
	}
	for _, iv := range []string{"", "999ms", "1s", "1000ms", "999999999ns", "x", "1", "-5s", "1h"} {
		iv := iv
		add(func(c *pb.ServerConfig) {
			c.AdvancedSettings = &pb.ServerAdvancedSettings{MetricsLoggingInterval: proto.String(iv)}
		})
	}
	add(func(c *pb.ServerConfig) {
		c.TrafficPattern = &pb.TrafficPattern{Nonce: &pb.NoncePattern{MinLen: proto.Int32(13)}}
	})
	add(func(c *pb.ServerConfig) { c.TrafficPattern = &pb.TrafficPattern{} })
	return ms
}

func firstProfile(c *pb.ClientConfig) *pb.ClientProfile { return c.Profiles[0] }

func clientBoundaries() []func(*pb.ClientConfig) {
	var ms []func(*pb.ClientConfig)
	add := func(f func(*pb.ClientConfig)) { ms = append(ms, f) }
	add(func(c *pb.ClientConfig) { firstProfile(c).ProfileName = proto.String("") })
	add(func(c *pb.ClientConfig) { firstProfile(c).User = nil })
	for _, n := range []int{0, 1, 64, 65} {
		n := n
		add(func(c *pb.ClientConfig) { firstProfile(c).User.Name = rep("n", n) })
		add(func(c *pb.ClientConfig) { firstProfile(c).User.Password = rep("p", n) })
		add(func(c *pb.ClientConfig) { u := firstProfile(c).User; u.Password = rep("p", n); u.HashedPassword = nil })
	}
	add(func(c *pb.ClientConfig) {
		firstProfile(c).User.Quotas = []*pb.Quota{{Days: proto.Int32(1), Megabytes: proto.Int32(1)}}
	})
	for _, bn := range boundaryNames() {
		bn := bn
		add(func(c *pb.ClientConfig) { firstProfile(c).User.Name = proto.String(bn) })
	}
	add(func(c *pb.ClientConfig) { firstProfile(c).Servers = nil })
	add(func(c *pb.ClientConfig) { s := firstProfile(c).Servers[0]; s.IpAddress, s.DomainName = nil, nil })
	add(func(c *pb.ClientConfig) { s := firstProfile(c).Servers[0]; s.IpAddress = proto.String("bad") })
	add(func(c *pb.ClientConfig) {
		s := firstProfile(c).Servers[0]
		s.IpAddress = proto.String("bad")
		s.DomainName = proto.String("d.example")
	})
	add(func(c *pb.ClientConfig) { firstProfile(c).Servers[0].PortBindings = nil })
	for _, p := range []int32{-1, 0, 1, 65535, 65536} {
		p := p
		add(func(c *pb.ClientConfig) {
			firstProfile(c).Servers[0].PortBindings = []*pb.PortBinding{{Port: proto.Int32(p), Protocol: pb.TransportProtocol_TCP.Enum()}}
		})
		add(func(c *pb.ClientConfig) { c.RpcPort = proto.Int32(p) })
		add(func(c *pb.ClientConfig) { c.Socks5Port = proto.Int32(p) })
		add(func(c *pb.ClientConfig) { c.HttpProxyPort = proto.Int32(p) })
		add(func(c *pb.ClientConfig) {
			firstProfile(c).Dialer = &pb.ClientDialer{Protocol: pb.ProxyProtocol_SOCKS5_PROXY_PROTOCOL.Enum(), Host: proto.String("h"), Port: proto.Int32(p)}
		})
	}
	add(func(c *pb.ClientConfig) { c.RpcPort = proto.Int32(c.GetSocks5Port()) })
	add(func(c *pb.ClientConfig) { c.RpcPort = nil; c.Socks5Port = nil })
	add(func(c *pb.ClientConfig) { c.HttpProxyPort = proto.Int32(c.GetSocks5Port()) })
	add(func(c *pb.ClientConfig) { c.RpcPort = proto.Int32(8000); c.HttpProxyPort = proto.Int32(8000) })
	for _, m := range []int32{-1, 0, 1279, 1280, 1500, 1501} {
		m := m
		add(func(c *pb.ClientConfig) { firstProfile(c).Mtu = proto.Int32(m) })
	}
	add(func(c *pb.ClientConfig) {
		firstProfile(c).TrafficPattern = &pb.TrafficPattern{Nonce: &pb.NoncePattern{MinLen: proto.Int32(13)}}
	})
	add(func(c *pb.ClientConfig) { firstProfile(c).Dialer = &pb.ClientDialer{} })
	add(func(c *pb.ClientConfig) {
		firstProfile(c).Dialer = &pb.ClientDialer{Protocol: pb.ProxyProtocol_SOCKS5_PROXY_PROTOCOL.Enum(), Port: proto.Int32(5)}
	})
	for _, a := range []*pb.Auth{{}, {User: proto.String("u")}, {Password: proto.String("p")}, {User: proto.String("u"), Password: proto.String("p")}} {
		a := a
		add(func(c *pb.ClientConfig) {
			firstProfile(c).Dialer = &pb.ClientDialer{Protocol: pb.ProxyProtocol_SOCKS5_PROXY_PROTOCOL.Enum(), Host: proto.String("h"), Port: proto.Int32(5), Socks5Authentication: a}
		})
		add(func(c *pb.ClientConfig) { c.Socks5Authentication = []*pb.Auth{a} })
	}
	for _, iv := range []string{"", "999ms", "1s", "x"} {
		iv := iv
		add(func(c *pb.ClientConfig) {
			c.AdvancedSettings = &pb.ClientAdvancedSettings{MetricsLoggingInterval: proto.String(iv)}
		})
	}
	add(func(c *pb.ClientConfig) { c.Profiles = nil })
	add(func(c *pb.ClientConfig) { c.ActiveProfile = nil })
	add(func(c *pb.ClientConfig) { c.ActiveProfile = proto.String("") })
	add(func(c *pb.ClientConfig) { c.ActiveProfile = proto.String(c.GetActiveProfile() + "x") })
	add(func(c *pb.ClientConfig) { proto.Reset(c) })
	return ms
}

func validatorCases(n int) {
	sb, cb := serverBoundaries(), clientBoundaries()
	for i := 0; i < n; i++ {
		base := genServer(true)
		vServer(base)
		vServer(genServer(false))
		for k := 0; k < len(sb); k++ {
			if i > 0 && r.Rng.Intn(8) != 0 {
				continue
			}
			c := proto.Clone(base).(*pb.ServerConfig)
			sb[k](c)
			vServer(c)
		}
		cbase := genClient(true, nil)
		vClient(cbase)
		vClient(genClient(false, nil))
		for k := 0; k < len(cb); k++ {
			if i > 0 && r.Rng.Intn(8) != 0 {
				continue
			}
			c := proto.Clone(cbase).(*pb.ClientConfig)
			cb[k](c)
			vClient(c)
		}
	}
}

// witnessChecks replays on the real code the witnesses of the _refuted theorems (informational: recorded in
// the report's notes; the two merge witnesses must be REJECTED by Apply, which re-validates after merging).
func witnessChecks() {
	r.Rep.Notes = map[string]string{}
	// valid client + valid patch {socks5Port: 70000} -> merged invalid; applyClientConfig must refuse and keep the file
	old := &pb.ClientConfig{ActiveProfile: proto.String("p"), RpcPort: proto.Int32(8964), Socks5Port: proto.Int32(1080),
		Profiles: []*pb.ClientProfile{{ProfileName: proto.String("p"), User: &pb.User{Name: proto.String("u"), Password: proto.String("pwWITNESS")},
			Servers: []*pb.ServerEndpoint{{IpAddress: proto.String("1.2.3.4"), PortBindings: []*pb.PortBinding{{Port: proto.Int32(2012), Protocol: pb.TransportProtocol_TCP.Enum()}}}}}}}
	before := storeLoadClient(proto.Clone(old).(*pb.ClientConfig), true, false)
	for name, patch := range map[string]*pb.ClientConfig{"socks5Port=70000": {Socks5Port: proto.Int32(70000)}, "activeProfile=q": {ActiveProfile: proto.String("q")}} {
		if appctl.ValidateClientConfigPatch(patch) != nil {
			r.Fail("witness-patch-not-valid", "the model's witness patch is rejected by ValidateClientConfigPatch: "+name, name)
			continue
		}
		link, _ := appctl.ClientConfigToURL(patch)
		var err error
		guard("ApplyURLClientConfig", name, func() { err = appctl.ApplyURLClientConfig(link) })
		after, _ := appctl.LoadClientConfig()
		if err == nil || !proto.Equal(before, after) {
			r.Fail("invalid-merge-stored", "a valid patch that makes the configuration invalid was applied or changed the stored file: "+name, name)
		}
		r.Rep.Notes["client-merge-witness "+name] = fmt.Sprintf("valid patch, merged configuration invalid, Apply returned: %v; stored file unchanged", err)
	}
	r.Count("witness-checks")
}

// setConfigRPC calls the management handlers directly (no gRPC server): SetConfig stores WITHOUT validating;
// the question is whether what it stores can later crash Load / Reload / Start (which validate before use).
func setConfigRPC() {
	svc := appctl.NewServerManagementService()
	ctx := context.Background()
	bad := map[string]*pb.ServerConfig{
		"empty":          {},
		"no-ports":       {Users: []*pb.User{{Name: proto.String("a"), Password: proto.String("pwSETCFG1")}}},
		"port-70000":     {PortBindings: []*pb.PortBinding{{Port: proto.Int32(70000), Protocol: pb.TransportProtocol_TCP.Enum()}}},
		"range-garbage":  {PortBindings: []*pb.PortBinding{{PortRange: proto.String("9-"), Protocol: pb.TransportProtocol_UDP.Enum()}}},
		"user-noname":    {PortBindings: []*pb.PortBinding{{Port: proto.Int32(5), Protocol: pb.TransportProtocol_TCP.Enum()}}, Users: []*pb.User{{Password: proto.String("pwSETCFG2")}}},
		"user-nil":       {PortBindings: []*pb.PortBinding{{Port: proto.Int32(5), Protocol: pb.TransportProtocol_TCP.Enum()}}, Users: []*pb.User{nil}},
		"binding-nil":    {PortBindings: []*pb.PortBinding{nil}},
		"quota-days-max": {PortBindings: []*pb.PortBinding{{Port: proto.Int32(5), Protocol: pb.TransportProtocol_TCP.Enum()}}, Users: []*pb.User{{Name: proto.String("a"), Password: proto.String("pwSETCFG3"), Quotas: []*pb.Quota{{Days: proto.Int32(2147483647), Megabytes: proto.Int32(1)}}}}},
		"mtu-5":          {PortBindings: []*pb.PortBinding{{Port: proto.Int32(5), Protocol: pb.TransportProtocol_TCP.Enum()}}, Mtu: proto.Int32(5)},
		"bad-hash":       {PortBindings: []*pb.PortBinding{{Port: proto.Int32(5), Protocol: pb.TransportProtocol_TCP.Enum()}}, Users: []*pb.User{{Name: proto.String("a"), HashedPassword: proto.String("zz")}}},
		"tp-invalid":     {PortBindings: []*pb.PortBinding{{Port: proto.Int32(5), Protocol: pb.TransportProtocol_TCP.Enum()}}, TrafficPattern: &pb.TrafficPattern{Nonce: &pb.NoncePattern{MinLen: proto.Int32(99)}}},
		"invalid-utf8":   {PortBindings: []*pb.PortBinding{{Port: proto.Int32(5), Protocol: pb.TransportProtocol_TCP.Enum()}}, Users: []*pb.User{{Name: proto.String("a\xff"), Password: proto.String("pwSETCFG4")}}},
	}
	names := make([]string, 0, len(bad))
	for k := range bad {
		names = append(names, k)
	}
	sort.Strings(names)
	for i, name := range names {
		cfg := bad[name]
		jsonFmt := i%2 == 0
		path := setServerPath(jsonFmt)
		verr := appctl.ValidateFullServerConfig(proto.Clone(cfg).(*pb.ServerConfig))
		var serr, lerr, rerr, sterr error
		res := ""
		if guard("SetConfig", name, func() { _, serr = svc.SetConfig(ctx, cfg) }) {
			res += " SetConfig:PANIC"
		}
		raw, _ := os.ReadFile(path)
		if bytes.Contains(raw, []byte("pwSETCFG")) {
			r.Fail("plaintext-password-stored", "SetConfig stored a plaintext password", name)
		}
		if guard("LoadServerConfig", name, func() { _, lerr = appctl.LoadServerConfig() }) {
			res += " Load:PANIC"
		}
		if guard("Reload", name, func() { _, rerr = svc.Reload(ctx, &emptypb.Empty{}) }) {
			res += " Reload:PANIC"
		}
		if verr != nil { // Start on an invalid configuration must stop at the validation, so nothing is started
			if guard("Start", name, func() { _, sterr = svc.Start(ctx, &emptypb.Empty{}) }) {
				res += " Start:PANIC"
			} else if sterr == nil {
				r.Fail("invalid-config-started", "Start accepted a configuration ValidateFullServerConfig rejects", name)
			}
		}
		short := func(e error) string {
			if e == nil {
				return "ok"
			}
			m := e.Error()
			if len(m) > 90 {
				m = m[:90]
			}
			return m
		}
		r.Rep.Notes["SetConfig "+name] = fmt.Sprintf("valid=%s | SetConfig=%s | stored=%dB | Load=%s | Reload=%s | Start=%s |%s", short(verr), short(serr), len(raw), short(lerr), short(rerr), short(sterr), res)
		r.Rep.Evaluations++
	}
	r.Count("setconfig-rpc")
}

func main() {
	r = vh.Start("c20")
	defer r.Finish()
	r.Rep.Rule = "corpus first (mieru: , mieru:/ and every truncation of the link prefixes); then generated valid server and client configurations and patches (users with plaintext / hashed / both passwords, quotas, ports and port ranges, egress proxies and rules, DNS hosts, traffic patterns, every optional field independently set or unset, names and passwords drawn from an alphabet of space % # ? @ : / & = + quotes backslash unicode) through merge, Store/Load/Apply in both file formats (path chosen via the environment variables and via the cached package variables) and through both link forms; mutated links, mutated JSON and arbitrary bytes to the parsers; boundary and random port-range / integer texts; the validators on generated configurations and on every bound perturbed to both sides (name and password lengths, quota days incl. the time.Duration bound, MTU, ports, egress proxies and rules, DNS hosts, metrics interval, client ports and active profile, user names at 63/64/65 bytes in 1-4-byte characters and invalid UTF-8, each validated name handed to the real user-hint and user-registry code); operation histories on one server file in both formats (store of startable and non-startable configurations, apply of valid / invalid / full-validation-failing / malformed patches, load, get-JSON, delete users) observed after every step through Load twice with a mutation in between, GetJSON and the raw file. Non-trivial/distinct = distinct (operation, file format, set of fields set, list sizes) tuples and distinct (parser outcome stage, input length class) pairs"
	tmp = filepath.Join(r.Out, "cfgtmp")
	os.RemoveAll(tmp)
	os.MkdirAll(tmp, 0o755)

	// ---------- corpus: {port: 2012, portRange: "x"} (fixed by 04ca7f3) and the short links first
	linkRoundTrip(&pb.ClientConfig{ActiveProfile: proto.String("p"), Socks5Port: proto.Int32(1080),
		Profiles: []*pb.ClientProfile{{ProfileName: proto.String("p"), User: &pb.User{Name: proto.String("u"), Password: proto.String("pwWITNESS")},
			Servers: []*pb.ServerEndpoint{{IpAddress: proto.String("1.2.3.4"), PortBindings: []*pb.PortBinding{
				{Port: proto.Int32(2012), Protocol: pb.TransportProtocol_TCP.Enum(), PortRange: proto.String("x")}}}}}}})
	r.Count("corpus-ambiguous-binding")

	corpus := []string{"mieru:", "mieru:/", "mieru:?", "mieru:#", "MIERU:", "mieru:x", "mieru:/x", "mieru://", "mieru:///", "MIERU://", "mieru:/a/bcdef", "mieru:?abcdefgh",
		"mierus:", "mierus:/", "mierus://", "mierus://@", "mierus://:@h", "mierus://u@h", "mierus://u:@h", "mierus://u:p@", "mierus://u:p@h", "mierus://u:p@h?profile=x",
		"mierus://u:p@h?profile=x&port=1", "mierus://u:p@h?profile=x&port=1&protocol=TCP", "mierus://u:p@h?profile=x&port=1&port=2&protocol=TCP",
		"mierus://u:p@h?profile=x&protocol=TCP&protocol=UDP", "mierus://u:p@[::1]?profile=x&port=1-2&protocol=UDP", "mierus://u:p@h?profile=x&port=1&protocol=NOPE",
		"mierus://u:p@h?profile=x&mtu=4294968696&port=1&protocol=TCP", "mierus://u:p@h?profile=x&mtu=-1&port=1&protocol=TCP", "mierus://u:p@h?profile=x;y", "mierus://u:p@h?profile=%zz",
		"mierus:opaque", "mierus://u:p@h:99999?profile=x", "mierus://u:p@h?profile=x&traffic-pattern=!!", "mierus://u:p@h?profile=x&traffic-pattern=/w==",
		"mierus://u:p@h?profile=x&multiplexing=MULTIPLEXING_HIGH&handshake-mode=HANDSHAKE_NO_WAIT&port=5&protocol=UDP", "", ":", "://", "http://x", "mieru://AAAA", "mieru://!!!!", "mieru://CgA=",
		"mieru://" + base64.StdEncoding.EncodeToString([]byte{0xff, 0xff}), "\x7f", "mieru://\x00"}
	full := "mieru://CgA="
	for i := 0; i <= len(full); i++ {
		corpus = append(corpus, full[:i])
	}
	for _, s := range corpus {
		anyString(s)
	}
	r.Count("corpus-links")

	// ---------- generated configurations
	nServer, nClient, nStr, nJSON := 60, 60, 400, 60
	if r.Thorough() {
		nServer, nClient, nStr, nJSON = 1500, 1500, 30000, 1500
	}
	for i := 0; i < nServer; i++ {
		serverRound(i)
	}
	for i := 0; i < nClient; i++ {
		clientRound(i)
	}

	// ---------- malformed links
	for i := 0; i < nStr; i++ {
		var s string
		switch {
		case i%4 == 0 || len(goodLinks) == 0:
			s = []string{"mieru://", "mierus://", "mieru:", "mierus:", ""}[r.Rng.Intn(5)] + string(r.Rng.Bytes(r.Rng.Intn(20)))
		case i%4 == 1:
			s = []string{"mieru://", "mierus://", "mieru:/", "mieru:"}[r.Rng.Intn(4)] + special(30)
		default:
			s = mutate(goodLinks[r.Rng.Intn(len(goodLinks))])
		}
		anyString(s)
	}
	r.Count("malformed-links")

	jsonMalformed(nJSON)
	portCases()
	nV := 6
	if r.Thorough() {
		nV = 150
	}
	validatorCases(nV)
	witnessChecks()
	setConfigRPC()
	hintCases()
	nHist := 40
	if r.Thorough() {
		nHist = 1200
	}
	for i := 0; i < nHist; i++ {
		historyRound(i)
	}
}

func imin(a, b int) int {
	if a < b {
		return a
	}
	return b
}
