// Driver for C06 (replay-cache half): runs the real pkg/replay.ReplayCache under Go's faketime
// runtime (build tags "verif faketime", CGO_ENABLED=0, GOMAXPROCS=2; time.Sleep(d) moves the
// clock by exactly d) on enumerated and generated histories of (signature, tag, time step),
// writes one case line per history / per call for the extracted Coq model together with what
// the implementation did (results, sizes, rotation deadline, both generations), and judges
// every history against the property text with an ideal unbounded set (independent of the model):
// never a false positive; never a miss inside the (interval, capacity) bounds.
//
// Line protocol (cases.txt -> impl.txt / model.txt):
//   H cap ival 0 sig:tag:dt ...      one fresh cache (its creation instant is the time origin 0), calls after sleeping dt each
//        -> bits ncur nprev expire cur prev        (bits = one 0/1 per call; state after the last call; expire relative to the origin)
//   N cap ival now                    NewCache          -> ok | PANIC
//   D sig tag now                     IsDuplicate now   -> r ncur nprev expire cur prev
//   P stream|packet now               a cache built with the process-wide parameters -> cap ival expire
// tags are hex of the tag string ("-" = EmptyTag); generations are "sig:tag,..." sorted by sig ("-" = empty).
package main

import (
	"encoding/binary"
	"encoding/hex"
	"flag"
	"fmt"
	"hash/fnv"
	"os"
	"sort"
	"strconv"
	"strings"
	"time"

	"github.com/enfein/mieru/v3/pkg/appctl/appctlpb"
	"github.com/enfein/mieru/v3/pkg/protocol"
	"github.com/enfein/mieru/v3/pkg/replay"
	"google.golang.org/protobuf/proto"
	"verifharness/vh"
)

// Sig > 0: traffic (IsDuplicate). Sig < 0: not traffic but a management reload (Mux.SetServerUsers)
// installing users variant -Sig, after sleeping Dt.
type opT struct {
	Sig int    `json:"sig"`
	Tag string `json:"tag"`
	Dt  int64  `json:"dt_ns"`
}

func (o opT) reload() int {
	if o.Sig < 0 {
		return -o.Sig
	}
	return 0
}

type histCase struct {
	Cap      int      `json:"capacity"`
	Interval int64    `json:"interval_ns"`
	Ops      []opT    `json:"ops"`
	Results  []bool   `json:"results"`
	Note     string   `json:"note,omitempty"`
	At       []int64  `json:"at_ns_since_creation"`
}

var sigData = map[int][]byte{}
var hashToSig = map[uint64]int{}

// data presented for signature number k: 16 bytes (the call sites hash the first
// cipher.DefaultOverhead = 16 bytes of the encrypted metadata / payload).
func data(k int) []byte {
	if b, ok := sigData[k]; ok {
		return b
	}
	b := make([]byte, 16)
	binary.BigEndian.PutUint64(b[0:8], 0x6d69657275433036) // "mieruC06"
	binary.BigEndian.PutUint64(b[8:16], uint64(k))
	h := fnv.New64a()
	h.Write(b)
	sigData[k] = b
	hashToSig[h.Sum64()] = k
	return b
}

var customID = map[string]int{}

// registerData gives a signature number to an arbitrary presented byte string (distinct strings, distinct numbers).
func registerData(b []byte) int {
	if id, ok := customID[string(b)]; ok {
		return id
	}
	id := 200000 + len(customID)
	customID[string(b)] = id
	sigData[id] = append([]byte(nil), b...)
	h := fnv.New64a()
	h.Write(b)
	hashToSig[h.Sum64()] = id
	return id
}

func tagHex(t string) string {
	if t == "" {
		return "-"
	}
	return hex.EncodeToString([]byte(t))
}

func dumpGen(m map[uint64]string) string {
	if len(m) == 0 {
		return "-"
	}
	type kv struct {
		k int
		v string
	}
	l := make([]kv, 0, len(m))
	for h, v := range m {
		k, ok := hashToSig[h]
		if !ok {
			k = -1 // a signature that is not the FNV-64a of any presented data
		}
		l = append(l, kv{k, v})
	}
	sort.Slice(l, func(i, j int) bool { return l[i].k < l[j].k })
	var sb strings.Builder
	for i, e := range l {
		if i > 0 {
			sb.WriteByte(',')
		}
		sb.WriteString(strconv.Itoa(e.k))
		sb.WriteByte(':')
		sb.WriteString(tagHex(e.v))
	}
	return sb.String()
}

func b01(b bool) byte {
	if b {
		return '1'
	}
	return '0'
}

func stateLine(c *replay.ReplayCache) string {
	exp, cur, prev := c.VerifSnapshot()
	a, b := c.Sizes()
	return fmt.Sprintf("%d %d %d %s %s", a, b, exp, dumpGen(cur), dumpGen(prev))
}

func sleepNs(d int64) {
	if d > 0 {
		time.Sleep(time.Duration(d))
	}
}

func conflict(a, b string) bool { return a == "" || b == "" || a != b }

// judge: the property text on one history, against an ideal unbounded record of everything presented.
// at[i] = instant of call i (ns, any origin). Returns "" or a failure description + cause signature.
func judge(capacity int, ival int64, ops []opT, at []int64, res []bool) (sig, what string) {
	n := len(ops)
	for i := 0; i < n; i++ {
		if ops[i].reload() > 0 {
			continue // a reload is not traffic: the ideal record is not affected by it
		}
		x := ops[i].Sig
		if res[i] {
			// never a false positive: the same signature was presented before (with a tag that conflicts)
			ok := false
			for j := 0; j < i; j++ {
				if ops[j].Sig == x && conflict(ops[j].Tag, ops[i].Tag) {
					ok = true
					break
				}
			}
			if !ok {
				return "false-positive", fmt.Sprintf("call %d reports a replay of signature %d (tag %q) that was never presented before with a different or empty tag", i, x, ops[i].Tag)
			}
			continue
		}
		if capacity == 0 {
			continue // disabled cache: no bound is claimed
		}
		// never a miss inside the bounds: some earlier presentation j of x, less than the interval ago,
		// followed by fewer than capacity distinct other signatures; and either x was accepted at j from
		// a tag that conflicts with the present one, or the present tag is empty
		for j := i - 1; j >= 0; j-- {
			if ops[j].Sig != x {
				continue
			}
			if at[i]-at[j] >= ival {
				break
			}
			distinct := map[int]bool{}
			reloads := 0
			for k := j + 1; k < i; k++ {
				if ops[k].reload() > 0 {
					reloads++
				} else if ops[k].Sig != x {
					distinct[ops[k].Sig] = true
				}
			}
			if len(distinct) >= capacity {
				break
			}
			if ops[i].Tag == "" || (!res[j] && conflict(ops[j].Tag, ops[i].Tag)) {
				sg := "miss-within-bounds"
				if reloads > 0 {
					sg = "miss-within-bounds-across-reload"
				}
				return sg, fmt.Sprintf("call %d (signature %d, tag %q) is not reported although call %d presented it %d ns earlier (interval %d ns) from tag %q, accepted=%v, with %d other distinct signatures and %d management reload(s) in between (capacity %d)",
					i, x, ops[i].Tag, j, at[i]-at[j], ival, ops[j].Tag, !res[j], len(distinct), reloads, capacity)
			}
		}
	}
	return "", ""
}

type drv struct {
	r   *vh.Run
	mux *protocol.Mux // a server Mux that is never started: only its management entry point SetServerUsers is used
}

// usersVariant: the user tables a management reload installs. 1 = unchanged, 2 = another user added,
// 3 = a user removed, 4 = the victim's quota changed, 5 = a password of another user changed.
func usersVariant(v int) map[string]*appctlpb.User {
	u := func(n, p string) *appctlpb.User { return &appctlpb.User{Name: proto.String(n), Password: proto.String(p)} }
	m := map[string]*appctlpb.User{"alice": u("alice", "alice-password"), "bob": u("bob", "bob-secret-2")}
	switch v {
	case 2:
		m["carol"] = u("carol", "carol-pw")
	case 3:
		delete(m, "bob")
	case 4:
		m["alice"].Quotas = []*appctlpb.Quota{{Days: proto.Int32(1), Megabytes: proto.Int32(int32(100 + v))}}
	case 5:
		m["bob"] = u("bob", "bob-new-secret")
	}
	return m
}

func (d *drv) reload(v int) {
	if d.mux == nil {
		d.mux = protocol.NewMux(false)
	}
	d.mux.SetServerUsers(usersVariant(v))
}

// runH executes one history on a fresh cache and emits an H line.
func (d *drv) runH(capacity int, ival int64, ops []opT, kind string) {
	r := d.r
	now0 := time.Now().UnixNano()
	c := replay.NewCache(capacity, time.Duration(ival))
	res := make([]bool, len(ops))
	at := make([]int64, len(ops))
	bits := make([]byte, len(ops))
	var sb strings.Builder
	sb.Grow(32 + 12*len(ops))
	sb.WriteString("H ")
	sb.WriteString(strconv.Itoa(capacity))
	sb.WriteByte(' ')
	sb.WriteString(strconv.FormatInt(ival, 10))
	sb.WriteByte(' ')
	sb.WriteString("0") // H lines use the creation instant as time origin (expire is reported relative to it)
	t := int64(0)
	for i, o := range ops {
		sleepNs(o.Dt)
		t += o.Dt
		at[i] = t
		res[i] = c.IsDuplicate(data(o.Sig), o.Tag)
		bits[i] = b01(res[i])
		sb.WriteByte(' ')
		sb.WriteString(strconv.Itoa(o.Sig))
		sb.WriteByte(':')
		sb.WriteString(tagHex(o.Tag))
		sb.WriteByte(':')
		sb.WriteString(strconv.FormatInt(o.Dt, 10))
	}
	if got := time.Now().UnixNano() - now0; got != t {
		fmt.Fprintf(os.Stderr, "clock moved by %d instead of %d: not running under faketime?\n", got, t)
		r.Rep.Notes = map[string]string{"clock": "the clock did not follow the requested steps exactly; build with -tags faketime"}
	}
	exp, cur, prev := c.VerifSnapshot()
	na, nb := c.Sizes()
	st := fmt.Sprintf("%d %d %d %s %s", na, nb, exp-now0, dumpGen(cur), dumpGen(prev))
	r.Case(sb.String(), string(bits)+" "+st)
	r.Count(kind)
	a, b := c.Sizes()
	if b > 0 || strings.ContainsRune(string(bits), '1') {
		r.Distinct(fmt.Sprintf("%d/%s/%d/%d", capacity, bits, a, b))
	}
	if sg, what := judge(capacity, ival, ops, at, res); sg != "" {
		r.Fail(sg, what, histCase{Cap: capacity, Interval: ival, Ops: ops, Results: res, At: at, Note: kind})
	}
}

// enumerate all histories of length 1..maxLen: signatures up to renaming (a new signature is always the
// smallest unused number), tags "" and up to nTags-1 non-empty ones up to renaming, every time step of steps.
func (d *drv) enumerate(capacity int, ival int64, maxLen, nSigs, nTags int, steps []int64, kind string) {
	tagNames := []string{"", "A", "B", "C"}
	ops := make([]opT, 0, maxLen)
	var rec func(usedSigs, usedTags int)
	rec = func(usedSigs, usedTags int) {
		if len(ops) > 0 {
			d.runH(capacity, ival, ops, kind)
		}
		if len(ops) == maxLen {
			return
		}
		for s := 0; s <= usedSigs && s < nSigs; s++ {
			us := usedSigs
			if s == usedSigs {
				us++
			}
			for t := 0; t <= usedTags+1 && t < nTags; t++ {
				ut := usedTags
				if t == usedTags+1 {
					ut++
				}
				for _, dt := range steps {
					ops = append(ops, opT{Sig: s + 1, Tag: tagNames[t], Dt: dt})
					rec(us, ut)
					ops = ops[:len(ops)-1]
				}
			}
		}
	}
	rec(0, 0)
}

// stepwise: N line, then one D line per call (full state compared after every call).
func (d *drv) stepwise(capacity int, ival int64, ops []opT, kind string) {
	r := d.r
	c := replay.NewCache(capacity, time.Duration(ival))
	r.Case(fmt.Sprintf("N %d %d %d", capacity, ival, time.Now().UnixNano()), "ok")
	d.calls(c, capacity, ival, ops, kind)
}

func (d *drv) calls(c *replay.ReplayCache, capacity int, ival int64, ops []opT, kind string) {
	r := d.r
	res := make([]bool, len(ops))
	at := make([]int64, len(ops))
	t := int64(0)
	for i, o := range ops {
		sleepNs(o.Dt)
		t += o.Dt
		at[i] = t
		if o.reload() > 0 {
			d.reload(o.reload())
			r.Case(fmt.Sprintf("R %d", o.reload()), "R "+stateLine(c))
			r.Count("reload-op")
			continue
		}
		now := time.Now().UnixNano()
		res[i] = c.IsDuplicate(data(o.Sig), o.Tag)
		r.Case(fmt.Sprintf("D %d %s %d", o.Sig, tagHex(o.Tag), now), string([]byte{b01(res[i])})+" "+stateLine(c))
	}
	r.Count(kind)
	a, b := c.Sizes()
	r.Distinct(fmt.Sprintf("%s/%d/%d/%d/%d", kind, capacity, len(ops), a, b))
	if sg, what := judge(capacity, ival, ops, at, res); sg != "" {
		r.Fail(sg, what, histCase{Cap: capacity, Interval: ival, Ops: ops, Results: res, At: at, Note: kind})
	}
}

func panics(f func()) (p bool) {
	defer func() {
		if recover() != nil {
			p = true
		}
	}()
	f()
	return false
}

func main() {
	partFlag := flag.String("part", "", "thorough tier: only enumerate histories of length <= 5 for these capacities (comma separated)")
	r := vh.Start("c06")
	defer r.Finish()
	d := &drv{r: r}
	r.Rep.Rule = "real ReplayCache under faketime. (1) corpus: the tag-overwrite witness and hand-written rotation/expiry boundaries; (2) exhaustive enumeration of all histories up to a length bound over signatures and tags up to renaming x 3 time steps, two step sets (one crossing, one exactly on the rotation/expiry thresholds), capacities 1..5 (capacity > number of signatures never rotates by size); (3) random call-by-call histories, capacities 0..8, up to 12 signatures, 4 tags, steps around 0, interval/2, interval, 2*interval and long idle gaps; (G) the two process-wide cache objects themselves, driven by traffic interleaved with management reloads (Mux.SetServerUsers with unchanged users, a user added, a user removed, the victim's quota changed, a password of another user changed, repeated reloads) at +0 .. +1500 s, hand-written and random; (4) caches with the process-wide capacity/interval: rotation by time, carry-over, expiry of both generations, long idle gaps (and, thorough, a fill to capacity); (5) about 400 patterned 16-byte inputs (shared fixed prefixes of 0..16 bytes as NONCE_TYPE_FIXED produces them, all single-bit neighbours of one string, one-position differences): each distinct string must be new, and be found when presented again. Non-trivial/distinct = distinct (capacity, result vector, final sizes) among histories in which a duplicate was reported or a rotation happened."
	start := time.Now()
	if start.Year() != 2009 {
		r.Rep.Notes = map[string]string{"clock": "not running under faketime (time.Now() is " + start.String() + ")"}
	}

	// ---------------- (G) the two process-wide objects themselves, with management reloads interleaved.
	// Must come first: they were created at package initialisation = program start under faketime and nothing
	// has used them yet, so the model can start them from new_cache(Consts) at the start instant.
	rl := func(v int) opT { return opT{Sig: -v} }
	rlAt := func(v int, dt int64) opT { return opT{Sig: -v, Dt: dt} }
	sec := int64(time.Second)
	nextSig := 1000
	for _, which := range []string{"stream", "packet"} {
		pc := protocol.VerifStreamReplayCache()
		t1, t2 := "", ""
		if which == "packet" {
			pc = protocol.VerifPacketReplayCache()
			t1, t2 = "198.51.100.7:40000", "203.0.113.9:5353"
		}
		capacity, ival := pc.VerifCapacity(), pc.VerifExpireIntervalNanos()
		gline := func() {
			r.Case(fmt.Sprintf("G %s %d", which, start.UnixNano()), fmt.Sprintf("%d %d %s", capacity, ival, stateLine(pc)))
		}
		gline()
		d.calls(pc, capacity, ival, []opT{
			{Sig: 1, Tag: t1}, rl(1), {Sig: 1, Tag: t2}, // reload with unchanged users right after acceptance
			{Sig: 2, Tag: t1, Dt: sec}, rl(2), rl(3), {Sig: 1, Tag: t2, Dt: sec}, {Sig: 2, Tag: t2}, // user added, user removed
			rlAt(4, 100*sec), {Sig: 1, Tag: t2}, {Sig: 3, Tag: t1}, // the victim's quota changed
			rl(5), rl(1), rl(1), rl(1), {Sig: 3, Tag: t2}, // repeated reloads
			{Sig: 1, Tag: t2, Dt: 256 * sec}, // +358 s: still inside the retention
			{Sig: 4, Tag: t1, Dt: 3 * sec}, rl(1), {Sig: 1, Tag: t2}, // rotation by time, then reload, x found in previous
			rl(2), {Sig: 4, Tag: t2}, rlAt(3, 200*sec), {Sig: 4, Tag: t2}, {Sig: 1, Tag: t2},
			{Sig: 5, Tag: t1}, rl(4), {Sig: 5, Tag: t2, Dt: sec},
			rlAt(1, 800*sec), {Sig: 1, Tag: t2}, {Sig: 5, Tag: t2}, {Sig: 5, Tag: t2}, // both generations long expired
		}, "reload-"+which)
		nh := 30
		if r.Thorough() {
			nh = 300
		}
		steps := []int64{0, 0, 0, 0, sec, 50 * sec, 120 * sec, 359 * sec, 361 * sec, 721 * sec}
		for i := 0; i < nh; i++ {
			g := r.Rng.Fork()
			n := g.Range(3, 25)
			nsig := g.Range(1, 5)
			ops := make([]opT, n)
			for k := range ops {
				dt := steps[g.Intn(len(steps))]
				if g.Intn(4) == 0 {
					ops[k] = rlAt(g.Range(1, 5), dt)
					continue
				}
				tg := t1
				if g.Bool() {
					tg = t2
				}
				ops[k] = opT{Sig: nextSig + g.Range(1, nsig), Tag: tg, Dt: dt}
			}
			nextSig += 8
			gline()
			d.calls(pc, capacity, ival, ops, "reload-random-"+which)
		}
	}
	if d.mux != nil {
		d.mux.Close() // stops its maintenance ticker, which would otherwise wake up every 5 virtual seconds below
	}

	// ---------------- (0) NewCache panics, disabled cache
	for _, p := range [][2]int64{{-1, 10}, {1, 0}, {1, -5}, {0, 10}, {3, 1}} {
		capacity, ival := int(p[0]), p[1]
		pan := panics(func() { replay.NewCache(capacity, time.Duration(ival)) })
		out := "ok"
		if pan {
			out = "PANIC"
		}
		r.Case(fmt.Sprintf("N %d %d %d", capacity, ival, time.Now().UnixNano()), out)
		r.Count("newcache")
	}
	d.stepwise(0, 10, []opT{{1, "", 0}, {1, "", 0}, {1, "A", 3}, {1, "B", 30}}, "disabled")
	var nilCache *replay.ReplayCache
	if nilCache.IsDuplicate(data(1), "") {
		r.Fail("nil-cache-duplicate", "a nil cache reported a duplicate", nil)
	}

	// ---------------- (1) corpus
	witness := []opT{{1, "", 0}, {2, "A", 0}, {2, "B", 0}, {3, "", 0}, {2, "B", 0}}
	d.runH(2, 60, witness, "corpus")
	d.stepwise(2, 60, witness, "corpus")
	corpus := []struct {
		cap  int
		ival int64
		ops  []opT
	}{
		// entry inserted just before a rotation by size, replayed right after it
		{2, 100, []opT{{1, "", 0}, {2, "A", 1}, {3, "", 1}, {2, "B", 1}, {2, "A", 1}}},
		{3, 100, []opT{{1, "", 0}, {2, "", 0}, {3, "A", 0}, {3, "B", 0}, {4, "", 0}, {5, "", 0}, {3, "B", 0}, {6, "", 0}, {3, "B", 0}, {3, "A", 0}}},
		// entry inserted just before a rotation by time: now == expire does not rotate, expire+1 does
		{4, 100, []opT{{1, "A", 100}, {1, "B", 0}, {2, "", 1}, {1, "B", 0}, {1, "", 99}, {1, "B", 1}}},
		// both generations expire: now - expire == interval keeps previous (after rotating), +1 clears
		{4, 100, []opT{{1, "A", 50}, {1, "B", 150}}},
		{4, 100, []opT{{1, "A", 50}, {1, "B", 151}}},
		{4, 100, []opT{{1, "A", 50}, {1, "B", 149}}},
		{4, 100, []opT{{1, "A", 100}, {2, "", 100}, {1, "B", 0}}},
		{4, 100, []opT{{1, "A", 100}, {2, "", 101}, {1, "B", 0}}},
		// interleaved tags, same-tag retransmission across a rotation
		{2, 100, []opT{{1, "A", 0}, {1, "A", 0}, {2, "B", 0}, {1, "A", 0}, {1, "B", 0}, {2, "A", 0}, {2, "B", 0}, {1, "", 0}}},
		// capacity 1: every call rotates
		{1, 100, []opT{{1, "A", 0}, {1, "B", 0}, {2, "", 0}, {1, "B", 0}, {3, "", 0}, {4, "", 0}, {1, "B", 0}}},
		// long idle gap
		{4, 100, []opT{{1, "", 0}, {2, "", 10}, {1, "", 1000000000000}, {2, "", 0}, {1, "", 0}}},
	}
	for _, c := range corpus {
		d.runH(c.cap, c.ival, c.ops, "corpus")
		d.stepwise(c.cap, c.ival, c.ops, "corpus")
	}

	// ---------------- (2) exhaustive enumeration
	crossing := []int64{0, 6, 21} // interval 10: 6+6 crosses the deadline, 21 expires both generations
	exact := []int64{1, 10, 20}   // exactly on the thresholds: now == expire, now - expire == interval
	part := *partFlag
	if !r.Thorough() {
		for capacity := 1; capacity <= 4; capacity++ {
			d.enumerate(capacity, 10, 4, 3, 2, crossing, "enum-crossing")
			d.enumerate(capacity, 10, 3, 3, 3, crossing, "enum-crossing")
		}
		for capacity := 1; capacity <= 3; capacity++ {
			d.enumerate(capacity, 10, 3, 3, 3, exact, "enum-exact")
		}
	} else if part == "" {
		for capacity := 1; capacity <= 5; capacity++ {
			d.enumerate(capacity, 10, 4, 4, 3, crossing, "enum-crossing")
			if capacity <= 3 {
				d.enumerate(capacity, 10, 4, 3, 3, exact, "enum-exact")
			}
		}
	} else {
		// the listed capacities, enumerated completely: length <= 5 over 3 signatures x 2 tags x 3 steps
		for _, f := range strings.Split(part, ",") {
			capacity, _ := strconv.Atoi(f)
			d.enumerate(capacity, 10, 5, 3, 2, crossing, "enum5-crossing")
		}
		r.Rep.Exhaustive = true
		return
	}

	// ---------------- (3) random call-by-call histories
	nrand, maxOps := 400, 40
	if r.Thorough() {
		nrand, maxOps = 2500, 60
	}
	tags := []string{"", "10.0.0.1:4000", "10.0.0.2:4000", "[2001:db8::1]:53"}
	for i := 0; i < nrand; i++ {
		g := r.Rng.Fork()
		capacity := g.Range(0, 8)
		if capacity == 0 && g.Intn(4) != 0 {
			capacity = g.Range(1, 8)
		}
		ival := []int64{10, 100, 1000, 360000000000}[g.Intn(4)]
		nsig := g.Range(1, 12)
		n := g.Range(1, maxOps)
		idle := g.Intn(3) == 0
		tagged := g.Intn(4) != 0
		ops := make([]opT, n)
		for k := range ops {
			var dt int64
			switch g.Intn(12) {
			case 0:
				dt = ival / 2
			case 1:
				dt = ival/2 + 1
			case 2:
				dt = ival
			case 3:
				dt = ival + 1
			case 4:
				dt = 2*ival + 1
			case 5:
				dt = 1
			case 6:
				if idle {
					dt = ival * int64(g.Range(2, 50))
				}
			case 7:
				dt = g.I64n(ival + 2)
			default:
				dt = 0
			}
			tg := ""
			if tagged {
				tg = tags[g.Intn(len(tags))]
			}
			s := g.Range(1, nsig)
			if k > 0 && g.Intn(4) == 0 {
				s = ops[g.Intn(k)].Sig // replay something seen
			}
			ops[k] = opT{Sig: s, Tag: tg, Dt: dt}
		}
		d.stepwise(capacity, ival, ops, "random")
	}

	// ---------------- (4) the process-wide parameters
	for _, which := range []string{"stream", "packet"} {
		pc := protocol.VerifStreamReplayCache()
		t1, t2 := "", ""
		if which == "packet" {
			pc = protocol.VerifPacketReplayCache()
			t1, t2 = "198.51.100.7:40000", "203.0.113.9:5353"
		}
		capacity, ival := pc.VerifCapacity(), pc.VerifExpireIntervalNanos()
		s := int64(time.Second)
		scen := [][]opT{
			// replay just inside the retention; exactly at the deadline; one ns later (rotation by time); carried over
			{{1, t1, 0}, {2, t1, 100 * s}, {1, t2, 260*s - 1}, {3, t1, 1}, {1, t2, 1}, {1, t2, 359 * s}, {1, t1, 0}, {1, t2, 2 * s}},
			// both generations expire after a long idle gap
			{{1, t1, 10 * s}, {1, t2, 730 * s}, {1, t2, 0}, {1, t1, 0}},
			{{1, t1, 10 * s}, {1, t2, 710 * s}, {1, t2, 0}, {2, t1, 360*s + 1}, {1, t2, 0}},
			// interleaved tags inside one generation
			{{1, t1, 0}, {1, t1, s}, {1, t2, s}, {2, t2, s}, {2, t1, s}, {2, "", s}, {3, "", 0}, {3, t1, 0}},
		}
		for _, ops := range scen {
			c := replay.NewCache(capacity, time.Duration(ival))
			exp, _, _ := c.VerifSnapshot()
			r.Case(fmt.Sprintf("P %s %d", which, time.Now().UnixNano()), fmt.Sprintf("%d %d %d", capacity, ival, exp))
			d.calls(c, capacity, ival, ops, "process-wide-"+which)
		}
	}
	// ---------------- (5) patterned inputs: the signature must tell apart 16-byte strings that share a long prefix
	// (NONCE_TYPE_FIXED fixes up to 12 leading nonce bytes), that differ in one bit only, or in one position only
	{
		fixed := []byte("GET / HTTP/1.1\r\n")
		var ops []opT
		seen := map[int]bool{}
		add := func(b []byte) {
			id := registerData(b)
			if !seen[id] {
				seen[id] = true
				ops = append(ops, opT{Sig: id, Tag: "10.0.0.1:1"})
			}
		}
		for p := 0; p <= 16; p++ {
			nv := 12
			if p >= 15 {
				nv = 2 // only 256 / 1 distinct strings exist
			}
			for k := 0; k < nv; k++ {
				b := r.Rng.Bytes(16)
				copy(b, fixed[:p])
				add(b)
			}
		}
		base := r.Rng.Bytes(16)
		add(base)
		for bit := 0; bit < 128; bit++ {
			b := append([]byte(nil), base...)
			b[bit/8] ^= 1 << (bit % 8)
			add(b)
		}
		for pos := 0; pos < 16; pos++ { // all-zero except one byte; and a counter in each position
			b := make([]byte, 16)
			b[pos] = 0xff
			add(b)
			c := append([]byte(nil), fixed[:16]...)
			c[pos] = byte(pos + 1)
			add(c)
		}
		fresh := len(ops)
		for i := 0; i < fresh; i++ { // then every one of them again from another address: all must be found
			ops = append(ops, opT{Sig: ops[i].Sig, Tag: "10.0.0.2:1"})
		}
		d.stepwise(2*fresh, 360*sec, ops, "patterned-inputs")
	}

	if r.Thorough() {
		// rotation by size at the real capacity (oracle only: the list model is quadratic at this size)
		pc := protocol.VerifPacketReplayCache()
		capacity, ival := pc.VerifCapacity(), pc.VerifExpireIntervalNanos()
		if capacity > 0 && capacity <= 1<<23 {
			c := replay.NewCache(capacity, time.Duration(ival))
			buf := make([]byte, 16)
			c.IsDuplicate(data(1), "a:1")
			fp := false
			for i := 1; i < capacity; i++ {
				binary.BigEndian.PutUint64(buf[8:], uint64(i))
				if c.IsDuplicate(buf, "a:1") {
					fp = true
				}
			}
			hit := c.IsDuplicate(data(1), "b:2")
			a, b := c.Sizes()
			if fp {
				r.Fail("false-positive", "a never-seen signature was reported while filling a cache of the process-wide capacity", nil)
			}
			if !hit || a != 1 || b != capacity {
				r.Fail("miss-within-bounds", fmt.Sprintf("process-wide capacity %d: x followed by capacity-1 new signatures, replay from another tag reported %v, sizes %d %d", capacity, hit, a, b), nil)
			}
			r.Count("process-wide-size-fill")
		}
	}
}
