package main

import (
	"fmt"
	"time"

	"verifharness/vh"
)

const (
	ms = time.Millisecond
	kb = 1024
)

// wait = the bounded wait of closeWithError as measured on the compiled code under virtual time (compared with
// C03_closeWaitIterations x C03_closeWaitTickNs of Consts.v by the W cases)
func scenarios(r *vh.Run, wait time.Duration) []Scenario {
	var out []Scenario
	seed := r.Seed * 1000
	add := func(sc Scenario) {
		seed++
		sc.Seed = seed
		if sc.Fault.Kind == "" {
			sc.Fault.Kind = "none"
		}
		if sc.Transport == "udp" && sc.Latency == 0 {
			sc.Latency = 10 * ms
		}
		sc.Name = fmt.Sprintf("%03d-%s", len(out), sc.Name)
		out = append(out, sc)
	}
	closers := []string{"client", "server"}
	transports := []string{"tcp", "udp"}
	thorough := r.Thorough()

	// ---- A. no faults: every size x delta x transport x closer (must pass)
	sizes := []int{0, 1, 1 * kb, 1025, 100 * kb}
	deltas := []time.Duration{0, 1 * ms, 100 * ms, 2 * time.Second, 5 * time.Second}
	if thorough {
		sizes = append(sizes, 32768, 32769, 1024*kb)
	}
	for _, tr := range transports {
		for _, cl := range closers {
			for _, n := range sizes {
				for _, d := range deltas {
					if !thorough && n != 100*kb && d != 0 && d != 5*time.Second {
						continue
					}
					add(Scenario{Name: "nofault", Transport: tr, Closer: cl, N: n, Delta: d})
				}
			}
		}
	}
	// 1 MiB, close immediately (quick tier: once per transport)
	if !thorough {
		for _, tr := range transports {
			add(Scenario{Name: "nofault-1MiB", Transport: tr, Closer: "client", N: 1024 * kb, Delta: 0})
		}
	}

	// ---- B. UDP single faults on a small transfer: every sequenced datagram and the close request
	smallN := 5000 // open request (empty) + 4 data datagrams at MTU 1400
	fdelays := []time.Duration{30 * ms, 3 * time.Second}
	bdeltas := []time.Duration{0, 100 * ms, 2 * time.Second}
	if !thorough {
		bdeltas = []time.Duration{0, 2 * time.Second}
	}
	for _, cl := range closers {
		for _, d := range bdeltas {
			for k := 0; k <= 4; k++ {
				add(Scenario{Name: fmt.Sprintf("drop-data%d", k), Transport: "udp", Closer: cl, N: smallN, Delta: d, Fault: Fault{Kind: "drop", What: "data", K: k}})
				if thorough || k == 4 || k == 2 {
					add(Scenario{Name: fmt.Sprintf("dup-data%d", k), Transport: "udp", Closer: cl, N: smallN, Delta: d, Fault: Fault{Kind: "dup", What: "data", K: k, Delay: 30 * ms}})
					for _, fd := range fdelays {
						add(Scenario{Name: fmt.Sprintf("delay-data%d", k), Transport: "udp", Closer: cl, N: smallN, Delta: d, Fault: Fault{Kind: "delay", What: "data", K: k, Delay: fd}})
					}
				}
			}
			add(Scenario{Name: "drop-close", Transport: "udp", Closer: cl, N: smallN, Delta: d, Fault: Fault{Kind: "drop", What: "close"}})
			add(Scenario{Name: "dup-close", Transport: "udp", Closer: cl, N: smallN, Delta: d, Fault: Fault{Kind: "dup", What: "close", Delay: 30 * ms}})
			add(Scenario{Name: "delay-close", Transport: "udp", Closer: cl, N: smallN, Delta: d, Fault: Fault{Kind: "delay", What: "close", Delay: 3 * time.Second}})
		}
	}
	// single faults with tiny payloads (the data travels inside the open request / one datagram)
	for _, n := range []int{1, 1 * kb, 1025} {
		for _, cl := range closers {
			for k := 0; k <= 1; k++ {
				add(Scenario{Name: fmt.Sprintf("drop-data%d-tiny", k), Transport: "udp", Closer: cl, N: n, Delta: 0, Fault: Fault{Kind: "drop", What: "data", K: k}})
			}
			add(Scenario{Name: "drop-close-tiny", Transport: "udp", Closer: cl, N: n, Delta: 0, Fault: Fault{Kind: "drop", What: "close"}})
		}
	}

	// ---- C. sustained loss
	pcts := []int{5, 20}
	lsizes := []int{100 * kb}
	ldeltas := []time.Duration{0, 5 * time.Second}
	reps := 1
	if thorough {
		pcts = []int{5, 10, 20, 30}
		lsizes = []int{20 * kb, 100 * kb, 200000, 1024 * kb}
		ldeltas = []time.Duration{0, 100 * ms, 2 * time.Second, 5 * time.Second}
		reps = 2
	}
	for _, p := range pcts {
		for _, n := range lsizes {
			for _, d := range ldeltas {
				for _, cl := range closers {
					for i := 0; i < reps; i++ {
						if n == 1024*kb && (i > 0 || cl == "server") {
							continue
						}
						add(Scenario{Name: fmt.Sprintf("loss%d", p), Transport: "udp", Closer: cl, N: n, Delta: d, Fault: Fault{Kind: "loss", Pct: p}})
					}
				}
			}
		}
	}

	// ---- D. queue cannot drain within the wait
	// UDP: long round trip, no loss at all: the window opens too slowly
	lats := []time.Duration{150 * ms}
	if thorough {
		lats = []time.Duration{50 * ms, 150 * ms, 400 * ms}
	}
	for _, l := range lats {
		for _, cl := range closers {
			add(Scenario{Name: fmt.Sprintf("latency%dms", l/ms), Transport: "udp", Closer: cl, N: 1024 * kb, Delta: 0, Latency: l})
			if thorough {
				add(Scenario{Name: fmt.Sprintf("latency%dms", l/ms), Transport: "udp", Closer: cl, N: 100 * kb, Delta: 0, Latency: l})
				add(Scenario{Name: fmt.Sprintf("latency%dms", l/ms), Transport: "udp", Closer: cl, N: 1024 * kb, Delta: 5 * time.Second, Latency: l})
			}
		}
	}
	// TCP: bandwidth-limited link and bounded buffer with a stalled / slow reader
	for _, cl := range closers {
		add(Scenario{Name: "tcp-rate100k", Transport: "tcp", Closer: cl, N: 1024 * kb, Delta: 0, TCPRate: 100 * kb, TCPCap: 64 * kb})
		add(Scenario{Name: "tcp-cap-stalled-reader", Transport: "tcp", Closer: cl, N: 1024 * kb, Delta: 0, TCPCap: 16 * kb, ReadStall: 3 * time.Second})
		add(Scenario{Name: "tcp-cap-slow-reader", Transport: "tcp", Closer: cl, N: 300 * kb, Delta: 0, TCPCap: 4 * kb, ReadPause: 200 * ms})
		if thorough {
			add(Scenario{Name: "tcp-rate20k", Transport: "tcp", Closer: cl, N: 200 * kb, Delta: 100 * ms, TCPRate: 20 * kb, TCPCap: 8 * kb})
			add(Scenario{Name: "tcp-cap-stalled-reader-long", Transport: "tcp", Closer: cl, N: 1024 * kb, Delta: 2 * time.Second, TCPCap: 1 * kb, ReadStall: 30 * time.Second})
		}
	}
	// slow / stalled reader on UDP
	for _, cl := range closers {
		add(Scenario{Name: "udp-stalled-reader", Transport: "udp", Closer: cl, N: 100 * kb, Delta: 0, ReadStall: 3 * time.Second})
		add(Scenario{Name: "udp-slow-reader", Transport: "udp", Closer: cl, N: 100 * kb, Delta: 0, ReadPause: 50 * ms})
	}

	// ---- E. both directions carry data
	for _, tr := range transports {
		for _, cl := range closers {
			add(Scenario{Name: "bidir", Transport: tr, Closer: cl, N: 100 * kb, PeerN: 100 * kb, Delta: 0})
			add(Scenario{Name: "bidir", Transport: tr, Closer: cl, N: 100 * kb, PeerN: 1024 * kb, Delta: 100 * ms})
			if thorough {
				add(Scenario{Name: "bidir", Transport: tr, Closer: cl, N: 1024 * kb, PeerN: 1024 * kb, Delta: 0})
				add(Scenario{Name: "bidir", Transport: tr, Closer: cl, N: 5000, PeerN: 300 * kb, Delta: 2 * time.Second})
			}
		}
	}

	// ---- E2. sender backlog: one-segment writes faster than the network takes them, until the send queue is as full as
	// writeChunk lets it become; Close at the instant a successful Write has left no free slot (never, if the slot for the
	// close request is kept), otherwise after the last Write
	for _, cl := range closers {
		add(Scenario{Name: "sendq-full", Transport: "udp", Closer: cl, N: 6000 * 4, Writes: 6000, WriteSize: 4, CloseWhenFull: true})
	}
	for _, cl := range closers {
		// 32 KiB writes = 25 fragments per Write over a bandwidth-limited path (one datagram per ms): a Write returns as soon
		// as the queue moves, so the writer outruns the path and the queue fills as far as writeChunk lets it; if no Write ever
		// left it full, the closer waits until the backlog has shrunk to a sixteenth, so that the rest drains well within the
		// bounded wait of a graceful close
		add(Scenario{Name: "sendq-full-paced", Transport: "udp", Closer: cl, N: 400 * 32768, Writes: 400, WriteSize: 32768, CloseWhenFull: true, Latency: 2 * ms, Pace: 1 * ms})
	}

	// ---- F. receiver backlog: many one-segment writes, the peer application does not read before the closer's Close
	// has returned (TCP) / before T (UDP, where the closed receive window stops the writer).  Counts sit around the
	// receiver's capacities: recvChan 256, recvQueue 4096, 4096+1+256 = 4353.
	type bl struct {
		tr, cl string
		cnt    int
		size   int
	}
	var bls []bl
	if thorough {
		for _, tr := range transports {
			for _, cl := range closers {
				for i, cnt := range []int{255, 256, 257, 4095, 4096, 4097, 4351, 4352, 4353, 4354, 4400, 5000} {
					bls = append(bls, bl{tr, cl, cnt, []int{16, 1, 7, 16}[i%4]})
				}
			}
		}
	} else {
		bls = []bl{{"tcp", "client", 257, 1}, {"tcp", "client", 4352, 16}, {"tcp", "client", 4353, 16}, {"tcp", "server", 4352, 7}, {"tcp", "client", 5000, 16},
			{"udp", "client", 4400, 16}, {"udp", "server", 4353, 16}}
	}
	for _, b := range bls {
		sc := Scenario{Name: fmt.Sprintf("backlog%d", b.cnt), Transport: b.tr, Closer: b.cl, N: b.cnt * b.size, Writes: b.cnt, WriteSize: b.size, ReadAfterClose: true}
		if b.tr == "udp" {
			sc.ReadStall = 3 * time.Second // the writer stops when the receive window closes: resume at T
			sc.Latency = 1 * ms
		}
		add(sc)
	}
	// the same with a bounded pipe (the writer is stopped by TCP back-pressure) and with a reader that resumes slowly
	add(Scenario{Name: "backlog4400-cap", Transport: "tcp", Closer: "client", N: 4400 * 16, Writes: 4400, WriteSize: 16, ReadAfterClose: true, ReadStall: 2 * time.Second, TCPCap: 16 * kb})
	if thorough {
		add(Scenario{Name: "backlog6000-slow", Transport: "tcp", Closer: "client", N: 6000 * 16, Writes: 6000, WriteSize: 16, ReadAfterClose: true, ReadPause: 1 * ms})
		add(Scenario{Name: "backlog6000-slow", Transport: "tcp", Closer: "server", N: 6000 * 8, Writes: 6000, WriteSize: 8, ReadAfterClose: true, ReadPause: 1 * ms})
		add(Scenario{Name: "backlog4400-cap", Transport: "tcp", Closer: "server", N: 4400 * 16, Writes: 4400, WriteSize: 16, ReadAfterClose: true, ReadStall: 2 * time.Second, TCPCap: 1 * kb})
	}

	// ---- G. TCP write stall on the closer's connection around the close: the first 2000 bytes go out, then the connection accepts
	// nothing for D (below, at and above the bounded wait of closeWithError: iterations x tick from the source tree), k further
	// Writes are issued, Close is called at several points of the stall, the stall ends, the peer reads normally or slowly.
	type st struct {
		cl      string
		d       time.Duration
		k, size int
		at      time.Duration
		pause   time.Duration
	}
	var sts []st
	if thorough {
		for _, cl := range closers {
			for _, d := range []time.Duration{wait / 2, wait - ms, wait, wait + ms, wait + 20*ms, wait * 3 / 2, 2 * wait, 5 * wait} {
				for _, k := range []int{1, 2, 8} {
					for _, at := range []time.Duration{0, 300 * ms, d - 10*ms} {
						sts = append(sts, st{cl, d, k, 20000, at, 0})
					}
				}
				sts = append(sts, st{cl, d, 1, 40000, 0, 0}, st{cl, d, 3, 20000, 0, 5 * ms}, st{cl, d, 2, 100, 100 * ms, 0})
			}
		}
	} else {
		sts = []st{{"client", 2 * wait, 2, 20000, 0, 0}, {"server", 2 * wait, 2, 20000, 0, 0}, {"client", wait + 20*ms, 2, 20000, 0, 0},
			{"client", wait * 3 / 2, 8, 20000, 300 * ms, 0}, {"server", 2 * wait, 1, 40000, 0, 5 * ms}, {"client", wait - ms, 2, 20000, 0, 0},
			{"client", 2 * wait, 1, 20000, 0, 0}, {"server", 5 * wait, 3, 100, wait / 2, 0}}
	}
	for _, x := range sts {
		add(Scenario{Name: fmt.Sprintf("stall%dms-k%d", x.d/ms, x.k), Transport: "tcp", Closer: x.cl, N: 2000 + x.k*x.size, PreStall: 2000,
			StallFor: x.d, StallWrites: x.k, StallWriteSize: x.size, CloseAt: x.at, ReadPause: x.pause})
	}
	return out
}
