package main

import (
	"fmt"
	"time"

	"verifharness/vh"
)

const (
	ms = time.Millisecond
	kb = 1024
)

func scenarios(r *vh.Run) []Scenario {
	var out []Scenario
	seed := r.Seed * 1000
	add := func(sc Scenario) {
		seed++
		sc.Seed = seed
		if sc.Fault.Kind == "" {
			sc.Fault.Kind = "none"
		}
		if sc.Transport == "udp" && sc.Latency == 0 {
			sc.Latency = 10 * ms
		}
		sc.Name = fmt.Sprintf("%03d-%s", len(out), sc.Name)
		out = append(out, sc)
	}
	closers := []string{"client", "server"}
	transports := []string{"tcp", "udp"}
	thorough := r.Thorough()

	// ---- A. no faults: every size x delta x transport x closer (must pass)
	sizes := []int{0, 1, 1 * kb, 1025, 100 * kb}
	deltas := []time.Duration{0, 1 * ms, 100 * ms, 2 * time.Second, 5 * time.Second}
	if thorough {
		sizes = append(sizes, 32768, 32769, 1024*kb)
	}
	for _, tr := range transports {
		for _, cl := range closers {
			for _, n := range sizes {
				for _, d := range deltas {
					if !thorough && n != 100*kb && d != 0 && d != 5*time.Second {
						continue
					}
					add(Scenario{Name: "nofault", Transport: tr, Closer: cl, N: n, Delta: d})
				}
			}
		}
	}
	// 1 MiB, close immediately (quick tier: once per transport)
	if !thorough {
		for _, tr := range transports {
			add(Scenario{Name: "nofault-1MiB", Transport: tr, Closer: "client", N: 1024 * kb, Delta: 0})
		}
	}

	// ---- B. UDP single faults on a small transfer: every sequenced datagram and the close request
	smallN := 5000 // open request (empty) + 4 data datagrams at MTU 1400
	fdelays := []time.Duration{30 * ms, 3 * time.Second}
	bdeltas := []time.Duration{0, 100 * ms, 2 * time.Second}
	if !thorough {
		bdeltas = []time.Duration{0, 2 * time.Second}
	}
	for _, cl := range closers {
		for _, d := range bdeltas {
			for k := 0; k <= 4; k++ {
				add(Scenario{Name: fmt.Sprintf("drop-data%d", k), Transport: "udp", Closer: cl, N: smallN, Delta: d, Fault: Fault{Kind: "drop", What: "data", K: k}})
				if thorough || k == 4 || k == 2 {
					add(Scenario{Name: fmt.Sprintf("dup-data%d", k), Transport: "udp", Closer: cl, N: smallN, Delta: d, Fault: Fault{Kind: "dup", What: "data", K: k, Delay: 30 * ms}})
					for _, fd := range fdelays {
						add(Scenario{Name: fmt.Sprintf("delay-data%d", k), Transport: "udp", Closer: cl, N: smallN, Delta: d, Fault: Fault{Kind: "delay", What: "data", K: k, Delay: fd}})
					}
				}
			}
			add(Scenario{Name: "drop-close", Transport: "udp", Closer: cl, N: smallN, Delta: d, Fault: Fault{Kind: "drop", What: "close"}})
			add(Scenario{Name: "dup-close", Transport: "udp", Closer: cl, N: smallN, Delta: d, Fault: Fault{Kind: "dup", What: "close", Delay: 30 * ms}})
			add(Scenario{Name: "delay-close", Transport: "udp", Closer: cl, N: smallN, Delta: d, Fault: Fault{Kind: "delay", What: "close", Delay: 3 * time.Second}})
		}
	}
	// single faults with tiny payloads (the data travels inside the open request / one datagram)
	for _, n := range []int{1, 1 * kb, 1025} {
		for _, cl := range closers {
			for k := 0; k <= 1; k++ {
				add(Scenario{Name: fmt.Sprintf("drop-data%d-tiny", k), Transport: "udp", Closer: cl, N: n, Delta: 0, Fault: Fault{Kind: "drop", What: "data", K: k}})
			}
			add(Scenario{Name: "drop-close-tiny", Transport: "udp", Closer: cl, N: n, Delta: 0, Fault: Fault{Kind: "drop", What: "close"}})
		}
	}

	// ---- C. sustained loss
	pcts := []int{5, 20}
	lsizes := []int{100 * kb}
	ldeltas := []time.Duration{0, 5 * time.Second}
	reps := 1
	if thorough {
		pcts = []int{5, 10, 20, 30}
		lsizes = []int{20 * kb, 100 * kb, 200000, 1024 * kb}
		ldeltas = []time.Duration{0, 100 * ms, 2 * time.Second, 5 * time.Second}
		reps = 2
	}
	for _, p := range pcts {
		for _, n := range lsizes {
			for _, d := range ldeltas {
				for _, cl := range closers {
					for i := 0; i < reps; i++ {
						if n == 1024*kb && (i > 0 || cl == "server") {
							continue
						}
						add(Scenario{Name: fmt.Sprintf("loss%d", p), Transport: "udp", Closer: cl, N: n, Delta: d, Fault: Fault{Kind: "loss", Pct: p}})
					}
				}
			}
		}
	}

	// ---- D. queue cannot drain within the wait
	// UDP: long round trip, no loss at all: the window opens too slowly
	lats := []time.Duration{150 * ms}
	if thorough {
		lats = []time.Duration{50 * ms, 150 * ms, 400 * ms}
	}
	for _, l := range lats {
		for _, cl := range closers {
			add(Scenario{Name: fmt.Sprintf("latency%dms", l/ms), Transport: "udp", Closer: cl, N: 1024 * kb, Delta: 0, Latency: l})
			if thorough {
				add(Scenario{Name: fmt.Sprintf("latency%dms", l/ms), Transport: "udp", Closer: cl, N: 100 * kb, Delta: 0, Latency: l})
				add(Scenario{Name: fmt.Sprintf("latency%dms", l/ms), Transport: "udp", Closer: cl, N: 1024 * kb, Delta: 5 * time.Second, Latency: l})
			}
		}
	}
	// TCP: bandwidth-limited link and bounded buffer with a stalled / slow reader
	for _, cl := range closers {
		add(Scenario{Name: "tcp-rate100k", Transport: "tcp", Closer: cl, N: 1024 * kb, Delta: 0, TCPRate: 100 * kb, TCPCap: 64 * kb})
		add(Scenario{Name: "tcp-cap-stalled-reader", Transport: "tcp", Closer: cl, N: 1024 * kb, Delta: 0, TCPCap: 16 * kb, ReadStall: 3 * time.Second})
		add(Scenario{Name: "tcp-cap-slow-reader", Transport: "tcp", Closer: cl, N: 300 * kb, Delta: 0, TCPCap: 4 * kb, ReadPause: 200 * ms})
		if thorough {
			add(Scenario{Name: "tcp-rate20k", Transport: "tcp", Closer: cl, N: 200 * kb, Delta: 100 * ms, TCPRate: 20 * kb, TCPCap: 8 * kb})
			add(Scenario{Name: "tcp-cap-stalled-reader-long", Transport: "tcp", Closer: cl, N: 1024 * kb, Delta: 2 * time.Second, TCPCap: 1 * kb, ReadStall: 30 * time.Second})
		}
	}
	// slow / stalled reader on UDP
	for _, cl := range closers {
		add(Scenario{Name: "udp-stalled-reader", Transport: "udp", Closer: cl, N: 100 * kb, Delta: 0, ReadStall: 3 * time.Second})
		add(Scenario{Name: "udp-slow-reader", Transport: "udp", Closer: cl, N: 100 * kb, Delta: 0, ReadPause: 50 * ms})
	}

	// ---- E. both directions carry data
	for _, tr := range transports {
		for _, cl := range closers {
			add(Scenario{Name: "bidir", Transport: tr, Closer: cl, N: 100 * kb, PeerN: 100 * kb, Delta: 0})
			add(Scenario{Name: "bidir", Transport: tr, Closer: cl, N: 100 * kb, PeerN: 1024 * kb, Delta: 100 * ms})
			if thorough {
				add(Scenario{Name: "bidir", Transport: tr, Closer: cl, N: 1024 * kb, PeerN: 1024 * kb, Delta: 0})
				add(Scenario{Name: "bidir", Transport: tr, Closer: cl, N: 5000, PeerN: 300 * kb, Delta: 2 * time.Second})
			}
		}
	}
	return out
}
