// Driver for C03: graceful close never turns a partial transfer into a clean end-of-stream.
//
// Runs a real client Mux and a real server Mux (pkg/protocol) over simnet under Go's faketime
// runtime.  One scenario = one session: the "closer" writes n bytes, waits delta, calls Close;
// the peer reads until EOF or error.  Faults are injected into the closer->peer direction
// (single-fault positions are enumerated for small transfers), or as sustained random loss in
// both directions, or as a bandwidth-limited / bounded TCP pipe.
//
// Oracle (property text): the peer read everything, or it got a non-EOF error; never
// (strict prefix, clean EOF).  Each failure carries a cause signature computed from the network
// trace of the scenario.
//
// Correspondence: the trace is abstracted to a case line (transport, number of sequenced
// segments the closer produced, how many of them were handed to the network before the close
// request, which of them the peer's endpoint had received when it received the first close
// request); the extracted Coq model replays that abstract schedule and predicts the outcome class
// and the number of segments the peer application reads before its Read returns.
package main

import (
	"errors"
	"fmt"
	"io"
	"net"
	"os"
	"sort"
	"strings"
	"sync"
	"sync/atomic"
	"time"

	"github.com/enfein/mieru/v3/pkg/protocol"
	"verifharness/refcodec"
	"verifharness/rig"
	"verifharness/simnet"
	"verifharness/trace"
	"verifharness/vh"
)

const (
	user = "alice"
	pass = "alice-password"
	mtu  = 1400
)

type Fault struct {
	Kind  string        `json:"kind"`  // none drop dup delay loss
	What  string        `json:"what"`  // data | close   (single faults)
	K     int           `json:"k"`     // index of the sequenced segment of the closer's direction (first transmission)
	Delay time.Duration `json:"delay"` // extra delay for dup/delay
	Pct   int           `json:"pct"`   // sustained loss percentage (both directions)
}

type Scenario struct {
	Name           string        `json:"name"`
	Transport      string        `json:"transport"`
	Closer         string        `json:"closer"` // client | server
	N              int           `json:"n"`
	Delta          time.Duration `json:"delta"`
	PeerN          int           `json:"peer_n"`  // bytes the peer writes concurrently (both directions carry data)
	Latency        time.Duration `json:"latency"` // one-way latency (udp)
	Fault          Fault         `json:"fault"`
	Writes         int           `json:"writes"` // > 0: the closer performs this many Writes of WriteSize bytes each (one segment per Write); N = Writes*WriteSize
	WriteSize      int           `json:"write_size"`
	ReadAfterClose bool          `json:"read_after_close"` // the peer application does not read before the closer's Close has returned (or ReadStall has passed, if > 0)
	ReadStall      time.Duration `json:"read_stall"`       // peer application starts reading this long after accepting
	ReadPause      time.Duration `json:"read_pause"`       // pause between the peer's Read calls
	TCPCap         int           `json:"tcp_cap"`          // bounded in-flight buffer of the closer->peer TCP direction
	StallFor       time.Duration `json:"stall_for"`        // TCP: after the first PreStall bytes have gone out, the closer's connection accepts no byte for this long (Write blocks, nothing is dropped)
	PreStall       int           `json:"pre_stall"`        // bytes written before the stall begins
	StallWrites    int           `json:"stall_writes"`     // Writes of StallWriteSize bytes issued after the stall has begun
	StallWriteSize int           `json:"stall_write_size"`
	CloseAt        time.Duration `json:"close_at"` // Close is called this long after the stall began (or when the Writes have returned, if that is later)
	TCPRate        int           `json:"tcp_rate"` // bytes per second of the closer->peer TCP direction (0 = unlimited)
	Pace           time.Duration `json:"pace"` // udp: the closer->peer direction delivers at most one datagram per Pace (a bandwidth-limited path; nothing is dropped or reordered)
	CloseWhenFull  bool          `json:"close_when_full"` // Writes > 0: stop writing and Close at once as soon as a successful Write leaves the send queue without a free slot
	Seed           uint64        `json:"seed"`
}

type Result struct {
	Wrote               int
	WriteErr            string
	CloseDur            time.Duration
	Read                int
	PrefixOK            bool
	ReadErr             string // "" = clean EOF
	Hang                bool
	Class               string // COMPLETE TRUNCATED_EOF ERROR HANG WRITE_FAILED CORRUPT
	Facts               Facts
	VirtualMs           int64
	ReadBeganAfterClose bool // receiver-backlog scenarios: the peer application's first Read came after the closer's Close had returned
	EffN                int  // bytes the closer set out to write (sc.N, or what it had written when it stopped at a full queue)
	QueueFullAtClose    bool // CloseWhenFull scenarios: a successful Write left the send queue without a free slot and Close was called at that point
}

// Facts is what the network trace says about the closer->peer direction.
type Facts struct {
	NSeg               int   // sequenced segments before the close request (open request/response + data) = closeSeq
	CloseSeq           int   // -1 if the closer's session never emitted a close request
	SentBeforeClose    int   // distinct seqs < closeSeq handed to the network before the first transmission of the close request
	SentEver           int   // distinct seqs < closeSeq ever handed to the network
	PayloadSent        int   // payload bytes of distinct seqs ever sent
	CloseSent          int   // transmissions of the close request by the closer (session or underlay)
	CloseDelivered     bool  // peer endpoint received a close request
	Have               []int // seqs < closeSeq the peer endpoint had received before it received the first close request (sorted)
	InOrder            int   // length of the in-order prefix of Have
	PayloadAt          []int // cumulative payload bytes after seq i (for converting bytes read into segments)
	PayloadBeforeClose int   // TCP: payload bytes of the sequenced segments that precede the first close request on the stream
	MinPeerWindow      int   // UDP: smallest receive window the peer advertised before it received the close request (-1 = none seen)
}

func pat(seed uint64, i int) byte { return byte(uint64(i)*131 + uint64(i>>8)*17 + seed*29 + 7) }

func mkData(seed uint64, n int) []byte {
	b := make([]byte, n)
	for i := range b {
		b[i] = pat(seed, i)
	}
	return b
}

func errName(err error) string {
	switch {
	case err == nil:
		return ""
	case errors.Is(err, io.EOF):
		return "EOF"
	case errors.Is(err, io.ErrUnexpectedEOF):
		return "UNEXPECTED_EOF"
	case errors.Is(err, io.ErrClosedPipe):
		return "CLOSED_PIPE"
	case strings.Contains(err.Error(), "timeout") || strings.Contains(err.Error(), "timed out"):
		return "TIMEOUT"
	default:
		return "ERR"
	}
}

// readUntilEnd reads until Read returns an error; io.EOF is reported as "" (clean end of stream).
func readUntilEnd(c net.Conn, seed uint64, pause time.Duration) (n int, prefixOK bool, rerr string) {
	buf := make([]byte, 16384)
	prefixOK = true
	for {
		k, err := c.Read(buf)
		for i := 0; i < k; i++ {
			if buf[i] != pat(seed, n+i) {
				prefixOK = false
			}
		}
		n += k
		if err != nil {
			if errors.Is(err, io.EOF) {
				return n, prefixOK, ""
			}
			return n, prefixOK, errName(err)
		}
		if pause > 0 {
			time.Sleep(pause)
		}
	}
}

type keyring struct {
	hp []byte
}

func (k *keyring) decode(data []byte) (refcodec.Segment, bool) {
	keys := refcodec.KeysAt(k.hp, time.Now())
	seg, _, err := refcodec.DecodeDatagram(keys[:], data)
	return seg, err == nil
}

func runScenario(sc Scenario) Result {
	t0 := time.Now()
	var res Result
	n := simnet.New()
	kr := &keyring{hp: refcodec.HashedPassword(user, pass)}
	serverAddr := "192.0.2.1:8964"
	closerIsClient := sc.Closer == "client"
	rng := vh.NewRng(sc.Seed)

	var stallUntil atomic.Int64
	// ---- network shaping
	if sc.Transport == "udp" {
		var mu sync.Mutex
		lastArrive := map[string]time.Time{}
		seen := map[string]int{} // transmissions per (dir, proto class, seq)
		n.Fate = func(d *simnet.Datagram) []simnet.Delivery {
			mu.Lock()
			defer mu.Unlock()
			fromCloser := (d.Dst == serverAddr) == closerIsClient
			dirKey := d.Src + ">" + d.Dst
			// order-preserving base delay: arrivals of one direction are strictly increasing in send order
			now := time.Now()
			at := now.Add(sc.Latency)
			if la, ok := lastArrive[dirKey]; ok && !at.After(la) {
				at = la.Add(time.Nanosecond)
			}
			if la, ok := lastArrive[dirKey]; ok && sc.Pace > 0 && fromCloser && at.Before(la.Add(sc.Pace)) {
				at = la.Add(sc.Pace)
			}
			base := at.Sub(now)
			keep := func() []simnet.Delivery {
				lastArrive[dirKey] = at
				return []simnet.Delivery{{Delay: base}}
			}
			f := sc.Fault
			switch f.Kind {
			case "loss":
				if rng.Intn(100) < f.Pct {
					return nil
				}
				return keep()
			case "drop", "dup", "delay":
				if !fromCloser {
					return keep()
				}
				seg, ok := kr.decode(d.Data)
				if !ok {
					return keep()
				}
				m := seg.Meta
				isClose := int(m.Proto) == protocol.VerifC03CloseSessionRequest
				sequenced := m.IsData() || (m.IsSession() && !isClose && int(m.Proto) != protocol.VerifC03CloseSessionResponse)
				hit := false
				if f.What == "close" && isClose {
					key := "close"
					seen[key]++
					hit = seen[key] == 1
				} else if f.What == "data" && sequenced && int(m.Seq) == f.K {
					key := fmt.Sprintf("s%d", m.Seq)
					seen[key]++
					hit = seen[key] == 1
				}
				if !hit {
					return keep()
				}
				switch f.Kind {
				case "drop":
					return nil
				case "dup":
					lastArrive[dirKey] = at
					return []simnet.Delivery{{Delay: base}, {Delay: base + f.Delay}}
				default: // delay: this datagram alone arrives later; later ones overtake it
					return []simnet.Delivery{{Delay: base + f.Delay}}
				}
			}
			return keep()
		}
	} else {
		if sc.TCPCap > 0 || sc.TCPRate > 0 || sc.StallFor > 0 {
			n.TCPPolicy = func(connID int, clientAddr, srvAddr string) (c2s, s2c *simnet.PipePolicy) {
				pol := &simnet.PipePolicy{Cap: sc.TCPCap}
				if sc.StallFor > 0 {
					// a write stall (zero window, outage): the writer is held until the stall is over, every byte is delivered
					pol.Transform = func(off int64, data []byte) []byte {
						if until := stallUntil.Load(); until > 0 {
							if d := time.Until(time.Unix(0, until)); d > 0 {
								time.Sleep(d)
							}
						}
						return data
					}
				}
				if sc.TCPRate > 0 {
					// a bandwidth-limited link: the writer is held for len/rate (virtual) seconds
					pol.Transform = func(off int64, data []byte) []byte {
						time.Sleep(time.Duration(int64(len(data)) * int64(time.Second) / int64(sc.TCPRate)))
						return data
					}
				}
				if closerIsClient {
					return pol, nil
				}
				return nil, pol
			}
		}
	}

	r, err := rig.Start(rig.Opts{Transport: sc.Transport, MTU: mtu, Net: n, Users: map[string]string{user: pass}, ClientUser: user, ClientPass: pass})
	if err != nil {
		res.Class = "RIG_ERROR"
		res.WriteErr = err.Error()
		return res
	}
	cconn, err := r.Dial()
	if err != nil {
		r.Close()
		res.Class = "RIG_ERROR"
		res.WriteErr = err.Error()
		return res
	}
	data := mkData(sc.Seed, sc.N)
	peerData := mkData(sc.Seed+1, sc.PeerN)

	type peerOut struct {
		n        int
		prefixOK bool
		rerr     string
		fail     string
	}
	peerDone := make(chan peerOut, 1)
	closerDone := make(chan struct{})
	closeReturned := make(chan struct{})
	var peerConn net.Conn
	var peerMu sync.Mutex

	peerSide := func(c net.Conn) {
		peerMu.Lock()
		peerConn = c
		peerMu.Unlock()
		if sc.PeerN > 0 {
			go func() {
				time.Sleep(5 * time.Millisecond) // see the note on Accept below
				c.Write(peerData)
			}()
		}
		if sc.ReadAfterClose {
			// busy elsewhere until the closer's Close has returned (receiver backlog); ReadStall bounds the pause
			limit := sc.ReadStall
			if limit <= 0 {
				limit = 120 * time.Second
			}
			select {
			case <-closeReturned:
				res.ReadBeganAfterClose = true
				time.Sleep(20 * time.Millisecond)
			case <-time.After(limit):
			}
		} else if sc.ReadStall > 0 {
			time.Sleep(sc.ReadStall)
		}
		k, ok, e := readUntilEnd(c, sc.Seed, sc.ReadPause)
		peerDone <- peerOut{n: k, prefixOK: ok, rerr: e}
	}
	closerSide := func(c net.Conn) {
		defer close(closerDone)
		if sc.PeerN > 0 {
			// the closer consumes what the peer sends until it closes
			go func() {
				b := make([]byte, 16384)
				for {
					if _, err := c.Read(b); err != nil {
						return
					}
				}
			}()
		}
		if sc.StallFor > 0 {
			check := func(b []byte) bool {
				w, err := c.Write(b)
				res.Wrote += w
				if err != nil || w != len(b) {
					res.WriteErr = errName(err)
					if res.WriteErr == "" {
						res.WriteErr = "SHORT"
					}
					return false
				}
				return true
			}
			if check(data[:sc.PreStall]) {
				time.Sleep(time.Millisecond) // the output loop has handed the first bytes to the connection
				start := time.Now()
				stallUntil.Store(start.Add(sc.StallFor).UnixNano())
				for i := 0; i < sc.StallWrites; i++ {
					off := sc.PreStall + i*sc.StallWriteSize
					if !check(data[off : off+sc.StallWriteSize]) {
						break
					}
				}
				if d := time.Until(start.Add(sc.CloseAt)); d > 0 {
					time.Sleep(d)
				}
			}
		} else if sc.Writes > 0 {
			// many small writes, each checked: one segment per Write
			for i := 0; i < sc.Writes; i++ {
				w, err := c.Write(data[i*sc.WriteSize : (i+1)*sc.WriteSize])
				res.Wrote += w
				if err != nil || w != sc.WriteSize {
					res.WriteErr = errName(err)
					if res.WriteErr == "" {
						res.WriteErr = "SHORT"
					}
					break
				}
				if sc.CloseWhenFull && protocol.VerifC03SendQueueRemaining(c) == 0 {
					res.QueueFullAtClose = true // the slot writeChunk keeps free for the close request is taken
					break
				}
			}
		} else {
			w, err := c.Write(data)
			res.Wrote, res.WriteErr = w, errName(err)
		}
		if sc.Delta > 0 {
			time.Sleep(sc.Delta)
		}
		if sc.CloseWhenFull && !res.QueueFullAtClose {
			// the queue never became full: let the backlog shrink to a sixteenth before closing, so that what is left drains
			// well within the bounded wait of the graceful close
			for k := 0; k < 120000 && protocol.VerifC03SendQueueRemaining(c) < protocol.VerifC03SegmentTreeCapacity*15/16; k++ {
				time.Sleep(time.Millisecond)
			}
		}
		tc := time.Now()
		c.Close()
		res.CloseDur = time.Since(tc)
		close(closeReturned)
	}

	if closerIsClient {
		go func() {
			s, err := r.Accept(60 * time.Second)
			if err != nil {
				peerDone <- peerOut{fail: "accept"}
				return
			}
			peerSide(s)
		}()
		go closerSide(cconn)
	} else {
		// the client opens the session with a one-byte request (it travels inside the open request),
		// the server side then writes and closes, the client reads until the end
		go func() {
			if _, err := cconn.Write([]byte{'h'}); err != nil {
				peerDone <- peerOut{fail: "open"}
				return
			}
			peerSide(cconn)
		}()
		go func() {
			s, err := r.Accept(60 * time.Second)
			if err != nil {
				close(closerDone)
				return
			}
			// a server application reads its request first.  (Writing at once after Accept can take sequence
			// number 0 before the session has queued its open response; on UDP the client then never leaves
			// the "opening" state and the transfer stalls - not a C03 matter, see the report.)
			hb := make([]byte, 1)
			io.ReadFull(s, hb)
			time.Sleep(5 * time.Millisecond)
			closerSide(s)
		}()
	}

	var po peerOut
	select {
	case po = <-peerDone:
	case <-time.After(900 * time.Second):
		res.Hang = true
		// unblock the reader
		peerMu.Lock()
		pc := peerConn
		peerMu.Unlock()
		if pc != nil {
			pc.Close()
		}
		select {
		case po = <-peerDone:
		case <-time.After(30 * time.Second):
		}
	}
	select {
	case <-closerDone:
	case <-time.After(120 * time.Second):
	}
	res.Read, res.PrefixOK, res.ReadErr = po.n, po.prefixOK, po.rerr
	if res.QueueFullAtClose {
		sc.N = res.Wrote // the closer stopped at the first full queue: what it wrote successfully is the transfer
	}
	res.EffN = sc.N
	ev := n.Log.Snapshot()
	r.Close()
	res.Facts = facts(sc, ev)
	if os.Getenv("C03_TRACE") != "" {
		dumpTrace(sc, ev)
	}
	res.VirtualMs = time.Since(t0).Milliseconds()

	switch {
	case po.fail != "":
		res.Class = "SETUP_" + strings.ToUpper(po.fail)
	case res.WriteErr != "" || res.Wrote != sc.N:
		res.Class = "WRITE_FAILED"
	case !res.PrefixOK || res.Read > sc.N:
		res.Class = "CORRUPT"
	case res.Hang:
		res.Class = "HANG"
	case res.Read == sc.N:
		res.Class = "COMPLETE"
	case res.ReadErr == "":
		res.Class = "TRUNCATED_EOF"
	default:
		res.Class = "ERROR"
	}
	return res
}

// facts abstracts the network trace of the closer->peer direction.
func facts(sc Scenario, ev []simnet.Event) Facts {
	f := Facts{CloseSeq: -1, MinPeerWindow: -1}
	creds := []trace.Cred{{User: user, Pass: pass}}
	closerIsClient := sc.Closer == "client"
	serverAddr := "192.0.2.1:8964"
	isCloseReq := func(p uint8) bool { return int(p) == protocol.VerifC03CloseSessionRequest }
	isCloseResp := func(p uint8) bool { return int(p) == protocol.VerifC03CloseSessionResponse }
	sequenced := func(m refcodec.Meta) bool {
		return m.IsData() || (m.IsSession() && !isCloseReq(m.Proto) && !isCloseResp(m.Proto))
	}
	payload := map[int]int{}
	if sc.Transport == "udp" {
		sentBefore := map[int]bool{}
		sentEver := map[int]bool{}
		have := map[int]bool{}
		closeSeen := false
		closeDelivered := false
		for _, u := range trace.UDP(ev, creds) {
			if u.Seg == nil {
				continue
			}
			fromCloser := (u.Dst == serverAddr) == closerIsClient
			if !fromCloser {
				if m := u.Seg.Meta; u.Kind == "send" && !closeDelivered && (m.IsData() || m.IsAck()) {
					if f.MinPeerWindow < 0 || int(m.WindowSize) < f.MinPeerWindow {
						f.MinPeerWindow = int(m.WindowSize)
					}
				}
				continue
			}
			m := u.Seg.Meta
			switch u.Kind {
			case "send":
				if isCloseReq(m.Proto) {
					f.CloseSent++
					if !closeSeen {
						closeSeen = true
						f.CloseSeq = int(m.Seq)
					}
				} else if sequenced(m) {
					sentEver[int(m.Seq)] = true
					payload[int(m.Seq)] = len(u.Seg.Payload)
					if !closeSeen {
						sentBefore[int(m.Seq)] = true
					}
				}
			case "recv":
				if isCloseReq(m.Proto) {
					closeDelivered = true
				} else if sequenced(m) && !closeDelivered {
					have[int(m.Seq)] = true
				}
			}
		}
		f.SentBeforeClose, f.SentEver = len(sentBefore), len(sentEver)
		f.CloseDelivered = closeDelivered
		for s := range have {
			f.Have = append(f.Have, s)
		}
		sort.Ints(f.Have)
	} else {
		for _, tc := range trace.TCP(ev, creds) {
			d := &tc.C2S
			if !closerIsClient {
				d = &tc.S2C
			}
			closeSeen := false
			for _, s := range d.Segs {
				m := s.Meta
				if isCloseReq(m.Proto) {
					f.CloseSent++
					if !closeSeen {
						closeSeen = true
						f.CloseSeq = int(m.Seq)
					}
				} else if sequenced(m) {
					payload[int(m.Seq)] = len(s.Payload)
					f.SentEver++
					if !closeSeen {
						f.SentBeforeClose++
						f.PayloadBeforeClose += len(s.Payload)
						f.Have = append(f.Have, int(m.Seq)) // TCP: reliable FIFO, everything written before the close request precedes it
					}
				}
			}
			f.CloseDelivered = closeSeen
		}
	}
	for f.InOrder < len(f.Have) && f.Have[f.InOrder] == f.InOrder {
		f.InOrder++
	}
	maxSeq := -1
	for s, p := range payload {
		f.PayloadSent += p
		if s > maxSeq {
			maxSeq = s
		}
	}
	f.NSeg = f.CloseSeq
	if f.CloseSeq < 0 {
		f.NSeg = maxSeq + 1
	}
	cum := 0
	for s := 0; s <= maxSeq; s++ {
		cum += payload[s]
		f.PayloadAt = append(f.PayloadAt, cum)
	}
	return f
}

// segsOfBytes converts a number of bytes read into the number of leading sequenced segments that
// carry exactly those bytes (-1 if the count does not fall on a segment boundary).
func segsOfBytes(f Facts, n int) int {
	// the smallest k with PayloadAt[k-1] == n: trailing empty segments (an open request / response without
	// payload) are not counted; the model runner normalises its answer the same way (field <empty> of the case line)
	if n == 0 {
		return 0
	}
	for k := 1; k <= len(f.PayloadAt); k++ {
		if f.PayloadAt[k-1] == n {
			return k
		}
	}
	return -1
}

// emptySegs lists the sequenced segments that carry no payload.
func emptySegs(f Facts) []int {
	var out []int
	prev := 0
	for i, c := range f.PayloadAt {
		if c == prev {
			out = append(out, i)
		}
		prev = c
	}
	return out
}

// signature computes the cause signature of a (strict prefix, clean EOF) outcome from the trace.
func signature(sc Scenario, res Result) string {
	f := res.Facts
	// everything the closer wrote reached the peer's endpoint before the close request did, and the peer application
	// had a backlog of unread segments at that moment: the data was lost inside the receiver
	backlog := sc.ReadAfterClose && f.PayloadSent >= sc.N && f.InOrder >= f.NSeg
	// UDP: the peer holds at most segmentTreeCapacity segments in recvBuf + recvQueue; while its application has read nothing,
	// every further datagram is dropped by the receive-window test of inputData although it arrived
	windowFull := f.MinPeerWindow == 0 || (res.ReadBeganAfterClose && f.InOrder > protocol.VerifC03SegmentTreeCapacity)
	if backlog && sc.Transport == "udp" && windowFull {
		// the peer's receive window was exhausted (recvBuf + recvQueue = segmentTreeCapacity): inputData dropped a datagram
		// that had arrived, the closer had already discarded sendBuf, the close request was then acted upon
		return "udp-receive-window-full-data-dropped-before-close"
	}
	if backlog {
		return "receiver-backlog-close-overtakes-queued-data-" + sc.Transport
	}
	if sc.Transport == "tcp" {
		if sc.StallFor > 0 && f.SentBeforeClose < f.NSeg && f.PayloadBeforeClose > sc.PreStall {
			// the output loop had taken at least one segment out of the queue after the stall began (it reached the stream
			// before the close request), yet the close request overtook what was queued behind it: the fallback of
			// closeWithError ran while an output was in flight (C03_tcp_close_fallback_never_overtakes_inflight)
			return "tcp-close-fallback-overtakes-inflight-write"
		}
		if f.PayloadSent < sc.N || f.SentBeforeClose < f.NSeg {
			// nothing of the last batch left before the close request: the output loop did not run during the wait
			return "close-wait-expired-backpressure-tcp"
		}
		return "tcp-eof-before-queued-data-read"
	}
	switch {
	case f.PayloadSent < sc.N && res.CloseDur >= 999*time.Millisecond:
		return "close-wait-expired-udp-window"
	case f.PayloadSent < sc.N:
		return "udp-close-wait-ended-early-data-never-sent"
	case f.InOrder < f.NSeg:
		return "udp-close-before-data-acked"
	default:
		return "udp-eof-with-all-data-delivered-before-close"
	}
}

func ranges(l []int) string {
	if len(l) == 0 {
		return "-"
	}
	var parts []string
	i := 0
	for i < len(l) {
		j := i
		for j+1 < len(l) && l[j+1] == l[j]+1 {
			j++
		}
		if j == i {
			parts = append(parts, fmt.Sprint(l[i]))
		} else {
			parts = append(parts, fmt.Sprintf("%d-%d", l[i], l[j]))
		}
		i = j + 1
	}
	return strings.Join(parts, ",")
}

var dbg *os.File

func main() {
	r := vh.Start("c03")
	defer r.Finish()
	r.Rep.Rule = "one scenario = one session of a real Mux pair on simnet (faketime): closer in {client, server} writes n in {0,1,1 KiB,100 KiB,1 MiB,...} bytes, waits delta in {0,1 ms,100 ms,2 s,5 s}, closes; peer reads to EOF/error. Faults: none; every single-fault position (drop/dup/delay of each sequenced datagram and of the close request) for small UDP transfers; sustained loss 5..30 %; UDP latency up to 150 ms; TCP bounded buffer / bandwidth limit; slow or stalled reader; data in both directions; receiver backlog (255..6000 one-segment writes of 1..16 bytes around the capacities of recvChan 256 and recvQueue 4096, reader paused until the closer's Close has returned or until T). Non-trivial/distinct = distinct (transport, closer, size class, delta, fault kind, fault position class, outcome class) tuples"
	dbg, _ = os.Create(r.Out + "/scenarios.txt")
	defer dbg.Close()

	// the bounded wait of closeWithError, measured on the real code under virtual time
	w0 := protocol.VerifC03MeasureCloseWait(0)
	w1 := protocol.VerifC03MeasureCloseWait(500*time.Millisecond + 300*time.Microsecond)
	r.Case("W 0", fmt.Sprintf("%d", w0.Microseconds()))
	r.Case("W 500300", fmt.Sprintf("%d", w1.Microseconds()))
	r.Count("close-wait-measurement")

	only := os.Getenv("C03_ONLY")
	for _, sc := range scenarios(r, w0) {
		if only != "" && !strings.Contains(sc.Name, only) {
			continue
		}
		w0 := wallNow()
		runOne(r, sc)
		fmt.Fprintf(dbg, "    wall=%dms\n", wallSince(w0))
	}
}

func runOne(r *vh.Run, sc Scenario) {
	res := runScenario(sc)
	sc.N = res.EffN
	f := res.Facts
	fmt.Fprintf(dbg, "%-40s %s closer=%s n=%d delta=%v -> %s wrote=%d/%s read=%d rerr=%q closeDur=%v qfull=%v virt=%dms nseg=%d closeSeq=%d sentBefore=%d sentEver=%d payloadSent=%d closeSent=%d closeDelivered=%v inorder=%d minPeerWin=%d have=%s\n",
		sc.Name, sc.Transport, sc.Closer, sc.N, sc.Delta, res.Class, res.Wrote, res.WriteErr, res.Read, res.ReadErr, res.CloseDur, res.QueueFullAtClose, res.VirtualMs,
		f.NSeg, f.CloseSeq, f.SentBeforeClose, f.SentEver, f.PayloadSent, f.CloseSent, f.CloseDelivered, f.InOrder, f.MinPeerWindow, ranges(f.Have))
	r.Count("transport=" + sc.Transport)
	if res.QueueFullAtClose {
		// C03_close_request_always_queued: the admission test of writeChunk keeps one slot of the send queue free, so the close
		// request of a graceful Close is queued behind the data; here a Write that returned (n, nil) took the last slot
		failOnce(r, "write-left-no-slot-for-close-request", fmt.Sprintf("%s: after a successful Write of %d bytes the send queue has no free slot (Remaining() = 0): the close request of a graceful Close can only overtake the %d bytes written", sc.Transport, sc.WriteSize, res.Wrote), sc, res)
	}
	r.Count("closer=" + sc.Closer)
	r.Count("fault=" + sc.Fault.Kind)
	r.Count("class=" + res.Class)
	r.Distinct(fmt.Sprintf("%s/%s/%s/%v/%s-%s/%s", sc.Transport, sc.Closer, sizeClass(sc.N), sc.Delta, sc.Fault.Kind, sc.Fault.What, res.Class))

	// ---- oracle: the property text
	switch res.Class {
	case "TRUNCATED_EOF":
		sig := signature(sc, res)
		failOnce(r, sig, fmt.Sprintf("%s: closer wrote %d bytes (Write returned %d, nil) and closed; the peer read %d bytes and then a clean EOF", sc.Transport, sc.N, res.Wrote, res.Read), sc, res)
	case "CORRUPT":
		failOnce(r, "peer-read-not-a-prefix", fmt.Sprintf("%s: the peer read %d bytes that are not a prefix of the %d bytes written", sc.Transport, res.Read, sc.N), sc, res)
	case "RIG_ERROR", "SETUP_ACCEPT", "SETUP_OPEN":
		if sc.Fault.Kind == "none" {
			failOnce(r, "session-not-established-without-faults", "the session could not be set up on a fault-free network: "+res.Class, sc, res)
		}
	case "HANG":
		if sc.Fault.Kind == "none" && sc.ReadStall == 0 && !sc.ReadAfterClose {
			failOnce(r, "peer-never-sees-end-without-faults", "no EOF or error within 900 virtual seconds on a fault-free network", sc, res)
		}
	}
	if sc.Fault.Kind == "none" && sc.Transport == "tcp" && res.Class != "COMPLETE" && res.Class != "TRUNCATED_EOF" && res.Class != "CORRUPT" {
		failOnce(r, "tcp-fault-free-transfer-incomplete", "TCP without faults: outcome "+res.Class, sc, res)
	}

	// ---- correspondence: abstract schedule for the model, observed outcome in segments
	tr := "U"
	if sc.Transport == "tcp" {
		tr = "T"
	}
	cd := 0
	if f.CloseDelivered {
		cd = 1
	}
	eager := 1
	if sc.ReadAfterClose && res.ReadBeganAfterClose {
		eager = 0 // the peer application read nothing before the closer's Close had returned
	}
	caseLine := fmt.Sprintf("S %s %d %d %d %s %s %d", tr, f.NSeg, f.SentBeforeClose, cd, ranges(f.Have), ranges(emptySegs(f)), eager)
	var impl string
	switch res.Class {
	case "COMPLETE", "TRUNCATED_EOF":
		impl = fmt.Sprintf("EOF %d", segsOfBytes(f, res.Read))
	case "ERROR":
		impl = fmt.Sprintf("ERROR %d", segsOfBytes(f, res.Read))
	default:
		impl = res.Class
	}
	if res.Class == "WRITE_FAILED" || strings.HasPrefix(res.Class, "SETUP") || res.Class == "RIG_ERROR" || f.CloseSeq < 0 {
		// nothing the close model speaks about (the closer's Write failed or its session never emitted a close request)
		r.Count("not-compared")
		return
	}
	r.Case(caseLine, impl)
}

var failCount = map[string]int{}

func failOnce(r *vh.Run, sig, what string, sc Scenario, res Result) {
	failCount[sig]++
	if failCount[sig] > 4 {
		return
	}
	r.Fail(sig, what, map[string]interface{}{"scenario": sc, "wrote": res.Wrote, "read": res.Read, "read_error": res.ReadErr, "close_ms": res.CloseDur.Milliseconds(),
		"facts": map[string]interface{}{"nseg": res.Facts.NSeg, "sent_before_close": res.Facts.SentBeforeClose, "sent_ever": res.Facts.SentEver,
			"payload_sent": res.Facts.PayloadSent, "close_delivered": res.Facts.CloseDelivered, "in_order_at_close": res.Facts.InOrder, "have_at_close": ranges(res.Facts.Have)}})
}

func sizeClass(n int) string {
	switch {
	case n == 0:
		return "0"
	case n == 1:
		return "1"
	case n <= 1024:
		return "<=1Ki"
	case n <= 32768:
		return "<=32Ki"
	case n <= 200000:
		return "<=200k"
	default:
		return ">200k"
	}
}

func dumpTrace(sc Scenario, ev []simnet.Event) {
	f, _ := os.Create(fmt.Sprintf("/tmp/c03/trace-%s.txt", sc.Name))
	defer f.Close()
	creds := []trace.Cred{{User: user, Pass: pass}}
	if sc.Transport == "udp" {
		for _, u := range trace.UDP(ev, creds) {
			if u.Seg == nil {
				fmt.Fprintf(f, "%d %s %s>%s id=%d undecodable\n", u.T, u.Kind, u.Src, u.Dst, u.ID)
				continue
			}
			m := u.Seg.Meta
			fmt.Fprintf(f, "%12.3fms %s %s>%s id=%d proto=%d seq=%d unack=%d win=%d frag=%d len=%d\n", float64(u.T%1000000000000)/1e6, u.Kind, u.Src, u.Dst, u.ID, m.Proto, m.Seq, m.UnAckSeq, m.WindowSize, m.Fragment, len(u.Seg.Payload))
		}
	} else {
		for _, tc := range trace.TCP(ev, creds) {
			for _, s := range tc.C2S.Segs {
				fmt.Fprintf(f, "c2s proto=%d seq=%d len=%d\n", s.Meta.Proto, s.Meta.Seq, len(s.Payload))
			}
			for _, s := range tc.S2C.Segs {
				fmt.Fprintf(f, "s2c proto=%d seq=%d len=%d\n", s.Meta.Proto, s.Meta.Seq, len(s.Payload))
			}
		}
	}
}
