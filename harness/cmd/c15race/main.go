// Driver for C15 (real time, built with `go build -race`): concurrent reader + writer + closer (+ deadline setter)
// on the same session at both ends, on TCP and UDP over simnet.  The oracle is the race detector (GORACE
// halt_on_error): checks/c15.py turns "WARNING: DATA RACE" into an oracle failure data-race-<function>.
// The driver itself checks that every call returns within a few real seconds and that no goroutine with a mieru
// frame is left after both muxes were closed.
package main

import (
	"fmt"
	"net"
	"regexp"
	"runtime"
	"strings"
	"sync"
	"time"

	"verifharness/rig"
	"verifharness/simnet"
	"verifharness/vh"
)

var mieruFrame = regexp.MustCompile(`github\.com/enfein/mieru/v3/[\w/]+\.(?:\(\*?\w+\)\.)?\w+`)

func mieruGoroutines() []string {
	buf := make([]byte, 4<<20)
	n := runtime.Stack(buf, true)
	var out []string
	for _, g := range strings.Split(string(buf[:n]), "\n\n") {
		if m := mieruFrame.FindString(g); m != "" {
			out = append(out, m)
		}
	}
	return out
}

func scenario(r *vh.Run, id int, tp string, rng *vh.Rng) {
	nw := simnet.New()
	user := fmt.Sprintf("race%d", id)
	rg, err := rig.Start(rig.Opts{Transport: tp, Net: nw, Users: map[string]string{user: "pw"}, ClientUser: user, ClientPass: "pw", Multiplex: 1})
	if err != nil {
		panic(err)
	}
	nsess := rng.Range(1, 2)
	var wg sync.WaitGroup
	done := make(chan struct{})
	for i := 0; i < nsess; i++ {
		c, err := rg.Dial()
		if err != nil {
			panic(err)
		}
		if _, err := c.Write([]byte("hello")); err != nil {
			panic(err)
		}
		s, err := rg.Accept(5 * time.Second)
		if err != nil {
			panic(err)
		}
		closeAfter := time.Duration(rng.Range(5, 60)) * time.Millisecond
		closeEnd := rng.Intn(3) // 0 client, 1 server, 2 both
		for e, conn := range []net.Conn{c, s} {
			conn := conn
			sz := []int{1, 100, 1500, 40000}[rng.Intn(4)]
			wg.Add(3)
			go func() { // reader
				defer wg.Done()
				buf := make([]byte, 65536)
				for {
					if _, err := conn.Read(buf); err != nil {
						if strings.Contains(err.Error(), "timeout") {
							continue
						}
						return
					}
				}
			}()
			go func() { // writer
				defer wg.Done()
				b := make([]byte, sz)
				for {
					if _, err := conn.Write(b); err != nil {
						if strings.Contains(err.Error(), "timeout") {
							continue
						}
						return
					}
					time.Sleep(200 * time.Microsecond)
				}
			}()
			go func() { // deadline setter
				defer wg.Done()
				for k := 0; k < 20; k++ {
					conn.SetReadDeadline(time.Now().Add(3 * time.Millisecond))
					conn.SetWriteDeadline(time.Now().Add(5 * time.Millisecond))
					conn.SetDeadline(time.Now().Add(50 * time.Millisecond))
					time.Sleep(time.Millisecond)
				}
				conn.SetDeadline(time.Time{})
			}()
			if closeEnd == 2 || closeEnd == e {
				wg.Add(2)
				for k := 0; k < 2; k++ { // two concurrent closers
					go func() {
						defer wg.Done()
						time.Sleep(closeAfter)
						conn.Close()
						conn.Close()
					}()
				}
			}
		}
	}
	// whoever was not closed by a session Close is closed by the muxes
	time.Sleep(80 * time.Millisecond)
	t0 := time.Now()
	if rng.Bool() {
		rg.Client.Close()
		rg.Server.Close()
	} else {
		rg.Server.Close()
		rg.Client.Close()
	}
	rg.Client.Close()
	if d := time.Since(t0); d > 5*time.Second {
		r.Fail("close-blocked-mux-realtime-"+tp, fmt.Sprintf("closing both muxes took %v", d), map[string]interface{}{"id": id})
	}
	go func() { wg.Wait(); close(done) }()
	select {
	case <-done:
	case <-time.After(10 * time.Second):
		r.Fail("call-not-unblocked-by-mux-close-realtime-"+tp, "reader/writer goroutines still blocked 10 s after both muxes were closed", map[string]interface{}{"id": id})
	}
	r.Case(fmt.Sprintf("R %d %s %d", id, tp, nsess), "-")
	r.Count("transport:" + tp)
	r.Distinct(fmt.Sprintf("%s/%d", tp, nsess))
}

func main() {
	r := vh.Start("c15race")
	n := 6
	if r.Thorough() {
		n = 40
	}
	for i := 0; i < n; i++ {
		scenario(r, i, []string{"tcp", "udp"}[i%2], r.Rng.Fork())
	}
	// server-side TCP connections are closed by their event loops; the client's loops may linger until their
	// read timeout (known finding, judged by the faketime driver): only report what is left as a count
	time.Sleep(300 * time.Millisecond)
	left := mieruGoroutines()
	r.Rep.Notes = map[string]string{"mieru_goroutines_300ms_after_shutdown": fmt.Sprint(len(left))}
	r.Rep.Rule = "real time under the race detector: per scenario 1..2 sessions; at both ends a reader, a writer and a deadline setter goroutine plus two concurrent closers at one or both ends, then Mux.Close of both sides in either order"
	r.Finish()
}
