// The AGE of the key-holding client underlay (C08, second dimension besides the clock skew).
//
// A client PacketUnderlay (UDP) derives ONE key when it is created (mux.newUnderlay -> BlockCipherFromPassword at the
// creation instant c) and encrypts the open-session request of every session that the mux later schedules onto it
// with that key. Its ScheduleController stops taking new sessions after a window (NewPacketUnderlay ->
// SetRemainingTime). The server has no session yet for such a request and tries the three keys of ITS clock.
// So the handshake of a session dialled at client time c+age needs slot(c) to be among the server's slots at
// c+age+skew: that holds for every |skew| <= 60 s only while age <= KeyRefreshInterval/2.
//
// Here the REAL client Mux runs on an in-memory network under virtual time: an underlay is created at a chosen phase
// of the key slot, aged through a grid (ns resolution around 60 s and 120 s), and at every age new sessions are
// dialled. For every dial the driver records which underlay (socket) the mux scheduled the session on, takes the real
// open-session request off the wire, determines its key slot with the independent reference codec (refcodec, written
// from docs/protocol.md), and gives the encrypted metadata to the REAL server-side StatelessDecryptor at server clock
// t+skew, skew in [-60 s, +60 s] (grid with boundaries) and beyond. Oracle: whenever the client scheduled the session
// (on whatever underlay) and |skew| <= 60 s, the server finds the key and accepts the timestamp.
// The model (KeyTime.v: underlay_takes_sessions, key_found, timestamp_ok, with the window of M.gen.Consts) predicts
// every line.
//
// TCP (StreamUnderlay) has no such dimension: its key is derived once per connection, the server runs key discovery
// only on the first segment of the connection (recv == nil) and both sides then continue with the stateful cipher,
// so sessions scheduled later onto an old connection never depend on a time slot. The S cases show that on the
// real code: a stream underlay aged far beyond 4 minutes still gets new sessions accepted by a real server.
package main

import (
	"bytes"
	"context"
	"fmt"
	"net"
	"runtime"
	"strings"
	"sync"
	"time"

	"github.com/enfein/mieru/v3/pkg/cipher"
	"github.com/enfein/mieru/v3/pkg/common"
	"github.com/enfein/mieru/v3/pkg/mathext"
	"github.com/enfein/mieru/v3/pkg/protocol"
	"verifharness/refcodec"
	"verifharness/rig"
	"verifharness/simnet"
	"verifharness/vh"
)

const (
	agedUser = "alice"
	agedPass = "alice-password"
)

// recDialer hands out simnet client sockets and remembers when each was created (= creation of the underlay).
type recDialer struct {
	n       *simnet.Net
	mu      sync.Mutex
	created map[string]int64
	order   []string
}

func (d *recDialer) ListenPacket(ctx context.Context, network, laddr, raddr string) (net.PacketConn, error) {
	pc, err := d.n.NewClientSock(d.n.ClientIP)
	if err != nil {
		return nil, err
	}
	d.mu.Lock()
	a := pc.LocalAddr().String()
	d.created[a] = time.Now().UnixNano()
	d.order = append(d.order, a)
	d.mu.Unlock()
	return pc, nil
}

func (d *recDialer) createdAt(sock string) (int64, bool) {
	d.mu.Lock()
	defer d.mu.Unlock()
	t, ok := d.created[sock]
	return t, ok
}

func newRecDialer() *recDialer {
	return &recDialer{n: simnet.New(), created: map[string]int64{}}
}

func sleepUntil(t int64) int64 {
	if d := t - time.Now().UnixNano(); d > 0 {
		time.Sleep(time.Duration(d))
	}
	return time.Now().UnixNano()
}

var refKeys = map[int64][]byte{}

func refKey(hashed []byte, slot int64) []byte {
	if k, ok := refKeys[slot]; ok {
		return k
	}
	k := refcodec.DeriveKey(hashed, slot)
	refKeys[slot] = k
	return k
}

// openRequest is the first open-session request of one dial as seen on the wire.
type openRequest struct {
	tSend   int64
	slot    int64 // unix second of the key's time salt, found by trying the documented derivation on a +-20 min grid
	stamp   uint32
	encMeta []byte
}

type agedDial struct {
	idx   int
	tDial int64
	sock  string
}

func b01(b bool) string {
	if b {
		return "1"
	}
	return "0"
}

func ageGrid(r *vh.Run) []int64 {
	g := []int64{1, ns, 30 * ns, 59 * ns, 60*ns - 1, 60 * ns, 60*ns + 1, 61 * ns, 75 * ns, 90 * ns, 119 * ns, 120*ns - 1, 120 * ns, 120*ns + 1, 130 * ns}
	if r.Thorough() {
		g = append(g, 45*ns, 60*ns-ns/1000, 60*ns+ns/1000, 100*ns, 105*ns, 110*ns, 150*ns, 185*ns)
		for i := 0; i < 6; i++ {
			g = append(g, r.Rng.I64n(190*ns))
		}
	}
	// ascending, no duplicates
	for i := range g {
		for j := i + 1; j < len(g); j++ {
			if g[j] < g[i] {
				g[i], g[j] = g[j], g[i]
			}
		}
	}
	out := g[:0]
	for i, v := range g {
		if i == 0 || v != g[i-1] {
			out = append(out, v)
		}
	}
	return out
}

var agedSkews = []int64{0, 1, -1, 30 * ns, -30 * ns, 59 * ns, -59 * ns, 60*ns - 1, -(60*ns - 1), 60 * ns, -60 * ns, 60*ns + 1, -60*ns - 1, 90 * ns, -90 * ns, 120 * ns, -120 * ns}

// windowCases: the window of a client PacketUnderlay made by the real constructor, measured exactly (the virtual clock
// does not move while a goroutine runs), and the answers of its real ScheduleController on the age grid.
func windowCases(r *vh.Run, c int64) {
	c = sleepUntil(c)
	d := newRecDialer()
	hashed := cipher.HashPassword([]byte(agedPass), []byte(agedUser))
	block, err := cipher.BlockCipherFromPassword(hashed, true)
	if err != nil {
		panic(err)
	}
	u, err := protocol.NewPacketUnderlay(context.Background(), d, nil, "udp", "192.0.2.1:8964", 1400, block, nil)
	if err != nil {
		panic(err)
	}
	defer u.Close()
	w := int64(-1) // never stops taking sessions
	if dt := u.Scheduler().DisableTime(); !dt.IsZero() {
		w = dt.UnixNano() - c
	}
	r.Case("K", fmt.Sprint(w))
	r.Count("window")
	for _, age := range append([]int64{0}, ageGrid(r)...) {
		now := sleepUntil(c + age)
		dis := u.Scheduler().IsDisabled()
		inc := u.Scheduler().IncPending()
		if inc {
			u.Scheduler().DecPending()
		}
		r.Case(fmt.Sprintf("P %d", now-c), b01(inc)+b01(dis))
		r.Count("scheduler")
		r.Distinct(fmt.Sprintf("P/%d", age))
		if inc == dis {
			r.Fail("scheduler-inconsistent", fmt.Sprintf("at age %d ns IncPending()=%v but IsDisabled()=%v", now-c, inc, dis), map[string]int64{"age_ns": now - c})
		}
	}
}

// agedScenario creates a client mux whose first underlay is created at instant c0 and dials new sessions at the ages
// of the grid. Returns the instant at which it finished.
func agedScenario(r *vh.Run, c0 int64, phase string, ages []int64, tries int) {
	c0 = sleepUntil(c0)
	d := newRecDialer()
	hashed := cipher.HashPassword([]byte(agedPass), []byte(agedUser))
	server := &net.UDPAddr{IP: net.ParseIP("192.0.2.1"), Port: 8964}
	mux := protocol.NewMux(true).
		SetClientUserNamePassword(agedUser, hashed).
		SetClientMultiplexFactor(30).
		SetPacketDialer(d).
		SetResolver(nil).
		SetEndpoints([]protocol.UnderlayProperties{protocol.NewUnderlayProperties(1400, common.PacketTransport, nil, server)})
	var dials []agedDial
	first := ""
	for _, age := range append([]int64{0}, ages...) {
		now := sleepUntil(c0 + age)
		for k := 0; k < tries; k++ {
			conn, err := mux.DialContext(context.Background())
			if err != nil {
				panic(fmt.Sprintf("DialContext at age %d: %v", age, err))
			}
			sock := conn.LocalAddr().String()
			if first == "" {
				first = sock
			}
			idx := len(dials)
			dials = append(dials, agedDial{idx: idx, tDial: now, sock: sock})
			// the request leaves at this same virtual instant; the session is closed 2 ms later by another goroutine
			// (every open UDP session wakes up once per virtual millisecond)
			go func(c net.Conn, msg string) {
				go c.Write([]byte(msg))
				time.Sleep(2 * time.Millisecond)
				c.Close()
			}(conn, fmt.Sprintf("dial-%d.", idx))
			if sock == first {
				break // the session went to the underlay under observation
			}
		}
	}
	time.Sleep(2 * time.Second)
	// take the open-session requests off the wire
	reqs := map[int]*openRequest{}
	for _, ev := range d.n.Log.Snapshot() {
		if ev.Kind != "udp-send" || len(ev.Data) < refcodec.NonceLen+refcodec.SealedMeta {
			continue
		}
		base := (ev.T / ns) / 60 * 60
		var keys [][]byte
		var slots []int64
		for dd := int64(0); dd <= 1200; dd += 60 {
			for _, s := range []int64{base - dd, base + dd} {
				keys = append(keys, refKey(refcodec.HashedPassword(agedUser, agedPass), s))
				slots = append(slots, s)
			}
		}
		seg, key, err := refcodec.DecodeDatagram(keys, ev.Data)
		if err != nil || seg.Meta.Proto != 2 || !bytes.HasPrefix(seg.Payload, []byte("dial-")) {
			continue
		}
		var idx int
		if _, err := fmt.Sscanf(strings.TrimSuffix(string(seg.Payload), "."), "dial-%d", &idx); err != nil {
			continue
		}
		if _, seen := reqs[idx]; seen {
			continue // a retransmission
		}
		slot := int64(-1)
		for i, k := range keys {
			if bytes.Equal(k, key) {
				slot = slots[i]
				break
			}
		}
		if idx < len(dials) && ev.Src != dials[idx].sock {
			r.Fail("request-on-other-socket", fmt.Sprintf("dial %d was scheduled on %s but its open request left from %s", idx, dials[idx].sock, ev.Src), map[string]interface{}{"c0_ns": c0, "dial": idx})
		}
		reqs[idx] = &openRequest{tSend: ev.T, slot: slot, stamp: seg.Meta.Timestamp, encMeta: append([]byte(nil), ev.Data[:refcodec.NonceLen+refcodec.SealedMeta]...)}
	}
	dec, err := cipher.NewStatelessDecryptor(hashed)
	if err != nil {
		panic(err)
	}
	for _, dl := range dials {
		rq := reqs[dl.idx]
		if rq == nil {
			panic(fmt.Sprintf("open-session request of dial %d (age %d ns) was not seen on the wire", dl.idx, dl.tDial-c0))
		}
		cUsed, ok := d.createdAt(dl.sock)
		if !ok {
			panic("session on an unknown socket " + dl.sock)
		}
		ageUsed := dl.tDial - cUsed
		r.Count("dial")
		if dl.sock == first {
			r.Count("dial-on-aged-underlay")
		}
		for _, sk := range agedSkews {
			srv := rq.tSend + sk
			_, derr := cipher.VerifDecryptorTryAt(dec, rq.encMeta, time.Unix(0, srv))
			keyOK := derr == nil
			tsOK := mathext.WithinRange(uint32((srv/ns)/60), rq.stamp, 1)
			r.Case(fmt.Sprintf("U %d %d %d %d", cUsed, dl.tDial, rq.tSend, sk),
				fmt.Sprintf("1 %d %d %s%s", rq.slot, rq.stamp, b01(keyOK), b01(tsOK)))
			r.Count("aged-skew")
			r.Distinct(fmt.Sprintf("U/%s/%d/%d", phase, ageClass(ageUsed), sk))
			c := map[string]interface{}{"underlay_created_ns": cUsed, "dial_ns": dl.tDial, "age_ns": ageUsed, "request_sent_ns": rq.tSend,
				"server_skew_ns": sk, "key_slot": rq.slot, "slot_phase": phase}
			if abs64(sk) <= 60*ns {
				if !keyOK {
					r.Fail("aged-underlay-no-common-key", fmt.Sprintf("a client underlay created at %d ns (key of slot %d) still took a new session at age %d ns; a server whose clock is %d ns away (at %d ns) finds no key that opens the open-session request: the handshake fails although the clocks differ by at most 60 s",
						cUsed, rq.slot, ageUsed, sk, srv), c)
				}
				if !tsOK {
					r.Fail("aged-underlay-timestamp-refused", fmt.Sprintf("open-session request sent at %d ns stamped minute %d is refused by a server %d ns away", rq.tSend, rq.stamp, sk), c)
				}
			}
		}
	}
	mux.Close()
	runtime.GC() // collections are switched off while virtual timers run (see rig)
}

func ageClass(a int64) int64 {
	switch {
	case a >= 60*ns-1 && a <= 60*ns+1, a >= 120*ns-1 && a <= 120*ns+1:
		return a // the ns boundaries are classes of their own
	default:
		return a / (10 * ns) * 10 * ns
	}
}

func abs64(x int64) int64 {
	if x < 0 {
		return -x
	}
	return x
}

// streamCases: a real client mux and a real server mux over TCP; the ONE connection is aged far beyond every key
// bound and new sessions are opened on it. They must be accepted: the server matched the key when the connection
// started and never derives a key from its clock for this connection again.
func streamCases(r *vh.Run, c0 int64) {
	c0 = sleepUntil(c0)
	rg, err := rig.Start(rig.Opts{Transport: "tcp", Multiplex: 30})
	if err != nil {
		panic(err)
	}
	defer rg.Close()
	first := ""
	for _, age := range []int64{0, 59 * ns, 61 * ns, 121 * ns, 250 * ns, 600 * ns} {
		now := sleepUntil(c0 + age)
		for k := 0; k < 8; k++ {
			conn, err := rg.Dial()
			if err != nil {
				panic(err)
			}
			local := conn.LocalAddr().String()
			if first == "" {
				first = local
			}
			msg := fmt.Sprintf("stream-%d-%d.", age, k)
			go conn.Write([]byte(msg))
			got := ""
			if sc, err := rg.Accept(5 * time.Second); err == nil {
				buf := make([]byte, 64)
				sc.SetReadDeadline(time.Now().Add(5 * time.Second))
				n, _ := sc.Read(buf)
				got = string(buf[:n]) // the server side stays open: an underlay without sessions is retired as idle
			}
			if local != first {
				go conn.Close()
				continue // the mux opened another connection (random choice); try again
			}
			ok := got == msg
			r.Case(fmt.Sprintf("S %d", now-c0), b01(ok))
			r.Count("stream-aged")
			r.Distinct(fmt.Sprintf("S/%d", age))
			if !ok {
				r.Fail("aged-stream-underlay-session-refused", fmt.Sprintf("a new session on a TCP underlay aged %d ns was not accepted by the server", now-c0), map[string]int64{"age_ns": now - c0})
			}
			break
		}
	}
}

// endToEndCases: the same situation with a REAL server mux. One process has one clock, so a server that is AHEAD of
// the client by skew is represented by delivering every client->server datagram skew later: the server then reads
// the request when its clock shows send instant + skew. Sessions are dialled on an ageing client mux; the oracle is
// that the server accepts every session the client scheduled and reads its first bytes.
//
// The server first tries the ciphers of its LIVE sessions from the same source address
// (PacketUnderlay.tryDecryptExistingSession) and only then the three keys of its clock. A live older session of the
// same client socket therefore hides the age of the key; the property has to hold for every history, in particular
// when the earlier sessions of the underlay are over. So every session is closed 100 ms after it was dialled, the
// ages are at least 15 s apart, and a second client on another address (the "janitor", not delayed) opens a short
// session 6 s after each observed one reached the server: the server forgets closed sessions only when its event
// loop comes round after a valid segment (or a 60..120 s read timeout) with a 5 s clean tick pending.
func endToEndCases(r *vh.Run, c0 int64, phase string, skew int64, ages []int64) {
	c0 = sleepUntil(c0)
	runtime.GC()
	d := newRecDialer()
	d.n.Fate = func(dg *simnet.Datagram) []simnet.Delivery {
		if dg.Dst == "192.0.2.1:8964" && strings.HasPrefix(dg.Src, d.n.ClientIP+":") {
			return []simnet.Delivery{{Delay: time.Duration(skew)}}
		}
		return []simnet.Delivery{{}}
	}
	rg, err := rig.StartServer(rig.Opts{Transport: "udp", Net: d.n, Users: map[string]string{agedUser: agedPass}})
	if err != nil {
		panic(err)
	}
	var mu sync.Mutex
	accepted := map[int]bool{}
	stop := make(chan struct{})
	var wg sync.WaitGroup
	wg.Add(1)
	go func() {
		defer wg.Done()
		for {
			select {
			case sc := <-rg.Accepted:
				buf := make([]byte, 64)
				sc.SetReadDeadline(time.Now().Add(time.Second))
				n, _ := sc.Read(buf)
				var idx int
				if _, err := fmt.Sscanf(strings.TrimSuffix(string(buf[:n]), "."), "e2e-%d", &idx); err == nil {
					mu.Lock()
					accepted[idx] = true
					mu.Unlock()
				}
				go sc.Close()
			case <-stop:
				return
			}
		}
	}()
	hashed := cipher.HashPassword([]byte(agedPass), []byte(agedUser))
	server := &net.UDPAddr{IP: net.ParseIP("192.0.2.1"), Port: 8964}
	mux := protocol.NewMux(true).
		SetClientUserNamePassword(agedUser, hashed).
		SetClientMultiplexFactor(30).
		SetPacketDialer(d).
		SetResolver(nil).
		SetEndpoints([]protocol.UnderlayProperties{protocol.NewUnderlayProperties(1400, common.PacketTransport, nil, server)})
	janitor := protocol.NewMux(true).
		SetClientUserNamePassword(agedUser, hashed).
		SetClientMultiplexFactor(0).
		SetPacketDialer(simnet.PacketDialer{N: d.n, SrcIP: "10.0.0.9"}).
		SetResolver(nil).
		SetEndpoints([]protocol.UnderlayProperties{protocol.NewUnderlayProperties(1400, common.PacketTransport, nil, server)})
	var dials []agedDial
	for _, age := range ages {
		now := sleepUntil(c0 + age)
		conn, err := mux.DialContext(context.Background())
		if err != nil {
			panic(fmt.Sprintf("DialContext at age %d: %v", age, err))
		}
		idx := len(dials)
		dials = append(dials, agedDial{idx: idx, tDial: now, sock: conn.LocalAddr().String()})
		go func(c net.Conn, msg string) {
			go c.Write([]byte(msg))
			time.Sleep(100 * time.Millisecond)
			c.Close()
			time.Sleep(time.Duration(skew) + 6*time.Second)
			if jc, err := janitor.DialContext(context.Background()); err == nil {
				go jc.Write([]byte("janitor."))
				time.Sleep(100 * time.Millisecond)
				jc.Close()
			}
		}(conn, fmt.Sprintf("e2e-%d.", idx))
	}
	time.Sleep(time.Duration(skew) + 8*time.Second)
	close(stop)
	wg.Wait()
	for _, dl := range dials {
		cUsed, ok := d.createdAt(dl.sock)
		if !ok {
			panic("session on an unknown socket " + dl.sock)
		}
		r.Case(fmt.Sprintf("X %d %d %d", cUsed, dl.tDial, skew), b01(accepted[dl.idx]))
		r.Count("end-to-end")
		r.Distinct(fmt.Sprintf("X/%s/%d/%d", phase, ageClass(dl.tDial-cUsed), skew))
		if !accepted[dl.idx] && skew <= 60*ns {
			r.Fail("aged-underlay-handshake-fails-end-to-end", fmt.Sprintf("a client underlay created at %d ns still took a new session at age %d ns; a real server whose clock is %d ns ahead (and which has no live session of that client socket) never accepts it",
				cUsed, dl.tDial-cUsed, skew), map[string]interface{}{"underlay_created_ns": cUsed, "dial_ns": dl.tDial, "age_ns": dl.tDial - cUsed, "server_skew_ns": skew, "slot_phase": phase})
		}
	}
	mux.Close()
	janitor.Close()
	rg.Close()
}

func agedCases(r *vh.Run) {
	// a slot centre (multiple of 120 s) well after everything the first part of the driver did
	now := time.Now().UnixNano()
	S := (now/(120*ns) + 3) * 120 * ns
	windowCases(r, S)
	S += 480 * ns
	type ph struct {
		name string
		off  int64
	}
	phases := []ph{{"last-ns", 60*ns - 1}, {"+59s", 59 * ns}, {"+30s", 30 * ns}, {"centre", 0}, {"-30s", -30 * ns}, {"first-ns", -60 * ns}, {"+45s", 45 * ns}}
	if r.Thorough() {
		phases = append(phases, ph{"+1ns", 1}, ph{"-1ns", -1}, ph{"+59.5s", 59*ns + ns/2}, ph{"-59s", -59 * ns}, ph{"+15s", 15 * ns})
		for i := 0; i < 12; i++ {
			o := r.Rng.I64n(120*ns) - 60*ns
			phases = append(phases, ph{fmt.Sprintf("r%d", o/(20*ns)), o})
		}
	}
	for _, p := range phases {
		agedScenario(r, S+p.off, p.name, ageGrid(r), 6)
		S = (time.Now().UnixNano()/(120*ns) + 3) * 120 * ns
	}
	for _, e := range []struct {
		p    ph
		skew int64
		ages []int64
	}{
		{ph{"last-ns", 60*ns - 1}, 60 * ns, []int64{0, 60 * ns, 75 * ns, 90 * ns, 120 * ns}},
		{ph{"last-ns", 60*ns - 1}, 60 * ns, []int64{0, 60*ns + 1, 105 * ns, 120*ns + 1}},
		{ph{"+30s", 30 * ns}, 60 * ns, []int64{0, 45 * ns, 60*ns - 1, 80 * ns, 100 * ns, 119 * ns}},
		{ph{"last-ns", 60*ns - 1}, 1 * ns, []int64{0, 60 * ns, 90 * ns, 120 * ns}},
	} {
		if !r.Thorough() && (e.p.name != "last-ns" || e.skew != 60*ns) {
			continue // quick tier: the tight phase only
		}
		endToEndCases(r, S+e.p.off, e.p.name, e.skew, e.ages)
		S = (time.Now().UnixNano()/(120*ns) + 3) * 120 * ns
	}
	streamCases(r, S)
}
