// Second driver for C08 (virtual time): the REAL metadata Marshal / Unmarshal of pkg/protocol are run at controlled
// instants around minute ticks and key-slot changes. Marshal must stamp minute(now); Unmarshal must accept a segment
// stamped by a peer whose clock is within 60 s and refuse one stamped two or more minutes away.
package main

import (
	"fmt"
	"sort"
	"time"

	"github.com/enfein/mieru/v3/pkg/protocol"
	"verifharness/refcodec"
	"verifharness/vh"
)

const ns = int64(1000000000)

func main() {
	r := vh.Start("c08t")
	defer r.Finish()
	r.Rep.Rule = "virtual-time instants at -1 ns / 0 / +1 ns / +1 s / +30 s / +59.999999999 s around six consecutive minute ticks (which include two key-slot changes); at each instant the real Marshal is compared with the model's minute(), and the real Unmarshal of both metadata layouts is given segments stamped by a sender whose clock is skewed by 0, +-1 ns, +-59.999999999 s, +-60 s, +-60 s-+1 ns, +-90 s, +-120 s, +-121 s, +-180 s, +-1 h. distinct_nontrivial = distinct (offset class, skew, layout) triples. Then the age of the key-holding client underlay (aged.go): K = the scheduling window of a real client PacketUnderlay measured exactly; P = its real ScheduleController asked at ages 0, 1 ns, 1 s, 30 s, 59 s, 60 s-+1 ns, 61 s, 75 s, 90 s, 119 s, 120 s-+1 ns, 130 s; U = real client muxes (UDP, in-memory network) whose first underlay is created at the last ns / +59 s / +45 s / +30 s / centre / -30 s / first ns of a key slot (thorough: more and random phases and ages), new sessions dialled at every age of the grid (up to 6 dials per age until one lands on the aged underlay), each real open-session request given to the real server-side decryptor at skews 0, +-1 ns, +-30 s, +-59 s, +-60 s-+1 ns, +-90 s, +-120 s; distinct = (slot phase, age class of the underlay used, skew); X = end to end: a real server mux whose clock is 60 s ahead (every datagram of the client delivered 60 s later), client underlay created at the last ns of a slot, sessions dialled at ages 0, 60 s, 60 s+1 ns, 75 s, 90 s, 105 s, 120 s, 120 s+1 ns with no live earlier session left at the server (thorough: also phase +30 s and skew 1 ns); S = one real TCP connection aged 0..600 s with new sessions accepted by a real server"
	start := time.Now().UnixNano() // 2009-11-10 23:00:00 UTC under faketime: a minute tick and a slot boundary
	var offs []int64
	for k := int64(1); k <= 6; k++ {
		for _, d := range []int64{-1, 0, 1, ns, 30 * ns, 60*ns - 1} {
			offs = append(offs, k*60*ns+d)
		}
	}
	if r.Thorough() {
		for i := 0; i < 400; i++ {
			offs = append(offs, 60*ns+r.Rng.I64n(3600*ns))
		}
	}
	sort.Slice(offs, func(i, j int) bool { return offs[i] < offs[j] })
	skews := []int64{0, 1, -1, 60*ns - 1, -(60*ns - 1), 60 * ns, -60 * ns, 60*ns + 1, -60*ns - 1, 90 * ns, -90 * ns, 120 * ns, -120 * ns, 121 * ns, -121 * ns, 180 * ns, -180 * ns, 3600 * ns, -3600 * ns}
	for _, off := range offs {
		target := start + off
		if d := target - time.Now().UnixNano(); d > 0 {
			time.Sleep(time.Duration(d))
		}
		now := time.Now().UnixNano()
		cls := fmt.Sprintf("m%d", ((now%(60*ns))+60*ns)%(60*ns)/(15*ns))
		if m := now % (60 * ns); m == 0 || m == 1 || m == 60*ns-1 {
			cls = "tick"
		}
		// Marshal stamps the sender's own minute
		b := protocol.VerifC09MarshalSession(protocol.VerifC09Meta{Proto: 2, SessionID: 7})
		stamped := int64(b[2])<<24 | int64(b[3])<<16 | int64(b[4])<<8 | int64(b[5])
		r.Case(fmt.Sprintf("M %d", now), fmt.Sprint(stamped))
		r.Count("marshal")
		if stamped != (now/ns)/60 {
			r.Fail("marshal-stamps-wrong-minute", fmt.Sprintf("Marshal at %d ns stamped minute %d", now, stamped), map[string]int64{"now_ns": now})
		}
		for _, sk := range skews {
			senderMinute := uint32(((now + sk) / ns) / 60)
			for _, layout := range []string{"session", "dataack"} {
				var mb [32]byte
				if layout == "session" {
					mb = refcodec.Meta{Proto: 2, Timestamp: senderMinute, SessionID: 9, Seq: 0}.Marshal()
				} else {
					mb = refcodec.Meta{Proto: 6, Timestamp: senderMinute, SessionID: 9, Seq: 1, WindowSize: 16}.Marshal()
				}
				var err error
				if layout == "session" {
					_, err = protocol.VerifC09UnmarshalSession(mb[:])
				} else {
					_, err = protocol.VerifC09UnmarshalDataAck(mb[:])
				}
				ok := err == nil
				impl := "00"
				if ok {
					impl = "01"
				}
				// model: timestamp_ok receiver_now sender_instant (any instant inside the sender's minute)
				r.Case(fmt.Sprintf("T %d %d", now, int64(senderMinute)*60*ns), impl)
				r.Count("unmarshal-" + layout)
				r.Distinct(fmt.Sprintf("%s/%d/%s", cls, sk, layout))
				c := map[string]interface{}{"receiver_now_ns": now, "sender_skew_ns": sk, "layout": layout, "stamped_minute": senderMinute}
				abs := sk
				if abs < 0 {
					abs = -abs
				}
				if abs <= 60*ns && !ok {
					r.Fail("skew60-timestamp-refused-by-unmarshal", fmt.Sprintf("%s metadata stamped by a sender %d ns away refused: %v", layout, sk, err), c)
				}
				if abs >= 120*ns && ok {
					r.Fail("stale-timestamp-accepted-by-unmarshal", fmt.Sprintf("%s metadata stamped by a sender %d ns away accepted", layout, sk), c)
				}
			}
		}
	}
	// the age of the key-holding client underlay (aged.go)
	agedCases(r)
}
