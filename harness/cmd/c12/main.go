// Driver for C12: the egress decision of the socks5 server (FindAction), and the real
// server (ServeConn over an in-memory pipe) with listeners on loopback, on a private
// address (fd00::/8 on eth0, when present) and on a public stand-in address, observing
// SOCKS5 reply codes, accepted connections and where relayed UDP datagrams arrive.
// Every case is also judged against the text of the property (oracle), independently of
// the Coq model: local destination + user without the permission => REJECT / nothing arrives.
package main

import (
	"bytes"
	"context"
	"encoding/hex"
	"fmt"
	"io"
	"net"
	"net/netip"
	"strings"
	"time"

	apicommon "github.com/enfein/mieru/v3/apis/common"
	"github.com/enfein/mieru/v3/pkg/appctl/appctlpb"
	"github.com/enfein/mieru/v3/pkg/egress"
	"github.com/enfein/mieru/v3/pkg/socks5"
	"google.golang.org/protobuf/proto"
	"verifharness/vh"
)

const sigAssocUnspec = "udp-associate-request-unspecified-address-accepted"

// failOnce reports at most 4 failures per cause signature, so that one frequent cause cannot fill
// the report and hide the others.
var perSig = map[string]int{}

func failOnce(r *vh.Run, sig, what string, c interface{}) { failKey(r, sig, sig, what, c) }

// failKey: like failOnce, but the cap is counted per key (sig + level of observation).
func failKey(r *vh.Run, key, sig, what string, c interface{}) {
	if perSig[key]++; perSig[key] <= 4 {
		r.Fail(sig, what, c)
	}
}

const (
	sigDomainLiteral = "domain-typed-ip-literal-not-rejected"
	sigTrailingDot   = "local-name-trailing-dot-not-rejected"
)

// localSig chooses the cause signature of a local destination that was not refused.
func localSig(cl class, fallback string) string {
	switch cl.kind {
	case "dlit":
		return sigDomainLiteral
	case "dot":
		return sigTrailingDot
	}
	return fallback
}

// dialLiteral is what Go's resolver and dialer make of a host string without any lookup:
// netip.ParseAddr (zone allowed on IPv6), zone dropped, IPv4-mapped unmapped. nil = not an IP literal.
func dialLiteral(host []byte) []byte {
	a, err := netip.ParseAddr(string(host))
	if err != nil {
		return nil
	}
	return a.WithZone("").Unmap().AsSlice()
}

var litSeen = map[string]bool{}

// registerLiteral tells the model runner the literal reading of a domain string (L line), once.
func registerLiteral(r *vh.Run, host []byte) {
	if len(host) == 0 || litSeen[string(host)] {
		return
	}
	litSeen[string(host)] = true
	if ip := dialLiteral(host); ip != nil {
		r.Case(fmt.Sprintf("L %s %s", vh.Hex(host), vh.Hex(ip)), "-")
	}
}

// fqdnOf extracts the domain of a request / datagram address (address type 3), nil if there is none.
func fqdnOf(addr []byte) []byte {
	if len(addr) >= 2 && addr[0] == 3 && len(addr) >= 2+int(addr[1]) {
		return addr[2 : 2+int(addr[1])]
	}
	return nil
}

var nAssocUnspec int // the deliberate exception is reported a few times only, so that it cannot crowd out other failures

// ---------------------------------------------------------------- configurations

type ipr struct {
	text string // what the Go config holds
	enc  string // model encoding: * | ! | hexnet/ones
}
type rule struct {
	ips     []ipr
	doms    []string
	action  int32
	proxies []string
}
type cfg struct {
	allowLoop bool
	users     map[string][2]bool // name -> (private, loopback)
	order     []string
	rules     []rule
	proxies   []string
}

func cidr(text string) ipr {
	if text == "*" {
		return ipr{"*", "*"}
	}
	// independent textual split; validity judged the way the documentation of CIDR says
	i := strings.IndexByte(text, '/')
	if i < 0 {
		return ipr{text, "!"}
	}
	ip := net.ParseIP(text[:i])
	var ones int
	if _, err := fmt.Sscanf(text[i+1:], "%d", &ones); err != nil || ip == nil || fmt.Sprint(ones) != text[i+1:] {
		return ipr{text, "!"}
	}
	var b []byte
	if !strings.Contains(text[:i], ":") {
		b = ip.To4()
	} else {
		b = ip.To16()
	}
	if ones < 0 || ones > 8*len(b) {
		return ipr{text, "!"}
	}
	return ipr{text, fmt.Sprintf("%s/%d", hex.EncodeToString(b), ones)}
}

func (c *cfg) line() string {
	us := []string{}
	for _, n := range c.order {
		f := c.users[n]
		us = append(us, fmt.Sprintf("%s:%d%d", vh.Hex([]byte(n)), b2i(f[0]), b2i(f[1])))
	}
	rs := []string{}
	for _, r := range c.rules {
		ips, doms, px := []string{}, []string{}, []string{}
		for _, x := range r.ips {
			ips = append(ips, x.enc)
		}
		for _, d := range r.doms {
			doms = append(doms, vh.Hex([]byte(d)))
		}
		for _, p := range r.proxies {
			px = append(px, vh.Hex([]byte(p)))
		}
		rs = append(rs, fmt.Sprintf("%s|%s|%d|%s", join(ips), join(doms), r.action, join(px)))
	}
	ps := []string{}
	for _, p := range c.proxies {
		ps = append(ps, vh.Hex([]byte(p)))
	}
	return fmt.Sprintf("G %d %s %s %s", b2i(c.allowLoop), join(us), strings.Join(orDot(rs), ";"), join(ps))
}
func orDot(l []string) []string {
	if len(l) == 0 {
		return []string{"."}
	}
	return l
}
func join(l []string) string {
	if len(l) == 0 {
		return "."
	}
	return strings.Join(l, ",")
}
func b2i(b bool) int {
	if b {
		return 1
	}
	return 0
}

func (c *cfg) server(mode socks5.UDPAssociateMode) *socks5.Server {
	users := map[string]*appctlpb.User{}
	for n, f := range c.users {
		users[n] = &appctlpb.User{Name: proto.String(n), AllowPrivateIP: proto.Bool(f[0]), AllowLoopbackIP: proto.Bool(f[1])}
	}
	eg := &appctlpb.Egress{}
	for _, p := range c.proxies {
		eg.Proxies = append(eg.Proxies, &appctlpb.EgressProxy{Name: proto.String(p), Host: proto.String("192.0.2.99"), Port: proto.Int32(1080)})
	}
	for _, r := range c.rules {
		pr := &appctlpb.EgressRule{Action: appctlpb.EgressAction(r.action).Enum(), DomainNames: r.doms, ProxyNames: r.proxies}
		for _, x := range r.ips {
			pr.IpRanges = append(pr.IpRanges, x.text)
		}
		eg.Rules = append(eg.Rules, pr)
	}
	s, err := socks5.New(&socks5.Config{
		Users: users, Egress: eg, AllowLoopbackDestination: c.allowLoop,
		AuthOpts:         socks5.Auth{ClientSideAuthentication: true},
		HandshakeTimeout: 2 * time.Second, UDPAssociateMode: mode,
		Resolver: apicommon.HostMapResolver{Resolver: &net.Resolver{}, Hosts: map[string]net.IP{
			"localhost": net.IPv4(127, 0, 0, 1), "example.com": net.IPv4(192, 0, 2, 2), "a.example.com": net.IPv4(192, 0, 2, 2), "pub.test": net.IPv4(192, 0, 2, 2),
		}},
	})
	if err != nil {
		panic(err)
	}
	return s
}

var stdUsers = map[string][2]bool{"none": {false, false}, "priv": {true, false}, "loop": {false, true}, "both": {true, true}}
var stdOrder = []string{"none", "priv", "loop", "both"}
var userNames = []string{"", "ghost", "none", "priv", "loop", "both"}

const (
	aPROXY  = int32(appctlpb.EgressAction_PROXY)
	aDIRECT = int32(appctlpb.EgressAction_DIRECT)
	aREJECT = int32(appctlpb.EgressAction_REJECT)
)

func fixedConfigs() []*cfg {
	mk := func(allow bool, rules []rule, proxies []string) *cfg {
		return &cfg{allowLoop: allow, users: stdUsers, order: stdOrder, rules: rules, proxies: proxies}
	}
	return []*cfg{
		mk(false, nil, nil),
		mk(true, nil, nil),
		mk(false, []rule{{ips: []ipr{cidr("*")}, doms: []string{"*"}, action: aREJECT}}, nil),
		mk(false, []rule{{ips: []ipr{cidr("*")}, doms: []string{"*"}, action: aPROXY, proxies: []string{"p"}}}, []string{"p"}),
		mk(false, []rule{
			{ips: []ipr{cidr("8.8.0.0/16")}, action: aREJECT},
			{ips: []ipr{cidr("8.0.0.0/8"), cidr("2001:4860::/32")}, doms: []string{"example.com"}, action: aPROXY, proxies: []string{"p"}},
			{ips: []ipr{cidr("127.0.0.0/8"), cidr("10.0.0.0/8"), cidr("::1/128"), cidr("fc00::/7"), cidr("0.0.0.0/32"), cidr("::/128")}, doms: []string{"localhost"}, action: aDIRECT},
			{doms: []string{"com"}, action: aREJECT},
		}, []string{"q", "p"}),
		mk(false, []rule{
			{ips: []ipr{cidr("bogus"), cidr("1.2.3.4/33"), cidr("::ffff:10.0.0.0/104"), cidr("172.16.0.0/12")}, action: aPROXY, proxies: []string{"missing"}},
			{ips: []ipr{cidr("::ffff:0:0/96")}, action: aREJECT},
			{ips: []ipr{cidr("fd00::/8")}, doms: []string{"LOCALHOST", "a.example.com"}, action: aPROXY},
			{ips: []ipr{cidr("0.0.0.0/0")}, action: 7},
			{ips: []ipr{cidr("::/0")}, doms: []string{"*"}, action: aDIRECT},
		}, []string{"", "p"}),
	}
}

func randomConfig(g *vh.Rng) *cfg {
	c := &cfg{allowLoop: g.Intn(8) == 0, users: stdUsers, order: stdOrder, proxies: []string{"p", "q"}[:g.Intn(3)]}
	pool := []string{"*", "10.0.0.0/8", "127.0.0.0/8", "127.0.0.1/32", "172.16.0.0/12", "172.16.0.0/13", "192.168.0.0/16", "192.168.128.0/17",
		"0.0.0.0/0", "0.0.0.0/32", "8.8.8.0/24", "8.0.0.0/7", "192.0.2.0/24", "fc00::/7", "fd00::/8", "::1/128", "::/0", "::/128", "2001:4860::/32",
		"::ffff:127.0.0.0/104", "::ffff:0:0/96", "::ffff:8.8.0.0/112", "bogus", "1.1.1.1/40", "1.1.1.1", "fe80::/10"}
	doms := []string{"*", "com", "example.com", "a.example.com", "localhost", "LOCALHOST", "localdomain", "host", "ample.com", ""}
	n := g.Intn(5)
	for i := 0; i < n; i++ {
		var r rule
		for k := g.Intn(4); k > 0; k-- {
			if g.Intn(4) == 0 {
				b := g.Bytes(4)
				r.ips = append(r.ips, cidr(fmt.Sprintf("%d.%d.%d.%d/%d", b[0], b[1], b[2], b[3], g.Intn(33))))
			} else {
				r.ips = append(r.ips, cidr(pool[g.Intn(len(pool))]))
			}
		}
		for k := g.Intn(3); k > 0; k-- {
			r.doms = append(r.doms, doms[g.Intn(len(doms))])
		}
		r.action = []int32{aPROXY, aDIRECT, aREJECT, aREJECT, aDIRECT, 5}[g.Intn(6)]
		for k := g.Intn(3); k > 0; k-- {
			r.proxies = append(r.proxies, []string{"p", "q", "zz"}[g.Intn(3)])
		}
		c.rules = append(c.rules, r)
	}
	return c
}

// ---------------------------------------------------------------- destinations

type dest struct {
	atyp byte
	host []byte // 4 / 16 bytes or the name
	tag  string
}

func (d dest) enc() []byte {
	var b []byte
	b = append(b, d.atyp)
	if d.atyp == 3 {
		b = append(b, byte(len(d.host)))
	}
	b = append(b, d.host...)
	return append(b, 0x1f, 0x90)
}

func mapped(v4 []byte) []byte {
	return append([]byte{0, 0, 0, 0, 0, 0, 0, 0, 0, 0, 0xff, 0xff}, v4...)
}

func casePatterns(s string, max int, g *vh.Rng) []string {
	n := 0
	for _, c := range s {
		if c >= 'a' && c <= 'z' {
			n++
		}
	}
	var out []string
	gen := func(mask uint64) string {
		b := []byte(s)
		k := 0
		for i, c := range b {
			if c >= 'a' && c <= 'z' {
				if mask>>uint(k)&1 == 1 {
					b[i] = c - 32
				}
				k++
			}
		}
		return string(b)
	}
	if n <= 12 && (1<<uint(n)) <= max {
		for m := uint64(0); m < 1<<uint(n); m++ {
			out = append(out, gen(m))
		}
		return out
	}
	out = append(out, gen(0), gen(^uint64(0)), gen(1), gen(1<<uint(n-1)))
	for len(out) < max {
		out = append(out, gen(g.U64()))
	}
	return out
}

func destinations(g *vh.Rng, thorough bool) (boundary, names, public []dest) {
	v4 := func(a, b, c, d byte, tag string) {
		x := []byte{a, b, c, d}
		l := &boundary
		if strings.HasPrefix(tag, "pub") {
			l = &public
		}
		*l = append(*l, dest{1, x, tag + "/v4"}, dest{4, mapped(x), tag + "/mapped"})
	}
	v4(127, 0, 0, 0, "loop-first")
	v4(127, 0, 0, 1, "loop")
	v4(127, 255, 255, 255, "loop-last")
	v4(126, 255, 255, 255, "pub-below-127")
	v4(128, 0, 0, 0, "pub-above-127")
	v4(10, 0, 0, 0, "priv10-first")
	v4(10, 255, 255, 255, "priv10-last")
	v4(9, 255, 255, 255, "pub-below-10")
	v4(11, 0, 0, 0, "pub-above-10")
	v4(172, 16, 0, 0, "priv172-first")
	v4(172, 31, 255, 255, "priv172-last")
	v4(172, 15, 255, 255, "pub-below-172.16")
	v4(172, 32, 0, 0, "pub-above-172.31")
	v4(192, 168, 0, 0, "priv192-first")
	v4(192, 168, 255, 255, "priv192-last")
	v4(192, 167, 255, 255, "pub-below-192.168")
	v4(192, 169, 0, 0, "pub-above-192.168")
	v4(0, 0, 0, 0, "unspec")
	v4(0, 0, 0, 1, "pub-0.0.0.1")
	v4(8, 8, 8, 8, "pub-8.8.8.8")
	v4(8, 9, 9, 9, "pub-8.9.9.9")
	v4(192, 0, 2, 2, "pub-192.0.2.2")
	v4(255, 255, 255, 255, "pub-bcast")
	v6 := func(s, tag string) {
		ip := net.ParseIP(s).To16()
		l := &boundary
		if strings.HasPrefix(tag, "pub") {
			l = &public
		}
		*l = append(*l, dest{4, ip, tag + "/v6"})
	}
	v6("::1", "loop6")
	v6("::", "unspec6")
	v6("::2", "pub-::2")
	v6("::1:0", "pub-::1:0")
	v6("fc00::", "priv6-first")
	v6("fdff:ffff:ffff:ffff:ffff:ffff:ffff:ffff", "priv6-last")
	v6("fd00::2", "priv6")
	v6("fbff:ffff:ffff:ffff:ffff:ffff:ffff:ffff", "pub-below-fc00")
	v6("fe00::", "pub-above-fdff")
	v6("fe80::1", "pub-linklocal")
	v6("2001:4860::8888", "pub-google6")
	v6("0:0:0:0:0:fffe:7f00:1", "pub-nearmapped")
	v6("0:0:0:0:1:ffff:7f00:1", "pub-nearmapped2")
	boundary = append(boundary, dest{3, nil, "empty-host"})
	nrand := 6
	if thorough {
		nrand = 64
	}
	for _, n := range append(socks5.VerifC12WellKnownIPv4LocalDomainNames(), socks5.VerifC12WellKnownIPv6LocalDomainNames()...) {
		max := nrand
		if n == "localhost" || thorough && len(n) <= 10 {
			max = 1 << 12
		}
		for _, p := range casePatterns(n, max, g) {
			names = append(names, dest{3, []byte(p), "name:" + n})
		}
	}
	// address type 3 (domain) whose text is an IP literal: the resolver and the dialer take it as that IP without a lookup
	for _, l := range []struct{ text, cls string }{
		{"127.0.0.1", "loop"}, {"127.0.0.0", "loop"}, {"127.255.255.255", "loop"}, {"::1", "loop"}, {"0:0:0:0:0:0:0:1", "loop"}, {"::ffff:127.0.0.1", "loop"}, {"::FFFF:7f00:1", "loop"}, {"::1%lo", "loop"}, {"::1%eth0", "loop"},
		{"10.0.0.0", "priv"}, {"10.1.2.3", "priv"}, {"10.255.255.255", "priv"}, {"172.16.0.0", "priv"}, {"172.31.255.255", "priv"}, {"192.168.0.0", "priv"}, {"192.168.255.255", "priv"},
		{"fc00::", "priv"}, {"fd00::2", "priv"}, {"FDFF:FFFF:FFFF:FFFF:FFFF:FFFF:FFFF:FFFF", "priv"}, {"fd00::2%eth0", "priv"}, {"::ffff:10.1.2.3", "priv"}, {"::ffff:192.168.1.1", "priv"},
		{"0.0.0.0", "unspec"}, {"::", "unspec"}, {"::ffff:0.0.0.0", "unspec"}, {"::%lo", "unspec"},
	} {
		boundary = append(boundary, dest{3, []byte(l.text), "dlit-" + l.cls + ":" + l.text})
	}
	// the absolute spelling (one trailing dot) of every well-known name, in several letter cases
	for _, n := range append(socks5.VerifC12WellKnownIPv4LocalDomainNames(), socks5.VerifC12WellKnownIPv6LocalDomainNames()...) {
		for _, p := range casePatterns(n, 4, g) {
			boundary = append(boundary, dest{3, []byte(p + "."), "dot:" + n})
		}
	}
	for _, n := range []string{"localhost..", ".localhost", ".", "localhost.x.", "localhos", "xlocalhost", "localhost.com", "example.com", "a.example.com", "EXAMPLE.com", "xexample.com", "com", "LOCALHOSTK", "ip6-loopbacK", "*", "a", strings.Repeat("x", 255),
		// IP literals outside the property's classes, and strings that are no literals
		"8.8.8.8", "192.0.2.2", "2001:4860::8888", "fe80::1%eth0", "172.32.0.0", "126.255.255.255", "::ffff:8.8.8.8", "127.0.0.1%lo", "127.1", "[::1]", "::1%", "0x7f.0.0.1", "127.0.0.1.", "1::1::1"} {
		public = append(public, dest{3, []byte(n), "pub-name:" + n[:min(len(n), 12)]})
	}
	return
}

func min(a, b int) int {
	if a < b {
		return a
	}
	return b
}

// ---------------------------------------------------------------- oracle (property text; independent of the model)

type class struct {
	loop, priv, unspec bool
	kind               string // "" | "dlit" (domain-typed IP literal) | "dot" (well-known name with a trailing dot)
}

func classify(d dest) class {
	if d.atyp == 3 {
		if len(d.host) == 0 {
			return class{loop: true}
		}
		for _, n := range append(socks5.VerifC12WellKnownIPv4LocalDomainNames(), socks5.VerifC12WellKnownIPv6LocalDomainNames()...) {
			if len(n) == len(d.host) && bytes.EqualFold([]byte(n), d.host) && isASCII(d.host) {
				return class{loop: true}
			}
			// the absolute spelling of the same name
			if len(n)+1 == len(d.host) && d.host[len(n)] == '.' && bytes.EqualFold([]byte(n), d.host[:len(n)]) && isASCII(d.host) {
				return class{loop: true, kind: "dot"}
			}
		}
		if a, err := netip.ParseAddr(string(d.host)); err == nil {
			a = a.WithZone("").Unmap()
			if a.IsUnspecified() {
				return class{loop: true, unspec: true, kind: "dlit"}
			}
			return class{loop: a.IsLoopback(), priv: a.IsPrivate(), kind: "dlit"}
		}
		return class{}
	}
	ip := net.IP(d.host)
	if ip.IsUnspecified() {
		return class{loop: true, unspec: true}
	}
	return class{loop: ip.IsLoopback(), priv: ip.IsPrivate()}
}

func isASCII(b []byte) bool {
	for _, c := range b {
		if c >= 0x80 {
			return false
		}
	}
	return true
}

// reference first-match evaluation of the rule list, written against the documentation
func refRules(c *cfg, d dest) (int32, bool) {
	if d.atyp == 3 && len(d.host) == 0 {
		return aDIRECT, true
	}
	for _, r := range c.rules {
		hit := false
		if d.atyp != 3 {
			for _, x := range r.ips {
				if x.text == "*" {
					hit = true
					break
				}
				if _, n, err := net.ParseCIDR(x.text); err == nil && n.Contains(net.IP(d.host)) {
					hit = true
					break
				}
			}
		} else {
			for _, dn := range r.doms {
				if dn == "*" || dn == string(d.host) || strings.HasSuffix(string(d.host), "."+dn) {
					hit = true
					break
				}
			}
		}
		if hit {
			return r.action, true
		}
	}
	return aDIRECT, true
}

// expected action by the property text: (action, strict). For REJECT by locality the action must be REJECT.
func expect(c *cfg, user string, cmd byte, d dest) (want int32, local bool) {
	if cmd != 1 && cmd != 3 {
		return aDIRECT, false
	}
	cl := classify(d)
	f, known := c.users[user]
	if user == "" {
		known = false
	}
	denyLoop := cl.loop && !(known && f[1]) && !c.allowLoop
	denyPriv := cl.priv && !(known && f[0])
	if denyLoop || denyPriv {
		return aREJECT, true
	}
	a, _ := refRules(c, d)
	return a, false
}

// ---------------------------------------------------------------- main

type userConn struct {
	net.Conn
	user string
}

func (u userConn) UserName() string { return u.user }

func request(cmd byte, d dest) []byte { return append([]byte{5, cmd, 0}, d.enc()...) }

func main() {
	r := vh.Start("c12")
	g := r.Rng
	boundary, names, public := destinations(g, r.Thorough())
	cfgs := fixedConfigs()
	nrand := 6
	if r.Thorough() {
		nrand = 60
	}
	for i := 0; i < nrand; i++ {
		cfgs = append(cfgs, randomConfig(g.Fork()))
	}
	ctx := context.Background()

	findAction := func(s *socks5.Server, c *cfg, user string, protoOK bool, data []byte, cmd byte, d *dest) {
		in := egress.Input{Protocol: appctlpb.ProxyProtocol_SOCKS5_PROXY_PROTOCOL, Data: data}
		if !protoOK {
			in.Protocol = appctlpb.ProxyProtocol_UNKNOWN_PROXY_PROTOCOL
		}
		if user != "" {
			in.Env = map[string]string{"user": user}
		}
		if len(data) > 3 {
			registerLiteral(r, fqdnOf(data[3:]))
		}
		a := s.FindAction(ctx, in)
		px := "nil"
		if a.Proxy != nil {
			px = vh.Hex([]byte(a.Proxy.GetName()))
		}
		r.Case(fmt.Sprintf("F %s %d %s", vh.Hex([]byte(user)), b2i(protoOK), vh.Hex(data)), fmt.Sprintf("%d %s", int32(a.Action), px))
		if d == nil || !protoOK {
			return
		}
		want, local := expect(c, user, cmd, *d)
		cl := classify(*d)
		r.Count(fmt.Sprintf("F/cmd%d/%s", cmd, map[bool]string{true: "local-denied", false: "other"}[local]))
		if cl.loop || cl.priv || int32(a.Action) != aDIRECT {
			r.Distinct(fmt.Sprintf("%s|%d|%s|%d|%v", d.tag, cmd, user, int32(a.Action), len(c.rules)))
		}
		if int32(a.Action) != want {
			cs := map[string]interface{}{"config": c.line(), "user": user, "cmd": cmd, "dest": d.tag, "data": hex.EncodeToString(data), "got": int32(a.Action), "want": want}
			switch {
			case local && cmd == 3 && cl.unspec:
				if nAssocUnspec++; nAssocUnspec > 3 {
					break
				}
				failOnce(r, sigAssocUnspec, "UDP ASSOCIATE request naming the unspecified address is not answered 'not allowed by ruleset' for a user without loopback access (deliberate: RFC 1928 all-zero address; nothing is sent there)", cs)
			case local:
				sig := localSig(cl, "local-destination-not-rejected:"+strings.SplitN(d.tag, "/", 2)[0][:min(len(strings.SplitN(d.tag, "/", 2)[0]), 14)])
				failKey(r, sig+"|F|"+strings.SplitN(d.tag, ":", 2)[0], sig, fmt.Sprintf("FindAction=%d for local destination %s, user %q without the permission", int32(a.Action), d.tag, user), cs)
			default:
				failOnce(r, "rule-list-not-first-match", fmt.Sprintf("FindAction=%d, rule list says %d for %s user %q", int32(a.Action), want, d.tag, user), cs)
			}
		}
	}

	for ci, c := range cfgs {
		r.Case(c.line(), "-")
		s := c.server(socks5.UDPAssociateModePacketOverStream)
		full := ci < 3 || r.Thorough()
		for _, cmd := range []byte{1, 3, 2, 9} {
			for _, u := range userNames {
				ds := append(append([]dest{}, boundary...), public...)
				for i, d := range ds {
					d := d
					_ = i
					findAction(s, c, u, true, request(cmd, d), cmd, &d)
				}
				if (cmd == 1 || cmd == 3) && (full || u == "none" || u == "") {
					for i, d := range names {
						if !full && i%7 != ci%7 {
							continue
						}
						d := d
						findAction(s, c, u, true, request(cmd, d), cmd, &d)
					}
				}
			}
		}
		// malformed / non-request inputs: FindAction answers DIRECT, compared with the model only
		d0 := boundary[2]
		good := request(1, d0)
		for cut := 0; cut <= len(good); cut++ {
			findAction(s, c, "none", true, good[:cut], 1, nil)
		}
		findAction(s, c, "none", false, good, 1, nil)
		findAction(s, c, "none", true, append([]byte{4}, good[1:]...), 1, nil)
		findAction(s, c, "none", true, []byte{5, 1, 0, 2, 127, 0, 0, 1, 0, 80}, 1, nil)
		findAction(s, c, "none", true, append(append([]byte{}, good...), 1, 2, 3), 1, nil)
		for k := 0; k < 20; k++ {
			findAction(s, c, userNames[g.Intn(len(userNames))], true, append([]byte{5, byte(1 + g.Intn(3)), 0, []byte{1, 3, 4}[g.Intn(3)]}, g.Bytes(g.Intn(24))...), 1, nil)
		}
		r.Count("configs")
	}

	endToEnd(r)

	r.Rep.Rule = "FindAction on every boundary address of 127/8, 10/8, 172.16/12, 192.168/16 (first, last, one below, one above) in 4-byte and IPv4-mapped form, fc00::/7 boundaries, ::1, ::, 0.0.0.0, near-mapped prefixes, the empty host, domain-typed IP literals of every class (loopback, 10/8, 172.16/12, 192.168/16, fc00::/7, mapped, unspecified; with and without zone) and absolute spellings (trailing dot) of the well-known names, public and malformed literals as controls, every well-known name in all 2^n letter-case patterns ('localhost' always; the others sampled in quick, complete up to 10 letters in thorough), look-alike and public names x commands {1,3,2,9} x users {unknown, unregistered, none, priv, loop, both} x 6 fixed + generated rule lists (CIDR incl. mapped and invalid, suffix, '*', overlapping, PROXY/DIRECT/REJECT/unknown action); truncated and malformed requests; plus the real server (ServeConn) with TCP and UDP listeners on loopback, fd00::2 and 192.0.2.2 observing reply codes, accepted connections and the arrival of relayed datagrams. Non-trivial = (destination tag, command, user, action, rule count) where the destination is local or the action is not DIRECT."
	r.Rep.Exhaustive = false
	r.Finish()
}

// ---------------------------------------------------------------- the real server over a pipe

type sink struct {
	tcp  net.Listener
	udp  *net.UDPConn
	port int
}

func openSinks() (*sink, bool, bool) {
	// one dual-stack wildcard listener pair: whatever address of this host a connection or datagram is
	// sent to (127.0.0.1, ::1, 0.0.0.0, ::, fd00::2, 192.0.2.2), it arrives here
	for try := 0; try < 20; try++ {
		l, err := net.Listen("tcp", "[::]:0")
		if err != nil {
			return nil, false, false
		}
		port := l.Addr().(*net.TCPAddr).Port
		u, err := net.ListenUDP("udp", &net.UDPAddr{IP: net.IPv6unspecified, Port: port})
		if err != nil {
			l.Close()
			continue
		}
		hasPriv, hasPub := false, false
		addrs, _ := net.InterfaceAddrs()
		for _, a := range addrs {
			if n, ok := a.(*net.IPNet); ok {
				if n.IP.Equal(net.ParseIP("fd00::2")) {
					hasPriv = true
				}
				if n.IP.Equal(net.ParseIP("192.0.2.2")) {
					hasPub = true
				}
			}
		}
		return &sink{l, u, port}, hasPriv, hasPub
	}
	return nil, false, false
}

func (d dest) withPort(p int) []byte {
	e := d.enc()
	e[len(e)-2], e[len(e)-1] = byte(p>>8), byte(p)
	return e
}

func endToEnd(r *vh.Run) {
	sk, hasPriv, hasPub := openSinks()
	if sk == nil {
		r.Rep.Notes = map[string]string{"end-to-end": "skipped: cannot listen on [::]"}
		return
	}
	defer sk.tcp.Close()
	defer sk.udp.Close()
	r.Rep.Notes = map[string]string{"end-to-end": fmt.Sprintf("listeners on [::]:%d tcp+udp; private address fd00::2 present=%v; public stand-in 192.0.2.2 present=%v", sk.port, hasPriv, hasPub)}
	accepted := make(chan struct{}, 64)
	go func() {
		for {
			c, err := sk.tcp.Accept()
			if err != nil {
				return
			}
			accepted <- struct{}{}
			c.Close()
		}
	}()
	c := &cfg{allowLoop: false, users: stdUsers, order: stdOrder}
	local := []dest{
		{1, []byte{127, 0, 0, 1}, "loop/v4"}, {1, []byte{127, 255, 255, 254}, "loop-last/v4"}, {4, mapped([]byte{127, 0, 0, 1}), "loop/mapped"},
		{4, net.ParseIP("::1").To16(), "loop6/v6"}, {1, []byte{0, 0, 0, 0}, "unspec/v4"}, {4, mapped([]byte{0, 0, 0, 0}), "unspec/mapped"},
		{4, net.ParseIP("::").To16(), "unspec6/v6"}, {3, nil, "empty-host"},
		{3, []byte("localhost"), "name:localhost"}, {3, []byte("LOCALHOST"), "name:localhost"}, {3, []byte("LocalHost"), "name:localhost"},
	}
	if hasPriv {
		local = append(local, dest{4, net.ParseIP("fd00::2").To16(), "priv6/v6"})
	}
	pub := dest{1, []byte{192, 0, 2, 2}, "pub-192.0.2.2/v4"}

	// CONNECT through the real server
	r.Case(c.line(), "-")
	for _, u := range userNames {
		ds := append([]dest{}, local...)
		// domain-typed IP literals and absolute spellings of the local names: what the dialer makes of them
		for _, t := range []string{"127.0.0.1", "127.255.255.254", "::1", "::ffff:127.0.0.1", "::1%lo", "0.0.0.0", "::", "localhost.", "LOCALHOST.", "LocalHost."} {
			ds = append(ds, dest{3, []byte(t), "dname:" + t})
		}
		if hasPriv {
			ds = append(ds, dest{3, []byte("fd00::2"), "dname:fd00::2"}, dest{3, []byte("FD00::2%eth0"), "dname:FD00::2%eth0"})
		}
		if hasPub {
			ds = append(ds, pub, dest{3, []byte("192.0.2.2"), "dname:192.0.2.2"})
		}
		for _, d := range ds {
			s := c.server(socks5.UDPAssociateModePacketOverStream)
			cli, srv := net.Pipe()
			done := make(chan struct{})
			go func() { s.ServeConn(userConn{srv, u}); close(done) }()
			data := append([]byte{5, 1, 0}, d.withPort(sk.port)...)
			registerLiteral(r, fqdnOf(data[3:]))
			cli.SetDeadline(time.Now().Add(3 * time.Second))
			go cli.Write(data)
			rep := make([]byte, 4)
			code := -1
			if _, err := io.ReadFull(cli, rep); err == nil {
				code = int(rep[1])
			}
			acc := 0
			select {
			case <-accepted:
				acc = 1
			case <-time.After(30 * time.Millisecond):
			}
			cli.Close()
			<-done
			select { // a connection that raced the reply
			case <-accepted:
				acc = 1
			default:
			}
			r.Case(fmt.Sprintf("S %s %s", vh.Hex([]byte(u)), vh.Hex(data)), fmt.Sprintf("%d %d", code, acc))
			r.Count("S/connect")
			want, isLocal := expect(c, u, 1, d)
			r.Distinct(fmt.Sprintf("S|%s|%s|%d|%d", d.tag, u, code, acc))
			if isLocal && (code != 2 || acc != 0) {
				sig := localSig(classify(d), "connect-to-local-destination:"+strings.SplitN(d.tag, "/", 2)[0])
				failKey(r, sig+"|S|"+d.tag, sig, fmt.Sprintf("CONNECT to %s by user %q without the permission: reply %d, connection opened=%d (want reply 2 'not allowed by ruleset', no connection)", d.tag, u, code, acc),
					map[string]interface{}{"user": u, "data": hex.EncodeToString(data), "reply": code, "accepted": acc})
			}
			if !isLocal && want == aDIRECT && (code != 0 || acc != 1) {
				failOnce(r, "allowed-connect-affected", fmt.Sprintf("CONNECT to %s by user %q should be served: reply %d accepted %d", d.tag, u, code, acc),
					map[string]interface{}{"user": u, "data": hex.EncodeToString(data), "reply": code, "accepted": acc})
			}
		}
	}

	relayEndToEnd(r, c, hasPriv, hasPub)
}

// ---------------------------------------------------------------- UDP associations through the real server

// A listener bound to one specific local address and one port. Every datagram of a sequence has its own
// port, and every port has a listener on every local address, so a datagram that is sent anywhere on this
// host is seen, together with the address it really went to - whatever its header named.
type arrival struct {
	kind string // loop | priv | pub : the class of the address the datagram ARRIVED at
	addr string
	port int
	idx  int // index carried in the payload
}

var listenAddrs = []struct{ kind, ip string }{
	{"loop", "127.0.0.1"}, {"loop", "127.255.255.254"}, {"loop", "::1"}, {"priv", "fd00::2"}, {"pub", "192.0.2.2"},
}

// openPort binds one port on every local address; nil if some bind fails.
func openPort(hasPriv bool, out chan<- arrival) (int, []*net.UDPConn) {
	for try := 0; try < 50; try++ {
		first, err := net.ListenUDP("udp", &net.UDPAddr{IP: net.ParseIP("127.0.0.1"), Port: 0})
		if err != nil {
			return 0, nil
		}
		port := first.LocalAddr().(*net.UDPAddr).Port
		conns := []*net.UDPConn{first}
		ok := true
		for _, la := range listenAddrs[1:] {
			if la.kind == "priv" && !hasPriv {
				continue
			}
			u, err := net.ListenUDP("udp", &net.UDPAddr{IP: net.ParseIP(la.ip), Port: port})
			if err != nil {
				ok = false
				break
			}
			conns = append(conns, u)
		}
		if !ok {
			for _, u := range conns {
				u.Close()
			}
			continue
		}
		i := 0
		for _, la := range listenAddrs {
			if la.kind == "priv" && !hasPriv {
				continue
			}
			u, la := conns[i], la
			i++
			go func() {
				buf := make([]byte, 2048)
				for {
					n, _, err := u.ReadFromUDP(buf)
					if err != nil {
						return
					}
					if n == 2 && buf[0] == 'P' {
						out <- arrival{la.kind, la.ip, port, int(buf[1])}
					}
				}
			}()
		}
		return port, conns
	}
	return 0, nil
}

// the class of the address a correct relay sends a datagram with this header to
func expectKind(d dest) string {
	cl := classify(d)
	switch {
	case cl.priv:
		return "priv"
	case cl.loop:
		return "loop"
	}
	return "pub" // 192.0.2.2 and the test domains, which the resolver maps to 192.0.2.2
}

func relayEndToEnd(r *vh.Run, c *cfg, hasPriv, hasPub bool) {
	if !hasPub {
		return
	}
	loop4 := dest{1, []byte{127, 0, 0, 1}, "loop/v4"}
	loopLast := dest{1, []byte{127, 255, 255, 254}, "loop-last/v4"}
	loopM := dest{4, mapped([]byte{127, 0, 0, 1}), "loop/mapped"}
	loop6 := dest{4, net.ParseIP("::1").To16(), "loop6/v6"}
	un4 := dest{1, []byte{0, 0, 0, 0}, "unspec/v4"}
	unM := dest{4, mapped([]byte{0, 0, 0, 0}), "unspec/mapped"}
	un6 := dest{4, net.ParseIP("::").To16(), "unspec6/v6"}
	empty := dest{3, nil, "empty-host"}
	priv6 := dest{4, net.ParseIP("fd00::2").To16(), "priv6/v6"}
	pub := dest{1, []byte{192, 0, 2, 2}, "pub-192.0.2.2/v4"}
	pubM := dest{4, mapped([]byte{192, 0, 2, 2}), "pub-192.0.2.2/mapped"}
	name := func(s string) dest {
		if strings.EqualFold(s, "localhost") {
			return dest{3, []byte(s), "name:localhost"}
		}
		return dest{3, []byte(s), "pub-name:" + s}
	}
	// IP-literal local destinations (dropped for a user without the flag) followed by domain-named and
	// public-IP destinations: the later ones must not inherit anything from the earlier ones
	seq := []dest{pub, name("example.com"),
		loop4, name("example.com"), pub,
		loopLast, name("a.example.com"),
		loopM, name("EXAMPLE.com"), pubM,
		loop6, name("pub.test"),
		un4, name("example.com"), un6, name("pub.test"), unM, name("a.example.com"),
		name("localhost"), name("example.com"), name("LOCALHOST"), pub, name("LocalHost"), name("pub.test"),
		empty, name("example.com")}
	if hasPriv {
		seq = append(seq, priv6, name("example.com"), priv6, pub, name("pub.test"))
	}
	// domain-typed headers that the resolver / dialer take as local addresses without a lookup
	for _, t := range []string{"127.0.0.1", "::1", "::ffff:127.0.0.1", "0.0.0.0", "::1%lo", "localhost.", "LOCALHOST."} {
		seq = append(seq, dest{3, []byte(t), "dname:" + t}, name("example.com"))
	}
	if hasPriv {
		seq = append(seq, dest{3, []byte("fd00::2"), "dname:fd00::2"})
	}
	seq = append(seq, dest{3, []byte("192.0.2.2"), "dname:192.0.2.2"})
	seq = append(seq, loop4, pub) // the last one is the sentinel

	arrivals := make(chan arrival, 1024)
	ports := make([]int, len(seq))
	var all []*net.UDPConn
	for i := range seq {
		p, conns := openPort(hasPriv, arrivals)
		if conns == nil {
			r.Rep.Notes["relay-end-to-end"] = "skipped: cannot bind a port on every local address"
			for _, u := range all {
				u.Close()
			}
			return
		}
		ports[i] = p
		all = append(all, conns...)
	}
	defer func() {
		for _, u := range all {
			u.Close()
		}
	}()
	r.Rep.Notes["relay-end-to-end"] = fmt.Sprintf("%d datagrams per association, each on its own port, %d listeners (every port on 127.0.0.1, 127.255.255.254, ::1, fd00::2, 192.0.2.2); both relay modes", len(seq), len(all))

	pkt := func(i int) []byte {
		p := append([]byte{0, 0, 0}, seq[i].withPort(ports[i])...)
		return append(p, 'P', byte(i))
	}
	var pktsHex []string
	for i := range seq {
		pktsHex = append(pktsHex, vh.Hex(pkt(i)))
		if seq[i].atyp == 3 {
			registerLiteral(r, seq[i].host)
		}
	}

	for _, mode := range []socks5.UDPAssociateMode{socks5.UDPAssociateModePacketOverStream, socks5.UDPAssociateModeDatagram} {
		modeName, stop := "stream", 1
		if mode == socks5.UDPAssociateModeDatagram {
			modeName, stop = "datagram", 0
		}
		for _, u := range userNames {
			s := c.server(mode)
			cli, srv := net.Pipe()
			done := make(chan struct{})
			go func() { s.ServeConn(userConn{srv, u}); close(done) }()
			cli.SetDeadline(time.Now().Add(6 * time.Second))
			req := append([]byte{5, 3, 0}, pub.withPort(ports[0])...)
			go cli.Write(req)
			rep := make([]byte, 10)
			if _, err := io.ReadFull(cli, rep); err != nil || rep[1] != 0 || rep[3] != 1 {
				failOnce(r, "allowed-associate-affected", fmt.Sprintf("UDP ASSOCIATE (%s mode) to the public stand-in by %q refused: %v %v", modeName, u, rep, err), map[string]interface{}{"user": u, "mode": modeName})
				cli.Close()
				<-done
				continue
			}
			var uc *net.UDPConn
			if mode == socks5.UDPAssociateModePacketOverStream {
				go func() {
					for i := range seq {
						p := pkt(i)
						f := append([]byte{0, byte(len(p) >> 8), byte(len(p))}, p...)
						if _, err := cli.Write(append(f, 0xff)); err != nil {
							return
						}
					}
				}()
			} else {
				relayPort := int(rep[8])<<8 | int(rep[9])
				var err error
				uc, err = net.DialUDP("udp", nil, &net.UDPAddr{IP: net.IPv4(127, 0, 0, 1), Port: relayPort})
				if err != nil {
					failOnce(r, "allowed-associate-affected", "cannot reach the datagram-mode relay socket: "+err.Error(), map[string]interface{}{"user": u})
					cli.Close()
					<-done
					continue
				}
				for i := range seq {
					uc.Write(pkt(i))
					if i%4 == 3 {
						time.Sleep(time.Millisecond) // stay below the socket buffer
					}
				}
			}
			var arr []arrival
			deadline := time.After(3 * time.Second)
		wait:
			for {
				select {
				case a := <-arrivals:
					arr = append(arr, a)
					if a.idx == len(seq)-1 {
						break wait
					}
				case <-deadline:
					break wait
				}
			}
			time.Sleep(30 * time.Millisecond)
			for len(arrivals) > 0 {
				arr = append(arr, <-arrivals)
			}
			if uc != nil {
				uc.Close()
			}
			cli.Close()
			<-done

			f, known := c.users[u]
			if u == "" {
				known = false
			}
			mayLoop, mayPriv := known && f[1], known && f[0]
			seen := map[int]bool{}
			for _, a := range arr {
				if a.idx >= len(seq) {
					continue
				}
				seen[a.idx] = true
				d := seq[a.idx]
				cs := map[string]interface{}{"user": u, "mode": modeName, "assoc": hex.EncodeToString(req), "datagrams": pktsHex, "index": a.idx,
					"header_dest": d.tag, "header": hex.EncodeToString(d.withPort(ports[a.idx])), "arrived_at": fmt.Sprintf("%s port %d", a.addr, a.port)}
				// the property itself: whatever the header named, nothing may reach a loopback / private address
				if a.kind == "loop" && !mayLoop || a.kind == "priv" && !mayPriv {
					if k := classify(d).kind; k != "" && expectKind(d) == a.kind {
						sig := localSig(classify(d), "")
						failKey(r, sig+"|R|"+modeName+d.tag, sig, fmt.Sprintf("%s mode, user %q without the permission: datagram #%d with domain-typed header %q was delivered to %s:%d", modeName, u, a.idx, string(d.host), a.addr, a.port), cs)
					}
					failOnce(r, "udp-relay-datagram-reached-local-listener:"+a.kind, fmt.Sprintf("%s mode, user %q without the permission: datagram #%d (header %s) arrived at %s:%d", modeName, u, a.idx, d.tag, a.addr, a.port), cs)
					if expectKind(d) == a.kind && classify(d).kind == "" {
						failOnce(r, "udp-relay-datagram-to-local-dest:"+strings.SplitN(d.tag, "/", 2)[0], fmt.Sprintf("datagram relayed to %s in a UDP association (%s mode) of user %q without the permission", d.tag, modeName, u), cs)
					}
				} else if a.kind != expectKind(d) || a.port != ports[a.idx] {
					failOnce(r, "udp-relay-datagram-misdelivered", fmt.Sprintf("%s mode, user %q: datagram #%d with header %s port %d arrived at %s:%d", modeName, u, a.idx, d.tag, ports[a.idx], a.addr, a.port), cs)
				}
			}
			var obs []string
			for i, d := range seq {
				if seen[i] {
					obs = append(obs, fmt.Sprintf("%d", i))
				}
				_, isLocal := expect(c, u, 1, d) // a datagram's destination is judged like a CONNECT to it
				r.Distinct(fmt.Sprintf("R|%s|%s|%s|%v", modeName, d.tag, u, seen[i]))
				r.Count("R/" + modeName + "/datagram")
				if !isLocal && !seen[i] && (expectKind(d) == "pub" || d.tag == "loop/v4" || d.tag == "name:localhost" || strings.HasPrefix(d.tag, "dname:")) {
					failOnce(r, "allowed-datagram-affected", fmt.Sprintf("%s mode: datagram #%d to %s by user %q did not arrive", modeName, i, d.tag, u), map[string]interface{}{"user": u, "mode": modeName, "datagrams": pktsHex, "index": i})
				}
			}
			r.Case(fmt.Sprintf("R %s %d %s", vh.Hex([]byte(u)), stop, strings.Join(pktsHex, ",")), "sent "+strings.Join(obs, " "))
		}
	}
}
