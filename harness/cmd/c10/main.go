// Driver for C10: no input from the network can crash the process; a misbehaving peer loses at most
// its own session.
//
// The endpoint under test (a real server Mux or a real client Mux on simnet) runs in a CHILD PROCESS
// (this binary re-executed with -child <scenario>): a panic on a mieru goroutine kills that process
// and is observed by the parent as exit status != 0, reported as oracle failure "panic-<site>".
// The hostile peer is built on verifharness/refcodec (no mieru code) and owns a VALID credential.
// Per hostile segment the child writes a case line (the abstract description of the input that
// model/Dispatch.v takes) and the observed outcome class; the model runner prints the class the
// model computes. The victim (user alice) keeps an echo transfer running through every probe.
// SOCKS5 / UDP-associate parsers are fuzzed in-process under recover.
package main

import (
	"bufio"
	"bytes"
	"context"
	"encoding/json"
	"errors"
	"flag"
	"fmt"
	"io"
	"net"
	"os"
	"os/exec"
	"path/filepath"
	"strconv"
	"strings"
	"sync"
	"time"

	apicommon "github.com/enfein/mieru/v3/apis/common"
	"github.com/enfein/mieru/v3/pkg/appctl/appctlpb"
	"github.com/enfein/mieru/v3/pkg/egress"
	"google.golang.org/protobuf/proto"
	"runtime"
	"syscall"
	"github.com/enfein/mieru/v3/apis/model"
	mlog "github.com/enfein/mieru/v3/pkg/log"
	"github.com/enfein/mieru/v3/pkg/protocol"
	"github.com/enfein/mieru/v3/pkg/socks5"
	"github.com/enfein/mieru/v3/pkg/stderror"
	"verifharness/refcodec"
	"verifharness/rig"
	"verifharness/simnet"
	"verifharness/vh"
)

var childFlag = flag.String("child", "", "run this scenario (child process mode)")

const (
	alicePass = "alice-password"
	bobPass   = "bob-password"
	serverAP  = "192.0.2.1:8964"
)

// ---------------------------------------------------------------- child <-> parent records

type rec struct {
	T    string      `json:"t"` // case | racy | count | distinct | fail | pending | done | note
	C    string      `json:"c,omitempty"`
	I    string      `json:"i,omitempty"`
	K    string      `json:"k,omitempty"`
	Sig  string      `json:"sig,omitempty"`
	What string      `json:"what,omitempty"`
	Case interface{} `json:"case,omitempty"`
}

type childOut struct {
	mu sync.Mutex
	f  *os.File
}

func (o *childOut) put(r rec) {
	o.mu.Lock()
	defer o.mu.Unlock()
	b, _ := json.Marshal(r)
	o.f.Write(append(b, '\n'))
}

// ---------------------------------------------------------------- hostile segments

type bodyClass string

const (
	bOK    bodyClass = "ok"
	bShort bodyClass = "short"
	bPad   bodyClass = "pad"
	bTag   bodyClass = "tag"
)

// hseg is one hostile segment: metadata fields as the attacker chooses them plus the body class.
type hseg struct {
	Proto   uint8
	Sid     uint32
	Seq     uint32
	UnAck   uint32
	Window  uint16
	Frag    uint8
	Status  uint8
	PLen    int // declared payload length (and real one for body ok)
	Prefix  int
	Suffix  int
	TsOK    bool
	LE      int // 0: fields zero (invalid for 10/11), 1: valid low entropy metadata for PLen = 0
	Body    bodyClass
	Garbage bool // not authenticated at all
	overUDP bool // set by the scenario: the segment travels in a datagram
}

const udpReadBuf = 1500 // PacketUnderlay.readOneSegment: b := make([]byte, 1500)

// wireLen is the length of the datagram that carries the segment with a matching body
func (h hseg) wireLen() int {
	n := 24 + 48 + h.Suffix
	if !isSessionP(h.Proto) {
		n += h.Prefix
	}
	if h.PLen > 0 {
		n += h.PLen + 16
	}
	return n
}

func defSeg(p uint8, sid uint32) hseg {
	return hseg{Proto: p, Sid: sid, TsOK: true, Body: bOK, Window: 256}
}

func isSessionP(p uint8) bool { return p >= 2 && p <= 5 }
func isDataAckP(p uint8) bool { return p >= 6 && p <= 11 }
func isLEP(p uint8) bool      { return p == 10 || p == 11 }

// metaBytes renders the 32 metadata bytes (session layout for 2..5, data layout otherwise).
func (h hseg) metaBytes(now time.Time) [32]byte {
	ts := refcodec.TimestampOf(now)
	if !h.TsOK {
		ts -= 10
	}
	m := refcodec.Meta{Proto: h.Proto, Timestamp: ts, SessionID: h.Sid, Seq: h.Seq, StatusCode: h.Status,
		PayloadLen: uint16(h.PLen), SuffixLen: uint8(h.Suffix), UnAckSeq: h.UnAck, WindowSize: h.Window,
		Fragment: h.Frag, PrefixLen: uint8(h.Prefix)}
	if isLEP(h.Proto) && h.LE == 1 {
		m.LEMode, m.LEMask, m.LERot, m.ExtractedLen = 1, 0x0000ffff, 0, 0
	}
	return m.Marshal()
}

// leOK: validateLowEntropyDataAckMetadata passes (only meaningful for types 10/11).
func (h hseg) leOK() bool { return h.LE == 1 && h.PLen == 0 }

// rest renders what follows the sealed metadata. seal is called at most once.
func (h hseg) rest(rng *vh.Rng, seal func([]byte) []byte) []byte {
	var out []byte
	if !isSessionP(h.Proto) {
		out = append(out, rng.Bytes(h.Prefix)...)
	}
	if h.PLen > 0 {
		box := seal(rng.Bytes(h.PLen))
		if h.Body == bTag {
			box[len(box)-1] ^= 0x40
		}
		out = append(out, box...)
	}
	out = append(out, rng.Bytes(h.Suffix)...)
	switch h.Body {
	case bShort:
		if len(out) > 0 {
			out = out[:len(out)-1-rng.Intn(len(out))]
		}
	case bPad:
		out = append(out, rng.Bytes(1+rng.Intn(9))...)
	}
	return out
}

// normalise makes the body class meaningful for the chosen fields.
func (h hseg) normalise() hseg {
	if h.Body == bTag && h.PLen == 0 {
		h.Body = bOK
	}
	if h.Body == bShort && h.PLen == 0 && h.Suffix == 0 && (isSessionP(h.Proto) || h.Prefix == 0) {
		h.Suffix = 3
	}
	if isSessionP(h.Proto) {
		h.Prefix = 0
	}
	return h
}

type cred struct {
	user string
	key  []byte
	num  int // user number in the model (alice 1, bob 2)
}

func mkCred(user, pass string, num int) cred {
	ks := refcodec.KeysAt(refcodec.HashedPassword(user, pass), time.Now())
	return cred{user, ks[1], num}
}

func newNonce(rng *vh.Rng, user string) []byte {
	n := rng.Bytes(24)
	refcodec.SetUserHint(user, n)
	return n
}

func (h hseg) datagram(rng *vh.Rng, c cred) []byte {
	if h.Garbage {
		return rng.Bytes(72 + rng.Intn(200))
	}
	nonce := newNonce(rng, c.user)
	mb := h.metaBytes(time.Now())
	out := append([]byte(nil), nonce...)
	out = append(out, refcodec.Seal(c.key, nonce, mb[:])...)
	return append(out, h.rest(rng, func(p []byte) []byte { return refcodec.Seal(c.key, nonce, p) })...)
}

// tcpEnc is one direction of a hostile TCP peer.
type tcpEnc struct {
	c     cred
	nonce []byte
	sent  bool
}

func (e *tcpEnc) seal(p []byte) []byte {
	out := refcodec.Seal(e.c.key, e.nonce, p)
	e.nonce = refcodec.NonceInc(e.nonce)
	return out
}

func (e *tcpEnc) encode(rng *vh.Rng, h hseg) []byte {
	if h.Garbage {
		return rng.Bytes(72 + rng.Intn(100))
	}
	var out []byte
	if !e.sent {
		out = append(out, e.nonce...)
		e.sent = true
	}
	mb := h.metaBytes(time.Now())
	out = append(out, e.seal(mb[:])...)
	return append(out, h.rest(rng, e.seal)...)
}

// ---------------------------------------------------------------- case lines

func b2s(b bool) string {
	if b {
		return "1"
	}
	return "0"
}

// caseLine renders the model input: W short fromserver replay authkind authval metalen proto ts le sid seq unack window status plen body
func caseLine(kind string, h hseg, fromServer bool, authKind string, authVal uint32) string {
	body := string(h.Body)
	if h.overUDP && h.wireLen() > udpReadBuf && h.PLen > 0 {
		body = string(bShort) // readOneSegment reads into a 1500-byte buffer: the rest of the datagram is cut off
	}
	ak, av := authKind, authVal
	if h.Garbage {
		ak, av, body = "n", 0, "ok"
	}
	return fmt.Sprintf("%s 0 %s 0 %s %d 1 %d %s %s %d %d %d %d %d %d %s", kind, b2s(fromServer), ak, av, h.Proto, b2s(h.TsOK), b2s(h.leOK()),
		h.Sid, h.Seq, h.UnAck, h.Window, h.Status, h.PLen, body)
}

func classKey(role, tr string, h hseg, sidClass string) string {
	f := "std"
	if h.Seq > 1<<30 || h.UnAck > 1<<30 || h.Window == 0xffff || h.Frag == 255 {
		f = "extreme"
	}
	if h.Garbage {
		return role + "/" + tr + "/garbage"
	}
	return fmt.Sprintf("%s/%s/p%d/%s/%s/%s/pl%v/ts%v", role, tr, h.Proto, sidClass, f, h.Body, h.PLen > 0, h.TsOK)
}

// ---------------------------------------------------------------- probes

// a probe is a short hostile history; sid classes are resolved by the scenario
type pseg struct {
	h        hseg
	sidClass string // zero | unknown | own | foreign | foreignspoof | closed
}

type probe struct {
	name    string
	openOwn bool // prelude: the attacker opens its own session (a valid openSessionRequest)
	segs    []pseg
}

var protoList = []uint8{0, 1, 2, 3, 4, 5, 6, 7, 8, 9, 10, 11, 12, 13, 127, 255}

func buildProbes(r *vh.Run, server bool, udp bool, all256 bool) []probe {
	var ps []probe
	sidClasses := []string{"zero", "unknown", "own"}
	if server {
		sidClasses = append(sidClasses, "foreign")
		if udp {
			sidClasses = append(sidClasses, "foreignspoof")
		}
	}
	protos := protoList
	if all256 {
		protos = nil
		for p := 0; p < 256; p++ {
			protos = append(protos, uint8(p))
		}
	}
	// 1. every protocol type x session id class, default fields, with and without an own session
	for _, sc := range sidClasses {
		for _, p := range protos {
			h := defSeg(p, 0)
			if isLEP(p) {
				h.LE = 1
			}
			ps = append(ps, probe{name: "type", openOwn: sc == "own" || (p%2 == 0 && sc != "own"), segs: []pseg{{h, sc}}})
		}
	}
	// 2. extreme and inconsistent fields on the types that reach a session
	for _, sc := range sidClasses {
		for _, p := range []uint8{2, 3, 4, 5, 6, 7, 8, 9, 10, 11} {
			h := defSeg(p, 0)
			h.Seq, h.UnAck, h.Window, h.Frag, h.Status = 0xffffffff, 0xffffffff, 0xffff, 255, 255
			if isLEP(p) {
				h.LE = 1
			}
			ps = append(ps, probe{name: "extreme", openOwn: true, segs: []pseg{{h, sc}}})
		}
	}
	// 3. bodies: payload present, truncated, over-long, bad tag, bad timestamp, invalid low entropy fields, payload too long for a session segment
	for _, p := range []uint8{2, 4, 6, 8, 10} {
		for _, b := range []bodyClass{bOK, bShort, bPad, bTag} {
			for _, pl := range []int{0, 40} {
				h := defSeg(p, 0)
				h.Body, h.PLen, h.Prefix, h.Suffix = b, pl, 3, 5
				if isLEP(p) {
					h.LE = 1
					if pl > 0 {
						continue // a valid low entropy body is exercised by the victim's own traffic in C17/C09
					}
				}
				ps = append(ps, probe{name: "body", openOwn: true, segs: []pseg{{h.normalise(), "own"}}})
			}
		}
		h := defSeg(p, 0)
		h.TsOK = false
		ps = append(ps, probe{name: "ts", openOwn: true, segs: []pseg{{h, "own"}}})
	}
	for _, p := range []uint8{10, 11} {
		h := defSeg(p, 0) // LE fields all zero: mode 0 is rejected
		ps = append(ps, probe{name: "le-invalid", openOwn: true, segs: []pseg{{h, "own"}}})
	}
	{
		h := defSeg(2, 0)
		h.PLen = 2000 // > MaxSessionOpenPayload
		ps = append(ps, probe{name: "session-payload-too-long", openOwn: true, segs: []pseg{{h, "unknown"}}})
	}
	// 4. orders
	d := func(p uint8, seq uint32) hseg { h := defSeg(p, 0); h.Seq = seq; return h }
	ps = append(ps,
		probe{name: "data-before-open", segs: []pseg{{d(6, 0), "unknown"}, {d(2, 0), "unknown"}}},
		probe{name: "open-twice", openOwn: true, segs: []pseg{{d(2, 0), "own"}, {d(2, 5), "own"}}},
		probe{name: "close-twice", openOwn: true, segs: []pseg{{d(4, 1), "own"}, {d(4, 2), "closed"}}},
		probe{name: "closeresp-for-nothing", segs: []pseg{{d(5, 0), "unknown"}}},
		probe{name: "ack-for-nothing", openOwn: true, segs: []pseg{{d(8, 77), "own"}, {d(9, 77), "unknown"}}},
		probe{name: "data-after-close", openOwn: true, segs: []pseg{{d(4, 1), "own"}, {d(6, 2), "closed"}}},
		probe{name: "garbage", openOwn: true, segs: []pseg{{hseg{Garbage: true, Body: bOK}, "zero"}}},
	)
	// 6. boundary and out-of-range length fields in AUTHENTIC segments (metadata sealed with the valid key), followed
	// by a matching body (correctly sealed box of exactly that length) and by a short one
	fld := func(p uint8, pl, prefix, suffix int, b bodyClass) {
		h := defSeg(p, 0)
		h.PLen, h.Prefix, h.Suffix, h.Body = pl, prefix, suffix, b
		ps = append(ps, probe{name: "fields", openOwn: true, segs: []pseg{{h.normalise(), "own"}}})
	}
	for _, b := range []bodyClass{bOK, bShort} {
		for _, p := range []uint8{2, 3, 4, 5} {
			for _, pl := range []int{0, 1, 1023, 1024, 1025, 65535} {
				fld(p, pl, 0, 0, b)
			}
		}
		for _, p := range []uint8{6, 7, 8, 9} {
			for _, pl := range []int{0, 1, 32767, 32768, 32769, 65535} {
				fld(p, pl, 0, 0, b)
			}
		}
	}
	for _, p := range []uint8{10, 11} { // low entropy types with a payload length and no valid low entropy fields
		for _, pl := range []int{1, 32769, 65535} {
			fld(p, pl, 0, 0, bOK)
		}
	}
	for _, p := range []uint8{6, 7, 8, 9} {
		for _, pre := range []int{0, 255} {
			for _, suf := range []int{0, 255} {
				fld(p, 1, pre, suf, bOK)
			}
		}
	}
	// 5. generated: random fields (thorough: many)
	n := 20
	if r.Thorough() {
		n = 300
	}
	for i := 0; i < n; i++ {
		g := r.Rng.Fork()
		var segs []pseg
		for k := 0; k < 1+g.Intn(3); k++ {
			h := defSeg(uint8(g.Intn(14)), 0)
			if g.Intn(8) == 0 {
				h.Proto = uint8(g.Intn(256))
			}
			h.Seq, h.UnAck = uint32(g.U64()), uint32(g.U64())
			if g.Bool() {
				h.Seq, h.UnAck = uint32(g.Intn(4)), uint32(g.Intn(4))
			}
			h.Window, h.Frag, h.Status = uint16(g.U64()), uint8(g.U64()), uint8(g.Intn(3))
			h.Body = []bodyClass{bOK, bOK, bOK, bShort, bPad, bTag}[g.Intn(6)]
			h.PLen = []int{0, 0, 1, 100, 1024, 1200}[g.Intn(6)]
			h.Prefix, h.Suffix = g.Intn(20), g.Intn(20)
			h.TsOK = g.Intn(10) != 0
			if isLEP(h.Proto) {
				h.LE = g.Intn(2)
				if h.PLen > 0 {
					h.PLen = 0
				}
			}
			sc := sidClasses[g.Intn(len(sidClasses))]
			segs = append(segs, pseg{h.normalise(), sc})
		}
		ps = append(ps, probe{name: "gen", openOwn: g.Intn(3) != 0, segs: segs})
	}
	return ps
}

// ---------------------------------------------------------------- observation helpers

// snapshot: "<session id>@<remote address>" -> state (session ids are per underlay on TCP)
func snapshot(m *protocol.Mux) map[string]string {
	out := map[string]string{}
	for _, it := range m.ExportSessionInfoList().GetItems() {
		out[it.GetId()+"@"+it.GetRemoteAddr()] = it.GetState()
	}
	return out
}

func skey(id uint32, remote string) string { return fmt.Sprintf("%d@%s", id, remote) }

func openIn(s map[string]string, key string) bool {
	st, ok := s[key]
	return ok && st != "CLOSED"
}

func classify(before, after map[string]string, target string, ulClosed, reply bool) string {
	if ulClosed {
		return "ulclosed"
	}
	for id := range after {
		if _, ok := before[id]; !ok {
			return "opened"
		}
	}
	if openIn(before, target) && !openIn(after, target) {
		return "sessclosed"
	}
	if reply {
		return "reply"
	}
	return "live"
}

const settle = 120 * time.Millisecond

// ---------------------------------------------------------------- victim (alice) on a real server

type victim struct {
	conn net.Conn
	sid  uint32
	key  string
	n    int
}

func (v *victim) roundTrip(rng *vh.Rng) error {
	v.n++
	msg := rng.Bytes(200 + rng.Intn(1500))
	v.conn.SetDeadline(time.Now().Add(20 * time.Second))
	if _, err := v.conn.Write(msg); err != nil {
		return fmt.Errorf("write %d: %v", v.n, err)
	}
	got := make([]byte, len(msg))
	if _, err := io.ReadFull(v.conn, got); err != nil {
		return fmt.Errorf("read echo %d: %v", v.n, err)
	}
	if !bytes.Equal(got, msg) {
		return fmt.Errorf("echo %d differs", v.n)
	}
	return nil
}

func startServerWithVictim(tr string, rng *vh.Rng) (*rig.Rig, *victim, error) {
	rg, err := rig.Start(rig.Opts{Transport: tr, Users: map[string]string{"alice": alicePass, "bob": bobPass}, ClientUser: "alice", ClientPass: alicePass})
	if err != nil {
		return nil, nil, err
	}
	go func() {
		for c := range rg.Accepted {
			go func(c net.Conn) { io.Copy(c, c) }(c)
		}
	}()
	c, err := rg.Dial()
	if err != nil {
		return nil, nil, fmt.Errorf("alice dial: %v", err)
	}
	v := &victim{conn: c}
	if err := v.roundTrip(rng); err != nil {
		return nil, nil, fmt.Errorf("alice first echo: %v", err)
	}
	for _, it := range rg.Server.ExportSessionInfoList().GetItems() {
		id, _ := strconv.ParseUint(it.GetId(), 10, 32)
		v.sid, v.key = uint32(id), it.GetId()+"@"+it.GetRemoteAddr()
	}
	return rg, v, nil
}

// debugProbe: diagnosis aid. C10_DEBUG_PROBES=<transport>:<i>,<i>,... turns mieru's trace log on (file
// <out>/debug.log) for these probe indices of the server scenario and off for all others.
func debugProbe(r *vh.Run, pi int, tr string) {
	spec := os.Getenv("C10_DEBUG_PROBES")
	if spec == "" || !strings.HasPrefix(spec, tr+":") {
		return
	}
	on := false
	for _, f := range strings.Split(strings.TrimPrefix(spec, tr+":"), ",") {
		if f == strconv.Itoa(pi) {
			on = true
		}
	}
	if on {
		if debugFile == nil {
			debugFile, _ = os.Create(filepath.Join(r.Out, "debug.log"))
		}
		fmt.Fprintf(debugFile, "==== probe %d virtual time %v\n", pi, time.Now().UTC().Format(time.RFC3339Nano))
		mlog.SetOutput(debugFile)
		mlog.SetLevel("TRACE")
	} else if debugFile != nil {
		mlog.SetOutput(io.Discard)
		mlog.SetLevel("FATAL")
	}
}

var debugFile *os.File

// ---------------------------------------------------------------- scenario: hostile client against a real server

func childServer(r *vh.Run, o *childOut, tr string, witnessOnly bool) {
	udp := tr == "udp"
	rng := r.Rng.Fork()
	rg, v, err := startServerWithVictim(tr, rng)
	if err != nil {
		o.put(rec{T: "fail", Sig: "setup-" + tr, What: err.Error()})
		return
	}
	t := "t"
	if udp {
		t = "u"
	}
	// alice's real source address (for spoofing) and the remote address string session infos carry
	var aliceAddr, infoRemote string
	for _, it := range rg.Server.ExportSessionInfoList().GetItems() {
		infoRemote = it.GetRemoteAddr()
	}
	for _, ev := range rg.Net.Log.Snapshot() {
		if (ev.Kind == "udp-send" || ev.Kind == "tcp-dial") && ev.Dst == serverAP {
			aliceAddr = ev.Src
			break
		}
	}
	victimCheck := func(where string, c interface{}) {
		if err := v.roundTrip(rng); err != nil {
			o.put(rec{T: "fail", Sig: "victim-transfer-broken", What: "alice's echo transfer failed " + where + ": " + err.Error(), Case: c})
		}
		if !openIn(snapshot(rg.Server), v.key) {
			o.put(rec{T: "fail", Sig: "victim-session-closed", What: "alice's session is no longer open " + where, Case: c})
		}
	}
	probes := buildProbes(r, true, udp, r.Thorough())
	if witnessOnly {
		d4, d6 := defSeg(4, 0), defSeg(6, 0)
		d6.PLen = 10
		d7 := defSeg(7, 0)
		probes = []probe{
			{name: "witness-close-foreign", segs: []pseg{{d4, "foreign"}}},
			{name: "witness-data-foreign", segs: []pseg{{d6, "foreign"}}},
			{name: "witness-close-foreign-spoofed-addr", segs: []pseg{{d4, "foreignspoof"}}},
			{name: "witness-wrongdir-foreign-via-own-session", openOwn: true, segs: []pseg{{d7, "foreign"}}},
		}
		if !udp {
			probes = probes[:2]
		}
	}
	nextSid := uint32(1000)
	for pi, p := range probes {
		debugProbe(r, pi, tr)
		if os.Getenv("C10_DEBUG_TIMING") != "" {
			var tv syscall.Timeval
			syscall.Gettimeofday(&tv)
			o.put(rec{T: "note", K: p.name, C: fmt.Sprintf("probe %d real_ms %d virtual %s sessions %d", pi, tv.Sec*1000+tv.Usec/1000, time.Now().UTC().Format("15:04:05.000"), len(snapshot(rg.Server)))})
		}
		bob := mkCred("bob", bobPass, 2) // keys rotate every 2 minutes of (virtual) time
		nextSid += 10
		own, unknown := nextSid, nextSid+1
		ip := fmt.Sprintf("10.1.%d.%d", (pi/250)%250, pi%250+1)
		// per probe: a fresh source address (UDP) / a fresh connection (TCP) and fresh session ids
		var sock *simnet.PacketConn
		var conn *simnet.Conn
		var enc *tcpEnc
		var mu sync.Mutex
		replies := map[uint32]bool{}
		ulClosed := false
		if udp {
			sock, err = rg.Net.NewClientSock(ip)
			if err != nil {
				o.put(rec{T: "fail", Sig: "setup-sock", What: err.Error()})
				return
			}
			go func(sock *simnet.PacketConn) {
				buf := make([]byte, 2000)
				for {
					n, _, err := sock.ReadFrom(buf)
					if err != nil {
						return
					}
					if seg, _, err := refcodec.DecodeDatagram([][]byte{bob.key}, buf[:n]); err == nil && seg.Meta.Proto == refcodec.CloseSessionRequest {
						mu.Lock()
						replies[seg.Meta.SessionID] = true
						mu.Unlock()
					}
				}
			}(sock)
		} else {
			conn, err = rg.Net.DialFrom(ip, serverAP)
			if err != nil {
				o.put(rec{T: "fail", Sig: "setup-dial", What: err.Error()})
				return
			}
			enc = &tcpEnc{c: bob, nonce: newNonce(rng, "bob")}
			go func(conn *simnet.Conn) {
				dec := refcodec.NewStreamDecoder([][]byte{bob.key})
				buf := make([]byte, 4096)
				for {
					n, err := conn.Read(buf)
					if n > 0 {
						segs, _ := dec.Feed(buf[:n])
						for _, s := range segs {
							if s.Meta.Proto == refcodec.CloseSessionRequest {
								mu.Lock()
								replies[s.Meta.SessionID] = true
								mu.Unlock()
							}
						}
					}
					if err != nil {
						mu.Lock()
						ulClosed = true
						mu.Unlock()
						return
					}
				}
			}(conn)
		}
		srcAddr := ""
		if udp {
			srcAddr = infoRemote // a server packet underlay reports the same (nil) remote address for all its sessions
		} else {
			srcAddr = conn.LocalAddr().String()
		}
		send := func(h hseg, spoof bool) {
			if udp {
				d := h.datagram(rng, bob)
				if spoof {
					host, port, _ := net.SplitHostPort(aliceAddr)
					pn, _ := strconv.Atoi(port)
					rg.Net.SendRaw(simnet.Addr{Net: "udp", IP: host, Prt: pn}, serverAP, d)
				} else {
					sock.WriteTo(d, &net.UDPAddr{IP: net.ParseIP("192.0.2.1"), Port: 8964})
				}
			} else {
				conn.Write(enc.encode(rng, h))
				if h.Body == bShort {
					conn.Close() // on a stream "fewer bytes than the fields say" becomes an input when the stream ends there
				}
			}
		}
		// model state line: UDP: the whole server (alice's session present); TCP: a fresh underlay
		if udp {
			o.put(rec{T: "case", C: fmt.Sprintf("I s u 0 1 %d 1 1 1", v.sid), I: "-"})
		} else {
			o.put(rec{T: "case", C: "I s t 0 0", I: "-"})
		}
		ownOpen, dead := false, false
		doSeg := func(h hseg, sidClass string, kind string) {
			if dead {
				return
			}
			spoof := false
			switch sidClass {
			case "zero":
				h.Sid = 0
			case "unknown":
				h.Sid = unknown
			case "own", "closed":
				h.Sid = own
			case "foreign":
				h.Sid = v.sid
			case "foreignspoof":
				h.Sid, spoof = v.sid, true
			}
			ak, av := "u", uint32(2)
			if udp && ownOpen && !spoof {
				ak, av = "e", own
			}
			if sidClass == "closed" {
				kind = "X" // whether a closed session is still in the session map is a race with cleanSessions
			}
			ck := kind
			if ck == "P" {
				ck = "W"
			}
			cl := caseLine(ck, h, false, ak, av)
			o.put(rec{T: "pending", C: cl, K: p.name})
			mu.Lock()
			delete(replies, h.Sid)
			mu.Unlock()
			src := srcAddr
			before := snapshot(rg.Server)
			logMark := 0
			if spoof {
				logMark = len(rg.Net.Log.Snapshot())
			}
			send(h, spoof)
			wait := settle
			if !udp && (h.Garbage || h.Body == bTag) {
				wait = 65 * time.Second // drainAfterError keeps reading for up to 60 s before the connection is closed
			}
			if udp {
				// Synchronise with the server's event loop: one goroutine reads the server socket in FIFO order,
				// so once alice's echo (sent after the hostile datagram) has come back, the hostile datagram has
				// been dispatched. Needed because the loop can stall for about 1 s (cleanSessions -> RemoveSession of
				// an idle session: the session is deleted from sessionMap first, its graceful close can then never
				// transmit the close request and polls the full 1000 ms on the event loop goroutine).
				time.Sleep(5 * time.Millisecond)
				if err := v.roundTrip(rng); err != nil {
					o.put(rec{T: "fail", Sig: "victim-transfer-broken", What: "alice's echo transfer failed right after a hostile segment: " + err.Error(),
						Case: map[string]interface{}{"transport": tr, "probe": p.name, "case": cl}})
				}
			}
			time.Sleep(wait)
			after := snapshot(rg.Server)
			if !udp && len(after) == len(before) {
				// nothing visible yet: give the accept loop / session goroutine more (virtual) time once
				time.Sleep(500 * time.Millisecond)
				after = snapshot(rg.Server)
			}
			if spoof {
				// the answer to a spoofed datagram goes to the spoofed address: look for it in the network log
				for _, ev := range rg.Net.Log.Snapshot()[logMark:] {
					if ev.Kind == "udp-send" && ev.Src == serverAP && ev.Dst == aliceAddr {
						if seg, _, err := refcodec.DecodeDatagram([][]byte{bob.key}, ev.Data); err == nil && seg.Meta.Proto == refcodec.CloseSessionRequest {
							mu.Lock()
							replies[seg.Meta.SessionID] = true
							mu.Unlock()
						}
					}
				}
			}
			mu.Lock()
			obs := classify(before, after, skey(h.Sid, src), ulClosed, replies[h.Sid])
			mu.Unlock()
			validOpen := h.Proto == 2 && !h.Garbage && h.TsOK && h.Body == bOK && h.Sid != 0 && h.PLen <= 1024 &&
				(sidClass == "unknown" || (sidClass == "own" && !ownOpen))
			if udp && (kind == "P" || validOpen) && obs == "live" {
				// the attacker's own valid open request was lost (seen about twice per 1000 probes, when the
				// 2-minute key slot changes between probes): do what a real client does, send it again
				bob = mkCred("bob", bobPass, 2)
				send(h, spoof)
				time.Sleep(5 * time.Millisecond)
				v.roundTrip(rng)
				time.Sleep(wait)
				after = snapshot(rg.Server)
				obs = classify(before, after, skey(h.Sid, src), ulClosed, false)
			}
			if !udp && obs != "ulclosed" {
				// a TCP underlay that went away takes its sessions with it
				if _, ok := after[skey(own, srcAddr)]; ownOpen && !ok {
					obs = "ulclosed"
				}
			}
			if obs == "opened" && h.Sid == own {
				ownOpen = true
			}
			if obs == "sessclosed" && h.Sid == own {
				ownOpen = false
			}
			if obs == "ulclosed" {
				dead = true
			}
			t2 := "case"
			if kind == "X" {
				t2 = "racy"
			}
			o.put(rec{T: t2, C: cl, I: obs})
			o.put(rec{T: "count", K: "server/" + tr + "/" + obs})
			o.put(rec{T: "distinct", K: classKey("server", tr, h, sidClass)})
			// oracle: nothing a user does may touch another user's session
			if sidClass == "foreign" || sidClass == "foreignspoof" {
				if !openIn(after, v.key) {
					o.put(rec{T: "fail", Sig: "cross-user-session-closed", What: "a segment authenticated by bob closed alice's session", Case: map[string]interface{}{"transport": tr, "probe": p.name, "case": cl}})
				}
			}
		}
		if p.openOwn {
			doSeg(defSeg(2, 0), "own", "P")
		}
		for _, s := range p.segs {
			if !udp && s.h.Body == bPad {
				// on a stream extra bytes are not part of this segment: they are the beginning of the next one
				continue
			}
			hh := s.h
			hh.overUDP = udp
			doSeg(hh, s.sidClass, "W")
		}
		victimCheck("after probe "+p.name, map[string]interface{}{"transport": tr, "probe": p.name, "segs": fmt.Sprint(p.segs)})
		// cleanup so that idle sessions do not accumulate
		if udp {
			// close whatever this probe opened (own and "unknown" ids): a session left behind idles out after 60 s
			// and its removal stalls the server's event loop for a second (see above)
			send(defSeg(4, own), false)
			send(defSeg(4, unknown), false)
			time.Sleep(20 * time.Millisecond)
			sock.Close()
		} else {
			conn.Close()
		}
	}
	_ = t
	victimCheck("at the end", tr)
	v.conn.Close()
	rg.Close()
}

// ---------------------------------------------------------------- scenario: hostile server against a real client

func childClient(r *vh.Run, o *childOut, tr string) {
	udp := tr == "udp"
	rng := r.Rng.Fork()
	probes := buildProbes(r, false, udp, false)
	for pi, p := range probes {
		alice := mkCred("alice", alicePass, 1) // keys rotate every 2 minutes of (virtual) time
		n := simnet.New()
		rg := &rig.Rig{Opts: rig.Opts{Transport: tr, MTU: 1400, ServerMTU: 1400, ServerIP: "192.0.2.1", ServerPort: 8964,
			Users: map[string]string{"alice": alicePass}, ClientUser: "alice", ClientPass: alicePass}, Net: n}
		cm, err := rg.NewClient("alice", alicePass, nil, "")
		if err != nil {
			o.put(rec{T: "fail", Sig: "setup-client", What: err.Error()})
			return
		}
		var mu sync.Mutex
		replies := map[uint32]bool{}
		ulClosed := false
		var clientSid uint32
		gotFirst := make(chan struct{})
		var once sync.Once
		var lsock *simnet.PacketConn
		var clientAddr net.Addr
		var sconn net.Conn
		var enc *tcpEnc
		var tcpListener net.Listener
		note := func(m refcodec.Meta) {
			mu.Lock()
			if m.Proto == refcodec.OpenSessionRequest && clientSid == 0 {
				clientSid = m.SessionID
			}
			if m.Proto == refcodec.CloseSessionRequest {
				replies[m.SessionID] = true
			}
			mu.Unlock()
			once.Do(func() { close(gotFirst) })
		}
		if udp {
			lsock, err = n.ListenPacketAt(serverAP)
			if err != nil {
				o.put(rec{T: "fail", Sig: "setup-listen", What: err.Error()})
				return
			}
			go func() {
				buf := make([]byte, 2000)
				for {
					k, a, err := lsock.ReadFrom(buf)
					if err != nil {
						return
					}
					mu.Lock()
					clientAddr = a
					mu.Unlock()
					if seg, _, err := refcodec.DecodeDatagram([][]byte{alice.key}, buf[:k]); err == nil {
						note(seg.Meta)
					}
				}
			}()
		} else {
			l, err := n.Listen(context.Background(), "tcp", serverAP)
			if err != nil {
				o.put(rec{T: "fail", Sig: "setup-listen", What: err.Error()})
				return
			}
			acc := make(chan net.Conn, 1)
			go func() {
				c, err := l.Accept()
				if err == nil {
					acc <- c
				}
			}()
			tcpListener = l
			go func() {
				c := <-acc
				mu.Lock()
				sconn = c
				mu.Unlock()
				dec := refcodec.NewStreamDecoder([][]byte{alice.key})
				buf := make([]byte, 4096)
				for {
					k, err := c.Read(buf)
					if k > 0 {
						segs, _ := dec.Feed(buf[:k])
						for _, s := range segs {
							note(s.Meta)
						}
					}
					if err != nil {
						mu.Lock()
						ulClosed = true
						mu.Unlock()
						return
					}
				}
			}()
			enc = &tcpEnc{c: alice, nonce: newNonce(rng, "alice")}
		}
		ctx, cancel := context.WithTimeout(context.Background(), 10*time.Second)
		c, err := cm.DialContext(ctx)
		cancel()
		if err != nil {
			o.put(rec{T: "fail", Sig: "setup-client-dial", What: err.Error()})
			return
		}
		go func() { c.Write([]byte("hello from the client")) }()
		select {
		case <-gotFirst:
		case <-time.After(5 * time.Second):
			o.put(rec{T: "fail", Sig: "setup-client-first", What: fmt.Sprintf("the client did not send its open request (probe %d %s)", pi, p.name)})
			c.Close()
			cm.Close()
			continue
		}
		time.Sleep(10 * time.Millisecond)
		mu.Lock()
		own := clientSid
		mu.Unlock()
		t := "t"
		if udp {
			t = "u"
		}
		o.put(rec{T: "case", C: fmt.Sprintf("I c %s 1 1 %d 1 0 0", t, own), I: "-"})
		dead := false
		for _, s := range p.segs {
			if dead || (!udp && s.h.Body == bPad) {
				continue
			}
			h := s.h
			h.overUDP = udp
			switch s.sidClass {
			case "zero":
				h.Sid = 0
			case "unknown":
				h.Sid = own + 7
			default:
				h.Sid = own
			}
			kind := "W"
			if s.sidClass == "closed" {
				kind = "X"
			}
			cl := caseLine(kind, h, true, "u", 1)
			o.put(rec{T: "pending", C: cl, K: p.name})
			mu.Lock()
			delete(replies, h.Sid)
			mu.Unlock()
			before := snapshot(cm)
			if udp {
				mu.Lock()
				a := clientAddr
				mu.Unlock()
				lsock.WriteTo(h.datagram(rng, alice), a)
			} else {
				mu.Lock()
				sc := sconn
				mu.Unlock()
				sc.Write(enc.encode(rng, h))
				if h.Body == bShort {
					sc.Close()
				}
			}
			wait := settle
			if !udp && (h.Garbage || h.Body == bTag) {
				wait = 65 * time.Second
			}
			time.Sleep(wait)
			after := snapshot(cm)
			mu.Lock()
			obs := classify(before, after, skey(h.Sid, serverAP), ulClosed, replies[h.Sid])
			mu.Unlock()
			if !udp && obs != "ulclosed" && len(after) == 0 && len(before) > 0 {
				obs = "ulclosed"
			}
			if obs == "ulclosed" {
				dead = true
			}
			t2 := "case"
			if kind == "X" {
				t2 = "racy"
			}
			o.put(rec{T: t2, C: cl, I: obs})
			o.put(rec{T: "count", K: "client/" + tr + "/" + obs})
			o.put(rec{T: "distinct", K: classKey("client", tr, h, s.sidClass)})
		}
		c.Close()
		cm.Close()
		if udp {
			lsock.Close()
		} else {
			mu.Lock()
			if sconn != nil {
				sconn.Close()
			}
			mu.Unlock()
			tcpListener.Close()
		}
	}
}


// ---------------------------------------------------------------- scenario: back-to-back bursts (UDP server)
// Per burst 16 pairs (open request of user alice with a fresh id from a fresh address, IMMEDIATELY followed by
// a segment of user bob carrying that id from another address) are queued in the server socket before the
// server's event loop runs: the second datagram of a pair is dispatched while the session created by the first
// has not processed anything yet (half of the bursts with GOMAXPROCS(1), where that order is certain).
func childBurst(r *vh.Run, o *childOut) {
	rng := r.Rng.Fork()
	rg, v, err := startServerWithVictim("udp", rng)
	if err != nil {
		o.put(rec{T: "fail", Sig: "setup-burst", What: err.Error()})
		return
	}
	var infoRemote string
	for _, it := range rg.Server.ExportSessionInfoList().GetItems() {
		infoRemote = it.GetRemoteAddr()
	}
	srv := &net.UDPAddr{IP: net.ParseIP("192.0.2.1"), Port: 8964}
	bursts := 8
	if r.Thorough() {
		bursts = 60
	}
	bobTypes := []uint8{4, 6, 4, 8, 5, 7, 4, 6, 10, 4, 6, 4, 9, 4, 6, 4}
	sid := uint32(500000)
	for b := 0; b < bursts; b++ {
		if b%2 == 0 {
			runtime.GOMAXPROCS(1)
		} else {
			runtime.GOMAXPROCS(2)
		}
		alice, bob := mkCred("alice", alicePass, 1), mkCred("bob", bobPass, 2)
		type pair struct {
			sid      uint32
			h2       hseg
			sa, sb   *simnet.PacketConn
			d1, d2   []byte
			cl1, cl2 string
		}
		var mu sync.Mutex
		replies := map[uint32]bool{}
		var ps []pair
		for i := 0; i < 16; i++ {
			sid += 3
			var q pair
			q.sid = sid
			q.sa, _ = rg.Net.NewClientSock(fmt.Sprintf("10.2.%d.%d", b%250, 2*i+1))
			q.sb, _ = rg.Net.NewClientSock(fmt.Sprintf("10.3.%d.%d", b%250, 2*i+2))
			go func(sock *simnet.PacketConn, key []byte) {
				buf := make([]byte, 2000)
				for {
					n, _, err := sock.ReadFrom(buf)
					if err != nil {
						return
					}
					if seg, _, err := refcodec.DecodeDatagram([][]byte{key}, buf[:n]); err == nil && seg.Meta.Proto == refcodec.CloseSessionRequest {
						mu.Lock()
						replies[seg.Meta.SessionID] = true
						mu.Unlock()
					}
				}
			}(q.sb, bob.key)
			h1 := defSeg(2, sid)
			q.h2 = defSeg(bobTypes[(i+b)%len(bobTypes)], sid)
			if q.h2.Proto == 6 {
				q.h2.PLen = 10
			}
			if isLEP(q.h2.Proto) {
				q.h2.LE = 1
			}
			q.d1, q.d2 = h1.datagram(rng, alice), q.h2.datagram(rng, bob)
			q.cl1, q.cl2 = caseLine("W", h1, false, "u", 1), caseLine("W", q.h2, false, "u", 2)
			ps = append(ps, q)
		}
		o.put(rec{T: "case", C: fmt.Sprintf("I s u 0 1 %d 1 1 1", v.sid), I: "-"})
		o.put(rec{T: "case", C: ps[0].cl1, I: "opened"}) // replayed below for the model state; the first pair's open precedes the pending line
		o.put(rec{T: "pending", C: ps[0].cl2, K: fmt.Sprintf("burst-%d-gomaxprocs-%d", b, 1+b%2)})
		before := snapshot(rg.Server)
		// back to back: nothing below blocks or sleeps until all 32 datagrams are in the server's socket queue
		for i := range ps {
			ps[i].sa.WriteTo(ps[i].d1, srv)
			ps[i].sb.WriteTo(ps[i].d2, srv)
		}
		time.Sleep(5 * time.Millisecond)
		if err := v.roundTrip(rng); err != nil {
			o.put(rec{T: "fail", Sig: "victim-transfer-broken", What: "alice's echo transfer failed after a burst: " + err.Error(), Case: fmt.Sprintf("burst %d", b)})
		}
		time.Sleep(settle)
		after := snapshot(rg.Server)
		o.put(rec{T: "case", C: fmt.Sprintf("I s u 0 1 %d 1 1 1", v.sid), I: "-"})
		for _, q := range ps {
			k := skey(q.sid, infoRemote)
			obs1 := "live"
			if _, was := before[k]; !was {
				if _, is := after[k]; is {
					obs1 = "opened"
				}
			}
			obs2 := "live"
			mu.Lock()
			if replies[q.sid] {
				obs2 = "reply"
			}
			mu.Unlock()
			if obs1 == "opened" && !openIn(after, k) {
				obs2 = "sessclosed"
				o.put(rec{T: "fail", Sig: "cross-user-session-closed", What: "a segment of bob queued right behind alice's open request closed the new session", Case: q.cl2})
			}
			o.put(rec{T: "case", C: q.cl1, I: obs1})
			o.put(rec{T: "case", C: q.cl2, I: obs2})
			o.put(rec{T: "count", K: "burst/udp/" + obs2})
			o.put(rec{T: "distinct", K: fmt.Sprintf("burst/p%d/gomaxprocs%d", q.h2.Proto, 1+b%2)})
		}
		if !openIn(after, v.key) {
			o.put(rec{T: "fail", Sig: "victim-session-closed", What: "alice's session is no longer open after a burst", Case: fmt.Sprintf("burst %d", b)})
		}
		for _, q := range ps {
			q.sa.WriteTo(defSeg(4, q.sid).datagram(rng, alice), srv)
		}
		time.Sleep(20 * time.Millisecond)
		for _, q := range ps {
			q.sa.Close()
			q.sb.Close()
		}
	}
	runtime.GOMAXPROCS(2)
	v.conn.Close()
	rg.Close()
}

// ---------------------------------------------------------------- scenario: the real SOCKS5 server request path
type userConn struct {
	net.Conn
	user string
}

func (c userConn) UserName() string { return c.user }

type memListener struct {
	ch     chan net.Conn
	closed chan struct{}
}

func (l *memListener) Accept() (net.Conn, error) {
	select {
	case c := <-l.ch:
		return c, nil
	case <-l.closed:
		return nil, net.ErrClosed
	}
}
func (l *memListener) Close() error   { return nil }
func (l *memListener) Addr() net.Addr { return &net.TCPAddr{IP: net.IPv4(127, 0, 0, 1), Port: 1080} }

func newSocksServer() *socks5.Server {
	srv, err := socks5.New(&socks5.Config{
		Users:            map[string]*appctlpb.User{"alice": {Name: proto.String("alice"), Password: proto.String("x")}},
		Resolver:         apicommon.NilDNSResolver{},
		HandshakeTimeout: 2 * time.Second,
	})
	if err != nil {
		panic(err)
	}
	return srv
}

// destinations that never make the server wait on the real network: public addresses are unreachable at once in
// the sandbox, private and loopback ones are decided by the egress rules, names go to a resolver that fails
func socksDests() [][]byte {
	var out [][]byte
	v4 := [][]byte{{1, 2, 3, 4}, {8, 8, 8, 8}, {127, 0, 0, 1}, {127, 255, 255, 254}, {10, 0, 0, 1}, {192, 168, 1, 1}, {172, 16, 0, 1}, {0, 0, 0, 0}, {255, 255, 255, 255}, {203, 0, 113, 9}}
	for _, a := range v4 {
		out = append(out, append(append([]byte{1}, a...), 0, 80))
	}
	v6 := []string{"::1", "::", "2001:db8::1", "::ffff:127.0.0.1", "::ffff:1.2.3.4", "fc00::1", "ff02::1"}
	for _, a := range v6 {
		out = append(out, append(append([]byte{4}, net.ParseIP(a).To16()...), 1, 187))
	}
	names := []string{"", ".", "a", "localhost", "LOCALHOST", "localhost.", "ip6-localhost", "example.com", "example.com.", "..", "\x00", strings.Repeat("a", 255), strings.Repeat(".", 255), strings.Repeat("a", 254) + "."}
	for _, n := range names {
		out = append(out, append(append([]byte{3, byte(len(n))}, n...), 0, 53))
	}
	for _, t := range []byte{0, 2, 5, 6, 127, 255} {
		out = append(out, append([]byte{t}, 1, 2, 3, 4, 5, 6, 7))
	}
	return out
}

func socksRequests(r *vh.Run) [][]byte {
	var reqs [][]byte
	cmds := []byte{1, 2, 3, 0, 4, 255}
	for _, d := range socksDests() {
		for _, c := range cmds {
			if c != 1 && c != 3 && len(d) > 40 {
				continue
			}
			reqs = append(reqs, append([]byte{5, c, 0}, d...))
		}
	}
	// truncations, wrong version, non-zero reserved byte
	base := [][]byte{{5, 1, 0, 1, 1, 2, 3, 4, 0, 80}, {5, 1, 0, 3, 0, 0, 80}, {5, 3, 0, 3, 9, 'l', 'o', 'c', 'a', 'l', 'h', 'o', 's', 't', 0, 80}, {5, 1, 0, 4, 0, 0, 0, 0, 0, 0, 0, 0, 0, 0, 0, 0, 0, 0, 0, 1, 0, 80}}
	for _, b := range base {
		for k := 0; k < len(b); k++ {
			reqs = append(reqs, append([]byte(nil), b[:k]...))
		}
		reqs = append(reqs, append([]byte{4}, b[1:]...), append([]byte{5, b[1], 9}, b[3:]...))
	}
	n := 30
	if r.Thorough() {
		n = 600
	}
	ds := socksDests()
	for i := 0; i < n; i++ {
		g := r.Rng.Fork()
		d := append([]byte(nil), ds[g.Intn(len(ds))]...)
		q := append([]byte{5, byte(g.Intn(5)), byte(g.Intn(8) / 7)}, d...)
		if g.Intn(5) == 0 {
			q = q[:g.Intn(len(q)+1)]
		}
		reqs = append(reqs, q)
	}
	return reqs
}

func frame(data []byte) []byte {
	out := []byte{0, byte(len(data) >> 8), byte(len(data))}
	out = append(out, data...)
	return append(out, 0xff)
}

func childSocks(r *vh.Run, o *childOut) {
	srv := newSocksServer()
	l := &memListener{ch: make(chan net.Conn), closed: make(chan struct{})}
	go srv.Serve(l)
	// one exchange: greeting, request, optional UDP-associate frames; returns the reply code ("-" = none)
	exchange := func(req []byte, frames [][]byte) string {
		c, s := net.Pipe()
		l.ch <- userConn{s, "alice"}
		defer c.Close()
		c.SetDeadline(time.Now().Add(5 * time.Second))
		if _, err := c.Write([]byte{5, 1, 0}); err != nil {
			return "-"
		}
		m := make([]byte, 2)
		if _, err := io.ReadFull(c, m); err != nil {
			return "-"
		}
		done := make(chan struct{})
		go func() { c.Write(req); close(done) }()
		var resp []byte
		buf := make([]byte, 512)
		c.SetReadDeadline(time.Now().Add(3 * time.Second))
		for len(resp) < 10 {
			n, err := c.Read(buf)
			resp = append(resp, buf[:n]...)
			if err != nil {
				break
			}
		}
		code := "-"
		if len(resp) >= 2 && resp[0] == 5 {
			code = fmt.Sprint(resp[1])
		}
		if code == "0" && len(req) > 1 && req[1] == 3 {
			for _, f := range frames {
				c.SetWriteDeadline(time.Now().Add(time.Second))
				if _, err := c.Write(frame(f)); err != nil {
					break
				}
				time.Sleep(20 * time.Millisecond)
			}
		}
		c.Close()
		<-done
		return code
	}
	wellBehaved := func(where string) {
		if code := exchange([]byte{5, 1, 0, 1, 10, 0, 0, 1, 0, 80}, nil); code != "2" { // a private destination: answered "not allowed by ruleset" without touching the real network
			o.put(rec{T: "fail", Sig: "socks5-server-not-serving", What: "a well-behaved SOCKS5 client got reply " + code + " instead of 2 " + where})
		}
	}
	wellBehaved("at the start")
	for i, q := range socksRequests(r) {
		o.put(rec{T: "pending", C: "Q " + vh.Hex(q), K: "socks5-request"})
		code := exchange(q, nil)
		o.put(rec{T: "count", K: "socks5-serve/reply-" + code})
		o.put(rec{T: "distinct", K: fmt.Sprintf("socks5-serve/cmd%d/atyp%d/%s", at(q, 1), at(q, 3), code)})
		if i%40 == 39 {
			wellBehaved(fmt.Sprintf("after request %d", i))
		}
	}
	wellBehaved("after the requests")
	// UDP associations: headers of relayed datagrams go through the same egress decision (udpDatagramFilter)
	assoc := []byte{5, 3, 0, 1, 0, 0, 0, 0, 0, 0}
	for _, d := range socksDests() {
		hdr := append([]byte{0, 0, 0}, d...)
		for _, fr := range [][]byte{append(append([]byte(nil), hdr...), 'p', 'i', 'n', 'g'), hdr, hdr[:len(hdr)-1], append([]byte{0, 0, 1}, d...)} {
			o.put(rec{T: "pending", C: "D " + vh.Hex(fr), K: "socks5-udp-associate-datagram"})
			code := exchange(assoc, [][]byte{fr, fr})
			o.put(rec{T: "count", K: "socks5-serve/associate-" + code})
			o.put(rec{T: "distinct", K: fmt.Sprintf("socks5-udp/atyp%d/len%d", at(fr, 3), min(len(fr), 12))})
		}
	}
	wellBehaved("after the UDP associations")
}

func at(b []byte, i int) int {
	if i < len(b) {
		return int(b[i])
	}
	return -1
}

// ---------------------------------------------------------------- parent: run a scenario in a child

var panicSigs = []struct{ needle, sig string }{
	{"SIGQUIT", "child-hang"},
	{"is different from", "panic-session-user-differs"},
	{"cipher block user name is not set", "panic-session-user-empty"},
	{"user policy name", "panic-session-policy-differs"},
	{"unexpected error type UNKNOWN_ERROR", "panic-stream-errtype-unknown"},
	{"error type is NO_ERROR", "panic-stream-errtype-noerror"},
	{"segment tree", "panic-segment-tree"},
	{"Seq() failed", "panic-segment-seq"},
	{"block cipher is nil", "panic-packet-nil-cipher"},
	{"block is nil", "panic-packet-nil-cipher"},
	{"interface conversion", "panic-type-assertion"},
	{"canonicalHostName", "panic-socks5-egress-hostname"},
	{"index out of range", "panic-index-out-of-range"},
	{"slice bounds out of range", "panic-slice-bounds"},
	{"nil pointer dereference", "panic-nil-dereference"},
	{"all goroutines are asleep", "deadlock"},
}

func runChild(r *vh.Run, name string, limit time.Duration) {
	// A child that hangs is killed by coreutils timeout (REAL time: this process runs under faketime, its own
	// timers only advance when every goroutine is parked, so they cannot bound a child). SIGQUIT makes the Go
	// runtime print the goroutine dump. A hang is retried once: one that does not repeat is recorded as a note.
	for attempt := 0; attempt < 2; attempt++ {
		hung := runChildOnce(r, name, limit, attempt == 1)
		if !hung {
			return
		}
		if r.Rep.Notes == nil {
			r.Rep.Notes = map[string]string{}
		}
		r.Rep.Notes["hang-"+name] = fmt.Sprintf("child %s did not finish within %v of real time on attempt %d", name, limit, attempt+1)
	}
}

func runChildOnce(r *vh.Run, name string, limit time.Duration, final bool) (hung bool) {
	dir := filepath.Join(r.Out, "child_"+name)
	os.RemoveAll(dir)
	os.MkdirAll(dir, 0o755)
	cmd := exec.Command("timeout", "-s", "QUIT", "-k", "10", fmt.Sprint(int(limit.Seconds())),
		os.Args[0], "-child", name, "-seed", fmt.Sprint(r.Seed), "-tier", r.Tier, "-out", dir)
	var stderr bytes.Buffer
	cmd.Stderr = &stderr
	cmd.Stdout = &stderr
	err := cmd.Run()
	if strings.Contains(stderr.String(), "SIGQUIT") {
		os.WriteFile(filepath.Join(dir, "hang-goroutines.txt"), stderr.Bytes(), 0o644)
		if !final {
			return true
		}
	}
	done, pending, pendingProbe := false, "", ""
	if f, e := os.Open(filepath.Join(dir, "child.jsonl")); e == nil {
		sc := bufio.NewScanner(f)
		sc.Buffer(make([]byte, 1<<20), 1<<24)
		for sc.Scan() {
			var x rec
			if json.Unmarshal(sc.Bytes(), &x) != nil {
				continue
			}
			switch x.T {
			case "case":
				r.Case(x.C, x.I)
				pending = ""
			case "racy":
				r.Case(x.C, x.I)
				pending = ""
			case "count":
				r.Count(x.K)
			case "distinct":
				r.Distinct(x.K)
			case "fail":
				r.Fail(x.Sig, "["+name+"] "+x.What, x.Case)
			case "pending":
				pending, pendingProbe = x.C, x.K
			case "done":
				done = true
			}
		}
		f.Close()
	}
	if err != nil || !done {
		txt := stderr.String()
		sig := "child-exit"
		for _, ps := range panicSigs {
			if strings.Contains(txt, ps.needle) {
				sig = ps.sig
				break
			}
		}
		if i := strings.Index(txt, "panic:"); i >= 0 {
			txt = txt[i:]
		}
		if len(txt) > 600 {
			txt = txt[:600]
		}
		if pending != "" && (strings.HasPrefix(pending, "W ") || strings.HasPrefix(pending, "X ")) {
			r.Case(pending, "crash")
		}
		r.Count("child-crash/" + name)
		r.Fail(sig, fmt.Sprintf("the process hosting the endpoint died in scenario %s (probe %s) (%v)", name, pendingProbe, err),
			map[string]interface{}{"scenario": name, "probe": pendingProbe, "case": pending, "stderr": txt})
	}
	return false
}

func childMain(r *vh.Run, name string) {
	f, err := os.Create(filepath.Join(r.Out, "child.jsonl"))
	if err != nil {
		panic(err)
	}
	o := &childOut{f: f}
	switch name {
	case "witness-udp":
		childServer(r, o, "udp", true)
	case "witness-tcp":
		childServer(r, o, "tcp", true)
	case "server-udp":
		childServer(r, o, "udp", false)
	case "server-tcp":
		childServer(r, o, "tcp", false)
	case "client-udp":
		childClient(r, o, "udp")
	case "client-tcp":
		childClient(r, o, "tcp")
	case "burst-udp":
		childBurst(r, o)
	case "socks5-serve":
		childSocks(r, o)
	default:
		o.put(rec{T: "fail", Sig: "unknown-scenario", What: name})
	}
	o.put(rec{T: "done"})
	f.Close()
}

// ---------------------------------------------------------------- pure cases (in process)

type goErr struct{ shape string }

func buildErr(shape string) error {
	// shape: sequence of letters from the outside in: T<n> typed with code n, W wrap with %w, P plain
	var e error
	for i := len(shape) - 1; i >= 0; i-- {
		switch shape[i] {
		case 'P':
			e = errors.New("plain")
		case 'W':
			e = fmt.Errorf("wrapped: %w", e)
		default:
			e = stderror.WrapErrorWithType(e, stderror.ErrorType(shape[i]-'0'))
		}
	}
	return e
}

func pureCases(r *vh.Run) {
	// protocol classification, exhaustive
	for p := 0; p < 256; p++ {
		s, d, a, le := protocol.VerifC10Classify(byte(p))
		r.Case(fmt.Sprintf("P %d", p), fmt.Sprintf("%s%s%s%s %s %s", b2s(s), b2s(d), b2s(a), b2s(le),
			b2s(protocol.VerifC10ServerDirectionOK(byte(p))), b2s(protocol.VerifC10TreeInsertPanics(byte(p)))))
		r.Count("classify")
	}
	for _, sid := range []uint32{0, 1, 0xffffffff} {
		for p := 0; p < 256; p++ {
			r.Case(fmt.Sprintf("V %d %d", p, sid), b2s(protocol.VerifC10NewServerSessionOK(byte(p), sid)))
		}
	}
	// error shapes
	shapes := []string{"P", "WP", "WWP"}
	for c := byte('0'); c <= '5'; c++ {
		shapes = append(shapes, string(c)+"P", string(c)+"WP", "W"+string(c)+"P", "WW"+string(c)+"P", string(c)+"W"+string(c)+"P", string(c)+string(c)+"P")
	}
	for _, sh := range shapes {
		r.Case("E "+sh, fmt.Sprint(int(stderror.GetErrorType(buildErr(sh)))))
		r.Count("errtype")
		r.Distinct("errtype/" + sh)
	}
	r.Case("E -", fmt.Sprint(int(stderror.GetErrorType(nil))))
}

// parser fuzz: every call under recover; a panic is an oracle failure
func guarded(r *vh.Run, sig string, in []byte, f func()) {
	defer func() {
		if x := recover(); x != nil {
			r.Fail("panic-"+sig, fmt.Sprintf("%s panicked: %v", sig, x), map[string]string{"input": vh.Hex(in)})
		}
	}()
	f()
}

type memConn struct {
	rd *bytes.Reader
	wr bytes.Buffer
}

func (c *memConn) Read(p []byte) (int, error)       { return c.rd.Read(p) }
func (c *memConn) Write(p []byte) (int, error)      { return c.wr.Write(p) }
func (c *memConn) Close() error                     { return nil }
func (c *memConn) LocalAddr() net.Addr              { return &net.TCPAddr{IP: net.IPv4(127, 0, 0, 1), Port: 1} }
func (c *memConn) RemoteAddr() net.Addr             { return &net.TCPAddr{IP: net.IPv4(127, 0, 0, 1), Port: 2} }
func (c *memConn) SetDeadline(time.Time) error      { return nil }
func (c *memConn) SetReadDeadline(time.Time) error  { return nil }
func (c *memConn) SetWriteDeadline(time.Time) error { return nil }

type memPacketConn struct {
	memConn
	pkt []byte
}

func (c *memPacketConn) ReadFrom(p []byte) (int, net.Addr, error) {
	if c.pkt == nil {
		return 0, nil, io.EOF
	}
	n := copy(p, c.pkt)
	c.pkt = nil
	return n, c.RemoteAddr(), nil
}
func (c *memPacketConn) WriteTo(p []byte, _ net.Addr) (int, error) { return len(p), nil }

func socksInputs(r *vh.Run) [][]byte {
	var ins [][]byte
	add := func(b ...byte) { ins = append(ins, b) }
	// boundary corpus
	add()
	add(5)
	add(5, 1)
	add(5, 1, 0)
	add(5, 1, 0, 1, 1, 2, 3, 4, 0, 80)
	add(5, 1, 0, 1, 1, 2, 3)
	add(5, 3, 0, 4, 0, 0, 0, 0, 0, 0, 0, 0, 0, 0, 0, 0, 0, 0, 0, 1, 0, 53)
	add(5, 1, 0, 3, 0, 0, 80)
	add(5, 1, 0, 3, 255, 1, 2)
	add(5, 1, 0, 3, 3, 'a', 'b', 'c', 1, 187)
	add(5, 1, 0, 9, 1, 2, 3, 4, 0, 80)
	add(4, 1, 0, 1, 1, 2, 3, 4, 0, 80)
	add(0, 0, 0, 1, 1, 2, 3, 4, 0, 80, 'x')
	add(0, 0, 0, 1, 1, 2, 3, 4, 0, 80)
	add(0, 0, 0, 1, 1, 2, 3)
	add(0, 0, 1, 1, 1, 2, 3, 4, 0, 80, 'x')
	add(0, 0, 0, 3, 255, 'a', 'b', 0, 80, 1, 2)
	add(0, 0, 0, 3, 2, 'a', 'b', 0, 80)
	add(0, 0, 0, 4, 1, 2, 3, 4, 5, 6, 7)
	add(0, 0, 0, 3, 0, 0, 80, 1, 2, 3)
	add(0, 0, 0, 0, 0, 0, 0, 0)
	full := append([]byte{0, 0, 0, 3, 255}, bytes.Repeat([]byte{'a'}, 255)...)
	ins = append(ins, append(full, 0, 80, 1), full)
	// auth / frame corpus
	add(5, 0)
	add(5, 1, 0)
	add(5, 2, 0, 2)
	add(5, 255)
	add(5, 1, 2, 1, 5, 'a', 'l', 'i', 'c', 'e', 3, 'p', 'w', 'd')
	add(5, 1, 2, 1, 255, 'a')
	add(5, 1, 2, 9, 0, 0)
	add(0, 0, 3, 1, 2, 3, 0xff)
	add(0, 0xff, 0xff, 1)
	add(0, 0, 0, 0xff)
	add(1, 0, 0)
	add(0, 0, 2, 1, 2, 0)
	n := 3000
	if r.Thorough() {
		n = 60000
	}
	for i := 0; i < n; i++ {
		g := r.Rng.Fork()
		var b []byte
		switch g.Intn(4) {
		case 0:
			b = g.Bytes(g.Intn(40))
		case 1: // structured SOCKS5 message, possibly truncated
			b = []byte{5, byte(g.Intn(4)), 0}
			b = append(b, randAddr(g)...)
			b = append(b, g.Bytes(g.Intn(4))...)
		case 2: // structured UDP header
			b = []byte{0, 0, byte(g.Intn(8) / 7)}
			b = append(b, randAddr(g)...)
			b = append(b, g.Bytes(g.Intn(20))...)
		case 3: // frame
			l := g.Intn(300)
			b = []byte{byte(g.Intn(20) / 19), byte(l >> 8), byte(l)}
			b = append(b, g.Bytes(l+g.Intn(3))...)
			b = append(b, byte(0xff-g.Intn(20)/19))
		}
		if g.Intn(4) == 0 && len(b) > 0 {
			b = b[:g.Intn(len(b))]
		}
		if g.Intn(6) == 0 && len(b) > 0 {
			b[g.Intn(len(b))] = byte(g.U64())
		}
		ins = append(ins, b)
	}
	return ins
}

func randAddr(g *vh.Rng) []byte {
	switch g.Intn(5) {
	case 0:
		return append([]byte{1}, g.Bytes(6)...)
	case 1:
		return append([]byte{4}, g.Bytes(18)...)
	case 2:
		l := g.Intn(256)
		return append(append([]byte{3, byte(l)}, g.Bytes(l)...), g.Bytes(2)...)
	case 3:
		l := g.Intn(256)
		return append([]byte{3, byte(l)}, g.Bytes(g.Intn(l+3))...)
	default:
		return append([]byte{byte(g.Intn(256))}, g.Bytes(g.Intn(20))...)
	}
}

func socksFuzz(r *vh.Run) {
	srv, err := socks5.New(&socks5.Config{AuthOpts: socks5.Auth{IngressCredentials: []socks5.Credential{{User: "alice", Password: "pwd"}}}})
	if err != nil {
		panic(err)
	}
	esrv := newSocksServer()
	for _, in := range socksInputs(r) {
		in := in
		// modelled parsers: case lines
		var u, m string
		guarded(r, "parseSocks5UDPDatagram", in, func() {
			_, hdr, payload, err := socks5.VerifC10ParseSocks5UDPDatagram(append([]byte(nil), in...))
			if err != nil {
				u = "ERR"
				return
			}
			u = fmt.Sprintf("OK %d", len(hdr))
			if len(hdr)+len(payload) != len(in) {
				r.Fail("udp-header-length", "header and payload do not add up to the datagram", map[string]string{"input": vh.Hex(in)})
			}
		})
		if u == "" {
			u = "PANIC"
		}
		r.Case("U "+vh.Hex(in), u)
		guarded(r, "Request.ReadFromSocks5", in, func() {
			rd := bytes.NewReader(in)
			req := &model.Request{}
			if err := req.ReadFromSocks5(rd); err != nil {
				m = "ERR"
				return
			}
			m = fmt.Sprintf("OK %d %d", req.Command, len(in)-rd.Len())
		})
		if m == "" {
			m = "PANIC"
		}
		r.Case("M "+vh.Hex(in), m)
		r.Count("socks5-parsers")
		r.Distinct(fmt.Sprintf("socks5/%s/%s/len%d", strings.Fields(u)[0], strings.Fields(m)[0], min(len(in), 24)))
		// the other readers: oracle only
		guarded(r, "Response.ReadFromSocks5", in, func() { (&model.Response{}).ReadFromSocks5(bytes.NewReader(in)) })
		guarded(r, "ReadSocks5Request", in, func() { model.ReadSocks5Request(bytes.NewReader(in)) })
		guarded(r, "ReadSocks5Response", in, func() {
			resp, err := model.ReadSocks5Response(bytes.NewReader(in))
			if err == nil {
				socks5.VerifC10RewriteSocks5ResponseBindPort(resp, 4242)
				socks5.VerifC10Socks5UDPAddrFromResponse(&memConn{rd: bytes.NewReader(nil)}, resp)
			}
		})
		guarded(r, "AddrSpec.ReadFromSocks5", in, func() { (&model.AddrSpec{}).ReadFromSocks5(bytes.NewReader(in)) })
		guarded(r, "unwrapSocks5UDPPacket", in, func() { socks5.VerifC10UnwrapSocks5UDPPacket(append([]byte(nil), in...)) })
		guarded(r, "parseUDPAssociateDatagram", in, func() {
			if len(in) > 3 && in[3] != 3 { // FQDN needs a resolver
				socks5.VerifC10ParseUDPAssociateDatagram(append([]byte(nil), in...))
			}
		})
		guarded(r, "UDPAssociateWrapper.ReadFrom", in, func() {
			w := apicommon.NewUDPAssociateWrapper(&memPacketConn{pkt: append([]byte{}, in...)})
			w.ReadFrom(make([]byte, 64))
			w2 := apicommon.NewUDPAssociateWrapper(&memPacketConn{pkt: append([]byte{}, in...)})
			w2.ReadFrom(make([]byte, 0))
		})
		guarded(r, "PacketOverStreamTunnel.Read", in, func() {
			t := apicommon.NewPacketOverStreamTunnel(&memConn{rd: bytes.NewReader(in)})
			buf := make([]byte, 128)
			for i := 0; i < 4; i++ {
				if _, err := t.Read(buf); err != nil {
					break
				}
			}
		})
		guarded(r, "FindAction", in, func() {
			esrv.FindAction(context.Background(), egress.Input{Protocol: appctlpb.ProxyProtocol_SOCKS5_PROXY_PROTOCOL, Data: in, Env: map[string]string{"user": "alice"}})
			esrv.FindAction(context.Background(), egress.Input{Protocol: appctlpb.ProxyProtocol_SOCKS5_PROXY_PROTOCOL, Data: in, Env: map[string]string{"user": "nobody"}})
			srv.FindAction(context.Background(), egress.Input{Protocol: appctlpb.ProxyProtocol_SOCKS5_PROXY_PROTOCOL, Data: in})
		})
		guarded(r, "handleAuthentication", in, func() { socks5.VerifC10HandleAuthentication(srv, &memConn{rd: bytes.NewReader(in)}) })
		guarded(r, "readRequest", in, func() { socks5.VerifC10ReadRequest(srv, bytes.NewReader(in)) })
		guarded(r, "clientNegotiateAuthentication", in, func() {
			socks5.VerifC10ClientNegotiateAuthentication(&memConn{rd: bytes.NewReader(in)}, "u", "p", len(in)%2 == 0)
		})
		guarded(r, "proxySocks5AuthReq", in, func() {
			socks5.VerifC10ProxySocks5AuthReq(srv, &memConn{rd: bytes.NewReader(in)}, &memConn{rd: bytes.NewReader(in)})
		})
	}
}

func min(a, b int) int {
	if a < b {
		return a
	}
	return b
}

func main() {
	r := vh.Start("c10")
	if *childFlag != "" {
		childMain(r, *childFlag)
		return
	}
	limit := 90 * time.Second // real time per child (a child takes 1-5 s in the quick tier, 15-40 s in the thorough tier)
	if r.Thorough() {
		limit = 300 * time.Second
	}
	// corpus first: the cross-user witness (DESIGN.md section 8)
	runChild(r, "witness-udp", limit)
	runChild(r, "witness-tcp", limit)
	pureCases(r)
	socksFuzz(r)
	var wg sync.WaitGroup
	_ = wg
	for _, sc := range []string{"burst-udp", "socks5-serve", "server-udp", "server-tcp", "client-udp", "client-tcp"} {
		runChild(r, sc, limit)
	}
	r.Rep.Rule = "endpoints run in child processes (a crash = exit status != 0 = oracle failure panic-<site>); a hostile peer with a valid credential (refcodec) sends, per probe from a fresh address/connection, an optional valid open request and 1-3 hostile segments: every protocol type (quick: 16 representatives incl. 0,1,12,13,127,255; thorough: 0..255) x session id class (0 / unknown / own / another user's / another user's from the spoofed victim address) x field class (standard / extreme seq,unAck,window,fragment,status) x body class (ok / truncated / over-long / bad tag) x payload / timestamp / low-entropy validity, fixed orders (data before open, open twice, close twice, ack for nothing, data after close, garbage) and generated histories; against server and client on TCP and UDP; the victim user's echo transfer is checked after every probe. Pure: protocol predicates over 0..255 exhaustively, GetErrorType over error shapes, SOCKS5 request/UDP-header parsers on a boundary corpus and generated byte strings (other readers under recover). distinct_nontrivial = distinct (role, transport, type, id class, field class, body class, payload, timestamp) tuples plus parser outcome classes."
	r.Finish()
}
