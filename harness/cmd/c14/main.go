// Driver for C14: no datagram exceeds the MTU, no payload exceeds its length field.
//
// Part 1 (arithmetic, exhaustive): maxFragmentSize, lowEntropyEncodedPayloadLen, maxPaddingSize and
// maxPaddingSizeWithTrafficPattern of /repo are evaluated over complete small domains / boundary grids
// and compared with the extracted Coq model line by line.
// Part 2 (plan): the real Session.Write is driven on bare sessions (client first write, client later
// write, server with/without low entropy; packet and stream transport) for write sizes around every
// multiple of the fragment size; the queued segments are compared with the model's plan and judged
// against the property text (payloads concatenate to the written bytes, length fields hold the true
// lengths, fragment numbers count down, limits 32768 / 1024 / fragment size respected).
// Part 3 (datagrams): every distinct segment shape of part 2 plus the control segments is serialised
// by the real PacketUnderlay.writeOneSegment over a recording connection, for a grid of MTUs and
// padding maxima, several times (fresh padding draws); every datagram is measured against the MTU,
// decoded with the key according to docs/protocol.md and compared with the model's dgram_len.
package main

import (
	"bytes"
	"encoding/binary"
	"fmt"
	"strings"

	"github.com/enfein/mieru/v3/pkg/appctl/appctlpb"
	"github.com/enfein/mieru/v3/pkg/cipher"
	"github.com/enfein/mieru/v3/pkg/common"
	"github.com/enfein/mieru/v3/pkg/protocol"
	"google.golang.org/protobuf/proto"
	"verifharness/vh"
)

const (
	tUnknown = int(common.UnknownTransport)
	tStream  = int(common.StreamTransport)
	tPacket  = int(common.PacketTransport)
)

var srcBytes = map[int]int{}

func optS(p *int32) string {
	if p == nil {
		return "-"
	}
	return fmt.Sprint(*p)
}

type padCfg struct{ mid, end *int32 }

func (c padCfg) String() string { return optS(c.mid) + "," + optS(c.end) }

// pattern builds the traffic pattern of one configuration. mode < 0: no low-entropy pattern.
func pattern(c padCfg, mode int, nilPattern bool) *appctlpb.TrafficPattern {
	if nilPattern {
		return nil
	}
	tp := &appctlpb.TrafficPattern{}
	if c.mid != nil || c.end != nil {
		tp.Padding = &appctlpb.PaddingPattern{MaxMiddlePaddingLen: c.mid, MaxEndPaddingLen: c.end}
	}
	if mode >= 0 {
		tp.LowEntropy = &appctlpb.LowEntropyPattern{
			Mode:         appctlpb.LowEntropyMode(mode).Enum(),
			MaskRotation: appctlpb.LowEntropyMaskRotation_LOW_ENTROPY_MASK_NO_ROTATION.Enum(),
		}
	}
	return tp
}

func kindCode(p int) int {
	switch p {
	case protocol.VerifC14OpenSessionRequest:
		return 0
	case protocol.VerifC14OpenSessionResponse:
		return 1
	case protocol.VerifC14CloseSessionRequest:
		return 2
	case protocol.VerifC14CloseSessionResponse:
		return 3
	case protocol.VerifC14DataClientToServer, protocol.VerifC14DataServerToClient:
		return 4
	case protocol.VerifC14DataClientToServerLowEntropy, protocol.VerifC14DataServerToClientLowEntropy:
		return 5
	case protocol.VerifC14AckClientToServer, protocol.VerifC14AckServerToClient:
		return 6
	}
	return -1
}

func b2s(b bool) string {
	if b {
		return "1"
	}
	return "0"
}

type shape struct {
	seg      protocol.VerifC14Seg
	isClient bool
}

func main() {
	r := vh.Start("c14")
	defer r.Finish()
	r.Rep.Rule = "arithmetic: maxFragmentSize over mtu 0..2000 x 3 transports x modes -1..6, lowEntropyEncodedPayloadLen over -1..40000 x modes 0..5, maxPaddingSize(+traffic pattern) over every (room, existing) pair around the 0 and 255 boundaries for several MTUs and all transports (complete enumeration); plan: real Session.Write for sizes 0,1,1023..1025 and k*fragment-1,k*fragment,k*fragment+1 for every k up to maxPDU and across the 32768/65536 chunk boundaries, per (mtu, mode, role, transport); datagrams: every distinct (kind, body length) shape serialised by the real PacketUnderlay.writeOneSegment per (mtu, mode, middle max, end max) with repeated padding draws. Non-trivial/distinct = distinct (mtu class, mode, transport, role, size class relative to the fragment size) for plans and distinct (mtu, mode, kind, body class, padding maxima, padding draw class 0/mid/max) for datagrams"
	for m := 1; m <= 4; m++ {
		n, err := protocol.VerifC14SourceBytesPerChunk(int32(m))
		if err == nil {
			srcBytes[m] = n
		}
	}

	// ------------------------------------------------------------------ part 1: arithmetic
	for mtu := 0; mtu <= 2000; mtu++ {
		for _, t := range []int{tUnknown, tStream, tPacket} {
			for mode := -1; mode <= 6; mode++ {
				fs, err := protocol.VerifC14MaxFragmentSize(mtu, common.TransportProtocol(t), int32(mode))
				impl := fmt.Sprint(fs)
				if err != nil {
					impl = "E"
				}
				r.Case(fmt.Sprintf("F %d %d %d", mtu, t, mode), impl)
				// oracle: what is sent with this fragment size fits the datagram / the 16-bit field
				if err == nil && mtu >= 1280 && mtu <= 1500 {
					if t == tPacket {
						wire := fs
						if mode >= 1 && mode <= 4 {
							wire = (fs + srcBytes[mode] - 1) / srcBytes[mode] * 8
						}
						if wire+protocol.VerifC14PacketOverhead > mtu || fs <= 0 {
							r.Fail("fragment-size-exceeds-mtu", fmt.Sprintf("maxFragmentSize(%d, packet, %d) = %d: %d wire bytes + %d overhead > mtu", mtu, mode, fs, wire, protocol.VerifC14PacketOverhead), map[string]int{"mtu": mtu, "mode": mode})
						}
					}
					if t == tStream {
						wire := fs
						if mode >= 1 && mode <= 4 {
							wire = (fs + srcBytes[mode] - 1) / srcBytes[mode] * 8
						}
						if wire > 65535 || fs > 32768 || fs <= 0 {
							r.Fail("fragment-size-exceeds-field", fmt.Sprintf("maxFragmentSize(%d, stream, %d) = %d encodes to %d", mtu, mode, fs, wire), map[string]int{"mtu": mtu, "mode": mode})
						}
					}
				}
			}
		}
	}
	r.Count("F")
	for mode := 0; mode <= 5; mode++ {
		for n := -1; n <= 40000; n++ {
			l, err := protocol.VerifC14LowEntropyEncodedPayloadLen(n, int32(mode))
			impl := fmt.Sprint(l)
			if err != nil {
				impl = "E"
			}
			r.Case(fmt.Sprintf("L %d %d", n, mode), impl)
			if err == nil {
				sb := srcBytes[mode]
				if sb == 0 || int(l) != (n+sb-1)/sb*8 || int(l) < n {
					r.Fail("encoded-length-wrong", fmt.Sprintf("lowEntropyEncodedPayloadLen(%d, %d) = %d", n, mode, l), map[string]int{"n": n, "mode": mode})
				}
			}
		}
	}
	r.Count("L")
	pmtus := []int{1280, 1400, 1500}
	if r.Thorough() {
		pmtus = []int{0, 88, 89, 343, 344, 1279, 1280, 1281, 1399, 1400, 1401, 1499, 1500, 1501, 9000}
	}
	cfgs := []string{"-", "-1", "0", "1", "127", "254", "255", "256", "100000"}
	for _, mtu := range pmtus {
		for room := -2; room <= 258; room++ { // room = mtu - frag - overhead
			frag := mtu - protocol.VerifC14PacketOverhead - room
			for ex := 0; ex <= 258; ex++ {
				got := protocol.VerifC14MaxPaddingSize(mtu, common.PacketTransport, frag, ex)
				r.Case(fmt.Sprintf("P %d %d %d %d", mtu, tPacket, frag, ex), fmt.Sprint(got))
				if got < 0 || got > 255 || (room-ex >= 0 && got > room-ex) || (room-ex < 0 && got != 0) {
					r.Fail("padding-exceeds-room", fmt.Sprintf("maxPaddingSize(%d, packet, %d, %d) = %d with %d bytes of room", mtu, frag, ex, got, room-ex), map[string]int{"mtu": mtu, "frag": frag, "existing": ex})
				}
			}
		}
		for _, t := range []int{tUnknown, tStream} {
			for _, room := range []int{-1, 0, 1, 254, 255, 256} {
				frag := mtu - protocol.VerifC14PacketOverhead - room
				for _, ex := range []int{0, 1, 254, 255, 256} {
					r.Case(fmt.Sprintf("P %d %d %d %d", mtu, t, frag, ex), fmt.Sprint(protocol.VerifC14MaxPaddingSize(mtu, common.TransportProtocol(t), frag, ex)))
				}
			}
		}
		// with traffic pattern
		for _, cs := range cfgs {
			var cp *int32
			if cs != "-" {
				var v int32
				fmt.Sscan(cs, &v)
				cp = proto.Int32(v)
			}
			for pos := 0; pos <= 1; pos++ {
				c := padCfg{}
				if pos == 0 {
					c.mid = cp
				} else {
					c.end = cp
				}
				tp := pattern(c, -1, false)
				for _, t := range []int{tStream, tPacket} {
					for room := -1; room <= 257; room += 1 {
						frag := mtu - protocol.VerifC14PacketOverhead - room
						for _, ex := range []int{0, 1, 2, 100, 126, 127, 128, 254, 255, 256} {
							got := protocol.VerifC14MaxPaddingSizeTP(mtu, common.TransportProtocol(t), frag, ex, tp, pos)
							r.Case(fmt.Sprintf("Q %d %d %d %d %s", mtu, t, frag, ex, cs), fmt.Sprint(got))
						}
					}
				}
			}
		}
	}
	r.Count("P")
	r.Count("Q")

	// ------------------------------------------------------------------ parts 2 and 3
	pw := []byte("c14-password")
	mkBlock := func(user string) cipher.BlockCipher {
		blk, err := cipher.BlockCipherFromPassword(pw, true)
		if err != nil {
			panic(err)
		}
		blk.SetBlockContext(cipher.BlockContext{UserName: user})
		return blk
	}
	blocks := []cipher.BlockCipher{mkBlock("alice"), mkBlock("bob"), mkBlock("carol"), mkBlock("dave")}

	mtus := []int{1280, 1400, 1500}
	edgeMtus := []int{1281, 1287, 1288, 1399, 1401, 1499}
	if r.Thorough() {
		mtus = nil
		edgeMtus = nil
		for m := 1280; m <= 1500; m++ {
			mtus = append(mtus, m)
		}
	}
	padVals := []*int32{proto.Int32(0), proto.Int32(1), proto.Int32(127), proto.Int32(255)}
	var padCfgs []padCfg
	for _, a := range padVals {
		for _, b := range padVals {
			padCfgs = append(padCfgs, padCfg{a, b})
		}
	}
	padCfgs = append(padCfgs, padCfg{nil, nil}, padCfg{nil, proto.Int32(255)}, padCfg{proto.Int32(64), nil})
	draws := 6
	if r.Thorough() {
		draws = 8
	}
	// in the thorough tier every MTU 1280..1500 is visited; the full padding grid is used on every 10th MTU and
	// the boundaries, a 6-element subset elsewhere
	fewPadCfgs := []padCfg{{padVals[0], padVals[0]}, {padVals[3], padVals[3]}, {padVals[1], padVals[2]}, {padVals[2], padVals[1]}, {nil, nil}, {padVals[3], padVals[0]}}
	cfgsFor := func(mtu int) []padCfg {
		if !r.Thorough() || mtu%10 == 0 || mtu == 1281 || mtu == 1499 {
			return padCfgs
		}
		return fewPadCfgs
	}

	data := r.Rng.Bytes(3*32768 + 4096)

	// runWrite drives one real Write and emits the W case; returns the queued segments.
	runWrite := func(isClient, first, used bool, mtu, t, cfgmode, n int) []protocol.VerifC14Seg {
		var tp *appctlpb.TrafficPattern
		cm := "-"
		if cfgmode >= 0 {
			tp = pattern(padCfg{}, cfgmode, false)
			cm = fmt.Sprint(cfgmode)
		}
		s := protocol.VerifC14NewSession(isClient, common.TransportProtocol(t), mtu, tp, used)
		var pre []protocol.VerifC14Seg
		if isClient && !first {
			// consume the open session request with an empty first write
			_, _, pre = s.Write(nil)
			_ = pre
		}
		b := data[:n]
		wn, err, segs := s.Write(b)
		outcome := 0
		if err != nil {
			outcome = 1
		}
		var sb strings.Builder
		fmt.Fprintf(&sb, "%d %d", wn, outcome)
		for _, g := range segs {
			fmt.Fprintf(&sb, " | %d %d %d %d %d", g.Protocol, g.Fragment, g.PayloadLen, g.Extracted, len(g.Payload))
		}
		caseLine := fmt.Sprintf("W %s %s %s %d %d %s %d", b2s(isClient), b2s(first), b2s(used), mtu, t, cm, n)
		r.Case(caseLine, sb.String())
		r.Count("W")
		cj := map[string]interface{}{"case": caseLine}

		// effective mode (independent of the model): low entropy iff configured 1..4 and (client or client used it)
		mode := 0
		if cfgmode >= 1 && cfgmode <= 4 && (isClient || used) {
			mode = cfgmode
		}
		// ---- oracle, against the property text
		if err != nil || wn != n {
			r.Fail("write-short-or-error", fmt.Sprintf("Write(%d bytes) returned n=%d err=%v", n, wn, err), cj)
		}
		var cat []byte
		prevFrag := 0
		for i, g := range segs {
			cat = append(cat, g.Payload...)
			k := kindCode(g.Protocol)
			body := len(g.Payload)
			switch k {
			case 0:
				if body > 1024 /* documented limit */ || g.PayloadLen != body || (body > 0 && mode != 0) {
					r.Fail("session-payload-limit", fmt.Sprintf("open session request carries %d bytes (field %d), mode %d", body, g.PayloadLen, mode), cj)
				}
			case 4:
				if g.PayloadLen != body || body == 0 || body > 32768 || mode != 0 {
					r.Fail("payload-length-field-wrong", fmt.Sprintf("data segment %d: field %d, payload %d bytes", i, g.PayloadLen, body), cj)
				}
			case 5:
				sbc := srcBytes[mode]
				if mode == 0 || sbc == 0 || g.Extracted != body || body == 0 || body > 32768 || g.PayloadLen != (body+sbc-1)/sbc*8 || g.LEMode != mode {
					r.Fail("payload-length-field-wrong", fmt.Sprintf("low-entropy segment %d: field %d, extracted %d, payload %d bytes, mode %d", i, g.PayloadLen, g.Extracted, body, mode), cj)
				}
			default:
				r.Fail("unexpected-segment-kind", fmt.Sprintf("Write queued a segment of protocol %d", g.Protocol), cj)
			}
			if k == 4 || k == 5 {
				// fragment numbers count down to 0; after a 0 a new chunk starts
				if i > 0 && kindCode(segs[i-1].Protocol) >= 4 && prevFrag > 0 && g.Fragment != prevFrag-1 {
					r.Fail("fragment-number-wrong", fmt.Sprintf("fragment %d follows fragment %d", g.Fragment, prevFrag), cj)
				}
				prevFrag = g.Fragment
				if t == tPacket && g.PayloadLen+protocol.VerifC14PacketOverhead > mtu {
					r.Fail("fragment-exceeds-mtu", fmt.Sprintf("segment %d: %d wire bytes + overhead > mtu %d", i, g.PayloadLen, mtu), cj)
				}
			}
		}
		if len(segs) > 0 {
			last := segs[len(segs)-1]
			if kindCode(last.Protocol) >= 4 && last.Fragment != 0 {
				r.Fail("fragment-number-wrong", fmt.Sprintf("last fragment is numbered %d", last.Fragment), cj)
			}
		}
		if !bytes.Equal(cat, b[:wn]) {
			r.Fail("fragments-do-not-concatenate", fmt.Sprintf("payloads of the %d queued segments (%d bytes) differ from the %d bytes written", len(segs), len(cat), wn), cj)
		}
		return segs
	}

	sizeClass := func(n, fs int) string {
		switch {
		case n == 0:
			return "0"
		case n <= 1024:
			return "le1024"
		case fs > 0 && n%fs == 0:
			return "mult"
		case fs > 0 && n%fs == 1:
			return "mult+1"
		case fs > 0 && n%fs == fs-1:
			return "mult-1"
		}
		return "other"
	}

	dgrams := 0
	maxSeen := map[string]int{}
	serialize := func(mtu, cfgmode int, sh shape, c padCfg, nilPattern bool, blk cipher.BlockCipher) {
		tp := pattern(c, cfgmode, nilPattern)
		ser := protocol.VerifC14NewPacketSerializer(mtu, tp, blk)
		out, err := ser.Serialize(sh.seg)
		k := kindCode(sh.seg.Protocol)
		body := len(sh.seg.Payload)
		cj := map[string]interface{}{"mtu": mtu, "mode": cfgmode, "protocol": sh.seg.Protocol, "body": body, "padding": c.String()}
		if err != nil || len(out) != 1 {
			r.Fail("serialise-failed", fmt.Sprintf("writeOneSegment: %v (%d datagrams)", err, len(out)), cj)
			return
		}
		d := out[0]
		dgrams++
		// decode per docs/protocol.md: nonce 24 | encrypted metadata 32 + tag 16 | prefix | payload + tag | suffix
		if len(d) < 72 {
			r.Fail("datagram-malformed", fmt.Sprintf("datagram of %d bytes", len(d)), cj)
			return
		}
		meta, derr := blk.Decrypt(d[:72])
		if derr != nil || len(meta) != 32 {
			r.Fail("datagram-malformed", fmt.Sprintf("metadata does not decrypt: %v", derr), cj)
			return
		}
		var p1, p2, plen, ext int
		if meta[0] >= 2 && meta[0] <= 5 {
			plen = int(binary.BigEndian.Uint16(meta[15:]))
			p2 = int(meta[17])
		} else {
			p1 = int(meta[21])
			plen = int(binary.BigEndian.Uint16(meta[22:]))
			p2 = int(meta[24])
			if meta[0] >= 10 {
				ext = int(binary.BigEndian.Uint16(meta[29:]))
			}
		}
		want := 72 + p1 + p2
		if plen > 0 {
			want += plen + 16
		}
		cj["p1"], cj["p2"], cj["len"] = p1, p2, len(d)
		if len(d) > mtu {
			r.Fail("datagram-exceeds-mtu", fmt.Sprintf("datagram of %d bytes with mtu %d (protocol %d, payload field %d, prefix %d, suffix %d)", len(d), mtu, meta[0], plen, p1, p2), cj)
		}
		if len(d) != want {
			r.Fail("datagram-layout", fmt.Sprintf("datagram of %d bytes, documented layout gives %d", len(d), want), cj)
		}
		if k != 5 && plen > 0 && len(d) == want {
			pt, perr := blk.DecryptWithNonce(d[72+p1:72+p1+plen+16], d[:24])
			if perr != nil || !bytes.Equal(pt, sh.seg.Payload) {
				r.Fail("datagram-layout", fmt.Sprintf("payload does not decrypt to the segment's bytes: %v", perr), cj)
			}
		}
		if plen != sh.seg.PayloadLen || ext != sh.seg.Extracted {
			r.Fail("datagram-layout", fmt.Sprintf("wire payloadLen %d / extracted %d, segment has %d / %d", plen, ext, sh.seg.PayloadLen, sh.seg.Extracted), cj)
		}
		// configured maxima honoured
		if (c.mid != nil && !nilPattern && p1 > int(*c.mid)) || (c.end != nil && !nilPattern && p2 > int(*c.end)) {
			r.Fail("padding-exceeds-configured-maximum", fmt.Sprintf("prefix %d suffix %d with maxima %s", p1, p2, c.String()), cj)
		}
		// the draws against the maxima the implementation computes
		m1 := 0
		if k >= 4 {
			m1 = protocol.VerifC14MaxPaddingSizeTP(mtu, common.PacketTransport, plen, 0, tp, 0)
		}
		m2 := protocol.VerifC14MaxPaddingSizeTP(mtu, common.PacketTransport, plen, p1, tp, 1)
		ok := p1 <= m1 && p2 <= m2
		cm, ce := "-", "-"
		if !nilPattern {
			cm, ce = optS(c.mid), optS(c.end)
		}
		r.Case(fmt.Sprintf("D %d %s %d %d %d %d %d %s %s %d %d", mtu, b2s(sh.isClient), k, sh.seg.Fragment, sh.seg.PayloadLen, sh.seg.Extracted, body, cm, ce, p1, p2),
			fmt.Sprintf("%d %s", len(d), b2s(ok)))
		r.Count(fmt.Sprintf("D-kind%d", k))
		cls := func(p, m int) string {
			switch {
			case p == 0:
				return "0"
			case p == m:
				return "max"
			}
			return "mid"
		}
		bodyClass := "0"
		if body > 0 {
			bodyClass = fmt.Sprint(body)
		}
		r.Distinct(fmt.Sprintf("D/%d/%d/%d/%s/%s/%s/%s", mtu, cfgmode, k, bodyClass, c.String(), cls(p1, m1), cls(p2, m2)))
		key := fmt.Sprintf("%d", mtu)
		if len(d) > maxSeen[key] {
			maxSeen[key] = len(d)
		}
	}

	doConfig := func(mtu, cfgmode int, full bool) {
		mode := 0
		if cfgmode >= 1 && cfgmode <= 4 {
			mode = cfgmode
		}
		fs, err := protocol.VerifC14MaxFragmentSize(mtu, common.PacketTransport, int32(mode))
		if err != nil || fs <= 0 {
			r.Fail("no-fragment-size", fmt.Sprintf("maxFragmentSize(%d, packet, %d): %d %v", mtu, mode, fs, err), map[string]int{"mtu": mtu, "mode": mode})
			return
		}
		shapes := map[string]shape{}
		add := func(segs []protocol.VerifC14Seg, isClient bool) {
			for _, g := range segs {
				key := fmt.Sprintf("%d/%d", g.Protocol, len(g.Payload))
				if _, ok := shapes[key]; !ok {
					shapes[key] = shape{g, isClient}
				}
			}
		}
		// client, first write (open session request, piggyback)
		firstSizes := []int{0, 1, 2, 1023, 1024, 1025, fs - 1, fs, fs + 1}
		for _, n := range firstSizes {
			add(runWrite(true, true, false, mtu, tPacket, cfgmode, n), true)
			r.Distinct(fmt.Sprintf("W/%d/%d/pkt/client-first/%s", mtu, cfgmode, sizeClass(n, fs)))
		}
		// later writes: around every multiple of the fragment size
		var sizes []int
		kmax := 32768/fs + 2
		for k := 1; k <= kmax; k++ {
			if !full && k > 3 && k < kmax-3 {
				continue
			}
			sizes = append(sizes, k*fs-1, k*fs, k*fs+1)
		}
		sizes = append(sizes, 1, 32767, 32768, 32769, 32768+fs, 32768+fs+1, 65535, 65536, 65537, 65536+fs+1)
		for _, n := range sizes {
			if n <= 0 {
				continue
			}
			add(runWrite(true, false, false, mtu, tPacket, cfgmode, n), true)
			r.Distinct(fmt.Sprintf("W/%d/%d/pkt/client/%s/%d", mtu, cfgmode, sizeClass(n, fs), n/32768))
		}
		// server: with and without low entropy from the client
		for _, used := range []bool{false, true} {
			for _, n := range []int{1, fs - 1, fs, fs + 1, 2 * fs, 2*fs + 1, 32768, 32769} {
				add(runWrite(false, false, used, mtu, tPacket, cfgmode, n), false)
				r.Distinct(fmt.Sprintf("W/%d/%d/pkt/server-%v/%s", mtu, cfgmode, used, sizeClass(n, fs)))
			}
		}
		// control segments and acks
		for _, p := range []int{protocol.VerifC14OpenSessionResponse, protocol.VerifC14CloseSessionRequest, protocol.VerifC14CloseSessionResponse} {
			g := protocol.VerifC14SessionSegment(p, common.PacketTransport)
			shapes[fmt.Sprintf("%d/ctl", p)] = shape{g, p != protocol.VerifC14OpenSessionResponse}
		}
		shapes["ack/c"] = shape{protocol.VerifC14AckSegment(true, common.PacketTransport), true}
		shapes["ack/s"] = shape{protocol.VerifC14AckSegment(false, common.PacketTransport), false}
		// deterministic order
		keys := make([]string, 0, len(shapes))
		for k := range shapes {
			keys = append(keys, k)
		}
		sortStrings(keys)
		for _, key := range keys {
			sh := shapes[key]
			for ci, c := range cfgsFor(mtu) {
				for i := 0; i < draws; i++ {
					serialize(mtu, cfgmode, sh, c, false, blocks[(ci+i)%len(blocks)])
				}
			}
			// no traffic pattern at all (only meaningful with low entropy off)
			if mode == 0 && kindCode(sh.seg.Protocol) != 5 {
				for i := 0; i < draws; i++ {
					serialize(mtu, cfgmode, sh, padCfg{}, true, blocks[i%len(blocks)])
				}
			}
		}
	}

	modes := []int{-1, 0, 1, 2, 3, 4}
	for _, mtu := range mtus {
		for _, m := range modes {
			if m == -1 && mtu != 1280 && mtu != 1400 && mtu != 1500 {
				continue
			}
			doConfig(mtu, m, !r.Thorough() || mtu%20 == 0 || mtu == 1280 || mtu == 1500)
		}
	}
	for _, mtu := range edgeMtus {
		for _, m := range []int{0, 1, 4} {
			doConfig(mtu, m, false)
		}
	}

	// stream transport: plan only (the MTU does not bound a stream segment; the fields do)
	for _, m := range modes {
		mode := 0
		if m >= 1 {
			mode = m
		}
		fs, err := protocol.VerifC14MaxFragmentSize(1400, common.StreamTransport, int32(mode))
		if err != nil {
			r.Fail("no-fragment-size", fmt.Sprintf("maxFragmentSize(stream, %d): %v", mode, err), map[string]int{"mode": mode})
			continue
		}
		for _, n := range []int{0, 1, 1024, 1025} {
			runWrite(true, true, false, 1400, tStream, m, n)
			r.Distinct(fmt.Sprintf("W/stream/%d/client-first/%s", m, sizeClass(n, fs)))
		}
		for _, n := range []int{1, fs - 1, fs, fs + 1, 32767, 32768, 32769, 2*fs - 1, 2 * fs, 2*fs + 1, 65535, 65536, 65537, 98304, 98305} {
			runWrite(true, false, false, 1400, tStream, m, n)
			runWrite(false, false, true, 1400, tStream, m, n)
			r.Distinct(fmt.Sprintf("W/stream/%d/%s/%d", m, sizeClass(n, fs), n/32768))
		}
	}

	r.Rep.Notes = map[string]string{
		"datagrams_serialised":   fmt.Sprint(dgrams),
		"largest_datagram_seen":  fmt.Sprint(maxSeen),
		"exhaustive_part":        "F (48024 cases), L (240012 cases), P/Q grids are complete enumerations of the stated domains; W and D are grids",
		"control_segments":       "open session response, close session request/response and ack segments are built by the hook exactly as session.go builds them (no payload) and serialised by the real writeOneSegment",
		"stream_transport":       "plan and fields only; stream segments are not datagrams",
		"retransmission":         "a retransmission re-serialises the same segment object with fresh padding draws: covered by serialising every shape several times",
	}
}

func sortStrings(a []string) {
	for i := 1; i < len(a); i++ {
		for j := i; j > 0 && a[j] < a[j-1]; j-- {
			a[j], a[j-1] = a[j-1], a[j]
		}
	}
}
