package main

import (
	"bytes"
	"fmt"
	"io"
	"os"
	"time"

	"verifharness/rig"
	"verifharness/simnet"
	"verifharness/trace"
	"verifharness/vh"
)

func main() {
	out, _ := os.Create(os.Args[1])
	defer out.Close()
	for _, tr := range []string{"tcp", "udp"} {
		t0 := time.Now()
		r, err := rig.Start(rig.Opts{Transport: tr})
		if err != nil {
			fmt.Fprintln(out, tr, "start:", err)
			continue
		}
		rng := vh.NewRng(7)
		if tr == "udp" {
			r.Net.Latency = 10 * time.Millisecond
			r.Net.Fate = func(d *simnet.Datagram) []simnet.Delivery {
				if rng.Intn(10) == 0 {
					return nil
				}
				return []simnet.Delivery{{}}
			}
		}
		c, err := r.Dial()
		if err != nil {
			fmt.Fprintln(out, tr, "dial:", err)
			continue
		}
		data := vh.NewRng(3).Bytes(300000)
		done := make(chan []byte)
		go func() {
			s, err := r.Accept(30 * time.Second)
			if err != nil {
				fmt.Fprintln(out, tr, "accept:", err)
				done <- nil
				return
			}
			buf := make([]byte, len(data))
			_, err = io.ReadFull(s, buf)
			if err != nil {
				fmt.Fprintln(out, tr, "read:", err)
			}
			s.Write([]byte("ok"))
			done <- buf
		}()
		n, err := c.Write(data)
		fmt.Fprintln(out, tr, "write", n, err)
		got := <-done
		rb := make([]byte, 2)
		_, err = io.ReadFull(c, rb)
		fmt.Fprintln(out, tr, "equal:", bytes.Equal(got, data), "reply:", string(rb), err, "virtual:", time.Since(t0), "events:", len(r.Net.Log.Snapshot()))
		c.Close()
		r.Close()
		ev := r.Net.Log.Snapshot()
		creds := []trace.Cred{{User: "alice", Pass: "alice-password"}}
		if tr == "tcp" {
			for _, tc := range trace.TCP(ev, creds) {
				fmt.Fprintln(out, "conn", tc.ID, "c2s segs", len(tc.C2S.Segs), tc.C2S.Err, tc.C2S.Left, tc.C2S.User, "s2c segs", len(tc.S2C.Segs), tc.S2C.Err, tc.S2C.Left, tc.S2C.User)
				for _, s := range tc.C2S.Segs[:3] {
					fmt.Fprintf(out, "  %+v len=%d pre=%d suf=%d\n", s.Meta, len(s.Payload), len(s.Prefix), len(s.Suffix))
				}
				for _, s := range tc.S2C.Segs {
					fmt.Fprintf(out, "  s2c %+v len=%d\n", s.Meta, len(s.Payload))
				}
			}
		} else {
			us := trace.UDP(ev, creds)
			nd, bad := 0, 0
			for _, u := range us {
				if u.Seg == nil && u.Kind != "drop" {
					bad++
				}
				nd++
			}
			fmt.Fprintln(out, "udp events", nd, "undecodable", bad)
			for _, u := range us[:6] {
				fmt.Fprintf(out, "  %s %s>%s id=%d %+v\n", u.Kind, u.Src, u.Dst, u.ID, u.Seg.Meta)
			}
		}
		fmt.Fprintln(out, tr, "closed after", time.Since(t0))
	}
}
