// Driver for C17: the low-entropy payload codec (pkg/protocol/low_entropy.go), its metadata
// validation and the PDEP/PEXT primitives of pkg/mathext (portable loops and BMI2 instructions).
// Writes case lines for the extracted Coq model and the implementation's observations, and
// judges every case directly against docs/protocol.md / the Intel definition of PDEP/PEXT
// with references written here (independent of both the model and mieru's code).
package main

import (
	"bytes"
	"fmt"
	mbits "math/bits"
	"strings"

	"github.com/enfein/mieru/v3/pkg/mathext"
	"github.com/enfein/mieru/v3/pkg/protocol"
	"verifharness/vh"
)

// ---------------------------------------------------------------- references (property text)

// refPdep: Intel SDM pseudo code of PDEP, position by position.
func refPdep(x, mask uint64) uint64 {
	var dest uint64
	k := 0
	for m := 0; m < 64; m++ {
		if (mask>>uint(m))&1 == 1 {
			if (x>>uint(k))&1 == 1 {
				dest |= uint64(1) << uint(m)
			}
			k++
		}
	}
	return dest
}

// refPext: Intel SDM pseudo code of PEXT.
func refPext(x, mask uint64) uint64 {
	var dest uint64
	k := 0
	for m := 0; m < 64; m++ {
		if (mask>>uint(m))&1 == 1 {
			if (x>>uint(m))&1 == 1 {
				dest |= uint64(1) << uint(k)
			}
			k++
		}
	}
	return dest
}

func popc(x uint64) int {
	n := 0
	for ; x != 0; x >>= 1 {
		n += int(x & 1)
	}
	return n
}

func lowOnes(n int) uint64 {
	if n >= 64 {
		return ^uint64(0)
	}
	return uint64(1)<<uint(n) - 1
}

// docs/protocol.md mode table: mode -> (C, one-bits of the half mask)
func refParams(mode int64) (int, int, bool) {
	switch mode {
	case 1:
		return 4, 16, true
	case 2:
		return 5, 20, true
	case 3:
		return 6, 24, true
	case 4:
		return 7, 28, true
	}
	return 0, 0, false
}

// docs/protocol.md: 0 = none, 1..15 right by that many bits, 16*k (k=1..15) left by k bits.
func refValidRot(rot int64) bool {
	return rot == 0 || (rot >= 1 && rot <= 15) || (rot >= 16 && rot <= 240 && rot%16 == 0)
}

// mask for chunk i: the initial mask rotated by i*R bits in the direction encoded by rot.
func refChunkMask(init uint64, rot int64, i uint64) uint64 {
	if rot == 0 {
		return init
	}
	var s uint64 // right rotation amount mod 64
	if rot <= 15 {
		s = (i % 64) * uint64(rot) % 64
	} else {
		s = (64 - (i%64)*uint64(rot/16)%64) % 64
	}
	if s == 0 {
		return init
	}
	return init>>s | init<<(64-s)
}

func ceilDiv(a, b int) int { return (a + b - 1) / b }

// refEncode: bit-level encoder written from docs/protocol.md. Parameters must be valid.
func refEncode(body []byte, c int, hm uint32, rot int64, pb uint8) []byte {
	init := uint64(hm)<<32 | uint64(hm)
	nch := ceilDiv(len(body), c)
	out := make([]byte, 0, 8*nch)
	for i := 0; i < nch; i++ {
		g := body[i*c:]
		if len(g) > c {
			g = g[:c]
		}
		l := len(g)
		mask := refChunkMask(init, rot, uint64(i))
		var word uint64
		if pb == 1 {
			word = ^uint64(0)
		}
		j := 0 // index of the next source bit (0 = least significant bit of the big-endian chunk value)
		for m := 0; m < 64 && j < 8*l; m++ {
			if (mask>>uint(m))&1 == 0 {
				continue
			}
			bit := (g[l-1-j/8] >> uint(j%8)) & 1
			if bit == 1 {
				word |= uint64(1) << uint(m)
			} else {
				word &^= uint64(1) << uint(m)
			}
			j++
		}
		for b := 7; b >= 0; b-- {
			out = append(out, byte(word>>uint(8*b)))
		}
	}
	return out
}

// refDataMask: positions of chunk i that carry source bits.
func refDataMask(c int, n int, hm uint32, rot int64, i int) uint64 {
	init := uint64(hm)<<32 | uint64(hm)
	mask := refChunkMask(init, rot, uint64(i))
	l := n - i*c
	if l > c {
		l = c
	}
	var dm uint64
	j := 0
	for m := 0; m < 64 && j < 8*l; m++ {
		if (mask>>uint(m))&1 == 1 {
			dm |= uint64(1) << uint(m)
			j++
		}
	}
	return dm
}

// ---------------------------------------------------------------- glue

func classify(err error) string {
	s := err.Error()
	for _, p := range [][2]string{
		{"is not low entropy data", "ERR-PROTO"},
		{"invalid low entropy mode", "ERR-MODE"},
		{"one-bits", "ERR-WEIGHT"},
		{"invalid low entropy mask rotation", "ERR-ROT"},
		{"invalid low entropy padding bit", "ERR-PADBIT"},
		{"invalid low entropy chunk index", "ERR-INDEX"},
		{"invalid extracted payload length", "ERR-LEN"},
		{"exceeds", "ERR-TOOBIG"},
		{"mixed padding", "ERR-MIXED"},
		{"non-uniform", "ERR-NONUNIFORM"},
		{"invalid low entropy payload length", "ERR-PLEN"},
		{"low entropy payload length is", "ERR-PLEN"},
		{"encoded payload length is", "ERR-ENCLEN"},
		{"encrypted payload length is", "ERR-ENCLEN"},
	} {
		if strings.Contains(s, p[0]) {
			return p[1]
		}
	}
	return "ERR-OTHER:" + strings.ReplaceAll(s, " ", "_")
}

func try(f func()) (p string) {
	defer func() {
		if e := recover(); e != nil {
			p = fmt.Sprint(e)
		}
	}()
	f()
	return ""
}

func short(b []byte) string {
	if len(b) > 96 {
		return fmt.Sprintf("%x...(%d bytes)", b[:96], len(b))
	}
	return vh.Hex(b)
}

type drv struct {
	r  *vh.Run
	hw bool
}

type params struct {
	mode int32
	hm   uint32
	rot  int32
}

func (p params) js(extra map[string]interface{}) map[string]interface{} {
	m := map[string]interface{}{"mode": p.mode, "half_mask": fmt.Sprintf("%08x", p.hm), "rotation": p.rot}
	for k, v := range extra {
		m[k] = v
	}
	return m
}

// enc runs the Go encoder, writes the E case and returns (output, class) where class is "" on success.
func (d *drv) enc(body []byte, p params, pb uint8) ([]byte, string) {
	var out []byte
	var err error
	line := fmt.Sprintf("E %s %d %x %d %d", vh.Hex(body), p.mode, p.hm, p.rot, pb)
	if pn := try(func() { out, err = protocol.VerifLEEncode(body, p.mode, p.hm, p.rot, pb) }); pn != "" {
		d.r.Case(line, "PANIC")
		d.r.Fail("panic-encode", "encoder panicked: "+pn, p.js(map[string]interface{}{"body": short(body), "pb": pb}))
		return nil, "PANIC"
	}
	if err != nil {
		cl := classify(err)
		d.r.Case(line, cl)
		return nil, cl
	}
	d.r.Case(line, vh.Hex(out))
	return out, ""
}

// dec runs the Go decoder, writes the D case, applies the canonicity oracle to every accepted input.
func (d *drv) dec(encoded []byte, n int, p params) ([]byte, string) {
	var out []byte
	var err error
	line := fmt.Sprintf("D %s %d %d %x %d", vh.Hex(encoded), n, p.mode, p.hm, p.rot)
	if pn := try(func() { out, err = protocol.VerifLEDecode(encoded, n, p.mode, p.hm, p.rot) }); pn != "" {
		d.r.Case(line, "PANIC")
		d.r.Fail("panic-decode", "decoder panicked: "+pn, p.js(map[string]interface{}{"encoded": short(encoded), "n": n}))
		return nil, "PANIC"
	}
	if err != nil {
		cl := classify(err)
		d.r.Case(line, cl)
		return nil, cl
	}
	d.r.Case(line, vh.Hex(out))
	// canonicity: an accepted stream is the encoding of the decoded body under one of the two padding bits
	c, w, okm := refParams(int64(p.mode))
	cs := p.js(map[string]interface{}{"encoded": short(encoded), "n": n})
	if !okm || popc(uint64(p.hm)) != w || !refValidRot(int64(p.rot)) {
		d.r.Fail("accepted-invalid-params", "decoder accepted invalid mode/mask/rotation", cs)
		return out, ""
	}
	if len(out) != n || n < 1 {
		d.r.Fail("decoder-wrong-length", fmt.Sprintf("decoder returned %d bytes for extracted length %d", len(out), n), cs)
		return out, ""
	}
	if !bytes.Equal(refEncode(out, c, p.hm, int64(p.rot), 0), encoded) && !bytes.Equal(refEncode(out, c, p.hm, int64(p.rot), 1), encoded) {
		d.r.Fail("decoder-accepts-noncanonical", "accepted stream is not the encoding of its decoded body under padding bit 0 or 1", cs)
	}
	d.r.Count("D-accepted")
	return out, ""
}

func lenClass(n, c int) string {
	k := ceilDiv(n, c)
	var kc string
	switch {
	case k <= 2:
		kc = fmt.Sprint(k)
	case k <= 64:
		kc = "3..64"
	case k < 8190:
		kc = "65..8189"
	default:
		kc = fmt.Sprint(k)
	}
	var pc string
	switch {
	case n%c == 0:
		pc = "full"
	case n%c == 1:
		pc = "full+1"
	case n%c == c-1:
		pc = "full-1"
	default:
		pc = "mid"
	}
	return kc + "/" + pc
}

func rotClass(rot int32, n, c int) string {
	if rot == 0 {
		return "none"
	}
	k := ceilDiv(n, c)
	s := int(rot)
	dir := "r"
	if rot >= 16 {
		s = int(rot) / 16
		dir = "l"
	}
	wrap := "nowrap"
	if (k-1)*s >= 64 {
		wrap = "wrap"
	}
	return fmt.Sprintf("%s%d/%s", dir, s, wrap)
}

// roundTrip: E then D on the Go output with all oracles of the lossless/size/reference-encoder kind.
func (d *drv) roundTrip(body []byte, p params, pb uint8, maskClass string) []byte {
	r := d.r
	c, _, _ := refParams(int64(p.mode))
	cs := p.js(map[string]interface{}{"body": short(body), "pb": pb})
	enc, cl := d.enc(body, p, pb)
	r.Count("roundtrip")
	r.Distinct(fmt.Sprintf("rt/%d/%s/%s/%d/%s", p.mode, lenClass(len(body), c), rotClass(p.rot, len(body), c), pb, maskClass))
	if cl != "" {
		r.Fail("encoder-rejects-valid", "encoder refused valid input: "+cl, cs)
		return nil
	}
	if len(enc) != 8*ceilDiv(len(body), c) {
		r.Fail("encoded-length-wrong", fmt.Sprintf("encoded length %d, want %d", len(enc), 8*ceilDiv(len(body), c)), cs)
	}
	if !bytes.Equal(enc, refEncode(body, c, p.hm, int64(p.rot), pb)) {
		r.Fail("encoder-differs-from-document", "encoder output differs from the bit-level reference of docs/protocol.md", cs)
	}
	if pb == protocol.VerifLEPaddingBit() {
		var pe []byte
		var err error
		if pn := try(func() { pe, err = protocol.VerifLEEncodeProd(body, p.mode, p.hm, p.rot) }); pn != "" || err != nil || !bytes.Equal(pe, enc) {
			r.Fail("production-encoder-differs", "encodeLowEntropyPayload differs from encodeLowEntropyPayloadWithPaddingBit(host bit)", cs)
		}
	}
	out, cl := d.dec(enc, len(body), p)
	if cl != "" {
		r.Fail("roundtrip-rejected", "decoder refused the encoder's output: "+cl, cs)
		return enc
	}
	if !bytes.Equal(out, body) {
		r.Fail("roundtrip-lossy", "decode(encode(b)) != b", cs)
	}
	return enc
}

// ---------------------------------------------------------------- masks

func contigMask(w int) uint32 { return uint32(lowOnes(w)) }

func altMask(w int) uint32 {
	m := uint32(0x55555555)
	for b := 1; popc(uint64(m)) < w; b += 2 {
		m |= 1 << uint(b)
	}
	for b := 0; popc(uint64(m)) > w; b += 2 {
		m &^= 1 << uint(b)
	}
	return m
}

func randMask(g *vh.Rng, w int) uint32 {
	pos := make([]int, 32)
	for i := range pos {
		pos[i] = i
	}
	var m uint32
	for i := 0; i < w && i < 32; i++ {
		j := i + g.Intn(32-i)
		pos[i], pos[j] = pos[j], pos[i]
		m |= 1 << uint(pos[i])
	}
	return m
}

func validRots() []int32 {
	out := []int32{0}
	for k := int32(1); k <= 15; k++ {
		out = append(out, k)
	}
	for k := int32(1); k <= 15; k++ {
		out = append(out, 16*k)
	}
	return out
}

func (d *drv) randBody(n int) []byte {
	switch d.r.Rng.Intn(12) {
	case 0:
		return make([]byte, n)
	case 1:
		return bytes.Repeat([]byte{0xff}, n)
	}
	return d.r.Rng.Bytes(n)
}

func (d *drv) randParams(mode int32) params {
	_, w, _ := refParams(int64(mode))
	rots := validRots()
	return params{mode, randMask(d.r.Rng, w), rots[d.r.Rng.Intn(len(rots))]}
}

// ---------------------------------------------------------------- PDEP / PEXT

func (d *drv) pair(x, m uint64, class string) {
	r := d.r
	var pg, eg, pp, ep, ph, eh uint64
	hwS := 0
	if d.hw {
		hwS = 1
	}
	line := fmt.Sprintf("P %x %x %d", x, m, hwS)
	if pn := try(func() {
		pg, eg = mathext.VerifPdepGeneric(x, m), mathext.VerifPextGeneric(x, m)
		pp, ep = mathext.PDEP(x, m), mathext.PEXT(x, m)
		if d.hw {
			ph, eh = mathext.VerifPdepHW(x, m), mathext.VerifPextHW(x, m)
		}
	}); pn != "" {
		r.Case(line, "PANIC")
		r.Fail("panic-pdep-pext", pn, map[string]string{"x": fmt.Sprintf("%x", x), "mask": fmt.Sprintf("%x", m)})
		return
	}
	if d.hw {
		r.Case(line, fmt.Sprintf("%x %x %x %x %x %x", pg, eg, pp, ep, ph, eh))
	} else {
		r.Case(line, fmt.Sprintf("%x %x %x %x - -", pg, eg, pp, ep))
	}
	r.Count("P")
	r.Distinct(fmt.Sprintf("P/%s/w%d", class, popc(m)/8))
	cs := map[string]string{"x": fmt.Sprintf("%x", x), "mask": fmt.Sprintf("%x", m)}
	wd, we := refPdep(x, m), refPext(x, m)
	if pg != wd {
		r.Fail("pdep-generic-differs-from-intel-definition", fmt.Sprintf("pdepGeneric=%x want %x", pg, wd), cs)
	}
	if eg != we {
		r.Fail("pext-generic-differs-from-intel-definition", fmt.Sprintf("pextGeneric=%x want %x", eg, we), cs)
	}
	if pp != wd {
		r.Fail("pdep-dispatch-differs-from-intel-definition", fmt.Sprintf("PDEP=%x want %x", pp, wd), cs)
	}
	if ep != we {
		r.Fail("pext-dispatch-differs-from-intel-definition", fmt.Sprintf("PEXT=%x want %x", ep, we), cs)
	}
	if d.hw {
		if ph != pg {
			r.Fail("pdep-bmi2-differs-from-generic", fmt.Sprintf("pdepBMI2=%x pdepGeneric=%x", ph, pg), cs)
		}
		if eh != eg {
			r.Fail("pext-bmi2-differs-from-generic", fmt.Sprintf("pextBMI2=%x pextGeneric=%x", eh, eg), cs)
		}
		if ph != wd {
			r.Fail("pdep-bmi2-differs-from-intel-definition", fmt.Sprintf("pdepBMI2=%x want %x", ph, wd), cs)
		}
		if eh != we {
			r.Fail("pext-bmi2-differs-from-intel-definition", fmt.Sprintf("pextBMI2=%x want %x", eh, we), cs)
		}
	}
	// laws, on the dispatching entry points
	if mathext.PEXT(pp, m) != x&lowOnes(popc(m)) {
		r.Fail("pext-pdep-law", "pext(pdep(x,m),m) != x & lowbits(popcount m)", cs)
	}
	if mathext.PDEP(ep, m) != x&m {
		r.Fail("pdep-pext-law", "pdep(pext(x,m),m) != x & m", cs)
	}
}

func (d *drv) pdepPext() {
	g := d.r.Rng
	var special []uint64
	special = append(special, 0, ^uint64(0))
	for b := 0; b < 64; b++ {
		special = append(special, uint64(1)<<uint(b))
	}
	for b := 0; b < 64; b++ {
		special = append(special, ^(uint64(1) << uint(b)))
	}
	for _, k := range []int{1, 2, 7, 8, 9, 16, 31, 32, 33, 48, 56, 63} {
		special = append(special, lowOnes(k), ^lowOnes(k), lowOnes(k)<<uint((64-k)/2))
	}
	special = append(special, 0x5555555555555555, 0xaaaaaaaaaaaaaaaa, 0x0f0f0f0f0f0f0f0f, 0xf0f0f0f0f0f0f0f0,
		0x00ff00ff00ff00ff, 0xffff0000ffff0000, 0x8000000000000001, 0x0123456789abcdef)
	for mode := 1; mode <= 4; mode++ {
		_, w, _ := refParams(int64(mode))
		special = append(special, mathext.RepeatUint32(contigMask(w)), mathext.RepeatUint32(altMask(w)), mathext.RepeatUint32(randMask(g, w)))
	}
	core := []uint64{0, ^uint64(0), 0x5555555555555555, 0xaaaaaaaaaaaaaaaa, 0x0f0f0f0f0f0f0f0f, 1, 1 << 63, g.U64(), g.U64()}
	if d.r.Thorough() {
		for _, m := range special {
			for _, x := range special {
				d.pair(x, m, "special")
			}
		}
	} else {
		for _, m := range special {
			for _, x := range core {
				d.pair(x, m, "special")
			}
		}
		for _, m := range core {
			for _, x := range special {
				d.pair(x, m, "special")
			}
		}
	}
	total := 20000
	if d.r.Thorough() {
		total = 1050000
	}
	for i := d.r.Rep.Distribution["P"]; i < total; i++ {
		var x, m uint64
		class := "random"
		switch g.Intn(8) {
		case 0:
			m, class = g.U64()&g.U64()&g.U64(), "sparse"
		case 1:
			m, class = g.U64()|g.U64()|g.U64(), "dense"
		case 2:
			m, class = special[g.Intn(len(special))], "special-mask"
		case 3:
			_, w, _ := refParams(int64(1 + g.Intn(4)))
			m, class = mbits.RotateLeft64(mathext.RepeatUint32(randMask(g, w)), g.Intn(64)), "codec-mask"
		default:
			m = g.U64()
		}
		switch g.Intn(6) {
		case 0:
			x = g.U64() & g.U64()
		case 1:
			x = g.U64() | g.U64()
		case 2:
			x = special[g.Intn(len(special))]
		default:
			x = g.U64()
		}
		d.pair(x, m, class)
	}
}

// ---------------------------------------------------------------- small total functions

func (d *drv) smallFunctions() {
	r := d.r
	for rot := int32(-300); rot <= 600; rot++ {
		v := protocol.VerifLEValidRotation(rot)
		r.Case(fmt.Sprintf("V %d", rot), map[bool]string{true: "1", false: "0"}[v])
		r.Count("V")
		if v != refValidRot(int64(rot)) {
			r.Fail("rotation-validity-wrong", fmt.Sprintf("isValidLowEntropyRotation(%d)=%v", rot, v), map[string]int32{"rotation": rot})
		}
	}
	for mode := int32(-3); mode <= 300; mode++ {
		c, w, err := protocol.VerifLEParams(mode)
		rc, rw, ok := refParams(int64(mode))
		if err != nil {
			r.Case(fmt.Sprintf("M %d", mode), classify(err))
		} else {
			r.Case(fmt.Sprintf("M %d", mode), fmt.Sprintf("%d %d", c, w))
		}
		r.Count("M")
		if (err == nil) != ok || (ok && (c != rc || w != rw)) {
			r.Fail("mode-params-wrong", fmt.Sprintf("buildLowEntropyParams(%d) = %d %d %v", mode, c, w, err), map[string]int32{"mode": mode})
		}
	}
	maxN := 70000
	for mode := int32(0); mode <= 5; mode++ {
		c, _, ok := refParams(int64(mode))
		for n := -1; n <= maxN; n++ {
			var v uint16
			var err error
			if pn := try(func() { v, err = protocol.VerifLEEncodedLen(n, mode) }); pn != "" {
				r.Case(fmt.Sprintf("N %d %d", n, mode), "PANIC")
				r.Fail("panic-encoded-len", pn, map[string]int{"n": n, "mode": int(mode)})
				continue
			}
			want := ""
			switch {
			case !ok:
				want = "ERR-MODE"
			case n <= 0:
				want = "ERR-LEN"
			case ceilDiv(n, c) > 8191: // 8*chunks must fit the 16-bit payload length field
				want = "ERR-TOOBIG"
			default:
				want = fmt.Sprint(8 * ceilDiv(n, c))
			}
			got := ""
			if err != nil {
				got = classify(err)
			} else {
				got = fmt.Sprint(v)
			}
			r.Case(fmt.Sprintf("N %d %d", n, mode), got)
			r.Count("N")
			if got != want {
				r.Fail("enclen-wrong", fmt.Sprintf("lowEntropyEncodedPayloadLen(%d, mode %d) = %s, want %s", n, mode, got, want), map[string]int{"n": n, "mode": int(mode)})
			}
		}
	}
	// chunk masks
	g := r.Rng
	inits := []uint64{0x0f0f0f0f0f0f0f0f, 1, 1 << 63, 0x8000000000000001, 0x0123456789abcdef, mathext.RepeatUint32(randMask(g, 16)),
		mathext.RepeatUint32(randMask(g, 28)), g.U64(), g.U64(), 0, ^uint64(0)}
	rots := append(validRots(), -1, 17, 31, 241, 255, 256, 1000, -16)
	for _, init := range inits {
		for _, rot := range rots {
			idxs := []int{-1, 0, 1, 2, 3, 31, 32, 63, 64, 65, 127, 128, 8190, g.Intn(8191), g.Intn(1 << 30), int(g.U64() >> 2), -int(g.U64()>>2) - 1}
			for _, idx := range idxs {
				var v uint64
				var err error
				line := fmt.Sprintf("R %x %d %d", init, rot, idx)
				if pn := try(func() { v, err = protocol.VerifLEChunkMask(init, rot, idx) }); pn != "" {
					r.Case(line, "PANIC")
					r.Fail("panic-chunk-mask", pn, map[string]interface{}{"init": fmt.Sprintf("%x", init), "rot": rot, "idx": idx})
					continue
				}
				r.Count("R")
				cs := map[string]interface{}{"init": fmt.Sprintf("%x", init), "rot": rot, "idx": idx}
				if err != nil {
					r.Case(line, classify(err))
					if refValidRot(int64(rot)) && idx >= 0 {
						r.Fail("chunk-mask-rejects-valid", err.Error(), cs)
					}
					continue
				}
				r.Case(line, fmt.Sprintf("%x", v))
				if !refValidRot(int64(rot)) || idx < 0 {
					r.Fail("accepted-invalid-params", "lowEntropyChunkMask accepted an invalid rotation or index", cs)
				} else if v != refChunkMask(init, int64(rot), uint64(idx)) {
					r.Fail("chunk-mask-wrong-rotation", fmt.Sprintf("mask %x, want %x", v, refChunkMask(init, int64(rot), uint64(idx))), cs)
				}
				r.Distinct(fmt.Sprintf("R/%s", rotClass(rot, idx+1, 1)))
			}
		}
	}
}

// ---------------------------------------------------------------- codec

func (d *drv) golden() {
	r := d.r
	p := params{1, 0x0f0f0f0f, 0}
	body := []byte{0x12, 0x34, 0x56, 0x78}
	e0 := d.roundTrip(body, p, 0, "doc")
	e1 := d.roundTrip(body, p, 1, "doc")
	if !bytes.Equal(e0, []byte{1, 2, 3, 4, 5, 6, 7, 8}) || !bytes.Equal(e1, []byte{0xf1, 0xf2, 0xf3, 0xf4, 0xf5, 0xf6, 0xf7, 0xf8}) {
		r.Fail("golden-vector-differs", fmt.Sprintf("documented example encodes to %x / %x", e0, e1), nil)
	}
	r.Count("golden")
}

func (d *drv) codecSmall() {
	r := d.r
	g := r.Rng
	rots := validRots()
	for mode := int32(1); mode <= 4; mode++ {
		_, w, _ := refParams(int64(mode))
		for n := 1; n <= 64; n++ {
			nm, _ := protocol.VerifLENewHalfMask(mode)
			masks := []struct {
				m  uint32
				cl string
			}{{contigMask(w), "contig"}, {altMask(w), "alt"}, {randMask(g, w), "rand"}, {nm, "new"}}
			if popc(uint64(nm)) != w {
				r.Fail("new-half-mask-wrong-weight", fmt.Sprintf("newLowEntropyHalfMask(%d) = %08x", mode, nm), nil)
				masks = masks[:3]
			}
			for _, mk := range masks {
				rs := rots
				if !r.Thorough() && n > 20 {
					rs = []int32{rots[g.Intn(31)], rots[g.Intn(31)]}
				}
				for _, rot := range rs {
					for pb := uint8(0); pb <= 1; pb++ {
						d.roundTrip(d.randBody(n), params{mode, mk.m, rot}, pb, mk.cl)
					}
				}
			}
		}
	}
}

func (d *drv) codecLarge() {
	r := d.r
	g := r.Rng
	type kl struct{ k, off int } // body length k*C + off
	for mode := int32(1); mode <= 4; mode++ {
		c, _, _ := refParams(int64(mode))
		var ks []kl
		all := func(k int) { ks = append(ks, kl{k, -1}, kl{k, 0}, kl{k, 1}) }
		one := func(k, i int) { ks = append(ks, kl{k, i%3 - 1}) }
		// The extracted model costs ~40 us per chunk, so the number of large bodies is limited, not their size.
		if r.Thorough() {
			for k := 1; k <= 400; k++ {
				all(k)
			}
			for k, i := 401, 0; k <= 8181; k, i = k+61, i+1 {
				if i%4 == int(mode)-1 {
					one(k, i/4)
				}
			}
			for k := 8182; k <= 8189; k++ {
				if k%4 == int(mode)-1 {
					one(k, k/4)
				}
			}
			all(8190)
			all(8191)
		} else {
			for k := 1; k <= 20; k++ {
				all(k)
			}
			for k, i := 32, int(mode); k <= 8191; k, i = k*2, i+1 {
				one(k, i)
			}
			for i := 0; i < 3; i++ {
				one(g.Range(21, 2000), g.Intn(3))
			}
			if mode%2 == 0 {
				ks = append(ks, kl{8190, 1}, kl{8191, 0}, kl{8191, 1})
			} else {
				ks = append(ks, kl{8191, -1}, kl{8191, 0}, kl{8191, 1})
			}
		}
		for _, e := range ks {
			{
				n := e.k*c + e.off
				if n < 1 {
					continue
				}
				p := d.randParams(mode)
				pb := uint8(g.Intn(2))
				if n > 8191*c {
					// one byte more than the largest representable body
					body := g.Bytes(n)
					_, cl := d.enc(body, p, pb)
					r.Count("too-big")
					if cl == "" {
						r.Fail("oversize-accepted", fmt.Sprintf("encoder accepted %d bytes in mode %d (more than 8191 chunks)", n, mode), p.js(nil))
					}
					_, cl = d.dec(g.Bytes(8), n, p)
					if cl == "" {
						r.Fail("oversize-accepted", fmt.Sprintf("decoder accepted extracted length %d in mode %d", n, mode), p.js(nil))
					}
					continue
				}
				d.roundTrip(d.randBody(n), p, pb, "rand")
			}
		}
		// empty body
		p := d.randParams(mode)
		if _, cl := d.enc(nil, p, 0); cl == "" {
			r.Fail("empty-body-accepted", "encoder accepted an empty body", p.js(nil))
		}
		if _, cl := d.dec(nil, 0, p); cl == "" {
			r.Fail("empty-body-accepted", "decoder accepted extracted length 0", p.js(nil))
		}
		if _, cl := d.dec(g.Bytes(8), 0, p); cl == "" {
			r.Fail("empty-body-accepted", "decoder accepted extracted length 0 with one chunk", p.js(nil))
		}
		if _, cl := d.dec(g.Bytes(8), -1, p); cl == "" {
			r.Fail("empty-body-accepted", "decoder accepted extracted length -1", p.js(nil))
		}
		r.Count("empty")
	}
}

func (d *drv) rejection() {
	r := d.r
	g := r.Rng
	reps := 2
	if r.Thorough() {
		reps = 12
	}
	for rep := 0; rep < reps; rep++ {
		for mode := int32(1); mode <= 4; mode++ {
			c, w, _ := refParams(int64(mode))
			good := d.randParams(mode)
			n := g.Range(1, 40)
			body := g.Bytes(n)
			encGood := refEncode(body, c, good.hm, int64(good.rot), 0)
			var bad []params
			for _, ww := range []int{w - 1, w + 1, 0, 32, w - 4, w + 4} {
				bad = append(bad, params{mode, randMask(g, ww), good.rot})
			}
			for _, m := range []int32{0, 5, -1, 255, 256, 8, -2147483648, 2147483647} {
				bad = append(bad, params{m, good.hm, good.rot})
			}
			for rot := int32(16); rot <= 255; rot++ {
				if rot%16 != 0 {
					if rep == 0 || r.Thorough() || g.Intn(8) == 0 {
						bad = append(bad, params{mode, good.hm, rot})
					}
				}
			}
			for _, rot := range []int32{17, 241, 256, -1, -16, 272, 2147483647, -2147483648} {
				bad = append(bad, params{mode, good.hm, rot})
			}
			for _, p := range bad {
				_, cl := d.enc(body, p, uint8(g.Intn(2)))
				r.Count("reject-params")
				if cl == "" {
					r.Fail("accepted-invalid-params", "encoder accepted invalid mode/mask/rotation", p.js(nil))
				}
				// dec reports accepted-invalid-params itself
				d.dec(encGood, n, p)
			}
			for _, pb := range []uint8{2, 3, 128, 255} {
				_, cl := d.enc(body, good, pb)
				r.Count("reject-padbit")
				if cl == "" {
					r.Fail("accepted-invalid-params", fmt.Sprintf("encoder accepted padding bit %d", pb), good.js(nil))
				}
			}
			// several things wrong at once: which error wins is compared with the model
			d.enc(nil, params{0, 0, 17}, 2)
			d.enc(nil, params{mode, good.hm ^ 1, 17}, 2)
			d.enc(nil, params{mode, good.hm, 17}, 2)
			d.enc(nil, good, 2)
			d.dec(nil, 0, params{mode, good.hm ^ 1, 17})
			d.dec(g.Bytes(7), 0, params{mode, good.hm, 17})
			r.Distinct(fmt.Sprintf("reject/%d", mode))
		}
	}
}

func (d *drv) malformed() {
	r := d.r
	g := r.Rng
	rounds := 100
	if r.Thorough() {
		rounds = 1500
	}
	for it := 0; it < rounds; it++ {
		mode := int32(1 + g.Intn(4))
		c, _, _ := refParams(int64(mode))
		p := d.randParams(mode)
		var n int
		switch g.Intn(20) {
		case 0, 1, 2:
			n = g.Range(1, c)
		case 3, 4, 5:
			n = c * g.Range(1, 30)
		case 6:
			n = g.Range(1, 3000)
		default:
			n = g.Range(1, 200)
		}
		body := d.randBody(n)
		pb := uint8(g.Intn(2))
		var enc []byte
		var err error
		if pn := try(func() { enc, err = protocol.VerifLEEncode(body, p.mode, p.hm, p.rot, pb) }); pn != "" || err != nil {
			r.Fail("encoder-rejects-valid", fmt.Sprintf("%v %v", pn, err), p.js(map[string]interface{}{"body": short(body), "pb": pb}))
			continue
		}
		nch := len(enc) / 8
		cs := func(extra map[string]interface{}) map[string]interface{} {
			m := p.js(map[string]interface{}{"body": short(body), "pb": pb, "seed": r.Seed, "round": it})
			for k, v := range extra {
				m[k] = v
			}
			return m
		}
		bitsOf := func(mask uint64) []int {
			var out []int
			for b := 0; b < 64; b++ {
				if (mask>>uint(b))&1 == 1 {
					out = append(out, b)
				}
			}
			return out
		}
		flip := func(e []byte, chunk, bit int) []byte {
			o := append([]byte(nil), e...)
			o[chunk*8+7-bit/8] ^= 1 << uint(bit%8)
			return o
		}
		// (i) one padding-position bit flipped
		for rep := 0; rep < 3; rep++ {
			ch := g.Intn(nch)
			if rep == 1 {
				ch = nch - 1
			}
			if rep == 2 {
				ch = 0
			}
			pos := bitsOf(^refDataMask(c, n, p.hm, int64(p.rot), ch))
			bit := pos[g.Intn(len(pos))]
			_, cl := d.dec(flip(enc, ch, bit), n, p)
			r.Count("mal-padding-flip")
			r.Distinct(fmt.Sprintf("mal/padflip/%d/%s/%v", mode, lenClass(n, c), ch == 0))
			if cl == "" {
				r.Fail("mixed-padding-accepted", fmt.Sprintf("decoder accepted a stream with padding bit %d of chunk %d flipped", bit, ch), cs(map[string]interface{}{"chunk": ch, "bit": bit}))
			}
		}
		// (ii) one data-position bit flipped
		{
			ch := g.Intn(nch)
			dm := refDataMask(c, n, p.hm, int64(p.rot), ch)
			pos := bitsOf(dm)
			j := g.Intn(len(pos))
			l := n - ch*c
			if l > c {
				l = c
			}
			out, cl := d.dec(flip(enc, ch, pos[j]), n, p)
			r.Count("mal-data-flip")
			want := append([]byte(nil), body...)
			want[ch*c+l-1-j/8] ^= 1 << uint(j%8)
			if cl != "" {
				r.Fail("data-flip-rejected", "decoder refused a stream that differs in a data position only: "+cl, cs(map[string]interface{}{"chunk": ch, "bit": pos[j]}))
			} else if !bytes.Equal(out, want) {
				r.Fail("data-flip-wrong-body", "flipping data position changed other than the corresponding body bit", cs(map[string]interface{}{"chunk": ch, "bit": pos[j]}))
			}
		}
		// (v) all padding inverted
		{
			inv := append([]byte(nil), enc...)
			for ch := 0; ch < nch; ch++ {
				pm := ^refDataMask(c, n, p.hm, int64(p.rot), ch)
				for b := 0; b < 8; b++ {
					inv[ch*8+7-b] ^= byte(pm >> uint(8*b))
				}
			}
			out, cl := d.dec(inv, n, p)
			r.Count("mal-polarity")
			if cl != "" || !bytes.Equal(out, body) {
				r.Fail("other-polarity-rejected", "stream with all padding inverted not decoded to the same body: "+cl, cs(nil))
			}
		}
		// (iii) wrong lengths
		for _, n2 := range []int{n - 1, n + 1, n - c, n + c, n + 8, 0, -n} {
			_, cl := d.dec(enc, n2, p)
			r.Count("mal-length-n")
			consistent := n2 >= 1 && 8*ceilDiv(n2, c) == len(enc)
			if cl == "" && !consistent {
				r.Fail("inconsistent-lengths-accepted", fmt.Sprintf("decoder accepted %d encoded bytes for extracted length %d", len(enc), n2), cs(map[string]interface{}{"n2": n2}))
			}
			if consistent {
				r.Distinct(fmt.Sprintf("mal/len-consistent/%d/%d/%v", mode, n2-n, cl == ""))
			}
		}
		for _, dl := range []int{-8, -7, -1, 1, 2, 7, 8} {
			if it%3 != 0 && dl != -8 && dl != 8 && dl != 1 {
				continue
			}
			var e2 []byte
			if dl < 0 {
				if -dl > len(enc) {
					continue
				}
				e2 = enc[:len(enc)+dl]
			} else {
				e2 = append(append([]byte(nil), enc...), g.Bytes(dl)...)
			}
			_, cl := d.dec(e2, n, p)
			r.Count("mal-length-e")
			if cl == "" {
				r.Fail("inconsistent-lengths-accepted", fmt.Sprintf("decoder accepted %d encoded bytes for extracted length %d", len(e2), n), cs(map[string]interface{}{"delta": dl}))
			}
		}
	}
	// (iv) completely random strings with a plausible n
	nr := 1500
	if r.Thorough() {
		nr = 60000
	}
	for it := 0; it < nr; it++ {
		mode := int32(1 + g.Intn(4))
		if g.Intn(2) == 0 {
			mode = 4 // fewest padding positions: a random chunk passes with probability 2^-7
		}
		c, _, _ := refParams(int64(mode))
		p := d.randParams(mode)
		k := 1
		if g.Intn(3) == 0 {
			k = g.Range(1, 6)
		}
		n := k*c - g.Intn(c)
		if g.Intn(3) != 0 {
			n = k * c
		}
		e := g.Bytes(8 * k)
		if g.Intn(4) == 0 {
			// low-weight noise on a valid encoding
			e = refEncode(g.Bytes(n), c, p.hm, int64(p.rot), uint8(g.Intn(2)))
			e[g.Intn(len(e))] ^= byte(1 << uint(g.Intn(8)))
		}
		_, cl := d.dec(e, n, p)
		r.Count("mal-random")
		r.Distinct(fmt.Sprintf("mal/random/%d/%d/%v", mode, k, cl == ""))
	}
}

// ---------------------------------------------------------------- metadata

func (d *drv) metaCase(proto, mode uint8, hm uint32, epl, pl uint16, rot uint8) bool {
	r := d.r
	var err error
	line := fmt.Sprintf("T %d %d %x %d %d %d", proto, mode, hm, epl, pl, rot)
	cs := map[string]interface{}{"proto": proto, "mode": mode, "half_mask": fmt.Sprintf("%08x", hm), "extracted_len": epl, "payload_len": pl, "rotation": rot}
	if pn := try(func() { err = protocol.VerifLEValidateMeta(proto, mode, hm, epl, pl, rot) }); pn != "" {
		r.Case(line, "PANIC")
		r.Fail("panic-validate-meta", pn, cs)
		return false
	}
	if err != nil {
		r.Case(line, classify(err))
	} else {
		r.Case(line, "OK")
	}
	r.Count("T")
	c, w, okm := refParams(int64(mode))
	paramsOK := (proto == 10 || proto == 11) && okm && popc(uint64(hm)) == w && refValidRot(int64(rot))
	lensOK := paramsOK && int(epl) <= 32768 && ((epl == 0 && pl == 0) || (epl >= 1 && int(pl) == 8*ceilDiv(int(epl), c)))
	if err == nil {
		r.Count("T-accepted")
		if !paramsOK {
			r.Fail("meta-accepts-invalid-params", "metadata with a non-low-entropy protocol or invalid mode/mask/rotation accepted", cs)
		} else if !lensOK {
			r.Fail("meta-accepts-inconsistent-lengths", fmt.Sprintf("extracted length %d with payload length %d accepted in mode %d", epl, pl, mode), cs)
		}
	} else if lensOK {
		r.Fail("meta-rejects-consistent", "consistent metadata refused: "+err.Error(), cs)
	}
	r.Distinct(fmt.Sprintf("T/%v/%v/%v", paramsOK, lensOK, epl == 0))
	return err == nil
}

func (d *drv) wireCase(wire []byte, proto, mode uint8, hm uint32, epl, pl uint16, rot uint8, want []byte, mustFail bool) {
	r := d.r
	var out []byte
	var err error
	line := fmt.Sprintf("X %s %d %d %x %d %d %d", vh.Hex(wire), proto, mode, hm, epl, pl, rot)
	cs := map[string]interface{}{"wire": short(wire), "proto": proto, "mode": mode, "half_mask": fmt.Sprintf("%08x", hm), "extracted_len": epl, "payload_len": pl, "rotation": rot}
	if pn := try(func() { out, err = protocol.VerifLEWireDecode(wire, proto, mode, hm, epl, pl, rot) }); pn != "" {
		r.Case(line, "PANIC")
		r.Fail("panic-wire-decode", pn, cs)
		return
	}
	r.Count("X")
	if err != nil {
		r.Case(line, classify(err))
		if want != nil {
			r.Fail("wire-decode-rejects-valid", err.Error(), cs)
		}
		return
	}
	r.Case(line, vh.Hex(out))
	if mustFail {
		r.Fail("wire-decode-accepts-invalid", "decodeLowEntropyEncryptedPayload accepted a wire payload of the wrong length or invalid metadata", cs)
	}
	if want != nil && !bytes.Equal(out, want) {
		r.Fail("wire-decode-wrong", "decoded wire payload is not body ++ tag", cs)
	}
}

func (d *drv) wireOK(proto, mode uint8, hm uint32, epl, pl uint16, rot uint8) {
	r := d.r
	g := r.Rng
	body := d.randBody(int(epl))
	tag := g.Bytes(16)
	var enc []byte
	var err error
	pb := uint8(g.Intn(2))
	if pn := try(func() { enc, err = protocol.VerifLEEncode(body, int32(mode), hm, int32(rot), pb) }); pn != "" || err != nil {
		r.Fail("encoder-rejects-valid", fmt.Sprintf("%v %v", pn, err), map[string]interface{}{"mode": mode, "half_mask": fmt.Sprintf("%08x", hm), "rotation": rot, "n": epl})
		return
	}
	wire := append(append([]byte(nil), enc...), tag...)
	want := append(append([]byte(nil), body...), tag...)
	d.wireCase(wire, proto, mode, hm, epl, pl, rot, want, false)
	// production wire encoder -> wire decoder
	var w2 []byte
	if pn := try(func() { w2, err = protocol.VerifLEWireEncode(want, proto, mode, hm, epl, pl, rot) }); pn != "" || err != nil {
		r.Fail("wire-encode-rejects-valid", fmt.Sprintf("%v %v", pn, err), map[string]interface{}{"mode": mode, "half_mask": fmt.Sprintf("%08x", hm), "rotation": rot, "n": epl})
	} else if g.Intn(4) == 0 || epl < 64 {
		d.wireCase(w2, proto, mode, hm, epl, pl, rot, want, false)
	}
	if epl < 400 {
		// wrong wire lengths
		d.wireCase(wire[:len(wire)-1], proto, mode, hm, epl, pl, rot, nil, true)
		d.wireCase(append(append([]byte(nil), wire...), 0), proto, mode, hm, epl, pl, rot, nil, true)
		d.wireCase(enc, proto, mode, hm, epl, pl, rot, nil, true)
		if g.Intn(3) == 0 {
			d.wireCase(append(append([]byte(nil), wire...), g.Bytes(16)...), proto, mode, hm, epl, pl, rot, nil, true)
			d.wireCase(want, proto, mode, hm, epl, pl, rot, nil, len(want) != len(wire))
		}
	}
}

func (d *drv) metadata() {
	r := d.r
	g := r.Rng
	protos := []uint8{0, 1, 2, 3, 4, 5, 6, 7, 8, 9, 10, 11, 12, 255}
	modes := []uint8{0, 1, 2, 3, 4, 5, 255}
	rots := []uint8{0, 5, 15, 16, 240, 17, 241, 255}
	for _, proto := range protos {
		for _, mode := range modes {
			c, w, okm := refParams(int64(mode))
			if !okm {
				c, w = 4, 16
			}
			for mk := 0; mk < 3; mk++ {
				for _, rot := range rots {
					le := proto == 10 || proto == 11
					keep := 1
					if !r.Thorough() {
						keep = 3
						if !le {
							keep = 20
						}
					}
					hm := randMask(g, w+[]int{0, -1, 1}[mk])
					epls := []int{0, 1, c - 1, c, c + 1, 32764, 32765, 32767, 32768, 32769, 65535, g.Intn(65536), g.Range(1, 2000), 8191*c - g.Intn(3)}
					for _, epl := range epls {
						correct := 0
						if epl > 0 {
							correct = 8 * ceilDiv(epl, c)
						}
						pls := []int{0, correct, correct + 8, correct - 8, correct + 1, correct - 1, 65528, 65535, 8 * g.Intn(8192), 8}
						for _, pl := range pls {
							if pl < 0 || pl > 65535 {
								continue
							}
							if keep > 1 && g.Intn(keep) != 0 {
								continue
							}
							ok := d.metaCase(proto, mode, hm, uint16(epl), uint16(pl), rot)
							if ok && epl >= 1 && (epl <= 100 || g.Intn(map[bool]int{true: 6, false: 40}[r.Thorough()]) == 0) {
								d.wireOK(proto, mode, hm, uint16(epl), uint16(pl), rot)
							}
							if !ok && g.Intn(25) == 0 && pl <= 4096 {
								// rejected metadata: the wire decoder must refuse whatever the payload is
								d.wireCase(g.Bytes(pl+16), proto, mode, hm, uint16(epl), uint16(pl), rot, nil, true)
							}
						}
					}
				}
			}
		}
	}
	// valid metadata, small random bodies: every mode, both protocols, all rotations
	nx := 300
	if r.Thorough() {
		nx = 3000
	}
	for i := 0; i < nx; i++ {
		mode := int32(1 + g.Intn(4))
		c, _, _ := refParams(int64(mode))
		p := d.randParams(mode)
		epl := g.Range(1, 300)
		if g.Intn(50) == 0 {
			epl = g.Range(1, 8191*c)
			if epl > 32768 {
				epl = 32768
			}
		}
		pl := 8 * ceilDiv(epl, c)
		proto := uint8(10 + g.Intn(2))
		if d.metaCase(proto, uint8(mode), p.hm, uint16(epl), uint16(pl), uint8(p.rot)) {
			d.wireOK(proto, uint8(mode), p.hm, uint16(epl), uint16(pl), uint8(p.rot))
		}
		r.Distinct(fmt.Sprintf("X/%d/%s/%s", mode, lenClass(epl, c), rotClass(p.rot, epl, c)))
	}
	// empty payload: metadata accepted, the wire payload is the tag alone
	for mode := uint8(1); mode <= 4; mode++ {
		p := d.randParams(int32(mode))
		if d.metaCase(10, mode, p.hm, 0, 0, uint8(p.rot)) {
			tag := g.Bytes(16)
			d.wireCase(tag, 10, mode, p.hm, 0, 0, uint8(p.rot), nil, false)
			d.wireCase(nil, 10, mode, p.hm, 0, 0, uint8(p.rot), nil, true)
		}
	}
}

func main() {
	r := vh.Start("c17")
	defer r.Finish()
	d := &drv{r: r, hw: mathext.VerifPdepHW != nil && mathext.VerifPextHW != nil}
	r.Rep.Notes = map[string]string{"bmi2": map[bool]string{true: "present", false: "absent"}[d.hw]}
	r.Rep.Rule = "PDEP/PEXT: (x, mask) from 0, all-ones, all single-bit masks and complements, runs, alternating and nibble patterns, repeated half masks (full product in the thorough tier) then random incl. sparse/dense/codec-shaped masks (quick 20k, thorough >1M pairs), each judged against the Intel bit loop written in the driver. " +
		"Total functions (rotation validity -300..600, mode parameters -3..300, encoded length for n=-1..70000 x mode 0..5, chunk masks for all rotations x boundary indices) are enumerated. " +
		"Codec: bodies of every length 1..64 x 4 modes x {contiguous, alternating, random, production} masks x 31 rotations x both padding bits, lengths kC-1,kC,kC+1 up to the 8191-chunk maximum and one past it, random/all-zero/all-ones bodies; each encoded by the Go code, checked against a bit-level encoder written from docs/protocol.md, decoded again; " +
		"invalid modes/weights/rotations/padding bits; a malformed stream (one padding bit flipped, one data bit flipped, padding inverted, wrong lengths, random chunks) with the canonicity oracle on everything the decoder accepts; metadata grids over protocol x mode x mask weight x rotation x (extracted length, payload length) incl. the 32764/32768/65535 edges, and wire payloads body++tag. " +
		"Non-trivial/distinct = distinct (mode, chunk-count class, position of the length relative to a multiple of C, rotation direction/amount/wrap, padding bit, mask class) for round trips, and (kind, mode, outcome) classes for the malformed and metadata streams."

	d.golden()
	d.smallFunctions()
	d.pdepPext()
	d.codecSmall()
	d.rejection()
	d.malformed()
	d.metadata()
	d.codecLarge()
}
