// Driver for C11: SOCKS5 method negotiation and username/password authentication of the
// local listener (pkg/socks5/auth.go handleAuthentication, pkg/socks5/socks5.go ServeConn).
//
// The real code runs on in-memory connections (a byte slice as the client's stream, EOF at its
// end; every Write recorded as one chunk).  Two kinds of case lines:
//
//	H <ncreds> <u1> <p1> ... <input>                      handleAuthentication via the verif hook
//	  impl: <reply chunks> <A|R|T> <bytes consumed>
//	S <use_proxy> <csa> <ncreds> <u1> <p1> ... <input> <req>   Server.ServeConn
//	  impl: <leading 2-byte reply chunks> <dialed> <next stage ran> <request forwarded to the proxy>
//
// The oracle judges every case against the property text with its own RFC 1928/1929 parser:
// with credentials configured the request stage is reached only if the stream contains a
// version-1 sub-negotiation carrying a configured pair (after a greeting offering method 2);
// without credentials method 0 is accepted and method 2 is never selected.
package main

import (
	"bytes"
	"context"
	"errors"
	"fmt"
	"io"
	"net"
	"strings"
	"sync"
	"time"

	"github.com/enfein/mieru/v3/pkg/socks5"
	"verifharness/vh"
)

// ---------------------------------------------------------------- in-memory connection

type memAddr struct{}

func (memAddr) Network() string { return "mem" }
func (memAddr) String() string  { return "mem" }

type memConn struct {
	mu     sync.Mutex
	in     []byte
	pos    int
	nRead  int // Read calls
	writes [][]byte
}

func (c *memConn) Read(p []byte) (int, error) {
	c.mu.Lock()
	defer c.mu.Unlock()
	c.nRead++
	if c.pos >= len(c.in) {
		return 0, io.EOF
	}
	n := copy(p, c.in[c.pos:])
	c.pos += n
	return n, nil
}

func (c *memConn) Write(p []byte) (int, error) {
	c.mu.Lock()
	defer c.mu.Unlock()
	c.writes = append(c.writes, append([]byte(nil), p...))
	return len(p), nil
}

func (c *memConn) Close() error                     { return nil }
func (c *memConn) LocalAddr() net.Addr              { return memAddr{} }
func (c *memConn) RemoteAddr() net.Addr             { return memAddr{} }
func (c *memConn) SetDeadline(time.Time) error      { return nil }
func (c *memConn) SetReadDeadline(time.Time) error  { return nil }
func (c *memConn) SetWriteDeadline(time.Time) error { return nil }

func (c *memConn) snapshot() (writes [][]byte, pos, nRead int) {
	c.mu.Lock()
	defer c.mu.Unlock()
	return append([][]byte(nil), c.writes...), c.pos, c.nRead
}

type fakeDialer struct {
	mu           sync.Mutex
	resp         []byte
	conns        []*memConn
	user         *memConn
	writesAtDial int // number of writes to the user connection before the first dial
}

func (d *fakeDialer) DialContext(ctx context.Context) (net.Conn, error) {
	d.mu.Lock()
	defer d.mu.Unlock()
	c := &memConn{in: d.resp}
	if len(d.conns) == 0 && d.user != nil {
		w, _, _ := d.user.snapshot()
		d.writesAtDial = len(w)
	}
	d.conns = append(d.conns, c)
	return c, nil
}

// ---------------------------------------------------------------- running the implementation

type cred struct{ u, p []byte }

func toCreds(cs []cred) []socks5.Credential {
	var out []socks5.Credential
	for _, c := range cs {
		out = append(out, socks5.Credential{User: string(c.u), Password: string(c.p)})
	}
	return out
}

func newServer(useProxy, csa bool, cs []cred, d *fakeDialer) *socks5.Server {
	conf := &socks5.Config{
		UseProxy: useProxy,
		AuthOpts: socks5.Auth{ClientSideAuthentication: csa, IngressCredentials: toCreds(cs)},
	}
	if d != nil {
		conf.ProxyDialer = d
	}
	s, err := socks5.New(conf)
	if err != nil {
		panic(err)
	}
	return s
}

type hres struct {
	writes   [][]byte
	verdict  string // A (nil), R (refused), T (stream ended)
	consumed int
	nRead    int
}

func runH(cs []cred, input []byte) hres {
	s := newServer(false, false, cs, nil)
	c := &memConn{in: input}
	err := socks5.VerifC11HandleAuthentication(s, c)
	w, pos, nr := c.snapshot()
	v := "A"
	if err != nil {
		if errors.Is(err, io.EOF) || errors.Is(err, io.ErrUnexpectedEOF) {
			v = "T"
		} else {
			v = "R"
		}
	}
	return hres{w, v, pos, nr}
}

type sres struct {
	lead    [][]byte // leading 2-byte writes (the authentication stage's replies)
	all     [][]byte
	dialed  bool
	reqRead bool
	fwd     []byte
}

var cannedResp = []byte{5, 0, 0, 1, 0, 0, 0, 0, 0, 0}

func runS(useProxy, csa bool, cs []cred, input []byte) sres {
	local := useProxy == csa
	base := 0
	if local {
		base = runH(cs, input).nRead
	}
	var d *fakeDialer
	if useProxy {
		d = &fakeDialer{resp: cannedResp}
		if !csa {
			d.resp = append([]byte{5, 0}, cannedResp...)
		}
	}
	s := newServer(useProxy, csa, cs, d)
	c := &memConn{in: input}
	if d != nil {
		d.user = c
	}
	_ = s.ServeConn(c)
	w, _, nr := c.snapshot()
	var r sres
	r.all = w
	for k, x := range w {
		if len(x) != 2 {
			break
		}
		if d != nil && !local && len(d.conns) > 0 && k >= d.writesAtDial {
			break // relay placement: what follows the dial are the remote end's replies, not this listener's
		}
		r.lead = append(r.lead, x)
	}
	r.reqRead = nr > base
	if d != nil {
		d.mu.Lock()
		r.dialed = len(d.conns) > 0
		if useProxy && csa {
			for _, pc := range d.conns {
				pw, _, _ := pc.snapshot()
				for _, x := range pw {
					r.fwd = append(r.fwd, x...)
				}
			}
		}
		d.mu.Unlock()
	}
	return r
}

// ---------------------------------------------------------------- oracle: RFC 1928 section 3 / RFC 1929 section 2

type parsed struct {
	greetingOK bool // 05 n methods complete, n >= 1
	methods    []byte
	subOK      bool // ver ulen u plen p complete
	subVer     byte
	u, p       []byte
	reqOff     int // offset of the first byte after the sub-negotiation (when subOK) or after the greeting
}

func parseRFC(in []byte) parsed {
	var r parsed
	if len(in) < 2 || in[0] != 5 || in[1] == 0 {
		return r
	}
	n := int(in[1])
	if len(in) < 2+n {
		return r
	}
	r.greetingOK = true
	r.methods = in[2 : 2+n]
	r.reqOff = 2 + n
	q := in[2+n:]
	if len(q) < 2 {
		return r
	}
	r.subVer = q[0]
	ul := int(q[1])
	if len(q) < 2+ul+1 {
		return r
	}
	r.u = q[2 : 2+ul]
	pl := int(q[2+ul])
	if len(q) < 2+ul+1+pl {
		return r
	}
	r.p = q[3+ul : 3+ul+pl]
	r.subOK = true
	r.reqOff = 2 + n + 3 + ul + pl
	return r
}

func has(l []byte, b byte) bool { return bytes.IndexByte(l, b) >= 0 }

// presented: the stream offers method 2 and carries a version-1 sub-negotiation with a configured pair.
func presented(cs []cred, pr parsed) bool {
	if !pr.greetingOK || !has(pr.methods, 2) || !pr.subOK || pr.subVer != 1 {
		return false
	}
	for _, c := range cs {
		if bytes.Equal(c.u, pr.u) && bytes.Equal(c.p, pr.p) {
			return true
		}
	}
	return false
}

// boundaryShifted: (u, p) is not configured but u+sep+p equals c.u+sep+c.p for a configured c and a common separator (or none).
func boundaryShifted(cs []cred, u, p []byte) bool {
	for _, c := range cs {
		if bytes.Equal(c.u, u) && bytes.Equal(c.p, p) {
			return false
		}
	}
	for _, c := range cs {
		for _, sp := range []string{"", ":", "\x00", "/", " ", "\n", "=", "|", ",", ";", "\t"} {
			if string(u)+sp+string(p) == string(c.u)+sp+string(c.p) {
				return true
			}
		}
	}
	return false
}

func chunkStr(w [][]byte) string {
	if len(w) == 0 {
		return "-"
	}
	var s []string
	for _, x := range w {
		s = append(s, vh.Hex(x))
	}
	return strings.Join(s, ",")
}

func credFields(cs []cred) string {
	s := fmt.Sprintf("%d", len(cs))
	for _, c := range cs {
		s += " " + vh.Hex(c.u) + " " + vh.Hex(c.p)
	}
	return s
}

func credJSON(cs []cred) [][]string {
	out := [][]string{}
	for _, c := range cs {
		out = append(out, []string{vh.Hex(c.u), vh.Hex(c.p)})
	}
	return out
}

var docReplies = map[string]bool{"-": true, "05ff": true, "0500": true, "0502": true, "0502,0100": true, "0502,0101": true}

type drv struct {
	r *vh.Run
}

func b2s(b bool) string {
	if b {
		return "1"
	}
	return "0"
}

func methodClass(pr parsed) string {
	if !pr.greetingOK {
		return "nogreeting"
	}
	l := "n1"
	switch {
	case len(pr.methods) >= 255:
		l = "n255"
	case len(pr.methods) > 1:
		l = "n2+"
	}
	other := false
	for _, m := range pr.methods {
		if m != 0 && m != 2 {
			other = true
		}
	}
	return fmt.Sprintf("%s/0=%v/2=%v/x=%v", l, has(pr.methods, 0), has(pr.methods, 2), other)
}

// judge applies the property text to one observation.  reached: the request stage ran / handleAuthentication returned nil.
func (d *drv) judge(kind string, useProxy, csa bool, cs []cred, input, req []byte, reached bool, replies string, consumed int) {
	pr := parseRFC(input)
	mk := func() interface{} {
		return map[string]interface{}{"kind": kind, "use_proxy": useProxy, "csa": csa, "credentials": credJSON(cs),
			"input": vh.Hex(input), "request": vh.Hex(req), "observed_replies": replies, "request_stage_reached": reached}
	}
	if len(cs) > 0 {
		ok := presented(cs, pr)
		if pr.greetingOK && has(pr.methods, 0) && has(pr.methods, 2) && strings.HasPrefix(replies, "0500") {
			// one cause, one signature: "no authentication" selected although credentials are configured
			d.r.Fail("methods-0-and-2-with-credentials", fmt.Sprintf("credentials configured, client sent %s (methods %s): the server selects no-authentication (replies %s), request stage reached = %v, configured pair presented = %v",
				vh.Hex(input[:min(len(input), 24)]), vh.Hex(pr.methods), replies, reached, ok), mk())
			return
		}
		if reached && !ok && pr.greetingOK && has(pr.methods, 2) && pr.subOK && pr.subVer == 1 && boundaryShifted(cs, pr.u, pr.p) {
			d.r.Fail("pair-boundary-shifted", fmt.Sprintf("credentials configured; the client presented user %q password %q, which is not a configured pair but has the same user+separator+password string as one: replies %s and the request stage is reached",
				string(pr.u), string(pr.p), replies), mk())
			return
		}
		if reached && !ok {
			d.r.Fail("request-reached-without-credentials", fmt.Sprintf("credentials configured, client sent %s (methods %s) without presenting a configured pair: replies %s and the request stage is reached",
				vh.Hex(input[:min(len(input), 24)]), vh.Hex(pr.methods), replies), mk())
			return
		}
		if ok && !reached {
			d.r.Fail("valid-credentials-refused", fmt.Sprintf("a configured pair was presented (%s) but the request stage is not reached: replies %s", vh.Hex(input[:min(len(input), 24)]), replies), mk())
			return
		}
		if ok && reached && replies != "0502,0100" {
			d.r.Fail("reply-malformed", "accepted with replies "+replies+" instead of 0502,0100", mk())
		}
	} else {
		if strings.Contains(replies, "0502") {
			d.r.Fail("userpass-selected-without-credentials", "no credentials configured but the server selected username/password: "+replies, mk())
		}
		want := pr.greetingOK && has(pr.methods, 0)
		if want != reached {
			d.r.Fail("noauth-mode-wrong", fmt.Sprintf("no credentials configured, methods %s: request stage reached = %v, expected %v (replies %s)", vh.Hex(pr.methods), reached, want, replies), mk())
		}
		if reached && replies != "0500" {
			d.r.Fail("reply-malformed", "no-auth accepted with replies "+replies+" instead of 0500", mk())
		}
	}
	if !docReplies[replies] {
		d.r.Fail("reply-malformed", "replies "+replies+" are not a documented sequence of two-byte messages", mk())
	}
	wantOff := 0
	if pr.greetingOK {
		wantOff = 2 + len(pr.methods) // no credentials: the request follows the greeting
		if len(cs) > 0 {
			wantOff = pr.reqOff // ... with credentials: it follows the sub-negotiation
		}
	}
	if kind == "H" && reached && consumed != wantOff {
		d.r.Fail("stream-position-after-auth", fmt.Sprintf("authentication succeeded having consumed %d bytes; the negotiation is %d bytes long", consumed, wantOff), mk())
	}
}

func min(a, b int) int {
	if a < b {
		return a
	}
	return b
}

func (d *drv) caseH(cs []cred, input []byte, class string) {
	h := runH(cs, input)
	rep := chunkStr(h.writes)
	d.r.Case(fmt.Sprintf("H %s %s", credFields(cs), vh.Hex(input)), fmt.Sprintf("%s %s %d", rep, h.verdict, h.consumed))
	d.r.Count("H/" + h.verdict)
	d.r.Distinct("H|" + class + "|" + methodClass(parseRFC(input)) + "|" + h.verdict)
	d.judge("H", false, false, cs, input, nil, h.verdict == "A", rep, h.consumed)
}

func (d *drv) caseS(useProxy, csa bool, cs []cred, auth, req []byte, cut int, class string) {
	input := append(append([]byte(nil), auth...), req...)
	if cut >= 0 && cut < len(input) {
		input = input[:cut]
	}
	s := runS(useProxy, csa, cs, input)
	rep := chunkStr(s.lead)
	d.r.Case(fmt.Sprintf("S %s %s %s %s %s", b2s(useProxy), b2s(csa), credFields(cs), vh.Hex(input), vh.Hex(req)),
		fmt.Sprintf("%s %s %s %s", rep, b2s(s.dialed), b2s(s.reqRead), vh.Hex(s.fwd)))
	pl := "server"
	if useProxy {
		pl = "client"
	}
	if useProxy != csa {
		pl += "-delegated"
		d.r.Count("S/" + pl)
		return // this listener does not authenticate in this placement (C11_delegated_placements); compared, not judged
	}
	reached := s.reqRead || s.dialed || len(s.fwd) > 0
	d.r.Count(fmt.Sprintf("S/%s/reached=%v", pl, reached))
	d.r.Distinct("S|" + pl + "|" + class + "|" + methodClass(parseRFC(input)) + "|" + b2s(reached))
	d.judge("S-"+pl, useProxy, csa, cs, input, req, reached, rep, -1)
	if s.dialed && !useProxy {
		d.r.Fail("dial-in-server-placement", "ProxyDialer used by serverServeConn", nil)
	}
}

// ---------------------------------------------------------------- generators

func rep(b byte, n int) []byte { return bytes.Repeat([]byte{b}, n) }

func greeting(methods []byte) []byte {
	return append([]byte{5, byte(len(methods))}, methods...)
}

func subneg(ver byte, u, p []byte) []byte {
	out := []byte{ver, byte(len(u))}
	out = append(out, u...)
	out = append(out, byte(len(p)))
	return append(out, p...)
}

type supplied struct {
	name string
	raw  []byte // bytes following the greeting (before the request)
}

func main() {
	r := vh.Start("c11")
	defer r.Finish()
	d := &drv{r}
	r.Rep.Rule = "greetings: every method list over {00,01,02,80,ff} of length 1..4 (with order and multiplicity, 780 lists), nmethods 0, 255-entry lists; x credentials none/one/several (incl. 255-byte and empty-password entries); x what follows the greeting: nothing, matching pair, wrong user, wrong password, pair mixed from two entries, prefixes/extensions, empty fields, 255-byte fields, sub-negotiation version 0/2/5; pair-encoding grid (for every configured pair and every separator none/:/00///space/newline/=: all splits of u+sep+p, separator kept or dropped, case/trim variants, empty fields; credentials containing the separators); x handleAuthentication (H) and ServeConn in client-side and server-side placement (S); every transcript of the boundary set cut at every byte position; random streams (thorough). Non-trivial/distinct = distinct (entry point, placement, credential config, what-follows kind, method-list class (length class, has 00, has 02, has other), outcome) tuples"
	r.Rep.Notes = map[string]string{}

	user, pass := []byte("user"), []byte("pass")
	u255, p255 := rep('U', 255), rep('P', 255)
	one := []cred{{user, pass}}
	several := []cred{{[]byte("alice"), []byte("wonder")}, {user, pass}, {u255, p255}, {[]byte("nopw"), nil}}
	type cfg struct {
		name string
		cs   []cred
	}
	cfgs := []cfg{{"none", nil}, {"one", one}, {"several", several}}
	reqClient := []byte{5, 1, 0, 1, 1, 2, 3, 4, 0, 80}  // CONNECT 1.2.3.4:80, forwarded to the (fake) proxy
	reqServer := []byte{5, 9, 0, 1, 1, 2, 3, 4, 0, 80}  // unknown command: answered locally, nothing is dialled

	t0 := time.Now()
	phase := func(name string) {
		r.Rep.Notes["seconds_"+name] = fmt.Sprintf("%.1f (cases so far %d)", time.Since(t0).Seconds(), r.NCase)
		t0 = time.Now()
	}
	// ---- corpus: the witness of C11_legacy_refuted first ----
	w := []byte{5, 2, 0, 2}
	d.caseH(one, w, "corpus")
	d.caseS(true, true, one, w, reqClient, -1, "corpus")
	d.caseS(false, false, one, w, reqServer, -1, "corpus")
	d.caseH(one, append(append([]byte(nil), w...), reqClient...), "corpus")
	d.caseS(true, true, several, []byte{5, 3, 2, 1, 0}, reqClient, -1, "corpus")
	d.caseS(true, true, one, append(greeting([]byte{0, 2}), subneg(1, user, []byte("nope"))...), reqClient, -1, "corpus")

	full := []supplied{
		{"nothing", nil},
		{"match", subneg(1, user, pass)},
		{"wrong-user", subneg(1, []byte("usex"), pass)},
		{"wrong-pass", subneg(1, user, []byte("pasx"))},
		{"mixed-pair", subneg(1, []byte("alice"), pass)},
		{"mixed-pair2", subneg(1, user, []byte("wonder"))},
		{"user-prefix", subneg(1, []byte("use"), pass)},
		{"user-ext", subneg(1, []byte("userx"), pass)},
		{"pass-prefix", subneg(1, user, []byte("pas"))},
		{"pass-ext", subneg(1, user, []byte("passs"))},
		{"case", subneg(1, []byte("USER"), pass)},
		{"empty-user", subneg(1, nil, pass)},
		{"empty-pass", subneg(1, user, nil)},
		{"empty-both", subneg(1, nil, nil)},
		{"nopw-match", subneg(1, []byte("nopw"), nil)},
		{"nopw-wrong", subneg(1, []byte("nopw"), []byte("x"))},
		{"255-match", subneg(1, u255, p255)},
		{"255-wrong-pass", subneg(1, u255, append(rep('P', 254), 'Q'))},
		{"255-wrong-user", subneg(1, append(rep('U', 254), 'V'), p255)},
		{"254-prefix", subneg(1, rep('U', 254), p255)},
		{"subver0", subneg(0, user, pass)},
		{"subver2", subneg(2, user, pass)},
		{"subver5", subneg(5, user, pass)},
		{"subver255", subneg(255, user, pass)},
		{"swapped-fields", subneg(1, pass, user)},
	}
	quickSup := []supplied{full[0], full[1], full[2], full[3], full[4], full[20], full[22]}

	// ---- all method lists over the alphabet up to length 4 ----
	alpha := []byte{0x00, 0x01, 0x02, 0x80, 0xFF}
	var lists [][]byte
	var gen func(prefix []byte, n int)
	gen = func(prefix []byte, n int) {
		if n == 0 {
			lists = append(lists, append([]byte(nil), prefix...))
			return
		}
		for _, a := range alpha {
			gen(append(prefix, a), n-1)
		}
	}
	for n := 1; n <= 4; n++ {
		gen(nil, n)
	}
	r.Rep.Notes["method_lists_exhaustive"] = fmt.Sprintf("%d lists over {00,01,02,80,ff}, length 1..4", len(lists))
	long := [][]byte{rep(1, 255), rep(0, 255), rep(2, 255),
		append(rep(1, 254), 0), append(rep(1, 254), 2), append(append(rep(1, 253), 0), 2), append(append(rep(0x80, 253), 2), 0),
		append([]byte{2, 0}, rep(0xFF, 253)...), rep(0xFF, 255)}
	sups := quickSup
	if r.Thorough() {
		sups = full
	}
	for _, c := range cfgs {
		// nmethods = 0 (then anything)
		for _, s := range sups {
			in := append([]byte{5, 0}, s.raw...)
			d.caseH(c.cs, in, c.name+"|n0|"+s.name)
			d.caseS(true, true, c.cs, in, reqClient, -1, c.name+"|n0|"+s.name)
			d.caseS(false, false, c.cs, in, reqServer, -1, c.name+"|n0|"+s.name)
		}
		for _, ml := range append(append([][]byte(nil), lists...), long...) {
			g := greeting(ml)
			for _, s := range sups {
				auth := append(append([]byte(nil), g...), s.raw...)
				cl := c.name + "|" + s.name
				d.caseH(c.cs, append(append([]byte(nil), auth...), reqClient...), cl)
				// ServeConn adds the placement, not the parser: in quick three kinds of what-follows suffice
				if r.Thorough() || s.name == "nothing" || s.name == "match" || s.name == "wrong-pass" {
					d.caseS(true, true, c.cs, auth, reqClient, -1, cl)
					d.caseS(false, false, c.cs, auth, reqServer, -1, cl)
				}
			}
		}
	}

	phase("method_lists")
	// ---- boundary set: full grid of what follows the greeting; every cut position ----
	bset := [][]byte{{2}, {0}, {0, 2}, {2, 0}, {1}, {0x80, 2}, {2, 2}, {0, 0}, {0xFF}, {1, 0, 2, 0x80}, long[5], long[4]}
	for _, c := range cfgs {
		for mi, ml := range bset {
			g := greeting(ml)
			for _, s := range full {
				auth := append(append([]byte(nil), g...), s.raw...)
				cl := c.name + "|" + s.name
				if !r.Thorough() { // (thorough: already done above for the lists <= 4; harmless to repeat for the long ones)
					d.caseH(c.cs, append(append([]byte(nil), auth...), reqClient...), cl)
					d.caseS(true, true, c.cs, auth, reqClient, -1, cl)
					d.caseS(false, false, c.cs, auth, reqServer, -1, cl)
				}
				// delegated placements: compared with the model only
				if len(ml) <= 2 && (s.name == "nothing" || s.name == "match" || s.name == "wrong-pass") {
					// server end of a client-side-authenticated tunnel: the stream goes straight to the request
					// parser; only streams whose 4th byte is not an address type, so that nothing is dialled
					if in := append(append([]byte(nil), auth...), reqServer...); s.name == "nothing" && in[3] != 1 && in[3] != 3 && in[3] != 4 {
						d.caseS(false, true, c.cs, auth, reqServer, -1, cl)
					}
					d.caseS(false, true, c.cs, nil, reqServer, -1, cl)
					d.caseS(true, false, c.cs, auth, reqClient, -1, cl)
				}
				// truncation at every byte position (long fields: every position in quick only for short transcripts)
				total := len(auth) + len(reqClient)
				if !r.Thorough() {
					// quick: where the stream ends matters, not which wrong pair it carries: every position of
					// {nothing, match, wrong-pass, empty-both, subver5, 255-match} after four greetings
					if mi > 3 && mi != 9 {
						continue
					}
					switch s.name {
					case "nothing", "match", "wrong-pass", "empty-both", "subver5", "255-match":
					default:
						continue
					}
				}
				for cut := 0; cut < total; cut++ {
					if total > 300 && !r.Thorough() && cut > 12 && cut < total-14 && cut%37 != 0 {
						continue
					}
					in := append(append([]byte(nil), auth...), reqClient...)[:cut]
					d.caseH(c.cs, in, cl+"|cut")
					if r.Thorough() || (mi <= 2 && total <= 40) {
						d.caseS(true, true, c.cs, auth, reqClient, cut, cl+"|cut")
						d.caseS(false, false, c.cs, auth, reqServer, cut, cl+"|cut")
					}
					r.Count("cut")
				}
			}
		}
	}

	phase("boundary_and_cuts")
	// ---- the PAIR is what is configured, not a string built from it ----
	// Any implementation that indexes or compares an encoding of (user, password) that is not injective
	// (user+":"+password, user+password, user+"\x00"+password, a case-folded or trimmed form ...) accepts a pair
	// that is not configured.  For every configured pair (u, p) and every separator sep (also none):
	// all splits of u+sep+p into (left, right), with the separator kept on either side or dropped at the split;
	// plus pairs equal up to case, trailing/leading bytes, and empty fields.
	seps := [][]byte{nil, []byte(":"), {0}, []byte("/"), []byte(" "), []byte("\n"), []byte("=")}
	cat := func(parts ...[]byte) []byte {
		var o []byte
		for _, x := range parts {
			o = append(o, x...)
		}
		return o
	}
	type pcfg struct {
		name string
		cs   []cred
	}
	var pcfgs []pcfg
	for _, sp := range seps[1:] {
		pcfgs = append(pcfgs, pcfg{fmt.Sprintf("sep%02x", sp[0]), []cred{
			{[]byte("alice"), cat([]byte("wonder"), sp, []byte("land"))}, // separator inside the password
			{cat([]byte("bob"), sp, []byte("by")), []byte("secret")},   // ... inside the user
			{cat([]byte("eve"), sp), cat(sp, []byte("pw"))},            // ... at the boundary, both sides
			{[]byte("carol"), nil},                                      // empty password (RFC 1929 allows length 0)
			{nil, []byte("onlypw")},                                     // empty user
		}})
	}
	pcfgs = append(pcfgs,
		pcfg{"plain", []cred{{[]byte("alice"), []byte("wonder")}, {[]byte("al"), []byte("icewonder2")}, {[]byte("x"), nil}, {nil, []byte("y")}}},
		pcfg{"norm", []cred{{[]byte("Dave "), []byte(" Pw\n")}, {[]byte("erin"), []byte("Secret")}, {[]byte("tab\t"), []byte("pw\x00")}}},
		pcfg{"emptyboth", []cred{{nil, nil}, {[]byte("a"), []byte("b")}}})
	npairs := 0
	for _, pc := range pcfgs {
		seen := map[string]bool{}
		var cands []cred
		add := func(u, p []byte) {
			if len(u) > 255 || len(p) > 255 {
				return
			}
			k := string(u) + "\x00|\x01" + string(p) + fmt.Sprint(len(u))
			if !seen[k] {
				seen[k] = true
				cands = append(cands, cred{append([]byte(nil), u...), append([]byte(nil), p...)})
			}
		}
		for _, c := range pc.cs {
			add(c.u, c.p)
			for _, sp := range seps {
				str := cat(c.u, sp, c.p)
				for k := 0; k <= len(str); k++ {
					add(str[:k], str[k:])
					if len(sp) > 0 && bytes.HasPrefix(str[k:], sp) {
						add(str[:k], str[k+len(sp):]) // the separator itself is the boundary
					}
				}
				// separator appended/prepended to one field
				add(cat(c.u, sp), c.p)
				add(c.u, cat(sp, c.p))
				add(c.u, cat(c.p, sp))
				add(cat(sp, c.u), c.p)
			}
			// equal up to case / surrounding bytes / swapped
			add(bytes.ToUpper(c.u), c.p)
			add(c.u, bytes.ToUpper(c.p))
			add(bytes.ToLower(c.u), bytes.ToLower(c.p))
			add(bytes.TrimSpace(c.u), bytes.TrimSpace(c.p))
			add(bytes.TrimRight(c.u, "\x00"), bytes.TrimRight(c.p, "\x00"))
			add(bytes.ToLower(bytes.TrimSpace(c.u)), bytes.ToLower(bytes.TrimSpace(c.p)))
			add(c.p, c.u)
			add(c.u, nil)
			add(nil, c.p)
			add(nil, nil)
			add(nil, cat(c.u, c.p))
			add(cat(c.u, c.p), nil)
			// user of one entry with the password of another
			for _, c2 := range pc.cs {
				add(c.u, c2.p)
			}
		}
		for k, x := range cands {
			g := greeting([]byte{2})
			if k%3 == 1 {
				g = greeting([]byte{0, 2})
			}
			auth := append(append([]byte(nil), g...), subneg(1, x.u, x.p)...)
			cl := "pair|" + pc.name
			d.caseH(pc.cs, append(append([]byte(nil), auth...), reqClient...), cl)
			if r.Thorough() || k%4 == 0 {
				d.caseS(true, true, pc.cs, auth, reqClient, -1, cl)
				d.caseS(false, false, pc.cs, auth, reqServer, -1, cl)
			}
			r.Count("pair-encoding")
			npairs++
		}
	}
	r.Rep.Notes["pair_encoding"] = fmt.Sprintf("%d supplied pairs over %d credential configurations (separators none : 00 / space \\n =; all splits of u+sep+p; case, trimming, empty fields)", npairs, len(pcfgs))

	phase("pair_encoding")
	// ---- malformed / random streams ----
	nrand := 3000
	if r.Thorough() {
		nrand = 120000
	}
	for i := 0; i < nrand; i++ {
		c := cfgs[r.Rng.Intn(len(cfgs))]
		var in []byte
		switch r.Rng.Intn(4) {
		case 0: // arbitrary bytes
			in = r.Rng.Bytes(r.Rng.Intn(24))
		case 1: // version byte then arbitrary
			in = append([]byte{5}, r.Rng.Bytes(r.Rng.Intn(24))...)
		default: // structured with random deviations
			n := r.Rng.Intn(6)
			ml := make([]byte, n)
			for j := range ml {
				ml[j] = alpha[r.Rng.Intn(len(alpha))]
			}
			in = greeting(ml)
			if r.Rng.Intn(8) == 0 {
				in[1] = byte(r.Rng.Intn(256)) // wrong count
			}
			var u, p []byte
			if len(c.cs) > 0 && r.Rng.Intn(2) == 0 {
				k := c.cs[r.Rng.Intn(len(c.cs))]
				u, p = append([]byte(nil), k.u...), append([]byte(nil), k.p...)
			} else {
				u, p = r.Rng.Bytes(r.Rng.Intn(6)), r.Rng.Bytes(r.Rng.Intn(6))
			}
			if r.Rng.Intn(4) == 0 && len(u) > 0 {
				u[r.Rng.Intn(len(u))] ^= byte(1 << r.Rng.Intn(8))
			}
			if r.Rng.Intn(4) == 0 && len(p) > 0 {
				p[r.Rng.Intn(len(p))] ^= byte(1 << r.Rng.Intn(8))
			}
			sv := byte(1)
			if r.Rng.Intn(6) == 0 {
				sv = byte(r.Rng.Intn(256))
			}
			if r.Rng.Intn(5) != 0 {
				sn := subneg(sv, u, p)
				if r.Rng.Intn(8) == 0 && len(sn) > 1 {
					sn[1] = byte(r.Rng.Intn(256)) // wrong user length
				}
				in = append(in, sn...)
			}
		}
		// the request is appended per placement (the server-side one must not make the server dial out)
		cutAt := -1
		if r.Rng.Intn(6) == 0 {
			cutAt = r.Rng.Intn(len(in) + 11)
		}
		hin := append(append([]byte(nil), in...), reqClient...)
		if cutAt >= 0 && cutAt < len(hin) {
			hin = hin[:cutAt]
		}
		d.caseH(c.cs, hin, c.name+"|random")
		if i%2 == 0 {
			d.caseS(true, true, c.cs, in, reqClient, cutAt, c.name+"|random")
		} else {
			d.caseS(false, false, c.cs, in, reqServer, cutAt, c.name+"|random")
		}
		r.Count("random")
	}
	phase("random")
	r.Rep.Exhaustive = false
}
