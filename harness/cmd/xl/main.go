// Driver xl: validation of the translator harness/cmd/go2coq (which is in the trusted base).
//
// Every function of go2coq's table is run here as the REAL Go function (through the //go:build verif export hooks
// of /repo, or directly where it is exported) on boundary values and on random inputs from one seed; the extracted
// translated Gallina definition (coq/gen/Translated.v -> ocaml/xl_run.ml) is run on the same case lines and the
// python side compares line by line.  A difference means that the translator, go/types' view of the constants or
// base/MiniGo.v's reading of Go's integer semantics is wrong (or that the translated text is stale).
//
// Case line:  <function> <arg> ...   (decimal; unsigned 64-bit values as unsigned decimals, bools as 0/1)
// Impl line:  <result> ...           (the same; PANIC if the Go function panicked)
//
// The same case lines are used by the python side (lib/xl.py) to compare the translated function with the MODEL
// function it is proved equal to; the first difference inside the theorem's range is reported as an oracle failure
// "source-differs-from-model-<function>".
//
// Flags besides -seed -tier -out:  -group c17|c14|c09|all  (which check's functions), -n N (random cases per function).
package main

import (
	"bytes"
	"encoding/binary"
	"flag"
	"fmt"
	"math"
	"math/big"
	"strings"
	"time"

	"github.com/enfein/mieru/v3/pkg/appctl/appctlpb"
	"github.com/enfein/mieru/v3/pkg/cipher"
	"github.com/enfein/mieru/v3/pkg/common"
	"github.com/enfein/mieru/v3/pkg/mathext"
	"github.com/enfein/mieru/v3/pkg/protocol"
	"verifharness/vh"
)

var r *vh.Run

func try(f func()) (p string) {
	defer func() {
		if e := recover(); e != nil {
			p = fmt.Sprint(e)
		}
	}()
	f()
	return ""
}

func b2s(b bool) string {
	if b {
		return "1"
	}
	return "0"
}

// emit evaluates one case (f returns the impl line) and records it.
func emit(name string, args []string, f func() string) string {
	line := name + " " + strings.Join(args, " ")
	var out string
	if pn := try(func() { out = f() }); pn != "" {
		out = "PANIC"
	}
	r.Case(line, out)
	r.Count(name)
	return out
}

func u(x uint64) string { return fmt.Sprintf("%d", x) }
func i(x int64) string  { return fmt.Sprintf("%d", x) }

// ---------------------------------------------------------------- input pools

var u64Boundary = []uint64{0, 1, 2, 3, 0x7f, 0x80, 0xff, 0x100, 0xffff, 1 << 31, 1<<32 - 1, 1 << 32, 1<<32 + 1,
	1<<63 - 1, 1 << 63, 1<<63 + 1, math.MaxUint64 - 1, math.MaxUint64,
	0xf0f0f0f0f0f0f0f0, 0x0f0f0f0f0f0f0f0f, 0xaaaaaaaaaaaaaaaa, 0x5555555555555555, 0x00000000ffffffff, 0xffffffff00000000,
	0x8000000000000001, 0x0123456789abcdef}

var i64Boundary = []int64{0, 1, -1, 2, -2, 87, 88, 89, 254, 255, 256, 257, 1279, 1280, 1281, 1400, 1499, 1500, 1501, 32768, 65535, 65536,
	1 << 31, 1<<31 - 1, -(1 << 31), 1<<32 - 1, 1 << 32, 1 << 61, 1<<61 - 1, -(1 << 61), 1 << 62, -(1 << 62),
	math.MaxInt64, math.MaxInt64 - 1, math.MinInt64, math.MinInt64 + 1, math.MinInt64 + 88}

func randU64(g *vh.Rng) uint64 {
	switch g.Intn(6) {
	case 0:
		return g.U64() & g.U64() & g.U64() // sparse
	case 1:
		return g.U64() | g.U64() | g.U64() // dense
	case 2:
		return g.U64() >> uint(g.Intn(64))
	case 3:
		return u64Boundary[g.Intn(len(u64Boundary))]
	default:
		return g.U64()
	}
}

func randI64(g *vh.Rng) int64 {
	switch g.Intn(6) {
	case 0:
		return int64(g.U64())
	case 1:
		return i64Boundary[g.Intn(len(i64Boundary))]
	case 2:
		return int64(g.Intn(4096)) - 1024
	case 3:
		return int64(g.U64() >> uint(1+g.Intn(63)))
	case 4:
		return -int64(g.U64() >> uint(1+g.Intn(63)))
	default:
		return int64(g.Intn(70000))
	}
}

// ---------------------------------------------------------------- reference (property text) for the oracle

func refPdep(x, mask uint64) uint64 {
	var dest uint64
	k := 0
	for m := 0; m < 64; m++ {
		if (mask>>uint(m))&1 == 1 {
			if (x>>uint(k))&1 == 1 {
				dest |= uint64(1) << uint(m)
			}
			k++
		}
	}
	return dest
}

func lowOnes(n int64) uint64 {
	if n >= 64 {
		return math.MaxUint64
	}
	return uint64(1)<<uint(n) - 1
}

func refPext(x, mask uint64) uint64 {
	var dest uint64
	k := 0
	for m := 0; m < 64; m++ {
		if (mask>>uint(m))&1 == 1 {
			if (x>>uint(m))&1 == 1 {
				dest |= uint64(1) << uint(k)
			}
			k++
		}
	}
	return dest
}

// ---------------------------------------------------------------- groups

func popClass(m uint64) int {
	n := 0
	for ; m != 0; m &= m - 1 {
		n++
	}
	return n / 8
}

func pdepPext(x, m uint64) {
	cs := map[string]string{"func": "pdepGeneric", "x": u(x), "mask": u(m)}
	var pd, pe uint64
	emit("pdepGeneric", []string{u(x), u(m)}, func() string { pd = mathext.VerifPdepGeneric(x, m); return u(pd) })
	emit("pextGeneric", []string{u(x), u(m)}, func() string { pe = mathext.VerifPextGeneric(x, m); return u(pe) })
	r.Distinct(fmt.Sprintf("pdep/w%d", popClass(m)))
	if want := refPdep(x, m); pd != want {
		r.Fail("pdep-generic-differs-from-intel-definition", fmt.Sprintf("pdepGeneric(%#x, %#x) = %#x, Intel PDEP gives %#x", x, m, pd, want), cs)
	}
	if want := refPext(x, m); pe != want {
		cs2 := map[string]string{"func": "pextGeneric", "x": u(x), "mask": u(m)}
		r.Fail("pext-generic-differs-from-intel-definition", fmt.Sprintf("pextGeneric(%#x, %#x) = %#x, Intel PEXT gives %#x", x, m, pe, want), cs2)
	}
}

// codecParams: validateLowEntropyCodecParams through its export hook: every mode -1..9 x half masks of weight w-3..w+3 around
// the mode's weight (and 0, 32) x valid / invalid rotations, then random. Judged against the document: accepted iff the mode is
// one of the four, the half mask has exactly the mode's number of one bits, and the rotation is valid.
func codecParams(n int) {
	g := r.Rng
	weights := map[int32]int{1: 16, 2: 20, 3: 24, 4: 28}
	maskOfWeight := func(w int) uint32 {
		if w <= 0 {
			return 0
		}
		if w >= 32 {
			return math.MaxUint32
		}
		var m uint32
		for bits := 0; bits < w; {
			b := uint32(1) << uint(g.Intn(32))
			if m&b == 0 {
				m |= b
				bits++
			}
		}
		return m
	}
	popcount := func(m uint32) int {
		c := 0
		for ; m != 0; m &= m - 1 {
			c++
		}
		return c
	}
	rotOK := func(rot int32) bool { return rot == 0 || (rot >= 1 && rot <= 15) || (rot >= 16 && rot <= 240 && rot%16 == 0) }
	one := func(mode int32, mask uint32, rot int32) {
		var c, w int
		var failed bool
		out := emit("validateLowEntropyCodecParams", []string{fmt.Sprint(mode), u(uint64(mask)), fmt.Sprint(rot)}, func() string {
			c, w, failed = protocol.VerifXLValidateLowEntropyCodecParams(mode, mask, rot)
			return fmt.Sprintf("%d %d %s", c, w, b2s(failed))
		})
		_ = out
		want, known := weights[mode]
		ok := known && popcount(mask) == want && rotOK(rot)
		r.Distinct(fmt.Sprintf("codecparams/m%d/dw%d/rot%v/%v", mode, popcount(mask)-want, rotOK(rot), failed))
		if ok == failed {
			r.Fail("accepted-invalid-params", fmt.Sprintf("validateLowEntropyCodecParams(mode %d, half mask %#x with %d one bits, rotation %d): error=%v", mode, mask, popcount(mask), rot, failed),
				map[string]string{"func": "validateLowEntropyCodecParams", "mode": fmt.Sprint(mode), "mask": fmt.Sprint(mask), "rotation": fmt.Sprint(rot)})
		}
	}
	rots := []int32{0, 1, 15, 16, 17, 32, 240, 241, 256, -1, 8}
	for mode := int32(-1); mode <= 9; mode++ {
		base := weights[mode]
		for dw := -3; dw <= 3; dw++ {
			for _, rot := range rots {
				one(mode, maskOfWeight(base+dw), rot)
			}
		}
		one(mode, 0, 0)
		one(mode, math.MaxUint32, 0)
	}
	for k := 0; k < n; k++ {
		mode := int32(g.Intn(6))
		w := weights[mode] + g.Intn(5) - 2
		if g.Intn(4) == 0 {
			w = g.Intn(33)
		}
		one(mode, maskOfWeight(w), []int32{0, int32(g.Intn(20)), int32(16 * g.Intn(17)), int32(g.Intn(300)) - 20}[g.Intn(4)])
	}
}

func groupC17(n int) {
	g := r.Rng
	codecParams(n)
	for _, x := range u64Boundary {
		for _, m := range u64Boundary {
			pdepPext(x, m)
		}
	}
	for k := 0; k < 64; k++ { // single-bit masks and their complements
		pdepPext(u64Boundary[k%len(u64Boundary)]|1<<uint(k), 1<<uint(k))
		pdepPext(g.U64(), ^(uint64(1) << uint(k)))
	}
	for k := 0; k < n; k++ {
		pdepPext(randU64(g), randU64(g))
	}
	rep := func(v uint32) {
		var got uint64
		emit("RepeatUint32", []string{u(uint64(v))}, func() string { got = mathext.RepeatUint32(v); return u(got) })
		r.Distinct(fmt.Sprintf("repeat/%d", popClass(uint64(v))))
		if got != uint64(v)<<32|uint64(v) || uint32(got) != v || uint32(got>>32) != v {
			r.Fail("repeat32-halves-differ", fmt.Sprintf("RepeatUint32(%#x) = %#x", v, got), map[string]string{"func": "RepeatUint32", "v": u(uint64(v))})
		}
	}
	for _, v := range []uint32{0, 1, 2, 0xff, 0xffff, 0x10000, 1 << 31, 1<<31 - 1, math.MaxUint32 - 1, math.MaxUint32, 0xf0f0f0f0, 0x0f0f0f0f, 0xaaaaaaaa, 0x55555555} {
		rep(v)
	}
	for k := 0; k < n; k++ {
		rep(uint32(randU64(g)))
	}
	// isValidLowEntropyRotation: every int32 around the enum's range, then random
	validRot := func(rot int32) bool {
		var ok bool
		emit("isValidLowEntropyRotation", []string{i(int64(rot))}, func() string { ok = protocol.VerifLEValidRotation(rot); return b2s(ok) })
		want := rot == 0 || (rot >= 1 && rot <= 15) || (rot >= 16 && rot <= 240 && rot%16 == 0) // docs/protocol.md: 0, right 1..15, left 16*k
		if ok != want {
			r.Fail("valid-rotation-differs-from-document", fmt.Sprintf("isValidLowEntropyRotation(%d) = %v", rot, ok), map[string]string{"func": "isValidLowEntropyRotation", "rotation": i(int64(rot))})
		}
		return ok
	}
	var valid []int32
	for rot := int32(-300); rot <= 300; rot++ {
		if validRot(rot) {
			valid = append(valid, rot)
		}
	}
	for _, rot := range []int32{math.MinInt32, math.MinInt32 + 1, math.MaxInt32, math.MaxInt32 - 15, 1 << 16, 1<<16 + 16, -16, -240} {
		validRot(rot)
	}
	for k := 0; k < n/4; k++ {
		validRot(int32(g.U64()))
	}
	// rotateLowEntropyMask directly: every rotation value (also the invalid ones) and negative chunk indexes
	rotate := func(m uint64, rot int32, idx int64) {
		var got uint64
		emit("rotateLowEntropyMask", []string{u(m), i(int64(rot)), i(idx)}, func() string {
			got = protocol.VerifXLRotateLowEntropyMask(m, appctlpb.LowEntropyMaskRotation(rot), int(idx))
			return u(got)
		})
		r.Distinct(fmt.Sprintf("rot/%d/%d", rot, idx%64))
		emit("lowEntropyChunkMask", []string{u(m), i(int64(rot)), i(idx)}, func() string {
			v, err := protocol.VerifLEChunkMask(m, rot, int(idx))
			return u(v) + " " + b2s(err != nil)
		})
		// where the codec can call it (valid rotation, index >= 0) it is what lowEntropyChunkMask returns
		if idx >= 0 && protocol.VerifLEValidRotation(rot) {
			if v, err := protocol.VerifLEChunkMask(m, rot, int(idx)); err != nil || v != got {
				r.Fail("chunk-mask-differs-from-rotate", fmt.Sprintf("lowEntropyChunkMask = %#x, %v; rotateLowEntropyMask = %#x", v, err, got),
					map[string]string{"func": "rotateLowEntropyMask", "mask": u(m), "rotation": i(int64(rot)), "chunkIndex": i(idx)})
			}
		}
	}
	for _, rot := range []int32{-241, -240, -17, -16, -15, -1, 17, 31, 33, 241, 255, 256, 1 << 20, math.MaxInt32, math.MinInt32, math.MinInt32 + 1} {
		for _, idx := range []int64{0, 1, 2, 63, 64, 65, -1, -2, -63, -64, -65, 8190, math.MaxInt64, math.MinInt64, math.MinInt64 + 1} {
			rotate(g.U64(), rot, idx)
			rotate(u64Boundary[g.Intn(len(u64Boundary))], rot, idx)
		}
	}
	for _, rot := range valid {
		for _, idx := range []int64{-1, -5, -64, -8190, math.MinInt64} {
			rotate(g.U64(), rot, idx)
		}
	}
	for k := 0; k < n/2; k++ {
		rotate(randU64(g), int32(g.U64()), randI64(g))
		rotate(randU64(g), int32(g.Intn(600))-300, int64(g.Intn(400))-200)
	}
	// lowBits: panics for a negative n (shift by a negative count); the translation then has no value
	low := func(nn int64) {
		var got uint64
		out := emit("lowBits", []string{i(nn)}, func() string { got = protocol.VerifXLLowBits(int(nn)); return u(got) })
		r.Distinct(fmt.Sprintf("lowbits/%v/%v", nn < 0, nn >= 64))
		cs := map[string]string{"func": "lowBits", "n": i(nn)}
		if nn >= 0 && (out == "PANIC" || got != lowOnes(nn)) {
			r.Fail("lowbits-differs-from-definition", fmt.Sprintf("lowBits(%d) = %s, want the %d low bits set", nn, out, nn), cs)
		}
	}
	for nn := int64(-70); nn <= 200; nn++ {
		low(nn)
	}
	for _, nn := range i64Boundary {
		low(nn)
	}
	for k := 0; k < n/4; k++ {
		low(randI64(g))
	}
	for _, rot := range valid {
		for _, idx := range []int64{0, 1, 2, 3, 31, 32, 63, 64, 65, 127, 128, 8190, 1 << 31, 1<<62 + 5, math.MaxInt64} {
			rotate(u64Boundary[int(uint64(idx+int64(rot))%uint64(len(u64Boundary)))], rot, idx)
			rotate(g.U64(), rot, idx)
		}
	}
	for k := 0; k < n && len(valid) > 0; k++ {
		idx := int64(g.Intn(9000))
		if g.Intn(8) == 0 {
			idx = int64(g.U64() >> 1)
		}
		rotate(randU64(g), valid[g.Intn(len(valid))], idx)
	}
}

// increaseNonce: the real method (through cipher.VerifIncreaseNonce: implicit nonce mode on, a copy of the bytes as the
// nonce) on boundary nonces - all 0xff, trailing 0xff runs of every length, lengths 0 (panics), 1, 12, 24, 32 - and random
func nonces(n int) {
	g := r.Rng
	one := func(nonce []byte) {
		var got []byte
		out := emit("increaseNonce", []string{"1", vh.Hex(nonce)}, func() string { got = cipher.VerifIncreaseNonce(nonce); return vh.Hex(got) })
		tr := 0
		for k := len(nonce) - 1; k >= 0 && nonce[k] == 0xff; k-- {
			tr++
		}
		r.Distinct(fmt.Sprintf("nonce/len%d/ff%d", len(nonce), tr))
		cs := map[string]string{"func": "increaseNonce", "nonce": vh.Hex(nonce)}
		if len(nonce) == 0 {
			if out != "PANIC" {
				r.Fail("increase-nonce-empty-no-panic", "increaseNonce on an empty nonce returned "+out, cs)
			}
			return
		}
		// docs/protocol.md: the nonce is a big-endian counter, +1 per encryption, wrapping
		want := new(big.Int).Add(new(big.Int).SetBytes(nonce), big.NewInt(1))
		want.Mod(want, new(big.Int).Lsh(big.NewInt(1), uint(8*len(nonce))))
		if out == "PANIC" || len(got) != len(nonce) || new(big.Int).SetBytes(got).Cmp(want) != 0 {
			r.Fail("increase-nonce-is-not-plus-one", "increaseNonce("+vh.Hex(nonce)+") = "+out, cs)
		}
	}
	one(nil)
	for _, l := range []int{1, 2, 12, 24, 32} {
		for tr := 0; tr <= l; tr++ { // trailing 0xff runs of every length (tr = l: all 0xff, wraps to zero)
			for _, before := range []byte{0x00, 0x7f, 0xfe} {
				b := g.Bytes(l)
				for k := l - tr; k < l; k++ {
					b[k] = 0xff
				}
				if tr < l {
					b[l-tr-1] = before
				}
				one(b)
			}
		}
		one(make([]byte, l))
	}
	for k := 0; k < n; k++ {
		l := []int{12, 24, 24, 24, 1 + g.Intn(40)}[g.Intn(5)]
		b := g.Bytes(l)
		for j := l - g.Intn(l+1); j < l; j++ {
			b[j] = 0xff
		}
		one(b)
	}
}

// protocol type predicates: every byte (complete)
func groupC09() {
	for p := 0; p < 256; p++ {
		s, d, a, da, le := protocol.VerifC09Classify(byte(p))
		ps := []string{fmt.Sprint(p)}
		emit("isSessionProtocol", ps, func() string { return b2s(s) })
		emit("isDataProtocol", ps, func() string { return b2s(d) })
		emit("isAckProtocol", ps, func() string { return b2s(a) })
		emit("isDataAckProtocol", ps, func() string { return b2s(da) })
		emit("isLowEntropyProtocol", ps, func() string { return b2s(le) })
		r.Distinct(fmt.Sprintf("proto/%v%v%v%v%v", s, d, a, da, le))
		// docs/protocol.md: 2..5 session, 6/7 data, 8/9 ack, 10/11 low-entropy data
		if s != (p >= 2 && p <= 5) || d != (p == 6 || p == 7 || p == 10 || p == 11) || a != (p == 8 || p == 9) || da != (p >= 6 && p <= 11) || le != (p == 10 || p == 11) {
			r.Fail("protocol-predicates-differ-from-document", fmt.Sprintf("protocol %d classified session=%v data=%v ack=%v dataAck=%v lowEntropy=%v", p, s, d, a, da, le), map[string]string{"func": "isDataAckProtocol", "protocol": fmt.Sprint(p)})
		}
	}
}

func groupC14(n int) {
	g := r.Rng
	overhead := int64(protocol.VerifC14PacketOverhead)
	mm := func(a, b int64) {
		emit("Min_int", []string{i(a), i(b)}, func() string { return i(int64(mathext.Min(int(a), int(b)))) })
		emit("Max_int", []string{i(a), i(b)}, func() string { return i(int64(mathext.Max(int(a), int(b)))) })
	}
	for _, a := range i64Boundary {
		emit("Abs_int", []string{i(a)}, func() string { return i(int64(mathext.Abs(int(a)))) })
		for _, b := range i64Boundary {
			mm(a, b)
		}
	}
	for k := 0; k < n; k++ {
		a := randI64(g)
		emit("Abs_int", []string{i(a)}, func() string { return i(int64(mathext.Abs(int(a)))) })
		mm(a, randI64(g))
	}
	small := func(z int64) bool { return z > -(1<<61) && z < 1<<61 }
	frag := func(mtu int64, t int) {
		var got int64
		out := emit("maxFragmentSizeInternal", []string{i(mtu), fmt.Sprint(t)}, func() string {
			got = int64(protocol.VerifXLMaxFragmentSizeInternal(int(mtu), common.TransportProtocol(t)))
			return i(got)
		})
		r.Distinct(fmt.Sprintf("frag/t%d/%v", t, mtu > overhead))
		cs := map[string]string{"func": "maxFragmentSizeInternal", "mtu": i(mtu), "transport": fmt.Sprint(t)}
		if out == "PANIC" || out == "ERR" {
			r.Fail("max-fragment-no-value", "maxFragmentSize(mtu, transport, OFF) gave "+out, cs)
		} else if small(mtu) && (got < 0 || (t != int(common.StreamTransport) && mtu >= overhead && got+overhead > mtu)) {
			r.Fail("max-fragment-exceeds-mtu", fmt.Sprintf("fragment size %d with overhead %d exceeds the MTU %d", got, overhead, mtu), cs)
		}
	}
	pad := func(mtu int64, t int, fs, ex int64) {
		var got int64
		out := emit("maxPaddingSize", []string{i(mtu), fmt.Sprint(t), i(fs), i(ex)}, func() string {
			got = int64(protocol.VerifC14MaxPaddingSize(int(mtu), common.TransportProtocol(t), int(fs), int(ex)))
			return i(got)
		})
		room := mtu - fs - overhead - ex
		r.Distinct(fmt.Sprintf("pad/t%d/%v/%v", t, room <= 0, room > 255))
		if out == "PANIC" || !small(mtu) || !small(fs) || !small(ex) {
			return
		}
		cs := map[string]string{"func": "maxPaddingSize", "mtu": i(mtu), "transport": fmt.Sprint(t), "fragmentSize": i(fs), "existingPaddingSize": i(ex)}
		if got < 0 || got > math.MaxUint8 {
			r.Fail("max-padding-outside-length-byte", fmt.Sprintf("maxPaddingSize = %d does not fit the one-byte padding length field", got), cs)
		}
		if t != int(common.StreamTransport) && fs >= 0 && ex >= 0 && got > 0 && overhead+fs+ex+got > mtu {
			r.Fail("max-padding-exceeds-mtu", fmt.Sprintf("overhead %d + fragment %d + existing padding %d + padding %d > MTU %d", overhead, fs, ex, got, mtu), cs)
		}
	}
	transports := []int{0, 1, 2, 3}
	for _, mtu := range i64Boundary {
		for _, t := range transports {
			frag(mtu, t)
		}
	}
	// maxFragmentSize / lowEntropyEncodedPayloadLen / buildLowEntropyParams: value and "an error was returned" (0/1)
	errS := func(v int64, err error) string {
		if err != nil {
			return "0 1"
		}
		return i(v) + " 0"
	}
	fragLE := func(mtu int64, t int, mode int32) {
		out := emit("maxFragmentSize", []string{i(mtu), fmt.Sprint(t), i(int64(mode))}, func() string {
			v, err := protocol.VerifC14MaxFragmentSize(int(mtu), common.TransportProtocol(t), mode)
			return errS(int64(v), err)
		})
		r.Distinct(fmt.Sprintf("fragle/t%d/m%d/%s", t, mode, out[len(out)-1:]))
	}
	encLen := func(n int64, mode int32) {
		out := emit("lowEntropyEncodedPayloadLen", []string{i(n), i(int64(mode))}, func() string {
			v, err := protocol.VerifC14LowEntropyEncodedPayloadLen(int(n), mode)
			return errS(int64(v), err)
		})
		r.Distinct(fmt.Sprintf("enclen/m%d/%s", mode, out[len(out)-1:]))
	}
	modes := []int32{-1, 0, 1, 2, 3, 4, 5, 8, math.MaxInt32, math.MinInt32}
	for _, mode := range modes {
		emit("buildLowEntropyParams", []string{i(int64(mode))}, func() string {
			c, w, err := protocol.VerifLEParams(mode)
			if err != nil {
				return fmt.Sprintf("%d %d 1", c, w)
			}
			return fmt.Sprintf("%d %d 0", c, w)
		})
		for _, t := range transports {
			for _, mtu := range i64Boundary {
				fragLE(mtu, t, mode)
			}
			for mtu := int64(80); mtu <= 130; mtu++ {
				fragLE(mtu, t, mode)
			}
		}
		for _, nn := range i64Boundary {
			encLen(nn, mode)
		}
		for nn := int64(-2); nn <= 64; nn++ {
			encLen(nn, mode)
		}
		for _, c := range []int64{4, 5, 6, 7} { // around the 8191-chunk limit of every mode
			for d := int64(-8); d <= 8; d++ {
				encLen(8191*c+d, mode)
			}
		}
	}
	for k := 0; k < n; k++ {
		fragLE(randI64(g), g.Intn(4), modes[g.Intn(len(modes))])
		fragLE(int64(g.Range(0, 2000)), g.Intn(4), int32(g.Intn(6)))
		encLen(randI64(g), int32(g.Intn(6)))
		encLen(int64(g.Intn(70000)), int32(g.Intn(6)))
	}
	for _, mtu := range []int64{1280, 1400, 1500} {
		for _, t := range transports {
			for _, room := range []int64{-300, -1, 0, 1, 2, 100, 254, 255, 256, 257, 300, 509, 510, 511, 600} {
				for _, ex := range []int64{0, 1, 100, 254, 255, 256} {
					pad(mtu, t, mtu-overhead-room, ex)
				}
			}
		}
	}
	for _, mtu := range []int64{0, -1, 88, math.MaxInt64, math.MinInt64, 1 << 61, -(1 << 61)} {
		for _, t := range transports {
			for _, fs := range []int64{0, 1, -1, 1312, math.MaxInt64, math.MinInt64} {
				for _, ex := range []int64{0, 255, -1, math.MaxInt64, math.MinInt64} {
					pad(mtu, t, fs, ex)
				}
			}
		}
	}
	for k := 0; k < n; k++ {
		frag(randI64(g), g.Intn(4))
		if g.Intn(3) == 0 {
			pad(randI64(g), g.Intn(4), randI64(g), randI64(g))
		} else {
			mtu := int64(g.Range(1200, 1600))
			pad(mtu, g.Intn(4), int64(g.Range(-10, int(mtu))), int64(g.Range(-3, 600)))
		}
	}
}


// ---------------------------------------------------------------- metadata codecs (C09) and the timestamp test (C08)

// atSecond runs f until it starts and ends within one second of the real clock and returns that second: the value
// time.Now().Unix() had inside f.
func atSecond(f func()) int64 {
	for {
		n1 := time.Now().Unix()
		f()
		if time.Now().Unix() == n1 {
			return n1
		}
	}
}

func metaFields(m protocol.VerifC09Meta) string {
	return fmt.Sprintf("%d %d %d %d %d %d %d", m.Proto, m.Timestamp, m.SessionID, m.Seq, m.StatusCode, m.PayloadLen, m.SuffixLen)
}

var u32Boundary = []uint32{0, 1, 2, 59, 60, 61, 255, 256, 65535, 65536, 1 << 31, 1<<31 - 1, 1<<32 - 2, 1<<32 - 1}

func randU32(g *vh.Rng) uint32 {
	switch g.Intn(4) {
	case 0:
		return u32Boundary[g.Intn(len(u32Boundary))]
	case 1:
		return uint32(g.Intn(70000))
	default:
		return uint32(g.U64())
	}
}

// groupC08: mathext.Mid / WithinRange at uint32 (exported generics, called directly): full product of the boundary values
// with margins 0, 1, 2 and 2^32-1 (wrap of target-margin / target+margin), then random.
func groupC08(n int) {
	g := r.Rng
	mid := func(a, b, c uint32) {
		emit("Mid_uint32", []string{u(uint64(a)), u(uint64(b)), u(uint64(c))}, func() string { return u(uint64(mathext.Mid(a, b, c))) })
	}
	wr := func(v, t, m uint32) {
		out := emit("WithinRange_uint32", []string{u(uint64(v)), u(uint64(t)), u(uint64(m))}, func() string { return b2s(mathext.WithinRange(v, t, m)) })
		r.Distinct(fmt.Sprintf("within/%s/m%d/wrapLo%v/wrapHi%v", out, min64(int64(m), 3), t < m, uint64(t)+uint64(m) > math.MaxUint32))
		// the property's reading for the margin 1 away from the wrap: accepted iff |v - t| <= 1
		if m == 1 && t >= 1 && t < math.MaxUint32 {
			d := int64(v) - int64(t)
			if (out == "1") != (d >= -1 && d <= 1) {
				r.Fail("within-range-not-distance-one", fmt.Sprintf("WithinRange(%d, %d, 1) = %s", v, t, out), map[string]string{"func": "WithinRange_uint32", "v": fmt.Sprint(v), "target": fmt.Sprint(t)})
			}
		}
	}
	for _, a := range u32Boundary {
		for _, b := range u32Boundary {
			for _, c := range []uint32{0, 1, 60, 1 << 31, 1<<32 - 1, a, b} {
				mid(a, b, c)
			}
			for _, m := range []uint32{0, 1, 2, 1<<32 - 1} {
				wr(a, b, m)
			}
		}
	}
	for k := 0; k < n; k++ {
		mid(randU32(g), randU32(g), randU32(g))
		t := randU32(g)
		wr(t+uint32(g.Intn(7))-3, t, uint32(g.Intn(3)))
		wr(randU32(g), randU32(g), randU32(g))
	}
}

func min64(a, b int64) int64 {
	if a < b {
		return a
	}
	return b
}

// groupC09meta: the real sessionStruct.Marshal / Unmarshal and dataAckStruct.Marshal (through the C09 export hooks) at the
// second the real clock shows (recorded in the case line as the last argument, so the translated definition gets the same).
func groupC09meta(n int) {
	g := r.Rng
	marshalS := func(m protocol.VerifC09Meta) []byte {
		var b []byte
		now := atSecond(func() { b = protocol.VerifC09MarshalSession(m) })
		emit("sessionMarshal", []string{fmt.Sprint(m.Proto), fmt.Sprint(m.SessionID), fmt.Sprint(m.Seq), fmt.Sprint(m.StatusCode), fmt.Sprint(m.PayloadLen), fmt.Sprint(m.SuffixLen), i(now)},
			func() string { return vh.Hex(b) })
		r.Distinct(fmt.Sprintf("smarshal/p%d/plen%v", m.Proto, m.PayloadLen > 1024))
		// docs/protocol.md, session metadata layout
		want := make([]byte, 32)
		want[0] = m.Proto
		binary.BigEndian.PutUint32(want[2:], uint32(now/60))
		binary.BigEndian.PutUint32(want[6:], m.SessionID)
		binary.BigEndian.PutUint32(want[10:], m.Seq)
		want[14] = m.StatusCode
		binary.BigEndian.PutUint16(want[15:], m.PayloadLen)
		want[17] = m.SuffixLen
		if !bytes.Equal(b, want) {
			r.Fail("session-metadata-layout-differs-from-document", "Marshal = "+vh.Hex(b)+", document = "+vh.Hex(want), map[string]string{"func": "sessionMarshal", "proto": fmt.Sprint(m.Proto)})
		}
		return b
	}
	unmarshalS := func(b []byte) {
		var got protocol.VerifC09Meta
		var err error
		now := atSecond(func() { got, err = protocol.VerifC09UnmarshalSession(b) })
		h := vh.Hex(b)
		if len(b) == 0 {
			h = "-"
		}
		out := emit("sessionUnmarshal", []string{h, i(now)}, func() string {
			if err != nil {
				return "ERR"
			}
			return metaFields(got)
		})
		cls := "len"
		if len(b) == 32 {
			d := int64(binary.BigEndian.Uint32(b[2:])) - now/60
			if d < -3 {
				d = -3
			}
			if d > 3 {
				d = 3
			}
			cls = fmt.Sprintf("p%d/d%d/plen%v", b[0], d, binary.BigEndian.Uint16(b[15:]) > 1024)
			// the property's reading: accepted iff session type, stamp within one minute, payload length <= 1024
			ok := b[0] >= 2 && b[0] <= 5 && d >= -1 && d <= 1 && binary.BigEndian.Uint16(b[15:]) <= 1024
			if ok != (out != "ERR") && now/60 > 1 {
				r.Fail("session-unmarshal-acceptance-differs-from-document", "Unmarshal("+h+") at "+i(now)+" = "+out, map[string]string{"func": "sessionUnmarshal", "bytes": h, "now": i(now)})
			}
		}
		r.Distinct("sunmarshal/" + cls + "/" + b2s(out != "ERR"))
	}
	marshalD := func(m protocol.VerifC09Meta) {
		var b []byte
		now := atSecond(func() { b = protocol.VerifC09MarshalDataAck(m) })
		emit("dataAckMarshal", []string{fmt.Sprint(m.Proto), fmt.Sprint(m.LEMode), fmt.Sprint(m.SessionID), fmt.Sprint(m.Seq), fmt.Sprint(m.UnAckSeq), fmt.Sprint(m.WindowSize),
			fmt.Sprint(m.Fragment), fmt.Sprint(m.PrefixLen), fmt.Sprint(m.PayloadLen), fmt.Sprint(m.SuffixLen), fmt.Sprint(m.LEMask), fmt.Sprint(m.ExtractedLen), fmt.Sprint(m.LERot), i(now)},
			func() string { return vh.Hex(b) })
		le := m.Proto == 10 || m.Proto == 11
		r.Distinct(fmt.Sprintf("dmarshal/p%d/le%v", m.Proto, le))
		want := make([]byte, 32)
		want[0] = m.Proto
		binary.BigEndian.PutUint32(want[2:], uint32(now/60))
		binary.BigEndian.PutUint32(want[6:], m.SessionID)
		binary.BigEndian.PutUint32(want[10:], m.Seq)
		binary.BigEndian.PutUint32(want[14:], m.UnAckSeq)
		binary.BigEndian.PutUint16(want[18:], m.WindowSize)
		want[20], want[21] = m.Fragment, m.PrefixLen
		binary.BigEndian.PutUint16(want[22:], m.PayloadLen)
		want[24] = m.SuffixLen
		if le {
			want[1] = m.LEMode
			binary.BigEndian.PutUint32(want[25:], m.LEMask)
			binary.BigEndian.PutUint16(want[29:], m.ExtractedLen)
			want[31] = m.LERot
		}
		if !bytes.Equal(b, want) {
			r.Fail("data-metadata-layout-differs-from-document", "Marshal = "+vh.Hex(b)+", document = "+vh.Hex(want), map[string]string{"func": "dataAckMarshal", "proto": fmt.Sprint(m.Proto)})
		}
	}
	randMeta := func() protocol.VerifC09Meta {
		return protocol.VerifC09Meta{Proto: uint8(g.Intn(14)), SessionID: randU32(g), Seq: randU32(g), StatusCode: uint8(g.Intn(256)),
			PayloadLen: uint16(randU32(g)), SuffixLen: uint8(g.Intn(256)), UnAckSeq: randU32(g), WindowSize: uint16(randU32(g)), Fragment: uint8(g.Intn(256)),
			PrefixLen: uint8(g.Intn(256)), LEMode: uint8(g.Intn(256)), LEMask: randU32(g), ExtractedLen: uint16(randU32(g)), LERot: uint8(g.Intn(256))}
	}
	for p := 0; p < 256; p++ { // every protocol byte, payload lengths around the limit, stamps -3..+3 minutes around now
		for _, plen := range []uint16{0, 1023, 1024, 1025, 65535} {
			m := protocol.VerifC09Meta{Proto: uint8(p), SessionID: 0x01020304, Seq: 0xa0b0c0d0, StatusCode: 3, PayloadLen: plen, SuffixLen: 200}
			b := marshalS(m)
			if p > 12 && plen != 1024 {
				continue
			}
			for d := -3; d <= 3; d++ {
				c := append([]byte{}, b...)
				binary.BigEndian.PutUint32(c[2:], binary.BigEndian.Uint32(b[2:])+uint32(d))
				unmarshalS(c)
			}
		}
		marshalD(protocol.VerifC09Meta{Proto: uint8(p), SessionID: 0x01020304, Seq: 5, UnAckSeq: 4, WindowSize: 256, Fragment: 1, PrefixLen: 2, PayloadLen: 1000, SuffixLen: 3,
			LEMode: 1, LEMask: 0x0f0f0f0f, ExtractedLen: 500, LERot: 17})
	}
	for _, l := range []int{0, 1, 17, 31, 33, 64} {
		unmarshalS(g.Bytes(l))
	}
	nn := n
	if nn > 20000 {
		nn = 20000
	}
	for k := 0; k < nn; k++ {
		m := randMeta()
		b := marshalS(m)
		marshalD(randMeta())
		switch g.Intn(4) {
		case 0:
			unmarshalS(g.Bytes(32))
		case 1:
			b[2+g.Intn(4)] ^= byte(1 << uint(g.Intn(8)))
			unmarshalS(b)
		default:
			b[0] = byte(2 + g.Intn(4))
			if g.Intn(2) == 0 {
				binary.BigEndian.PutUint16(b[15:], uint16(g.Intn(1100)))
			}
			unmarshalS(b)
		}
	}
}

func main() {
	group := flag.String("group", "all", "c17|c14|c09|c08|all: the functions of which check")
	nrand := flag.Int("n", 0, "random cases per function (0: 2000 in the quick tier, 100000 in the thorough tier)")
	r = vh.Start("xl")
	defer r.Finish()
	n := *nrand
	if n == 0 {
		n = 2000
		if r.Thorough() {
			n = 100000
		}
	}
	r.Rep.Rule = "translator validation: every function of go2coq's table (group " + *group + ") as the real Go function vs its translated Gallina definition on " +
		"boundary values (0, 1, 2^31, 2^32-1, 2^63, 2^64-1, bit patterns; ints around 0, 88, 255, 1280, 1500, 2^31, 2^61, min/max int; transports 0..3; padding room around 0 and 255) " +
		"in full products, then " + fmt.Sprint(n) + " random inputs per function from the seed (sparse / dense / short words, boundary picks, plausible MTU-sized values); " +
		"non-trivial/distinct = distinct (function, input class: mask weight band, transport, sign of the room)"
	if *group == "c17" || *group == "all" {
		groupC17(n)
	}
	if *group == "c14" || *group == "all" {
		groupC14(n)
	}
	if *group == "c09" || *group == "all" {
		groupC09()
		nonces(n)
		groupC09meta(n)
	}
	if *group == "c08" || *group == "all" {
		groupC08(n)
	}
	if r.Rep.Notes == nil {
		r.Rep.Notes = map[string]string{}
	}
	r.Rep.Notes["group"] = *group
}
