// Driver for C01 (TCP transport integrity).
//
// Every scenario runs a real client Mux and a real server Mux (harness/rig) over the simulated TCP
// network (harness/simnet) with adversarial read chunkers on both directions, 1..8 sessions that stream
// in both directions concurrently, per-side traffic patterns, and boundary write / read sizes.
//
// ORACLE (independent of the Coq model, judged against the property text): per session and direction
// the bytes returned by Read are exactly the bytes given to Write; the payloads found on the wire for
// that session are exactly those bytes; both byte streams of every connection decode completely with the
// reference codec; every Write returned len(b), nil; nothing stalled.
//
// CORRESPONDENCE cases (cases.txt) / what the implementation did (impl.txt):
//   FRAG mode                                 maxFragmentSize(mtu, stream, mode)               number
//   SEG now nbox {nonce:ct:pt:minute}* nch {size}* stream
//        one direction of one recorded connection (a prefix of at most segLimit bytes): the table of
//        its AEAD boxes in counter order (nonce, ciphertext - "@off+len" when it is literally in the
//        stream -, plaintext), a chunking, the real bytes.  The model runner instantiates `open` with
//        the table, parses metadata with meta_parse_c, decodes low entropy bodies with the LowEntropy
//        model and feeds the real bytes in the given chunks to the extracted `feed`.
//        impl: the segments refcodec decodes from the same bytes:
//        proto:sid:seq:frag:plen:pre:suf:elen:md5(payload) ... | left=<undelivered bytes> fail=<0|1>
//   PLAN client nev {W:mode:len | C:proto}*   send-side history of one session and direction
//        impl: proto:seq:frag:len of that session's segments on the wire
//   READ salt npay {len}* nrd {k:n}*          payload lengths in arrival order and the Read calls
//        impl: n:md5(bytes returned) per Read (the runner accepts n iff some arrival count explains it)
package main

import (
	"crypto/md5"
	"encoding/hex"
	"fmt"
	"io"
	"net"
	"runtime"
	"runtime/debug"
	"sort"
	"strings"
	"sync"
	"time"

	"github.com/enfein/mieru/v3/apis/trafficpattern"
	pb "github.com/enfein/mieru/v3/pkg/appctl/appctlpb"
	"github.com/enfein/mieru/v3/pkg/protocol"
	"google.golang.org/protobuf/proto"
	rc "verifharness/refcodec"
	"verifharness/rig"
	"verifharness/simnet"
	"verifharness/trace"
	"verifharness/vh"
)

const (
	user = "alice"
	pass = "alice-password"
)

type sessSpec struct {
	w     [2][]int         // write sizes: [0] client->server, [1] server->client
	rd    [2][]int         // read size cycle of the receiver of direction d
	stall [2]time.Duration // the receiver of direction d does not read for this long (virtual time) after it got the session
	idx   int
}

type scen struct {
	name     string
	pat      [2]*pb.TrafficPattern // [0] client, [1] server
	mux      int
	sess     []sessSpec
	chunker  [2]int // chunker kind per direction
	chunkArg int
	// back-pressure on the TCP connection itself: bounded in-flight buffer (conn.Write blocks when it is full) and a
	// receiver that pauses for stallDur of virtual time every stallEvery bytes; 0 = off
	capBytes   [2]int
	stallEvery [2]int
	stallDur   time.Duration
}

// relayWriter writes like a real relay (io.Copy): ONE buffer per writer, refilled for every block, and scribbled with a
// poison pattern immediately after Write returns.  Write must have value semantics (io.Writer: "Write must not retain p").
type relayWriter struct{ buf []byte }

func (w *relayWriter) write(c net.Conn, block []byte) (int, error) {
	if cap(w.buf) < len(block) {
		w.buf = make([]byte, len(block))
	}
	b := w.buf[:len(block)]
	copy(b, block)
	n, err := c.Write(b)
	for i := range b {
		b[i] = 0xDB ^ byte(i)
	}
	return n, err
}

func stallChunk(inner func(int) int, every int, dur time.Duration) func(int) int {
	consumed, next := 0, every
	return func(avail int) int {
		n := inner(avail)
		consumed += n
		if consumed >= next {
			next = consumed + every
			time.Sleep(dur) // the receiving TCP stack does not drain for a while (virtual time)
		}
		return n
	}
}

type readRec struct {
	k, n int
	sum  string
}

type sessRun struct {
	spec   sessSpec
	id     uint32
	got    [2][]byte    // bytes read by the receiver of direction d
	reads  [2][]readRec // Read calls of the receiver of direction d
	werr   [2]string
	rerr   [2]string
	conn   [2]net.Conn // [0] client side, [1] server side
	rdDone [2]bool
}

func salt(sidx, d int) int { return (1 + 2*sidx + d) & 0xff }

// pattern byte j of the stream with the given salt (the OCaml runner regenerates it)
func patByte(s, j int) byte { return byte((j*7 + (j>>8)*13 + s) & 0xff) }

func mkData(s, n int) []byte {
	b := make([]byte, n)
	for j := range b {
		b[j] = patByte(s, j)
	}
	return b
}

func md5hex(b []byte) string {
	h := md5.Sum(b)
	return hex.EncodeToString(h[:])
}

func sum(l []int) int {
	t := 0
	for _, x := range l {
		t += x
	}
	return t
}

type chunkRec struct {
	mu    sync.Mutex
	sizes []int
}

// chunker kinds: 0 everything, 1 one byte, 2 random, 3 all-but-one (split just before every field
// boundary the reader asks for), 4 one-then-rest (split just after every boundary), 5 mixture
func mkChunker(kind, arg int, g *vh.Rng, rec *chunkRec) func(int) int {
	flip := false
	return func(avail int) int {
		n := avail
		k := kind
		if k == 5 {
			k = g.Intn(5)
		}
		switch k {
		case 1:
			n = 1
		case 2:
			n = 1 + g.Intn(arg)
		case 3:
			if avail > 1 {
				n = avail - 1
			}
		case 4:
			flip = !flip
			if flip {
				n = 1
			}
		}
		if n > avail {
			n = avail
		}
		if n < 1 {
			n = 1
		}
		rec.sizes = append(rec.sizes, n) // called under the pipe's lock
		return n
	}
}

func validRot(g *vh.Rng) int32 {
	k := g.Intn(31)
	if k < 16 {
		return int32(k)
	}
	return int32((k - 15) * 16)
}

func mkPattern(g *vh.Rng, mode int, mid, end int, frag bool, nonceType int, seed int32) *pb.TrafficPattern {
	p := &pb.TrafficPattern{Seed: proto.Int32(seed)}
	if mid >= -1 || end >= -1 {
		p.Padding = &pb.PaddingPattern{}
		if mid >= 0 {
			p.Padding.MaxMiddlePaddingLen = proto.Int32(int32(mid))
		}
		if end >= 0 {
			p.Padding.MaxEndPaddingLen = proto.Int32(int32(end))
		}
	}
	p.LowEntropy = &pb.LowEntropyPattern{Mode: pb.LowEntropyMode(mode).Enum(), MaskRotation: pb.LowEntropyMaskRotation(validRot(g)).Enum()}
	if mode == 0 {
		p.LowEntropy.MaskRotation = pb.LowEntropyMaskRotation(0).Enum()
	}
	p.TcpFragment = &pb.TCPFragment{Enable: proto.Bool(frag), MaxSleepMs: proto.Int32(int32(g.Intn(3)))}
	switch nonceType {
	case 1, 2:
		p.Nonce = &pb.NoncePattern{Type: pb.NonceType(nonceType).Enum(), MinLen: proto.Int32(int32(g.Intn(6))), MaxLen: proto.Int32(int32(6 + g.Intn(6)))}
	case 3:
		p.Nonce = &pb.NoncePattern{Type: pb.NonceType_NONCE_TYPE_FIXED.Enum(), CustomHexStrings: []string{"00010203", "aabbccddeeff"}}
	case 0:
		p.Nonce = &pb.NoncePattern{Type: pb.NonceType_NONCE_TYPE_RANDOM.Enum()}
	}
	if err := trafficpattern.Validate(p); err != nil {
		p.Nonce = nil
		if err2 := trafficpattern.Validate(p); err2 != nil {
			panic(fmt.Sprintf("invalid generated pattern: %v", err2))
		}
	}
	return p
}

var boundarySizes = []int{0, 1, 1023, 1024, 1025, 32763, 32764, 32765, 32767, 32768, 32769, 2, 65536, 65537, 4096, 1024 * 3}
var readSizes = []int{1, 2, 7, 100, 1023, 1024, 1025, 4096, 32764, 32768, 32769, 65536, 65535, 333}

func genWrites(g *vh.Rng, budget int, first int) []int {
	var w []int
	if first >= 0 {
		w = append(w, first)
		budget -= first
	}
	n := g.Intn(6)
	for i := 0; i < n && budget > 0; i++ {
		var s int
		switch g.Intn(5) {
		case 0:
			s = boundarySizes[g.Intn(len(boundarySizes))]
		case 1:
			s = g.Intn(200)
		case 2:
			s = g.Intn(5000)
		case 3:
			s = 32768*(1+g.Intn(3)) + g.Intn(3) - 1
		default:
			s = g.Intn(budget + 1)
		}
		if s > budget {
			s = budget
		}
		w = append(w, s)
		budget -= s
	}
	return w
}

func genReads(g *vh.Rng) []int {
	n := 1 + g.Intn(4)
	r := make([]int, n)
	for i := range r {
		if g.Intn(3) == 0 {
			r[i] = 1 + g.Intn(65536)
		} else {
			r[i] = readSizes[g.Intn(len(readSizes))]
		}
	}
	return r
}

func genScenario(g *vh.Rng, i int, thorough bool) scen {
	var sc scen
	cm, sm := i%5, (i/5)%5 // low entropy mode of client / server side
	if i >= 25 {
		cm, sm = g.Intn(5), g.Intn(5)
	}
	pads := []int{-2, 0, 255, 7, -1, 64}
	sc.pat[0] = mkPattern(g, cm, pads[g.Intn(len(pads))], pads[g.Intn(len(pads))], g.Intn(3) == 0, g.Intn(5)-1, int32(g.Intn(1000)))
	sc.pat[1] = mkPattern(g, sm, pads[g.Intn(len(pads))], pads[g.Intn(len(pads))], g.Intn(3) == 0, g.Intn(5)-1, int32(g.Intn(1000)))
	if i%11 == 10 {
		sc.pat[0], sc.pat[1] = nil, nil // default behaviour, no pattern at all
	}
	sc.mux = []int{0, 1, 3, 3, 2}[g.Intn(5)]
	ns := 1
	if sc.mux > 0 {
		ns = 1 + g.Intn(8)
	} else if g.Intn(3) == 0 {
		ns = 1 + g.Intn(3)
	}
	if i < 16 {
		ns = 1 + i%3
	}
	budget := 200 * 1024
	if i%7 == 3 {
		budget = 900 * 1024
	}
	if thorough {
		switch {
		case i%97 == 50:
			budget = 6 << 20 // multi-MiB
		case i%13 == 5:
			budget = 1 << 20
		}
	}
	sc.chunker[0], sc.chunker[1] = g.Intn(6), g.Intn(6)
	if i < 12 {
		sc.chunker[0], sc.chunker[1] = i%6, (i/2)%6
	}
	sc.chunkArg = []int{3, 50, 1500, 70000}[g.Intn(4)]
	for d := 0; d < 2; d++ {
		if sc.chunker[d] == 1 && budget > 48*1024 {
			budget = 48 * 1024 // one byte reads are slow
		}
	}
	per := budget / ns / 2
	for s := 0; s < ns; s++ {
		var sp sessSpec
		sp.idx = s
		first := -1
		if i < len(boundarySizes)*2 && s == 0 {
			first = boundarySizes[(i/2)%len(boundarySizes)]
		} else if g.Intn(3) == 0 {
			first = boundarySizes[g.Intn(len(boundarySizes))]
		}
		if first > per {
			first = per
		}
		sp.w[0] = genWrites(g, per, first)
		if len(sp.w[0]) == 0 {
			sp.w[0] = []int{g.Intn(3)}
		}
		sp.w[1] = genWrites(g, per, -1)
		if i%2 == 1 && s == 0 && i < len(boundarySizes)*2 {
			f := boundarySizes[(i/2)%len(boundarySizes)]
			if f > per {
				f = per
			}
			sp.w[1] = append([]int{f}, sp.w[1]...)
		}
		sp.rd[0], sp.rd[1] = genReads(g), genReads(g)
		sc.sess = append(sc.sess, sp)
	}
	sc.name = fmt.Sprintf("s%d-le%d/%d-mux%d-n%d-ch%d/%d", i, cm, sm, sc.mux, ns, sc.chunker[0], sc.chunker[1])
	return sc
}

// genBacklog: a slow reader.  One session carries [count] one-segment writes of 1..8 bytes in direction d while
// the receiving application does not read for [stall] of virtual time (recvQueue holds segmentTreeCapacity = 4096
// segments, recvChan 256 more; beyond that the session's input loop, then the underlay's event loop, must WAIT -
// TCP has no retransmission, so anything not handed on is lost).  With [second], another session shares the
// underlay and keeps writing both ways: it is blocked behind the stalled one (head of line) and must still be
// delivered completely once the slow reader resumes.
func genBacklog(g *vh.Rng, k int, count int, stall time.Duration, d int, second bool) scen {
	var sc scen
	if k%3 == 1 {
		sc.pat[0] = mkPattern(g, 1+g.Intn(4), 7, 0, false, -1, int32(g.Intn(1000)))
		sc.pat[1] = mkPattern(g, 1+g.Intn(4), 0, 7, false, -1, int32(g.Intn(1000)))
	}
	sc.mux = 1000 // share the underlay
	sc.chunker[0], sc.chunker[1] = []int{0, 2, 0}[k%3], []int{0, 0, 2}[k%3]
	sc.chunkArg = 70000
	var sp sessSpec
	sp.w[0], sp.w[1] = []int{1}, nil
	for i := 0; i < count; i++ {
		sp.w[d] = append(sp.w[d], 1+g.Intn(8))
	}
	if d == 0 {
		sp.w[0] = sp.w[0][1:]
	}
	sp.rd[0], sp.rd[1] = []int{65536, 4096}, []int{65536, 333}
	sp.stall[d] = stall
	sc.sess = append(sc.sess, sp)
	if second {
		var s2 sessSpec
		s2.idx = 1
		s2.w[0] = []int{100, 2000, 40000, 7}
		s2.w[1] = []int{5, 33000, 1}
		s2.rd[0], s2.rd[1] = []int{4096}, []int{1000, 65536}
		sc.sess = append(sc.sess, s2)
	}
	sc.name = fmt.Sprintf("backlog%d-n%d-stall%dms-dir%d-second%v", k, count, stall.Milliseconds(), d, second)
	return sc
}

// genSiblingStall: the TCP connection itself exerts back-pressure (bounded in-flight buffer, receiver pausing), a
// sibling session on the same underlay streams large blocks - its output goroutine sits in conn.Write holding the
// underlay's sendMutex - while the victim session writes nblk blocks of blk bytes from ONE reused buffer.  Segments
// of the victim wait, queued and not yet encrypted, while the application already refills its buffer.
func genSiblingStall(g *vh.Rng, k int, dirs int, nblk, blk int) scen {
	var sc scen
	if k%4 == 1 {
		sc.pat[0] = mkPattern(g, g.Intn(5), 7, 7, false, -1, int32(g.Intn(1000)))
		sc.pat[1] = mkPattern(g, g.Intn(5), 0, 64, false, -1, int32(g.Intn(1000)))
	}
	sc.mux = 1000
	sc.chunker[0], sc.chunker[1] = 0, 0
	sc.chunkArg = 70000
	sc.stallDur = 4 * time.Millisecond
	for d := 0; d < 2; d++ {
		if dirs&(1<<d) != 0 {
			sc.capBytes[d] = 4096
			sc.stallEvery[d] = 9000 + g.Intn(4000)
		}
	}
	var sib, vic sessSpec
	vic.idx = 1
	sib.w[0], vic.w[0] = []int{1}, []int{g.Intn(3)}
	for d := 0; d < 2; d++ {
		if dirs&(1<<d) == 0 {
			continue
		}
		for i := 0; i < 6; i++ {
			sib.w[d] = append(sib.w[d], 32768)
		}
		for i := 0; i < nblk; i++ {
			vic.w[d] = append(vic.w[d], blk)
		}
	}
	sib.rd[0], sib.rd[1] = []int{65536}, []int{65536}
	vic.rd[0], vic.rd[1] = []int{4096, 65536}, []int{333, 65536}
	sc.sess = []sessSpec{sib, vic}
	if k%2 == 1 { // a second victim with odd sizes
		v2 := sessSpec{idx: 2}
		v2.w[0] = []int{5}
		for d := 0; d < 2; d++ {
			if dirs&(1<<d) != 0 {
				for i := 0; i < nblk/2+1; i++ {
					v2.w[d] = append(v2.w[d], 1+g.Intn(2*blk))
				}
			}
		}
		v2.rd[0], v2.rd[1] = []int{1000}, []int{65536}
		sc.sess = append(sc.sess, v2)
	}
	sc.name = fmt.Sprintf("sibstall%d-dirs%d-%dx%d", k, dirs, nblk, blk)
	return sc
}

type idConn interface{ ToSessionInfo() *pb.SessionInfo }

func connID(c net.Conn) uint32 {
	ic, ok := c.(idConn)
	if !ok {
		return 0
	}
	var id uint32
	fmt.Sscanf(ic.ToSessionInfo().GetId(), "%d", &id)
	return id
}

// runScenario executes the scenario on real muxes; returns the session runs, the event log and the
// recorded chunk sizes per connection and direction.
func runScenario(r *vh.Run, sc scen, g *vh.Rng) (runs []*sessRun, events []simnet.Event, chunks map[int]*[2]*chunkRec, fatal string) {
	nw := simnet.New()
	chunks = map[int]*[2]*chunkRec{}
	var cmu sync.Mutex
	nw.TCPPolicy = func(id int, ca, sa string) (*simnet.PipePolicy, *simnet.PipePolicy) {
		recs := &[2]*chunkRec{{}, {}}
		cmu.Lock()
		chunks[id] = recs
		cmu.Unlock()
		var pol [2]*simnet.PipePolicy
		for d := 0; d < 2; d++ {
			ch := mkChunker(sc.chunker[d], sc.chunkArg, g.Fork(), recs[d])
			if sc.stallEvery[d] > 0 {
				ch = stallChunk(ch, sc.stallEvery[d], sc.stallDur)
			}
			pol[d] = &simnet.PipePolicy{Chunk: ch, Cap: sc.capBytes[d]}
		}
		return pol[0], pol[1]
	}
	rg, err := rig.Start(rig.Opts{Transport: "tcp", Users: map[string]string{user: pass}, ClientUser: user, ClientPass: pass,
		ClientPattern: sc.pat[0], ServerPattern: sc.pat[1], Multiplex: sc.mux, Net: nw})
	if err != nil {
		return nil, nil, nil, "rig.Start: " + err.Error()
	}
	byID := map[uint32]*sessRun{}
	var bmu sync.Mutex
	var wg sync.WaitGroup
	done := make(chan struct{})

	writer := func(sr *sessRun, d int, c net.Conn) {
		defer wg.Done()
		data := mkData(salt(sr.spec.idx, d), sum(sr.spec.w[d]))
		off := 0
		var rw relayWriter
		for wi, sz := range sr.spec.w[d] {
			if d == 0 && wi == 0 {
				continue // the first client write is done by the opener
			}
			n, err := rw.write(c, data[off:off+sz])
			if err != nil || n != sz {
				sr.werr[d] = fmt.Sprintf("write %d of %d bytes returned (%d, %v)", wi, sz, n, err)
				return
			}
			off += sz
		}
	}
	reader := func(sr *sessRun, d int, c net.Conn) {
		defer wg.Done()
		want := sum(sr.spec.w[d])
		cyc := sr.spec.rd[d]
		if sr.spec.stall[d] > 0 {
			time.Sleep(sr.spec.stall[d]) // a slow application: the peer's segments pile up in recvQueue / recvChan / the socket
		}
		buf := make([]byte, 65536+8)
		timeouts := 0
		for i := 0; len(sr.got[d]) < want; i++ {
			k := cyc[i%len(cyc)]
			n, err := c.Read(buf[:k])
			if err != nil {
				if strings.Contains(err.Error(), "timeout") && timeouts < 50 {
					timeouts++
					continue
				}
				sr.rerr[d] = fmt.Sprintf("read %d (size %d) after %d bytes: %v", i, k, len(sr.got[d]), err)
				return
			}
			sr.reads[d] = append(sr.reads[d], readRec{k, n, md5hex(buf[:n])})
			sr.got[d] = append(sr.got[d], buf[:n]...)
		}
		sr.rdDone[d] = true
	}

	// server side acceptor
	nsess := len(sc.sess)
	accDone := make(chan struct{})
	go func() {
		defer close(accDone)
		for i := 0; i < nsess; i++ {
			var c net.Conn
			select {
			case c = <-rg.Accepted:
			case <-done:
				return
			}
			id := connID(c)
			bmu.Lock()
			sr := byID[id]
			bmu.Unlock()
			for tries := 0; sr == nil && tries < 100; tries++ {
				time.Sleep(time.Millisecond)
				bmu.Lock()
				sr = byID[id]
				bmu.Unlock()
			}
			if sr == nil {
				continue
			}
			sr.conn[1] = c
			wg.Add(2)
			go reader(sr, 0, c)
			go writer(sr, 1, c)
		}
	}()

	for _, sp := range sc.sess {
		c, err := rg.Dial()
		if err != nil {
			close(done)
			rg.Close()
			return nil, nil, nil, "Dial: " + err.Error()
		}
		sr := &sessRun{spec: sp, id: connID(c)}
		sr.conn[0] = c
		bmu.Lock()
		byID[sr.id] = sr
		bmu.Unlock()
		runs = append(runs, sr)
		// first client write (opens the session)
		first := sp.w[0][0]
		data := mkData(salt(sp.idx, 0), first)
		rw := &relayWriter{}
		n, err := rw.write(c, data)
		if err != nil || n != first {
			sr.werr[0] = fmt.Sprintf("first write of %d bytes returned (%d, %v)", first, n, err)
		}
		wg.Add(2)
		go func(sr *sessRun, c net.Conn, first int) {
			// continue client writes after the first (same relay buffer)
			defer wg.Done()
			data := mkData(salt(sr.spec.idx, 0), sum(sr.spec.w[0]))
			off := first
			for wi, sz := range sr.spec.w[0][1:] {
				n, err := rw.write(c, data[off:off+sz])
				if err != nil || n != sz {
					sr.werr[0] = fmt.Sprintf("write %d of %d bytes returned (%d, %v)", wi+1, sz, n, err)
					return
				}
				off += sz
			}
		}(sr, c, first)
		go reader(sr, 1, c)
	}

	fin := make(chan struct{})
	go func() {
		<-accDone
		wg.Wait()
		close(fin)
	}()
	select {
	case <-fin:
	case <-time.After(600 * time.Second): // virtual time
		fatal = "stall: not every byte was delivered within 600 s of virtual time"
	}
	close(done)
	// let in-flight output reach the wire, then tear down
	time.Sleep(50 * time.Millisecond)
	for _, sr := range runs {
		if sr.conn[0] != nil {
			sr.conn[0].Close()
		}
	}
	rg.Close()
	return runs, nw.Log.Snapshot(), chunks, fatal
}

func isQueued(p uint8) bool { return p == 2 || p == 3 || rc.IsDataProto(p) }

func segLine(s rc.Segment) string {
	m := s.Meta
	pre := 0
	if !m.IsSession() {
		pre = int(m.PrefixLen)
	}
	return fmt.Sprintf("%d:%d:%d:%d:%d:%d:%d:%d:%s", m.Proto, m.SessionID, m.Seq, m.Fragment, m.PayloadLen, pre, m.SuffixLen, m.ExtractedLen, md5hex(s.Payload))
}

// emitSEG writes the SEG case of one direction (prefix of at most limit bytes).
func emitSEG(r *vh.Run, g *vh.Rng, events []simnet.Event, tc *trace.TCPConn, d *trace.Dir, rec *chunkRec, limit int) {
	if len(d.Bytes) == 0 || len(d.Segs) == 0 {
		return
	}
	hp := rc.HashedPassword(user, pass)
	at := time.Unix(0, tc.DialAt)
	var key []byte
	for _, k := range rc.KeysAt(hp, at) {
		if _, err := rc.Open(k, d.Bytes[:24], d.Bytes[24:72]); err == nil {
			key = k
			break
		}
	}
	if key == nil {
		r.Fail("stream-undecodable", "no key of the user opens the first box", map[string]interface{}{"conn": tc.ID})
		return
	}
	cut := len(d.Bytes)
	if cut > limit {
		cut = limit - g.Intn(limit/4)
	}
	// walk the segments, open every box with the real key
	var tbl []string
	nonce := append([]byte(nil), d.Bytes[:24]...)
	// minute of the receiver's clock when it parses the segment that starts at a stream offset: the
	// time of the Write call that carried its first byte (the reader runs right behind the writer)
	wi, wend := 0, 0
	minuteAt := func(off int) int64 {
		for wi < len(d.Writes) && wend+d.Writes[wi] <= off {
			wend += d.Writes[wi]
			wi++
		}
		if wi < len(d.WriteAt) {
			return events[d.WriteAt[wi]].T / 60e9
		}
		return tc.DialAt / 60e9
	}
	pos := 24
	segStart := 0
	for _, s := range d.Segs {
		m := s.Meta
		p := segStart
		if segStart == 0 {
			p = 24
		}
		if p+48 > cut {
			break
		}
		pt, err := rc.Open(key, nonce, d.Bytes[p:p+48])
		if err != nil {
			r.Fail("stream-undecodable", "metadata box does not open at its counter", map[string]interface{}{"conn": tc.ID, "off": p})
			return
		}
		tbl = append(tbl, fmt.Sprintf("%s:@%d+48:%s:%d", hex.EncodeToString(nonce), p, hex.EncodeToString(pt), minuteAt(segStart)))
		nonce = rc.NonceInc(nonce)
		p += 48
		if !m.IsSession() {
			p += int(m.PrefixLen)
		}
		if m.PayloadLen > 0 {
			bl := int(m.PayloadLen) + 16
			if p+bl <= cut {
				body := d.Bytes[p : p+bl]
				var ctref string
				box := body
				if m.IsLowEntropy() {
					ct, err := rc.LEDecode(body[:m.PayloadLen], m.LEMode, m.LEMask, m.LERot, int(m.ExtractedLen))
					if err != nil {
						r.Fail("stream-undecodable", "low entropy body does not decode", map[string]interface{}{"conn": tc.ID, "off": p})
						return
					}
					box = append(ct, body[m.PayloadLen:]...)
					ctref = hex.EncodeToString(box)
				} else {
					ctref = fmt.Sprintf("@%d+%d", p, bl)
				}
				pt, err := rc.Open(key, nonce, box)
				if err != nil {
					r.Fail("stream-undecodable", "payload box does not open at its counter", map[string]interface{}{"conn": tc.ID, "off": p})
					return
				}
				tbl = append(tbl, fmt.Sprintf("%s:%s:%s:-", hex.EncodeToString(nonce), ctref, vh.Hex(pt)))
			}
			nonce = rc.NonceInc(nonce)
		}
		segStart += s.WireLen
		_ = pos
	}
	// a trailing incomplete segment (cut by the prefix or by the teardown): its metadata box may be complete
	if p := map[bool]int{true: 24, false: segStart}[segStart == 0]; len(d.Segs) > 0 && segStart > 0 && p+48 <= cut {
		if pt, err := rc.Open(key, nonce, d.Bytes[p:p+48]); err == nil {
			tbl = append(tbl, fmt.Sprintf("%s:@%d+48:%s:%d", hex.EncodeToString(nonce), p, hex.EncodeToString(pt), minuteAt(segStart)))
		}
	}
	// chunking for the model: the sizes the real reader got, coalesced to bound the cost
	maxChunks := 400
	if cut > 16*1024 {
		maxChunks = 60
	}
	minSize := cut/maxChunks + 1
	var ch []int
	acc, tot := 0, 0
	rec.mu.Lock()
	for _, s := range rec.sizes {
		if tot+s > cut {
			break
		}
		acc += s
		tot += s
		if acc >= minSize || cut <= 4000 {
			ch = append(ch, acc)
			acc = 0
		}
	}
	rec.mu.Unlock()
	if acc > 0 {
		ch = append(ch, acc)
	}
	if tot < cut {
		ch = append(ch, cut-tot)
	}
	var sb strings.Builder
	fmt.Fprintf(&sb, "SEG %d %d", tc.DialAt/60e9, len(tbl))
	for _, t := range tbl {
		sb.WriteString(" ")
		sb.WriteString(t)
	}
	fmt.Fprintf(&sb, " %d", len(ch))
	for _, c := range ch {
		fmt.Fprintf(&sb, " %d", c)
	}
	sb.WriteString(" ")
	sb.WriteString(hex.EncodeToString(d.Bytes[:cut]))
	// impl: refcodec on the same prefix
	dec := rc.NewStreamDecoder([][]byte{key})
	segs, err := dec.Feed(d.Bytes[:cut])
	var ib strings.Builder
	for _, s := range segs {
		ib.WriteString(segLine(s))
		ib.WriteString(" ")
	}
	fail := 0
	left := cut
	for _, s := range segs {
		left -= s.WireLen
	}
	if err != nil {
		fail, left = 1, 0
	}
	fmt.Fprintf(&ib, "| left=%d fail=%d", left, fail)
	r.Case(sb.String(), ib.String())
	r.Count("SEG")
}

// emitPLAN reconstructs the send-side history of one session and direction from the wire and compares
// the model's plan with what was sent.
func emitPLAN(r *vh.Run, sr *sessRun, d int, segs []rc.Segment, name string) {
	ws := sr.spec.w[d]
	// relevant prefix: up to the last open / data segment
	last := -1
	for i, s := range segs {
		if isQueued(s.Meta.Proto) {
			last = i
		}
	}
	segs = segs[:last+1]
	var ev []string
	var impl []string
	wi := -1 // current write
	rem := 0
	runLen, runMode := -1, 0
	flush := func() {
		if runLen >= 0 {
			ev = append(ev, fmt.Sprintf("W:%d:%d", runMode, runLen))
		}
		runLen, runMode = -1, 0
	}
	nextWrite := func() bool {
		for {
			wi++
			if wi >= len(ws) {
				return false
			}
			flush()
			if ws[wi] > 0 || (d == 0 && wi == 0) {
				rem = ws[wi]
				runLen = 0
				return true
			}
			ev = append(ev, "W:0:0")
		}
	}
	ok := true
	for _, s := range segs {
		m := s.Meta
		impl = append(impl, fmt.Sprintf("%d:%d:%d:%d", m.Proto, m.Seq, m.Fragment, len(s.Payload)))
		switch {
		case m.Proto == 2:
			if !nextWrite() || wi != 0 {
				ok = false
			}
			rem -= len(s.Payload)
			runLen += len(s.Payload)
		case m.Proto >= 3 && m.Proto <= 5:
			// control segment: close the current run (the rest of the write, if any, continues after it)
			if runLen > 0 || (runLen == 0 && wi == 0 && d == 0) {
				flush()
				if rem > 0 {
					runLen = 0
				}
			}
			ev = append(ev, fmt.Sprintf("C:%d", m.Proto))
		case rc.IsDataProto(m.Proto):
			if rem == 0 {
				if !nextWrite() {
					ok = false
				}
			}
			if runLen < 0 {
				runLen = 0
			}
			// writeChunk reads the low entropy send mode once per chunk: a server Write may switch from
			// plain to low entropy between two chunks (when the client's first low entropy segment arrives)
			if segMode := map[bool]int{true: int(m.LEMode), false: 0}[m.IsLowEntropy()]; runLen > 0 && segMode != runMode && !(wi == 0 && d == 0) {
				flush()
				runLen = 0
			}
			if runLen == 0 || (wi == 0 && d == 0 && runMode == 0 && m.IsLowEntropy()) {
				runMode = int(m.LEMode)
			}
			rem -= len(s.Payload)
			runLen += len(s.Payload)
			if rem < 0 {
				ok = false
			}
		}
	}
	flush()
	for wi+1 < len(ws) { // trailing empty writes
		wi++
		if ws[wi] != 0 {
			ok = false
		}
	}
	if !ok || rem != 0 {
		r.Fail("wire-payload-mismatch", "the segments of a session on the wire do not add up to its writes",
			map[string]interface{}{"scenario": name, "session": sr.spec.idx, "dir": d, "writes": ws, "segments": impl})
	}
	r.Case(fmt.Sprintf("PLAN %d %d %s", 1-d, len(ev), strings.Join(ev, " ")), strings.Join(impl, " "))
	r.Count("PLAN")
}

func emitREAD(r *vh.Run, sr *sessRun, d int, segs []rc.Segment) {
	var lens []string
	for _, s := range segs {
		if isQueued(s.Meta.Proto) {
			lens = append(lens, fmt.Sprint(len(s.Payload)))
		}
	}
	var rds, impl []string
	for _, rr := range sr.reads[d] {
		rds = append(rds, fmt.Sprintf("%d:%d", rr.k, rr.n))
		impl = append(impl, fmt.Sprintf("%d:%s", rr.n, rr.sum))
	}
	r.Case(fmt.Sprintf("READ %d %d %s %d %s", salt(sr.spec.idx, d), len(lens), strings.Join(lens, " "), len(rds), strings.Join(rds, " ")),
		strings.Join(impl, " "))
	r.Count("READ")
}

func firstDiff(a, b []byte) int {
	n := len(a)
	if len(b) < n {
		n = len(b)
	}
	for i := 0; i < n; i++ {
		if a[i] != b[i] {
			return i
		}
	}
	return n
}

func main() {
	r := vh.Start("c01")
	defer r.Finish()
	// Go 1.23's faketime runtime occasionally deadlocks in gcMarkTermination.forEachP when a collection
	// runs while goroutines sleep on virtual timers (seen as a hang with two goroutines in time.Sleep and the
	// GC worker "flushing proc caches").  Collections therefore run only between scenarios, when the muxes
	// are closed and nothing is pending.
	debug.SetGCPercent(-1)
	r.Rep.Rule = "scenarios = real client and server Mux over simulated TCP; boundary write sizes (0, 1, 1023..1025, 32763..32769, 65536/7) first, " +
		"low entropy mode pairs 5x5 enumerated, then random patterns (padding maxima, TCP fragmentation, nonce types, 31 rotations), 1..8 sessions, " +
		"6 chunker kinds per direction, random read sizes 1..65536; non-trivial class = (client mode, server mode, chunkers, sessions>1, first-write class)"

	// maxFragmentSize on the stream transport, all modes
	for mode := int32(0); mode < 8; mode++ {
		v, err := protocol.VerifC01StreamFragmentSize(1400, mode)
		if err != nil {
			v = 0
		}
		r.Case(fmt.Sprintf("FRAG %d", mode), fmt.Sprint(v))
		r.Count("FRAG")
	}

	nscen := 40
	segLimit := 64 * 1024
	if r.Thorough() {
		nscen = 520
	}
	totalBytes := 0
	sessPerUnderlay := map[int]int{}
	// slow-reader backlog scenarios (after the ordinary ones)
	type bl struct {
		count  int
		stall  time.Duration
		d      int
		second bool
	}
	var backlog []bl
	if r.Thorough() {
		k := 0
		for _, c := range []int{4095, 4096, 4097, 4104, 4400, 6000} {
			for _, st := range []time.Duration{time.Second, 2500 * time.Millisecond, 5 * time.Second, 30 * time.Second} {
				backlog = append(backlog, bl{c, st, k % 2, k%3 == 0})
				backlog = append(backlog, bl{c, st, 1 - k%2, k%3 == 1})
				k++
			}
		}
	} else {
		backlog = []bl{{4104, 2500 * time.Millisecond, 0, false}, {4097, 5 * time.Second, 1, false}, {4400, 30 * time.Second, 1, true},
			{6000, 5 * time.Second, 0, true}, {4096, 2500 * time.Millisecond, 0, false}, {4095, time.Second, 1, true}}
	}
	type ss struct{ dirs, nblk, blk int }
	sibs := []ss{{1, 8, 16384}, {2, 8, 16384}, {3, 12, 4096}, {3, 10, 1}}
	if r.Thorough() {
		for _, blk := range []int{1, 7, 100, 1024, 1025, 4096, 16384, 32764, 32768, 40000} {
			for dirs := 1; dirs <= 3; dirs++ {
				sibs = append(sibs, ss{dirs, 4 + (blk+dirs)%9, blk})
			}
		}
	}
	for i := 0; i < nscen+len(backlog)+len(sibs); i++ {
		g := r.Rng.Fork()
		var sc scen
		if i < nscen {
			sc = genScenario(g, i, r.Thorough())
		} else if i >= nscen+len(backlog) {
			k := i - nscen - len(backlog)
			sc = genSiblingStall(g, k, sibs[k].dirs, sibs[k].nblk, sibs[k].blk)
			r.Count("sibling-stall-scenario")
		} else {
			b := backlog[i-nscen]
			sc = genBacklog(g, i-nscen, b.count, b.stall, b.d, b.second)
			r.Count("backlog-scenario")
		}
		runs, events, chunks, fatal := runScenario(r, sc, g)
		desc := map[string]interface{}{"scenario": sc.name, "index": i, "seed": r.Seed}
		runtime.GC()
		if fatal != "" {
			sig := "stall"
			if !strings.HasPrefix(fatal, "stall") {
				sig = "setup"
			}
			for _, sr := range runs {
				for d := 0; d < 2; d++ {
					if sr.werr[d] != "" || sr.rerr[d] != "" {
						fatal += fmt.Sprintf("; session %d dir %d: %s %s (read %d of %d)", sr.spec.idx, d, sr.werr[d], sr.rerr[d], len(sr.got[d]), sum(sr.spec.w[d]))
					}
				}
			}
			r.Fail(sig, fatal, desc)
			if runs == nil {
				continue
			}
		}
		r.Count("scenario")
		conns := trace.TCP(events, []trace.Cred{{User: user, Pass: pass}})
		diag := ""
		{
			t0 := int64(0)
			for _, e := range events {
				if t0 == 0 {
					t0 = e.T
				}
				if e.Kind == "tcp-close" || e.Kind == "tcp-reset" || e.Kind == "tcp-dial" {
					diag += fmt.Sprintf("[%s c%d %s +%dms] ", e.Kind, e.Conn, e.Src, (e.T-t0)/1e6)
				}
			}
			for _, tc := range conns {
				diag += fmt.Sprintf("{c%d c2s %d segs err=%v left=%d; s2c %d segs err=%v left=%d} ", tc.ID, len(tc.C2S.Segs), tc.C2S.Err, tc.C2S.Left, len(tc.S2C.Segs), tc.S2C.Err, tc.S2C.Left)
			}
			if len(events) > 0 {
				diag += fmt.Sprintf("end +%dms", (events[len(events)-1].T-t0)/1e6)
			}
		}
		desc["diag"] = diag
		// ---- oracle on the application level
		for _, sr := range runs {
			for d := 0; d < 2; d++ {
				want := mkData(salt(sr.spec.idx, d), sum(sr.spec.w[d]))
				totalBytes += len(want)
				if sr.werr[d] != "" {
					r.Fail("write-error", sr.werr[d], desc)
				}
				if sr.rerr[d] != "" {
					r.Fail("read-error", sr.rerr[d], desc)
				}
				if string(sr.got[d]) != string(want) {
					r.Fail("bytes-read-differ-from-bytes-written",
						fmt.Sprintf("session %d dir %d: read %d bytes, written %d, first difference at offset %d", sr.spec.idx, d, len(sr.got[d]), len(want), firstDiff(sr.got[d], want)),
						map[string]interface{}{"scenario": sc.name, "index": i, "seed": r.Seed, "session": sr.spec.idx, "dir": d, "writes": sr.spec.w[d], "reads": sr.spec.rd[d]})
				}
				cls := "mid"
				if len(sr.spec.w[d]) > 0 {
					f := sr.spec.w[d][0]
					switch {
					case f == 0:
						cls = "0"
					case f <= 1024:
						cls = "<=1024"
					case f <= 32764:
						cls = "<=32764"
					case f <= 32768:
						cls = "<=32768"
					default:
						cls = ">32768"
					}
				}
				r.Count("first-write-" + cls)
				r.Distinct(fmt.Sprintf("%s|%d|%s|%v", sc.name[strings.Index(sc.name, "-")+1:], d, cls, len(runs) > 1))
			}
		}
		// ---- oracle and cases on the wire level
		bySess := map[uint32]*sessRun{}
		for _, sr := range runs {
			bySess[sr.id] = sr
		}
		for _, tc := range conns {
			ids := map[uint32]bool{}
			for di, d := range []*trace.Dir{&tc.C2S, &tc.S2C} {
				if d.Err != nil {
					r.Fail("stream-undecodable", fmt.Sprintf("conn %d dir %d: decoder error %v, %d bytes left", tc.ID, di, d.Err, d.Left), desc)
				}
				if d.Left != 0 {
					// a segment cut short by the teardown of the connection (TCP fragmentation writes a session
					// segment in pieces); every application byte had been delivered before the teardown started
					r.Count("trailing-partial-segment-at-teardown")
				}
				per := map[uint32][]rc.Segment{}
				var order []uint32
				for _, s := range d.Segs {
					id := s.Meta.SessionID
					if _, ok := per[id]; !ok {
						order = append(order, id)
					}
					per[id] = append(per[id], s)
					ids[id] = true
					r.Count(fmt.Sprintf("seg-proto-%d", s.Meta.Proto))
				}
				sort.Slice(order, func(a, b int) bool { return order[a] < order[b] })
				for _, id := range order {
					sr := bySess[id]
					if sr == nil {
						r.Fail("foreign-session-on-wire", fmt.Sprintf("conn %d carries session id %d that no client session has", tc.ID, id), desc)
						continue
					}
					// wire payloads == written bytes
					var pl []byte
					for _, s := range per[id] {
						if isQueued(s.Meta.Proto) {
							pl = append(pl, s.Payload...)
						} else if len(s.Payload) > 0 {
							r.Fail("payload-on-control-segment", "a close segment carries payload", desc)
						}
					}
					want := mkData(salt(sr.spec.idx, di), sum(sr.spec.w[di]))
					if string(pl) != string(want) {
						r.Fail("wire-payload-mismatch", fmt.Sprintf("session %d dir %d: payloads on the wire (%d bytes) differ from the written bytes (%d) at offset %d",
							sr.spec.idx, di, len(pl), len(want), firstDiff(pl, want)), desc)
					}
					if sum(sr.spec.w[di]) <= 512*1024 { // the extracted planner is not tail recursive: larger histories are judged by the oracle only
						emitPLAN(r, sr, di, per[id], sc.name)
					}
					if sum(sr.spec.w[di]) <= 160*1024 && len(sr.reads[di]) <= 600 && sr.rdDone[di] {
						emitREAD(r, sr, di, per[id])
					}
				}
				if rec := chunks[tc.ID]; rec != nil {
					emitSEG(r, g, events, tc, d, rec[di], segLimit)
				}
			}
			sessPerUnderlay[len(ids)]++
		}
	}
	r.Rep.Notes = map[string]string{"application_bytes": fmt.Sprint(totalBytes), "sessions_per_underlay_histogram": fmt.Sprint(sessPerUnderlay)}
	_ = io.EOF
}
