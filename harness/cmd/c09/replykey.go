package main

// RK cases: which key seals the replies of a UDP server session.
//
//	RK s1 s2 ... sn      the session receives n authentic segments of one user; segment i was opened with the key of
//	                     time salt si (unix seconds)                        -> after each segment, the salt of the key
//	                                                                           the session seals its next datagram with
//
// docs/protocol.md derives the key from the CURRENT time of the sender. A peer written from the document therefore
// changes its key every two minutes, also in the middle of a UDP session, and can only read replies sealed with a key
// of one of the three salts around its current time. The real Session.input is compared with sess_input of model/Wire.v
// (the reply key is the key of the most recent authentic segment; theorem C09_udp_reply_key_follows_peer), and the
// oracle requires directly that the key after segment i is the key of segment i.

import (
	"bytes"
	"fmt"
	"strings"

	"github.com/enfein/mieru/v3/pkg/appctl/appctlpb"
	"github.com/enfein/mieru/v3/pkg/cipher"
	"github.com/enfein/mieru/v3/pkg/protocol"
	"google.golang.org/protobuf/proto"
	rc "verifharness/refcodec"
)

func replyKeyCase(c cred, slots []int64, class string) {
	hp := rc.HashedPassword(c.user, c.pass)
	users := map[string]*appctlpb.User{c.user: {Name: proto.String(c.user), Password: proto.String(c.pass)}}
	var blocks []cipher.BlockCipher
	bySlot := map[string]int64{}
	for _, s := range slots {
		k := rc.DeriveKey(hp, s)
		bySlot[string(k)] = s
		b, err := cipher.VerifC09BlockCipherFromKey(k, false, c.user)
		if err != nil {
			panic(err)
		}
		blocks = append(blocks, b)
	}
	keys, err := protocol.VerifC09SessionReplyKeys(users, blocks)
	var in, out []string
	for _, s := range slots {
		in = append(in, fmt.Sprint(s))
	}
	for _, k := range keys {
		if s, ok := bySlot[string(k)]; ok {
			out = append(out, fmt.Sprint(s))
		} else {
			out = append(out, "NONE")
		}
	}
	if err != nil {
		out = append(out, "ERR")
	}
	r.Case("RK "+strings.Join(in, " "), strings.Join(out, " "))
	r.Count("reply-key")
	r.Distinct("RK/" + class)
	info := map[string]interface{}{"user": c.user, "salts": slots}
	if err != nil {
		r.Fail("udp-reply-key-not-latest-peer-key", fmt.Sprintf("Session.input fails on authentic segments whose key changes with the time salt (%v): %v", slots, err), info)
		return
	}
	for i := range slots {
		if i >= len(keys) || !bytes.Equal(keys[i], rc.DeriveKey(hp, slots[i])) {
			r.Fail("udp-reply-key-not-latest-peer-key",
				fmt.Sprintf("after authentic segment number %d of a UDP session (opened with the key of time salt %d) the session seals its datagrams with the key of salt %s: a peer that derives its key from the time, as documented, cannot read them once the salt is more than one step away (salts of the segments so far: %v)",
					i+1, slots[i], out[i], slots[:i+1]), info)
			return
		}
	}
}

func replyKeys() {
	base := int64(1700000040)
	c := creds[0]
	replyKeyCase(c, []int64{base}, "single")
	replyKeyCase(c, []int64{base, base}, "same")
	replyKeyCase(c, []int64{base, base + 120}, "one-step")
	replyKeyCase(c, []int64{base, base + 120, base + 240}, "two-steps")
	replyKeyCase(c, []int64{base, base, base + 120, base + 120, base + 240, base + 360, base + 360}, "session-6min")
	replyKeyCase(c, []int64{base, base + 120, base, base + 120}, "boundary-flapping")
	replyKeyCase(c, []int64{base + 240, base + 120, base}, "backwards")
	n := 30
	if r.Thorough() {
		n = 600
	}
	for i := 0; i < n; i++ {
		g := r.Rng.Fork()
		cc := creds[g.Intn(len(creds))]
		s := base + int64(g.Intn(1000))*120
		var slots []int64
		for j, k := 0, 1+g.Intn(12); j < k; j++ {
			switch g.Intn(4) {
			case 0:
				s += 120
			case 1:
				if g.Intn(3) == 0 {
					s -= 120
				}
			}
			slots = append(slots, s)
		}
		replyKeyCase(cc, slots, fmt.Sprintf("random/%d", c09distinctSlots(slots)))
	}
}

func c09distinctSlots(s []int64) int {
	m := map[int64]bool{}
	for _, v := range s {
		m[v] = true
	}
	return len(m)
}
