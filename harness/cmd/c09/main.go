// Driver for C09: wire-format conformance to docs/protocol.md.
//
// Model cases (written to cases.txt / impl.txt, compared with the extracted Coq model Wire.v):
//
//	K  p                                   protocol classification of byte p        -> s d a da le
//	N  hex24                               increaseNonce                            -> hex24
//	MS proto ts sid seq status plen slen   sessionStruct.Marshal                    -> hex32
//	MD proto ts sid seq unack win frag prefix plen slen mode mask elen rot
//	                                       dataAckStruct.Marshal                    -> hex32
//	US hex                                 sessionStruct.Unmarshal                  -> OK fields | ERR
//	UD hex                                 dataAckStruct.Unmarshal                  -> OK fields | ERR
//	RK s1 .. sn                            Session.input on segments keyed by salts -> salt of the reply key after each
//
// Oracle-only evaluations (the crypto primitives are uninterpreted in the model; conformance of
// those is by vectors): key derivation, user hint, complete TCP streams and UDP datagrams emitted by
// mieru's real writeOneSegment and decoded by refcodec, refcodec-produced streams/datagrams read by
// mieru's real readOneSegment (server side through the real user registry), the low-entropy codec
// in both directions, and the UDP-associate frame.
package main

import (
	"bytes"
	"encoding/hex"
	"fmt"
	"math/big"
	"math/bits"
	"net"
	"strings"
	"time"

	apicommon "github.com/enfein/mieru/v3/apis/common"
	"github.com/enfein/mieru/v3/pkg/appctl/appctlpb"
	"github.com/enfein/mieru/v3/pkg/cipher"
	"github.com/enfein/mieru/v3/pkg/protocol"
	"google.golang.org/protobuf/proto"
	rc "verifharness/refcodec"
	"verifharness/vh"
)

var r *vh.Run

// eval counts an oracle-only evaluation.
func eval(kind string) {
	r.Rep.Evaluations++
	r.Count(kind)
}

func b2i(b bool) int {
	if b {
		return 1
	}
	return 0
}

func nowMinute() uint32 { return uint32(time.Now().Unix() / 60) }

func tsNear(ts uint32) bool {
	n := nowMinute()
	return ts == n || ts == n-1 || ts == n+1
}

// ---------------------------------------------------------------- conversions

func toRC(m protocol.VerifC09Meta) rc.Meta {
	return rc.Meta{Proto: m.Proto, Timestamp: m.Timestamp, SessionID: m.SessionID, Seq: m.Seq, StatusCode: m.StatusCode,
		PayloadLen: m.PayloadLen, SuffixLen: m.SuffixLen, UnAckSeq: m.UnAckSeq, WindowSize: m.WindowSize, Fragment: m.Fragment,
		PrefixLen: m.PrefixLen, LEMode: m.LEMode, LEMask: m.LEMask, ExtractedLen: m.ExtractedLen, LERot: m.LERot}
}

func fromRC(m rc.Meta) protocol.VerifC09Meta {
	return protocol.VerifC09Meta{Proto: m.Proto, Timestamp: m.Timestamp, SessionID: m.SessionID, Seq: m.Seq, StatusCode: m.StatusCode,
		PayloadLen: m.PayloadLen, SuffixLen: m.SuffixLen, UnAckSeq: m.UnAckSeq, WindowSize: m.WindowSize, Fragment: m.Fragment,
		PrefixLen: m.PrefixLen, LEMode: m.LEMode, LEMask: m.LEMask, ExtractedLen: m.ExtractedLen, LERot: m.LERot}
}

func sessFields(m protocol.VerifC09Meta) string {
	return fmt.Sprintf("%d %d %d %d %d %d %d", m.Proto, m.Timestamp, m.SessionID, m.Seq, m.StatusCode, m.PayloadLen, m.SuffixLen)
}

func dataFields(m protocol.VerifC09Meta) string {
	return fmt.Sprintf("%d %d %d %d %d %d %d %d %d %d %d %d %d %d", m.Proto, m.Timestamp, m.SessionID, m.Seq, m.UnAckSeq, m.WindowSize,
		m.Fragment, m.PrefixLen, m.PayloadLen, m.SuffixLen, m.LEMode, m.LEMask, m.ExtractedLen, m.LERot)
}

// ---------------------------------------------------------------- K: classification

func classification() {
	for p := 0; p < 256; p++ {
		s, d, a, da, le := protocol.VerifC09Classify(byte(p))
		r.Case(fmt.Sprintf("K %d", p), fmt.Sprintf("%d %d %d %d %d", b2i(s), b2i(d), b2i(a), b2i(da), b2i(le)))
		r.Count("classify")
		// the document: session 2..5, data 6,7 (+10,11), ack 8,9, low entropy 10,11
		ws, wd, wa, wle := p >= 2 && p <= 5, p == 6 || p == 7 || p == 10 || p == 11, p == 8 || p == 9, p == 10 || p == 11
		if s != ws || d != wd || a != wa || le != wle || da != (wd || wa) {
			r.Fail("doc-mismatch-protocol-type-numbering", fmt.Sprintf("protocol byte %d is classified (session=%v data=%v ack=%v lowEntropy=%v), the document says (%v %v %v %v)", p, s, d, a, le, ws, wd, wa, wle), map[string]int{"proto": p})
		}
		if s != rc.IsSessionProto(byte(p)) || d != rc.IsDataProto(byte(p)) || a != rc.IsAckProto(byte(p)) || le != rc.IsLowEntropyProto(byte(p)) {
			r.Fail("doc-mismatch-protocol-type-numbering", fmt.Sprintf("protocol byte %d: refcodec and mieru classify differently", p), map[string]int{"proto": p})
		}
		if p >= 2 && p <= 11 {
			r.Distinct(fmt.Sprintf("K/%d", p))
		}
	}
	want := []int64{0, 1, 2, 3, 4, 5, 6, 7, 8, 9, 10, 11}
	got := protocol.VerifC09ProtocolNumbers()
	for i := range want {
		eval("type-number")
		if got[i] != want[i] {
			r.Fail("doc-mismatch-protocol-type-numbering", fmt.Sprintf("protocol type #%d has number %d, documented %d", i, got[i], want[i]), map[string]int64{"index": int64(i), "got": got[i]})
		}
	}
}

// ---------------------------------------------------------------- N: nonce increment

func nonceCase(n []byte, class string) {
	out := cipher.VerifIncreaseNonce(n)
	r.Case("N "+vh.Hex(n), vh.Hex(out))
	r.Count("nonce-inc")
	r.Distinct("N/" + class)
	v := new(big.Int).SetBytes(n)
	v.Add(v, big.NewInt(1))
	v.Mod(v, new(big.Int).Lsh(big.NewInt(1), 192))
	want := v.FillBytes(make([]byte, 24))
	if !bytes.Equal(out, want) || !bytes.Equal(rc.NonceInc(n), want) {
		r.Fail("doc-mismatch-nonce-increment", fmt.Sprintf("increaseNonce(%x) = %x, the document's +1 (24-byte big endian) gives %x", n, out, want), map[string]string{"nonce": hex.EncodeToString(n)})
	}
}

func nonceIncrement() {
	nonceCase(make([]byte, 24), "zero")
	nonceCase(bytes.Repeat([]byte{0xff}, 24), "wrap")
	for i := 0; i < 24; i++ {
		for _, lead := range []byte{0x00, 0x7f, 0xfe, 0xff} {
			n := r.Rng.Bytes(24)
			n[i] = lead
			for j := i + 1; j < 24; j++ {
				n[j] = 0xff
			}
			nonceCase(n, fmt.Sprintf("carry-to-%d", i))
		}
	}
	k := 200
	if r.Thorough() {
		k = 5000
	}
	for i := 0; i < k; i++ {
		nonceCase(r.Rng.Bytes(24), "random")
	}
}

// ---------------------------------------------------------------- M/U: metadata

func u32s() []uint32 {
	return []uint32{0, 1, 0xff, 0x100, 0x01020304, 0x7fffffff, 0x80000000, 0xfffffffe, 0xffffffff}
}
func u16s() []uint16 { return []uint16{0, 1, 0xff, 0x100, 0x0102, 0x7fff, 0x8000, 0xfffe, 0xffff} }
func u8s() []uint8   { return []uint8{0, 1, 0x7f, 0x80, 0xfe, 0xff} }

func randMask(g *vh.Rng, mode uint8) uint32 {
	want := 4 * rc.LESourceBytes(mode)
	var m uint32
	for bits.OnesCount32(m) < want {
		m |= 1 << uint(g.Intn(32))
	}
	return m
}

var validRots = func() []uint8 {
	v := []uint8{0}
	for i := 1; i <= 15; i++ {
		v = append(v, uint8(i), uint8(16*i))
	}
	return v
}()

// marshalCase runs the real Marshal, patches the timestamp of the case to the one Marshal stamped,
// and checks refcodec.Marshal and the round trip through the real Unmarshal.
func marshalCase(m protocol.VerifC09Meta, session bool, class string) {
	var out []byte
	if session {
		out = protocol.VerifC09MarshalSession(m)
	} else {
		out = protocol.VerifC09MarshalDataAck(m)
	}
	if len(out) != 32 {
		r.Fail("doc-mismatch-metadata-length", fmt.Sprintf("Marshal produced %d bytes", len(out)), m)
		return
	}
	m.Timestamp = uint32(out[2])<<24 | uint32(out[3])<<16 | uint32(out[4])<<8 | uint32(out[5])
	if !tsNear(m.Timestamp) {
		r.Fail("doc-mismatch-timestamp", fmt.Sprintf("Marshal stamped %d, minutes since the epoch are %d", m.Timestamp, nowMinute()), m)
	}
	if session {
		r.Case("MS "+sessFields(m), vh.Hex(out))
		r.Count("marshal-session")
	} else {
		r.Case("MD "+dataFields(m), vh.Hex(out))
		r.Count("marshal-dataack")
	}
	r.Distinct(fmt.Sprintf("M/%d/%s", m.Proto, class))
	valid := (session && rc.IsSessionProto(m.Proto)) || (!session && m.Proto >= 6 && m.Proto <= 11)
	if !valid {
		return
	}
	want := toRC(m).Marshal()
	if !bytes.Equal(out, want[:]) {
		r.Fail("doc-mismatch-metadata-layout", fmt.Sprintf("Marshal of %+v = %x, the documented layout gives %x", m, out, want), m)
		return
	}
	// what mieru emitted must be understood by the document-only parser with the intended fields
	got, err := rc.ParseMeta(out)
	if err != nil {
		// the only emitted-but-rejected metadata are those violating documented limits
		if !((session && m.PayloadLen > 1024) || (!session && rejectExpected(m))) {
			r.Fail("doc-mismatch-metadata-layout", fmt.Sprintf("refcodec rejects marshalled %+v: %v", m, err), m)
		}
		return
	}
	if got != normal(toRC(m)) {
		r.Fail("doc-mismatch-metadata-layout", fmt.Sprintf("refcodec parsed %+v from the bytes of %+v", got, m), m)
	}
}

// rejectExpected: generated data/ack metadata that deliberately violates the documented limits.
func rejectExpected(m protocol.VerifC09Meta) bool {
	if m.Proto >= 6 && m.Proto <= 9 {
		return m.PayloadLen > 32768
	}
	return toRC(m).Validate() != nil
}

// normal clears the fields that do not belong to the layout of m.Proto.
func normal(m rc.Meta) rc.Meta {
	if m.IsSession() {
		return rc.Meta{Proto: m.Proto, Timestamp: m.Timestamp, SessionID: m.SessionID, Seq: m.Seq, StatusCode: m.StatusCode, PayloadLen: m.PayloadLen, SuffixLen: m.SuffixLen}
	}
	m.StatusCode = 0
	if !m.IsLowEntropy() {
		m.LEMode, m.LEMask, m.ExtractedLen, m.LERot = 0, 0, 0, 0
	}
	return m
}

// unmarshalCase runs the real Unmarshal on b (timestamp bytes set to the current minute unless
// keepTS) and compares with refcodec.ParseMeta in the direction the property needs:
// refcodec accepts => mieru accepts with the same fields.
func unmarshalCase(b []byte, session bool, class string) {
	b = append([]byte(nil), b...)
	if len(b) >= 6 {
		n := nowMinute()
		b[2], b[3], b[4], b[5] = byte(n>>24), byte(n>>16), byte(n>>8), byte(n)
	}
	var m protocol.VerifC09Meta
	var err error
	kind := "UD"
	if session {
		kind = "US"
		m, err = protocol.VerifC09UnmarshalSession(b)
	} else {
		m, err = protocol.VerifC09UnmarshalDataAck(b)
	}
	line := "ERR"
	if err == nil {
		if session {
			line = "OK " + sessFields(m)
		} else {
			line = "OK " + dataFields(m)
		}
	}
	r.Case(kind+" "+vh.Hex(b), line)
	r.Count("unmarshal-" + strings.ToLower(kind[1:]) + "-" + map[bool]string{true: "ok", false: "err"}[err == nil])
	r.Distinct(fmt.Sprintf("U/%s/%s/%v", kind, class, err == nil))
	if len(b) != 32 {
		if err == nil {
			r.Fail("doc-mismatch-metadata-length", fmt.Sprintf("Unmarshal accepted %d bytes", len(b)), map[string]string{"bytes": hex.EncodeToString(b)})
		}
		return
	}
	ref, rerr := rc.ParseMeta(b)
	layoutOK := (session && rc.IsSessionProto(b[0])) || (!session && b[0] >= 6 && b[0] <= 11)
	if rerr == nil && layoutOK {
		if err != nil {
			r.Fail("doc-mismatch-metadata-accept", fmt.Sprintf("well-formed metadata %x (%+v) is rejected by mieru: %v", b, ref, err), map[string]string{"bytes": hex.EncodeToString(b)})
		} else if normal(toRC(m)) != ref {
			r.Fail("doc-mismatch-metadata-layout", fmt.Sprintf("metadata %x: mieru reads %+v, the document says %+v", b, m, ref), map[string]string{"bytes": hex.EncodeToString(b)})
		}
	}
	if err == nil && !layoutOK {
		r.Fail("doc-mismatch-protocol-type-numbering", fmt.Sprintf("Unmarshal(session=%v) accepted protocol byte %d", session, b[0]), map[string]string{"bytes": hex.EncodeToString(b)})
	}
	if err == nil && rerr != nil && layoutOK {
		r.Count("mieru-more-lenient-than-document")
	}
}

func genMeta(g *vh.Rng, p uint8) protocol.VerifC09Meta {
	pick32 := func() uint32 {
		if g.Intn(3) == 0 {
			return u32s()[g.Intn(len(u32s()))]
		}
		return uint32(g.U64())
	}
	m := protocol.VerifC09Meta{Proto: p, SessionID: pick32(), Seq: pick32()}
	if rc.IsSessionProto(p) {
		m.StatusCode = uint8(g.Intn(256))
		m.PayloadLen = uint16(g.Intn(1025))
		m.SuffixLen = uint8(g.Intn(256))
		return m
	}
	m.UnAckSeq, m.WindowSize, m.Fragment, m.PrefixLen, m.SuffixLen = pick32(), uint16(g.Intn(65536)), uint8(g.Intn(256)), uint8(g.Intn(256)), uint8(g.Intn(256))
	if rc.IsAckProto(p) {
		return m
	}
	m.PayloadLen = uint16(g.Intn(32769))
	if rc.IsLowEntropyProto(p) {
		m.LEMode = uint8(1 + g.Intn(4))
		m.LEMask = randMask(g, m.LEMode)
		m.LERot = validRots[g.Intn(len(validRots))]
		maxN := 8191 * rc.LESourceBytes(m.LEMode)
		if maxN > 32768 {
			maxN = 32768
		}
		m.ExtractedLen = uint16(g.Intn(maxN + 1))
		m.PayloadLen = uint16(rc.LEEncodedLen(m.LEMode, int(m.ExtractedLen)))
	}
	return m
}

func metadata() {
	// one field at a time, each with a byte pattern that shows offset, width and byte order
	for p := 2; p <= 5; p++ {
		base := protocol.VerifC09Meta{Proto: uint8(p)}
		marshalCase(base, true, "zero")
		for _, v := range u32s() {
			m := base
			m.SessionID = v
			marshalCase(m, true, "sid")
			m = base
			m.Seq = v
			marshalCase(m, true, "seq")
		}
		for _, v := range u8s() {
			m := base
			m.StatusCode = v
			marshalCase(m, true, "status")
			m = base
			m.SuffixLen = v
			marshalCase(m, true, "suffix")
		}
		for _, v := range []uint16{0, 1, 0xff, 0x100, 0x0102, 1023, 1024, 1025, 0xffff} {
			m := base
			m.PayloadLen = v
			marshalCase(m, true, "plen")
		}
		marshalCase(protocol.VerifC09Meta{Proto: uint8(p), SessionID: 0xffffffff, Seq: 0xffffffff, StatusCode: 0xff, PayloadLen: 1024, SuffixLen: 0xff}, true, "max")
	}
	for p := 6; p <= 11; p++ {
		base := protocol.VerifC09Meta{Proto: uint8(p)}
		if p >= 10 {
			base.LEMode, base.LEMask = 1, 0x0f0f0f0f
		}
		marshalCase(base, false, "zero")
		for _, v := range u32s() {
			for f := 0; f < 3; f++ {
				m := base
				switch f {
				case 0:
					m.SessionID = v
				case 1:
					m.Seq = v
				case 2:
					m.UnAckSeq = v
				}
				marshalCase(m, false, []string{"sid", "seq", "unack"}[f])
			}
		}
		for _, v := range u16s() {
			m := base
			m.WindowSize = v
			marshalCase(m, false, "window")
			if p < 10 {
				m = base
				m.PayloadLen = v
				marshalCase(m, false, "plen")
			}
		}
		for _, v := range u8s() {
			for f := 0; f < 3; f++ {
				m := base
				switch f {
				case 0:
					m.Fragment = v
				case 1:
					m.PrefixLen = v
				case 2:
					m.SuffixLen = v
				}
				marshalCase(m, false, []string{"fragment", "prefix", "suffix"}[f])
			}
		}
		if p >= 10 {
			for mode := uint8(1); mode <= 4; mode++ {
				c := rc.LESourceBytes(mode)
				for _, n := range []int{0, 1, c - 1, c, c + 1, 2 * c, 1000, 32764, 32768} {
					if (n+c-1)/c > 8191 {
						continue
					}
					for _, rot := range []uint8{0, 1, 15, 16, 240} {
						m := base
						m.LEMode, m.LEMask, m.LERot = mode, randMask(r.Rng, mode), rot
						m.ExtractedLen, m.PayloadLen = uint16(n), uint16(rc.LEEncodedLen(mode, n))
						marshalCase(m, false, fmt.Sprintf("le-mode%d", mode))
					}
				}
			}
			// the low entropy fields with recognisable patterns (Marshal does not validate)
			m := base
			m.LEMode, m.LEMask, m.ExtractedLen, m.LERot, m.PayloadLen = 0xa1, 0xb1b2b3b4, 0xc1c2, 0xd1, 0xe1e2
			marshalCase(m, false, "le-pattern")
		}
	}
	// every protocol byte through both Marshal functions (they do not validate the type)
	for p := 0; p < 256; p++ {
		m := protocol.VerifC09Meta{Proto: uint8(p), SessionID: 0x06070809, Seq: 0x0a0b0c0d, StatusCode: 0x0e, PayloadLen: 0x0102, SuffixLen: 0x11,
			UnAckSeq: 0x0e0f1011, WindowSize: 0x1213, Fragment: 0x14, PrefixLen: 0x15, LEMode: 0x01, LEMask: 0x191a1b1c, ExtractedLen: 0x1d1e, LERot: 0x1f}
		marshalCase(m, true, "sweep")
		marshalCase(m, false, "sweep")
		bs, bd := protocol.VerifC09MarshalSession(m), protocol.VerifC09MarshalDataAck(m)
		unmarshalCase(bs, true, "sweep")
		unmarshalCase(bd, false, "sweep")
		unmarshalCase(bs, false, "sweep-cross")
		unmarshalCase(bd, true, "sweep-cross")
	}
	n := 1500
	if r.Thorough() {
		n = 40000
	}
	for i := 0; i < n; i++ {
		g := r.Rng.Fork()
		p := uint8(2 + g.Intn(10))
		m := genMeta(g, p)
		sess := rc.IsSessionProto(p)
		marshalCase(m, sess, "random")
		// refcodec-produced bytes into the real Unmarshal
		b := toRC(m).Marshal()
		unmarshalCase(b[:], sess, "refcodec")
	}
	// malformed / boundary stream for Unmarshal
	for i := 0; i < n; i++ {
		g := r.Rng.Fork()
		p := uint8(2 + g.Intn(10))
		m := genMeta(g, p)
		b := toRC(m).Marshal()
		sess := rc.IsSessionProto(p)
		class := "mut"
		switch g.Intn(9) {
		case 0: // unused bytes are ignored
			if sess {
				copy(b[18:], g.Bytes(14))
				b[1] = byte(g.Intn(256))
			} else if p < 10 {
				copy(b[25:], g.Bytes(7))
				b[1] = byte(g.Intn(256))
			}
			class = "unused-bytes"
		case 1:
			b[0] = byte(g.Intn(256))
			class = "proto"
		case 2: // payload length around the limits
			if sess {
				v := uint16(1020 + g.Intn(10))
				b[15], b[16] = byte(v>>8), byte(v)
			} else {
				v := uint16(g.Intn(65536))
				b[22], b[23] = byte(v>>8), byte(v)
			}
			class = "plen"
		case 3:
			b[1] = byte(g.Intn(7))
			class = "mode"
		case 4:
			b[31] = byte(g.Intn(256))
			class = "rotation"
		case 5:
			b[25+g.Intn(4)] ^= 1 << uint(g.Intn(8))
			class = "mask-bit"
		case 6:
			v := uint16(g.Intn(65536))
			b[29], b[30] = byte(v>>8), byte(v)
			class = "extracted"
		case 7:
			copy(b[6:], g.Bytes(26))
			class = "random-body"
		case 8:
			class = "as-is"
		}
		unmarshalCase(b[:], sess, class)
		if g.Intn(4) == 0 {
			unmarshalCase(b[:], !sess, class+"-cross")
		}
	}
	for _, l := range []int{0, 1, 31, 33, 48, 64} {
		b := make([]byte, l)
		if l > 0 {
			b[0] = 2
		}
		unmarshalCase(b, true, "length")
		if l > 0 {
			b[0] = 6
		}
		unmarshalCase(b, false, "length")
	}
	// timestamp window: oracle only (the model has no clock; C08 proves the window)
	for _, d := range []int{-3, -2, -1, 0, 1, 2, 3} {
		for _, sess := range []bool{true, false} {
			p := uint8(6)
			if sess {
				p = 2
			}
			b := rc.Meta{Proto: p, Timestamp: uint32(int64(nowMinute()) + int64(d))}.Marshal()
			var err error
			if sess {
				_, err = protocol.VerifC09UnmarshalSession(b[:])
			} else {
				_, err = protocol.VerifC09UnmarshalDataAck(b[:])
			}
			eval("timestamp-window")
			if d >= -1 && d <= 1 && err != nil {
				r.Fail("doc-mismatch-timestamp", fmt.Sprintf("metadata stamped now%+d min is rejected: %v", d, err), map[string]int{"delta": d})
			}
			if (d < -2 || d > 2) && err == nil {
				r.Fail("doc-mismatch-timestamp", fmt.Sprintf("metadata stamped now%+d min is accepted", d), map[string]int{"delta": d})
			}
		}
	}
}

// ---------------------------------------------------------------- golden vectors: keys, hint

type cred struct{ user, pass string }

var creds = []cred{{"user", "password"}, {"a", "b"}, {"alice@example.com", "correct horse battery staple"}, {"名前", "pässwörd"}, {strings.Repeat("u", 64), strings.Repeat("p", 100)}}

func keysAndHint() {
	for _, c := range creds {
		eval("hashed-password")
		if !bytes.Equal(cipher.HashPassword([]byte(c.pass), []byte(c.user)), rc.HashedPassword(c.user, c.pass)) {
			r.Fail("doc-mismatch-hashed-password", "HashPassword differs from SHA-256(password || 0x00 || username)", c.user)
		}
	}
	times := []time.Time{time.Unix(0, 0), time.Unix(59, 999999999), time.Unix(60, 0), time.Unix(119, 0), time.Unix(120, 0), time.Unix(1700000000, 0),
		time.Unix(1700000039, 999999999), time.Unix(1700000040, 0), time.Unix(1700000099, 999999999), time.Unix(1700000100, 0), time.Unix(4102444800, 0)}
	n := 60
	if r.Thorough() {
		n = 1500
	}
	for i := 0; i < n; i++ {
		times = append(times, time.Unix(r.Rng.I64n(4200000000), r.Rng.I64n(1000000000)))
	}
	for i, t := range times {
		c := creds[i%len(creds)]
		hp := rc.HashedPassword(c.user, c.pass)
		got, err := cipher.VerifC09KeysAt(hp, t)
		want := rc.KeysAt(hp, t)
		eval("key-derivation")
		r.Distinct(fmt.Sprintf("KD/phase%d", (t.Unix()%120)/30))
		if err != nil || len(got) != 3 {
			r.Fail("doc-mismatch-key-derivation", fmt.Sprintf("key list at %v: %v", t, err), t.UnixNano())
			continue
		}
		for j := 0; j < 3; j++ {
			if !bytes.Equal(got[j], want[j]) {
				why := "the keys differ from PBKDF2-SHA256(hashedPassword, SHA-256(be64(slot)), 64, 32)"
				if bytes.Equal(got[j], pbkdf2With(hp, rc.SlotOf(t)+int64(j-1)*120, 4096)) {
					why = "the key is derived with 4096 iterations, the document says 64"
				}
				r.Fail("doc-mismatch-key-derivation", fmt.Sprintf("key %d at unix %d.%09d: %s", j, t.Unix(), t.Nanosecond(), why), map[string]int64{"unix_ns": t.UnixNano(), "index": int64(j)})
				break
			}
		}
	}
	for i := 0; i < 40; i++ {
		c := creds[i%len(creds)]
		nonce := r.Rng.Bytes(24)
		got := cipher.VerifC09AddUserHint(c.user, nonce)
		want := append([]byte(nil), nonce...)
		rc.SetUserHint(c.user, want)
		eval("user-hint")
		if !bytes.Equal(got, want) || !cipher.CheckUserFromHint([]byte(c.user), want) || !bytes.Equal(got[:20], nonce[:20]) {
			r.Fail("doc-mismatch-user-hint", fmt.Sprintf("user %q nonce %x: mieru writes %x, the document says %x", c.user, nonce, got, want), map[string]string{"user": c.user, "nonce": hex.EncodeToString(nonce)})
		}
		other := creds[(i+1)%len(creds)].user
		if cipher.CheckUserFromHint([]byte(other), want) != rc.HasUserHint(other, want) {
			r.Fail("doc-mismatch-user-hint", "CheckUserFromHint disagrees with the documented hint", map[string]string{"user": other, "nonce": hex.EncodeToString(want)})
		}
	}
}

// ---------------------------------------------------------------- low entropy codec

func lowEntropy() {
	type lec struct {
		mode uint8
		mask uint32
		rot  uint8
		n    int
		pad  uint8
	}
	var cs []lec
	for mode := uint8(1); mode <= 4; mode++ {
		c := rc.LESourceBytes(mode)
		for _, rot := range validRots {
			for _, n := range []int{1, c - 1, c, c + 1, 3*c + 2, 65 * c} {
				cs = append(cs, lec{mode, randMask(r.Rng, mode), rot, n, uint8(r.Rng.Intn(2))})
			}
		}
		lowmask := uint32(1)<<uint(4*c) - 1
		cs = append(cs, lec{mode, lowmask, 1, 5 * c, 0}, lec{mode, lowmask << uint(32-4*c), 16, 5*c + 1, 1})
	}
	cs = append(cs, lec{1, 0x0f0f0f0f, 0, 4, 0}, lec{1, 0x0f0f0f0f, 0, 4, 1}) // the document's example
	k := 300
	if r.Thorough() {
		k = 6000
	}
	for i := 0; i < k; i++ {
		mode := uint8(1 + r.Rng.Intn(4))
		cs = append(cs, lec{mode, randMask(r.Rng, mode), validRots[r.Rng.Intn(len(validRots))], 1 + r.Rng.Intn(400), uint8(r.Rng.Intn(2))})
	}
	cs = append(cs, lec{1, randMask(r.Rng, 1), 3, 32764, 1}, lec{4, randMask(r.Rng, 4), 0x50, 32768, 0})
	for _, c := range cs {
		src := r.Rng.Bytes(c.n)
		if c.mask == 0x0f0f0f0f && c.n == 4 {
			src = []byte{0x12, 0x34, 0x56, 0x78}
		}
		info := map[string]interface{}{"mode": c.mode, "mask": c.mask, "rot": c.rot, "len": c.n, "pad": c.pad, "src": hex.EncodeToString(src[:min(len(src), 64)])}
		eval("low-entropy")
		r.Distinct(fmt.Sprintf("LE/%d/%d/%v", c.mode, c.rot, c.n%rc.LESourceBytes(c.mode) == 0))
		me, err1 := protocol.VerifC09LEEncode(src, c.mode, c.mask, c.rot, c.pad)
		re, err2 := rc.LEEncode(src, c.mode, c.mask, c.rot, c.pad == 1)
		if err1 != nil || err2 != nil || !bytes.Equal(me, re) {
			r.Fail("doc-mismatch-low-entropy-encoding", fmt.Sprintf("mode %d mask %08x rot %#x len %d pad %d: mieru %x (%v), document %x (%v)", c.mode, c.mask, c.rot, c.n, c.pad, me[:min(len(me), 24)], err1, re[:min(len(re), 24)], err2), info)
			continue
		}
		d1, err1 := protocol.VerifC09LEDecode(re, c.n, c.mode, c.mask, c.rot)
		d2, err2 := rc.LEDecode(me, c.mode, c.mask, c.rot, c.n)
		if err1 != nil || err2 != nil || !bytes.Equal(d1, src) || !bytes.Equal(d2, src) {
			r.Fail("doc-mismatch-low-entropy-encoding", fmt.Sprintf("mode %d mask %08x rot %#x len %d: cross decoding fails (%v, %v)", c.mode, c.mask, c.rot, c.n, err1, err2), info)
			continue
		}
		// a flipped padding position is rejected by both
		bad := append([]byte(nil), me...)
		ch := r.Rng.Intn(len(bad) / 8)
		m64 := uint64(c.mask)<<32 | uint64(c.mask)
		if c.rot&0xf0 == 0 {
			m64 = bits.RotateLeft64(m64, -((ch * int(c.rot)) % 64))
		} else {
			m64 = bits.RotateLeft64(m64, (ch*int(c.rot>>4))%64)
		}
		bit := uint(bits.TrailingZeros64(^m64))
		bad[8*ch+7-int(bit/8)] ^= 1 << (bit % 8)
		_, err1 = protocol.VerifC09LEDecode(bad, c.n, c.mode, c.mask, c.rot)
		_, err2 = rc.LEDecode(bad, c.mode, c.mask, c.rot, c.n)
		if len(bad) > 8 && ((err1 == nil) != (err2 == nil)) {
			r.Fail("doc-mismatch-low-entropy-encoding", fmt.Sprintf("mixed padding: mieru err=%v, document err=%v", err1, err2), info)
		}
	}
	if want := protocol.VerifC09LEPaddingBit(); want > 1 {
		r.Fail("doc-mismatch-low-entropy-encoding", "padding bit is not 0 or 1", want)
	}
	// invalid parameters are rejected by both
	for mode := 0; mode < 8; mode++ {
		for _, rot := range []int{0, 1, 15, 16, 17, 31, 32, 0x11, 0xf0, 0xff} {
			for _, ones := range []int{15, 16, 17, 20, 24, 28, 29} {
				mask := uint32(1)<<uint(ones) - 1
				src := []byte{1, 2, 3, 4, 5, 6, 7, 8, 9}
				_, err1 := protocol.VerifC09LEEncode(src, uint8(mode), mask, uint8(rot), 0)
				_, err2 := rc.LEEncode(src, uint8(mode), mask, uint8(rot), false)
				eval("low-entropy-params")
				if (err1 == nil) != (err2 == nil) {
					r.Fail("doc-mismatch-low-entropy-params", fmt.Sprintf("mode %d rot %#x mask ones %d: mieru err=%v, document err=%v", mode, rot, ones, err1, err2), map[string]int{"mode": mode, "rot": rot, "ones": ones})
				}
			}
		}
	}
	for mode := int32(0); mode < 8; mode++ {
		c, ones := protocol.VerifC09LEParams(mode)
		eval("low-entropy-params")
		wc := rc.LESourceBytes(uint8(mode))
		if c != wc || ones != 4*wc {
			r.Fail("doc-mismatch-low-entropy-params", fmt.Sprintf("mode %d: %d source bytes and %d mask ones, documented %d and %d", mode, c, ones, wc, 4*wc), mode)
		}
	}
}

func min(a, b int) int {
	if a < b {
		return a
	}
	return b
}

// ---------------------------------------------------------------- segments

func genSeg(g *vh.Rng, p uint8, maxPayload int) protocol.VerifC09Seg {
	m := genMeta(g, p)
	m.PayloadLen, m.ExtractedLen, m.LEMask, m.PrefixLen, m.SuffixLen = 0, 0, 0, 0, 0
	s := protocol.VerifC09Seg{Meta: m}
	if rc.IsAckProto(p) || p == 4 || p == 5 {
		return s
	}
	if rc.IsSessionProto(p) && maxPayload > 1024 {
		maxPayload = 1024
	}
	if rc.IsLowEntropyProto(p) {
		if lim := 8191 * rc.LESourceBytes(m.LEMode); maxPayload > lim {
			maxPayload = lim
		}
	}
	n := 0
	switch g.Intn(6) {
	case 0:
		n = maxPayload
	case 1:
		n = 1
	case 2:
		n = 0
	default:
		n = g.Intn(maxPayload + 1)
	}
	if rc.IsDataProto(p) && n == 0 {
		n = 1
	}
	s.Payload = g.Bytes(n)
	return s
}

// sameIntent compares what refcodec decoded with what the session layer handed to mieru.
func sameIntent(got rc.Segment, want protocol.VerifC09Seg) string {
	w := want.Meta
	g := got.Meta
	if g.Proto != w.Proto || g.SessionID != w.SessionID || g.Seq != w.Seq {
		return fmt.Sprintf("proto/session/seq %d/%d/%d want %d/%d/%d", g.Proto, g.SessionID, g.Seq, w.Proto, w.SessionID, w.Seq)
	}
	if g.IsSession() {
		if g.StatusCode != w.StatusCode {
			return "status code"
		}
	} else {
		if g.UnAckSeq != w.UnAckSeq || g.WindowSize != w.WindowSize || g.Fragment != w.Fragment {
			return "unack/window/fragment"
		}
		if g.IsLowEntropy() && (g.LEMode != w.LEMode || g.LERot != w.LERot || int(g.ExtractedLen) != len(want.Payload)) {
			return "low entropy mode/rotation/extracted length"
		}
	}
	if !bytes.Equal(got.Payload, want.Payload) {
		return fmt.Sprintf("payload of %d bytes, want %d", len(got.Payload), len(want.Payload))
	}
	if !tsNear(g.Timestamp) {
		return fmt.Sprintf("timestamp %d (now %d)", g.Timestamp, nowMinute())
	}
	return ""
}

func sameSeg(got protocol.VerifC09Seg, want rc.Segment) string {
	g, w := normal(toRC(got.Meta)), want.Meta
	w.Timestamp = g.Timestamp
	if g != w {
		return fmt.Sprintf("metadata %+v, want %+v", g, w)
	}
	if !bytes.Equal(got.Payload, want.Payload) {
		return fmt.Sprintf("payload of %d bytes, want %d", len(got.Payload), len(want.Payload))
	}
	return ""
}

func feedChunks(g *vh.Rng, d *rc.StreamDecoder, wire []byte) ([]rc.Segment, error) {
	var out []rc.Segment
	mode := g.Intn(3)
	for len(wire) > 0 {
		k := len(wire)
		switch mode {
		case 0:
			k = 1 + g.Intn(7)
		case 1:
			k = 1 + g.Intn(2000)
		}
		if k > len(wire) {
			k = len(wire)
		}
		segs, err := d.Feed(wire[:k])
		out = append(out, segs...)
		if err != nil {
			return out, err
		}
		wire = wire[k:]
	}
	return out, nil
}

// mieruEmitsTCP: mieru's writeOneSegment (client role) -> refcodec.StreamDecoder.
func mieruEmitsTCP(g *vh.Rng, c cred, at time.Time, idx int, realtime bool, nseg int) {
	hp := rc.HashedPassword(c.user, c.pass)
	var block cipher.BlockCipher
	var err error
	var keys [3][]byte
	if realtime {
		block, err = cipher.BlockCipherFromPassword(hp, false)
		if err == nil {
			block.SetBlockContext(cipher.BlockContext{UserName: c.user})
		}
		keys = rc.KeysAt(hp, time.Now())
	} else {
		block, err = cipher.VerifC09BlockCipherAt(hp, at, idx, true, c.user)
		keys = rc.KeysAt(hp, at)
	}
	info := map[string]interface{}{"user": c.user, "unix": at.Unix(), "idx": idx, "realtime": realtime}
	if err != nil {
		r.Fail("doc-mismatch-key-derivation", "cannot build the block cipher: "+err.Error(), info)
		return
	}
	st := protocol.VerifC09NewClientStream(block, 1500, nil)
	var wire []byte
	var want []protocol.VerifC09Seg
	var lens []int
	for i := 0; i < nseg; i++ {
		p := uint8(2)
		if i > 0 {
			p = []uint8{6, 6, 8, 10, 10, 4, 2, 3, 5, 7, 9, 11}[g.Intn(12)]
		}
		s := genSeg(g, p, []int{64, 1500, 32768}[g.Intn(3)])
		b, err := st.Write(s)
		if err != nil {
			r.Fail("doc-mismatch-tcp-segment", fmt.Sprintf("writeOneSegment(%+v, %d payload bytes): %v", s.Meta, len(s.Payload), err), info)
			return
		}
		wire = append(wire, b...)
		want = append(want, s)
		lens = append(lens, len(b))
	}
	dec := rc.NewStreamDecoder(keys[:])
	got, err := feedChunks(g, dec, wire)
	eval("tcp-mieru-to-refcodec")
	if err != nil || len(got) != len(want) || dec.Buffered() != 0 {
		why := classifyTCPFailure(keys[:], wire, hp, at, realtime)
		r.Fail("doc-mismatch-tcp-"+why, fmt.Sprintf("refcodec decoded %d of %d segments emitted by mieru (%d bytes left): %v", len(got), len(want), dec.Buffered(), err), info)
		return
	}
	if !realtime && !bytes.Equal(dec.Key(), keys[idx]) {
		r.Fail("doc-mismatch-key-derivation", "the stream opens with another slot's key", info)
	}
	if !rc.HasUserHint(c.user, got[0].Nonce) {
		r.Fail("doc-mismatch-user-hint", fmt.Sprintf("the first nonce %x does not carry the documented hint of %q", got[0].Nonce, c.user), info)
	}
	for i := range got {
		r.Count(fmt.Sprintf("tcp-emitted-proto-%d", got[i].Meta.Proto))
		r.Distinct(fmt.Sprintf("TCP/m2r/%d/%v/%v/%v", got[i].Meta.Proto, len(got[i].Payload) > 0, len(got[i].Prefix) > 0, len(got[i].Suffix) > 0))
		if why := sameIntent(got[i], want[i]); why != "" {
			r.Fail("doc-mismatch-tcp-segment", fmt.Sprintf("segment %d (type %d): decoded %s", i, want[i].Meta.Proto, why), info)
			return
		}
		if got[i].WireLen != lens[i] {
			r.Fail("doc-mismatch-tcp-segment", fmt.Sprintf("segment %d occupies %d bytes, the documented layout accounts for %d", i, lens[i], got[i].WireLen), info)
			return
		}
		// the emitted plaintext metadata also goes through the real Unmarshal and the Coq model
		unmarshalCase(got[i].MetaBytes, got[i].Meta.IsSession(), "emitted")
	}
}

func pbkdf2With(hp []byte, slot int64, iter int) []byte {
	// documented derivation with another iteration count (diagnosis only)
	return rc.DeriveKeyIter(hp, slot, iter)
}

// classifyTCPFailure names the part of the document the stream deviates from.
func classifyTCPFailure(keys [][]byte, wire []byte, hp []byte, at time.Time, realtime bool) string {
	if len(wire) < 72 {
		return "segment"
	}
	if _, err := rc.NewStreamDecoder(keys).Feed(wire[:72]); err != nil {
		if strings.Contains(err.Error(), "no candidate key") {
			return "first-box"
		}
		return "metadata"
	}
	return "nonce-progression-or-layout"
}

// refcodecDrivesTCPServer: refcodec.StreamEncoder (client) -> real server readOneSegment through the
// real user registry; then the real server answers and refcodec decodes the answer.
func refcodecDrivesTCPServer(g *vh.Rng, c cred, slotIdx int, nseg int) {
	hp := rc.HashedPassword(c.user, c.pass)
	now := time.Now()
	key := rc.KeysAt(hp, now)[slotIdx]
	users := []*appctlpb.User{{Name: proto.String("other"), Password: proto.String("zzz")}, {Name: proto.String(c.user), Password: proto.String(c.pass)}}
	srv := protocol.VerifC09NewServerStream(users, 1500, nil)
	nonce := g.Bytes(24)
	rc.SetUserHint(c.user, nonce)
	enc := rc.NewStreamEncoder(key, nonce)
	enc.LEPadOne = g.Bool()
	info := map[string]interface{}{"user": c.user, "slot": slotIdx, "nonce": hex.EncodeToString(nonce)}
	var want []rc.Segment
	var wire []byte
	for i := 0; i < nseg; i++ {
		p := uint8(2)
		if i > 0 {
			p = []uint8{6, 6, 8, 10, 10, 4, 5}[g.Intn(7)]
		}
		vs := genSeg(g, p, []int{64, 1500, 32768}[g.Intn(3)])
		if i == 0 {
			vs.Meta.SessionID |= 1
			vs.Payload = g.Bytes([]int{0, 1, 1023, 1024, g.Intn(1025)}[g.Intn(5)])
		}
		seg := rc.Segment{Meta: toRC(vs.Meta), Payload: vs.Payload}
		seg.Meta.Timestamp = rc.TimestampOf(now)
		if seg.Meta.IsLowEntropy() {
			seg.Meta.LEMask = randMask(g, seg.Meta.LEMode)
		}
		padLens := []int{0, 1, 255, g.Intn(256)}
		if !seg.Meta.IsSession() {
			seg.Prefix = g.Bytes(padLens[g.Intn(4)])
		}
		seg.Suffix = g.Bytes(padLens[g.Intn(4)])
		wire = append(wire, enc.Encode(seg)...)
		want = append(want, seg)
	}
	// decode our own stream to learn the finished metadata (lengths)
	self, err := rc.NewStreamDecoder([][]byte{key}).Feed(wire)
	if err != nil || len(self) != len(want) {
		panic(fmt.Sprintf("refcodec cannot decode its own stream: %v", err))
	}
	srv.Feed(wire, []int{0, 1, 7, 1000}[g.Intn(4)])
	eval("tcp-refcodec-to-mieru-server")
	for i := range want {
		got, err := srv.Read()
		r.Distinct(fmt.Sprintf("TCP/r2m/%d/%v/%d/%d", want[i].Meta.Proto, len(want[i].Payload) > 0, len(want[i].Prefix)/128, len(want[i].Suffix)/128))
		if err != nil {
			r.Fail("doc-mismatch-tcp-accept", fmt.Sprintf("the real server rejects well-formed segment %d (type %d, %d payload bytes, prefix %d, suffix %d, key of slot %+d): %v", i, want[i].Meta.Proto, len(want[i].Payload), len(want[i].Prefix), len(want[i].Suffix), slotIdx-1, err), info)
			return
		}
		if why := sameSeg(got, self[i]); why != "" {
			r.Fail("doc-mismatch-tcp-accept", fmt.Sprintf("the real server reads segment %d as %s", i, why), info)
			return
		}
	}
	if srv.Unread() != 0 {
		r.Fail("doc-mismatch-tcp-accept", fmt.Sprintf("%d bytes left unread by the server", srv.Unread()), info)
	}
	if srv.RecvUser() != c.user {
		r.Fail("doc-mismatch-user-hint", fmt.Sprintf("the server attributes the stream to %q, want %q", srv.RecvUser(), c.user), info)
	}
	// server answers
	var back []byte
	var wantBack []protocol.VerifC09Seg
	for i := 0; i < 3; i++ {
		s := genSeg(g, []uint8{3, 7, 9, 11}[(i+g.Intn(2))%4], 1200)
		if i == 0 {
			s = genSeg(g, 3, 1024)
		}
		b, err := srv.Write(s)
		if err != nil {
			r.Fail("doc-mismatch-tcp-segment", "server writeOneSegment: "+err.Error(), info)
			return
		}
		back = append(back, b...)
		wantBack = append(wantBack, s)
	}
	dec := rc.NewStreamDecoder([][]byte{key})
	got, err := feedChunks(g, dec, back)
	eval("tcp-mieru-server-to-refcodec")
	if err != nil || len(got) != len(wantBack) || dec.Buffered() != 0 {
		r.Fail("doc-mismatch-tcp-"+classifyTCPFailure([][]byte{key}, back, hp, now, true), fmt.Sprintf("refcodec decoded %d of %d server segments: %v", len(got), len(wantBack), err), info)
		return
	}
	for i := range got {
		if why := sameIntent(got[i], wantBack[i]); why != "" {
			r.Fail("doc-mismatch-tcp-segment", fmt.Sprintf("server segment %d: decoded %s", i, why), info)
			return
		}
	}
	if bytes.Equal(got[0].Nonce, nonce) {
		r.Fail("doc-mismatch-tcp-segment", "the server direction reuses the client's nonce", info)
	}
}

// refcodecDrivesTCPClient: refcodec plays the server direction towards a real client reader.
func refcodecDrivesTCPClient(g *vh.Rng, c cred) {
	hp := rc.HashedPassword(c.user, c.pass)
	for attempt := 0; attempt < 2; attempt++ {
		now := time.Now()
		block, err := cipher.BlockCipherFromPassword(hp, false)
		if err != nil {
			r.Fail("doc-mismatch-key-derivation", err.Error(), c.user)
			return
		}
		key := rc.KeysAt(hp, now)[1]
		if rc.SlotOf(time.Now()) != rc.SlotOf(now) {
			continue // the slot changed between the two clock readings
		}
		cl := protocol.VerifC09NewClientStream(block, 1500, nil)
		enc := rc.NewStreamEncoder(key, g.Bytes(24))
		var want []rc.Segment
		var wire []byte
		for i := 0; i < 5; i++ {
			vs := genSeg(g, []uint8{3, 7, 9, 11, 5}[i], 2000)
			seg := rc.Segment{Meta: toRC(vs.Meta), Payload: vs.Payload, Suffix: g.Bytes(g.Intn(256))}
			seg.Meta.Timestamp = rc.TimestampOf(now)
			if seg.Meta.IsLowEntropy() {
				seg.Meta.LEMask = randMask(g, seg.Meta.LEMode)
			}
			if !seg.Meta.IsSession() {
				seg.Prefix = g.Bytes(g.Intn(256))
			}
			wire = append(wire, enc.Encode(seg)...)
			want = append(want, seg)
		}
		self, _ := rc.NewStreamDecoder([][]byte{key}).Feed(wire)
		cl.Feed(wire, []int{0, 3, 500}[g.Intn(3)])
		eval("tcp-refcodec-to-mieru-client")
		for i := range want {
			got, err := cl.Read()
			if err != nil {
				if block2, _ := cipher.BlockCipherFromPassword(hp, false); block2 != nil && !bytes.Equal(cipher.VerifC09CipherKey(block2), key) {
					break // key cache rolled to the next slot; retry
				}
				r.Fail("doc-mismatch-tcp-accept", fmt.Sprintf("the real client rejects well-formed segment %d (type %d): %v", i, want[i].Meta.Proto, err), c.user)
				return
			}
			if why := sameSeg(got, self[i]); why != "" {
				r.Fail("doc-mismatch-tcp-accept", fmt.Sprintf("the real client reads segment %d as %s", i, why), c.user)
				return
			}
			if i == len(want)-1 {
				return
			}
		}
	}
}

func udp(g *vh.Rng, c cred, at time.Time, idx int) {
	hp := rc.HashedPassword(c.user, c.pass)
	info := map[string]interface{}{"user": c.user, "unix": at.Unix(), "idx": idx}
	// mieru client emits -> refcodec decodes
	block, err := cipher.VerifC09BlockCipherAt(hp, at, idx, false, c.user)
	if err != nil {
		r.Fail("doc-mismatch-key-derivation", err.Error(), info)
		return
	}
	keys := rc.KeysAt(hp, at)
	pk := protocol.VerifC09NewClientPacket(block, 1500, nil)
	for i := 0; i < 6; i++ {
		p := []uint8{2, 6, 8, 10, 4, 6}[i]
		s := genSeg(g, p, []int{32, 1000, 1300}[g.Intn(3)])
		if rc.IsLowEntropyProto(p) && len(s.Payload) > 500 {
			s.Payload = s.Payload[:500]
		}
		d, err := pk.Write(s, nil)
		if err != nil {
			r.Fail("doc-mismatch-udp-datagram", fmt.Sprintf("writeOneSegment: %v", err), info)
			return
		}
		got, key, err := rc.DecodeDatagram(keys[:], d)
		eval("udp-mieru-to-refcodec")
		r.Distinct(fmt.Sprintf("UDP/m2r/%d/%v/%v/%v", p, len(s.Payload) > 0, len(got.Prefix) > 0, len(got.Suffix) > 0))
		if err != nil {
			what := "datagram"
			if err == rc.ErrNoKey {
				what = "first-box"
			} else if strings.Contains(err.Error(), "payload box") {
				what = "payload-nonce"
			}
			r.Fail("doc-mismatch-udp-"+what, fmt.Sprintf("refcodec cannot decode the %d-byte datagram of a type %d segment: %v", len(d), p, err), info)
			return
		}
		if !bytes.Equal(key, keys[idx]) {
			r.Fail("doc-mismatch-key-derivation", "the datagram opens with another slot's key", info)
		}
		if !rc.HasUserHint(c.user, got.Nonce) {
			r.Fail("doc-mismatch-user-hint", fmt.Sprintf("datagram nonce %x has no hint of %q", got.Nonce, c.user), info)
		}
		if why := sameIntent(got, s); why != "" {
			r.Fail("doc-mismatch-udp-datagram", fmt.Sprintf("type %d datagram decoded: %s", p, why), info)
			return
		}
		unmarshalCase(got.MetaBytes, got.Meta.IsSession(), "emitted-udp")
	}
	// refcodec emits -> real server (registry) and real client read
	now := time.Now()
	users := []*appctlpb.User{{Name: proto.String(c.user), Password: proto.String(c.pass)}, {Name: proto.String("other"), Password: proto.String("zzz")}}
	srv := protocol.VerifC09NewServerPacket(users, 1500, nil)
	nkeys := rc.KeysAt(hp, now)
	for i := 0; i < 8; i++ {
		p := []uint8{2, 6, 8, 10, 4, 6, 10, 2}[i]
		vs := genSeg(g, p, []int{32, 1000, 1300}[g.Intn(3)])
		if rc.IsLowEntropyProto(p) && len(vs.Payload) > 500 {
			vs.Payload = vs.Payload[:500]
		}
		if p == 2 {
			vs.Meta.SessionID |= 1
		}
		seg := rc.Segment{Meta: toRC(vs.Meta), Payload: vs.Payload}
		seg.Meta.Timestamp = rc.TimestampOf(now)
		if seg.Meta.IsLowEntropy() {
			seg.Meta.LEMask = randMask(g, seg.Meta.LEMode)
		}
		room := 1500 - 24 - 48 - 16 - int(rc.LEEncodedLen(seg.Meta.LEMode, len(seg.Payload)))
		pl := []int{0, 1, 255, g.Intn(256)}
		if !seg.Meta.IsSession() {
			seg.Prefix = g.Bytes(min(pl[g.Intn(4)], room/2))
		}
		seg.Suffix = g.Bytes(min(pl[g.Intn(4)], room/2))
		nonce := g.Bytes(24)
		rc.SetUserHint(c.user, nonce)
		k := nkeys[g.Intn(3)]
		d := rc.EncodeDatagramPad(k, nonce, seg, g.Bool())
		self, _, err := rc.DecodeDatagram([][]byte{k}, d)
		if err != nil {
			panic("refcodec cannot decode its own datagram: " + err.Error())
		}
		got, _, err := srv.Read(d)
		eval("udp-refcodec-to-mieru-server")
		r.Distinct(fmt.Sprintf("UDP/r2m/%d/%v/%d/%d", p, len(seg.Payload) > 0, len(seg.Prefix)/128, len(seg.Suffix)/128))
		if err != nil {
			r.Fail("doc-mismatch-udp-accept", fmt.Sprintf("the real server drops a well-formed %d-byte datagram (type %d, payload %d, prefix %d, suffix %d): %v", len(d), p, len(seg.Payload), len(seg.Prefix), len(seg.Suffix), err), info)
			return
		}
		if why := sameSeg(got, self); why != "" {
			r.Fail("doc-mismatch-udp-accept", "the real server reads the datagram as "+why, info)
			return
		}
	}
	for attempt := 0; attempt < 2; attempt++ {
		now = time.Now()
		cb, err := cipher.BlockCipherFromPassword(hp, true)
		if err != nil {
			return
		}
		k := rc.KeysAt(hp, now)[1]
		if !bytes.Equal(cipher.VerifC09CipherKey(cb), k) {
			continue
		}
		cl := protocol.VerifC09NewClientPacket(cb, 1500, nil)
		for i := 0; i < 4; i++ {
			p := []uint8{3, 7, 9, 11}[i]
			vs := genSeg(g, p, 600)
			seg := rc.Segment{Meta: toRC(vs.Meta), Payload: vs.Payload, Suffix: g.Bytes(g.Intn(100))}
			seg.Meta.Timestamp = rc.TimestampOf(now)
			if seg.Meta.IsLowEntropy() {
				seg.Meta.LEMask = randMask(g, seg.Meta.LEMode)
				if len(seg.Payload) > 300 {
					seg.Payload = seg.Payload[:300]
				}
			}
			if !seg.Meta.IsSession() {
				seg.Prefix = g.Bytes(g.Intn(100))
			}
			d := rc.EncodeDatagram(k, g.Bytes(24), seg)
			self, _, _ := rc.DecodeDatagram([][]byte{k}, d)
			got, _, err := cl.Read(d)
			eval("udp-refcodec-to-mieru-client")
			if err != nil {
				r.Fail("doc-mismatch-udp-accept", fmt.Sprintf("the real client drops a well-formed datagram (type %d): %v", p, err), info)
				return
			}
			if why := sameSeg(got, self); why != "" {
				r.Fail("doc-mismatch-udp-accept", "the real client reads the datagram as "+why, info)
				return
			}
		}
		break
	}
}

// ---------------------------------------------------------------- UDP associate frame

type bufConn struct {
	net.Conn
	in  *bytes.Reader
	out bytes.Buffer
}

func (b *bufConn) Read(p []byte) (int, error)  { return b.in.Read(p) }
func (b *bufConn) Write(p []byte) (int, error) { return b.out.Write(p) }

func frames() {
	for _, n := range []int{0, 1, 2, 255, 256, 1400, 65535} {
		data := r.Rng.Bytes(n)
		bc := &bufConn{in: bytes.NewReader(nil)}
		t := apicommon.NewPacketOverStreamTunnel(bc)
		_, err := t.Write(data)
		eval("frame")
		if err != nil || !bytes.Equal(bc.out.Bytes(), rc.FrameDatagram(data)) {
			r.Fail("doc-mismatch-udp-associate-frame", fmt.Sprintf("frame of %d bytes differs from 0x00 | len16 | data | 0xff (%v)", n, err), n)
			continue
		}
		two := append(rc.FrameDatagram(data), rc.FrameDatagram([]byte("next"))...)
		rd := apicommon.NewPacketOverStreamTunnel(&bufConn{in: bytes.NewReader(two)})
		buf := make([]byte, 2*65536)
		k, err := rd.Read(buf)
		k2, err2 := rd.Read(buf[k:])
		pk, rest, err3 := rc.UnframeStream(two)
		if err != nil || err2 != nil || err3 != nil || !bytes.Equal(buf[:k], data) || string(buf[k:k+k2]) != "next" || len(pk) != 2 || len(rest) != 0 || !bytes.Equal(pk[0], data) {
			r.Fail("doc-mismatch-udp-associate-frame", fmt.Sprintf("frame of %d bytes is not read back (%v %v %v)", n, err, err2, err3), n)
		}
	}
}

func segments() {
	fixed := time.Unix(1700000000, 0)
	trials := 12
	if r.Thorough() {
		trials = 300
	}
	for i := 0; i < trials; i++ {
		g := r.Rng.Fork()
		c := creds[i%len(creds)]
		at := fixed
		if i%3 == 2 {
			at = time.Unix(g.I64n(4000000000), g.I64n(1000000000))
		}
		mieruEmitsTCP(g, c, at, i%3, false, 3+g.Intn(10))
		mieruEmitsTCP(g, c, at, 1, true, 2+g.Intn(4))
		refcodecDrivesTCPServer(g, c, i%3, 2+g.Intn(8))
		refcodecDrivesTCPClient(g, c)
		udp(g, c, at, i%3)
	}
}

func constants() {
	type kv struct {
		name      string
		got, want int64
	}
	for _, c := range []kv{
		{"MetadataLength", protocol.MetadataLength, rc.MetaLen}, {"MaxSessionOpenPayload", protocol.MaxSessionOpenPayload, rc.MaxSessionPayload},
		{"DefaultNonceSize", cipher.DefaultNonceSize, rc.NonceLen}, {"DefaultOverhead", cipher.DefaultOverhead, rc.TagLen}, {"DefaultKeyLen", cipher.DefaultKeyLen, rc.KeyLen},
		{"KeyIter", cipher.KeyIter, rc.KeyIter}, {"KeyRefreshInterval(s)", int64(cipher.KeyRefreshInterval / time.Second), rc.SlotSeconds},
		{"NoncePrefixLenForUserHint", cipher.NoncePrefixLenForUserHint, rc.HintInputLen}, {"NonceSuffixLenForUserHint", cipher.NonceSuffixLenForUserHint, rc.HintLen},
		{"maxPDU", protocol.VerifC09MaxPDU, rc.MaxFragment}, {"lowEntropyChunkLen", protocol.VerifC09LowEntropyChunkLen, 8},
		{"streamOverhead", protocol.VerifC09StreamOverhead, rc.MetaLen + 2*rc.TagLen}, {"packetOverhead", protocol.VerifC09PacketOverhead, rc.NonceLen + rc.MetaLen + 2*rc.TagLen},
		{"packetNonHeaderPosition", protocol.VerifC09PacketNonHeaderPosition, rc.NonceLen + rc.SealedMeta},
	} {
		eval("constant")
		if c.got != c.want {
			r.Fail("doc-mismatch-constant-"+c.name, fmt.Sprintf("%s = %d, the document says %d", c.name, c.got, c.want), c.name)
		}
	}
}

func main() {
	r = vh.Start("c09")
	r.Rep.Rule = "Boundary corpora first (every protocol byte 0..255 through classification, both Marshal and both Unmarshal functions; one-field-at-a-time patterns at 0/1/max/byte-order-revealing values for every field of the three layouts; nonce carries into every byte position and the all-0xff wrap), then random valid metadata, a separate malformed stream (wrong type, lengths around the limits, bad mode/rotation/mask population/extracted length, wrong input length), then interop: TCP streams and UDP datagrams emitted by mieru's real writeOneSegment under keys of all three slots at fixed and random instants are decoded by the document-only refcodec under random chunking; refcodec-encoded streams/datagrams (paddings 0..255, all modes, valid rotations, both padding polarities, payload 0..max, piggyback 0..1024) are read by the real readOneSegment of a server (through the real user registry) and of a client; the low-entropy codec is compared byte for byte in both directions; key derivation, hashed password, user hint and the UDP-associate frame by vectors; the user hint is also required on the k-th nonce (k = 1..5) of a stateless and a stateful cipher and of client and server-reply datagrams written by the real PacketUnderlay under every kind of nonce pattern (none, random, printable, subset, fixed; applyToAllUDPPacket true / false / unset; implicit patterns derived from traffic-pattern seeds). A class is non-trivial when it names (kind, protocol type, field or boundary class, outcome) resp. (direction, type, payload present, padding classes)."
	constants()
	classification()
	nonceIncrement()
	metadata()
	keysAndHint()
	noncePatterns()
	replyKeys()
	lowEntropy()
	frames()
	segments()
	r.Finish()
}
