package main

// Nonce patterns x user hint (oracle only).
//
// docs/protocol.md: "the last 4 bytes of the nonce is replace by the first 4 bytes of a SHA-256 output. The input
// of SHA-256 is user name concatenate by the first 16 bytes of the nonce" and "When using UDP protocol, each segment
// will include a nonce". Hence EVERY nonce an endpoint generates for a known user carries the hint, whatever the
// traffic pattern does to the nonce prefix, and on UDP that is every datagram, not only the first one of a cipher.
// (Coq statement of the placement: C09_user_hint_placement.)
//
// This section runs the real Encrypt of a stateless (UDP) and a stateful (TCP) cipher, and the real
// PacketUnderlay.writeOneSegment (client role and server-reply role), under every kind of nonce pattern
// (none / random / printable / printable subset / fixed prefix, lengths up to the whole nonce,
// applyToAllUDPPacket true / false / unset, and the implicit patterns derived from traffic-pattern seeds) and
// looks at the k-th nonce for k = 1..5.

import (
	"bytes"
	"encoding/hex"
	"fmt"
	"time"

	"github.com/enfein/mieru/v3/apis/trafficpattern"
	"github.com/enfein/mieru/v3/pkg/appctl/appctlpb"
	"github.com/enfein/mieru/v3/pkg/cipher"
	"github.com/enfein/mieru/v3/pkg/protocol"
	"google.golang.org/protobuf/proto"
	rc "verifharness/refcodec"
)

type namedNonce struct {
	name string
	p    *appctlpb.NoncePattern
}

func noncePatternList(thorough bool) []namedNonce {
	var out []namedNonce
	out = append(out, namedNonce{"none", nil})
	tri := []*bool{proto.Bool(true), proto.Bool(false), nil}
	triName := []string{"all", "first-only", "all-unset"}
	type shape struct {
		name     string
		typ      appctlpb.NonceType
		min, max int32
		hex      []string
	}
	shapes := []shape{
		{"random", appctlpb.NonceType_NONCE_TYPE_RANDOM, 0, 0, nil},
		{"printable8-12", appctlpb.NonceType_NONCE_TYPE_PRINTABLE, 8, 12, nil},
		{"printable24", appctlpb.NonceType_NONCE_TYPE_PRINTABLE, 24, 24, nil}, // rewrites the hint position too
		{"printable0-3", appctlpb.NonceType_NONCE_TYPE_PRINTABLE, 0, 3, nil},
		{"subset6-20", appctlpb.NonceType_NONCE_TYPE_PRINTABLE_SUBSET, 6, 20, nil},
		{"fixed12", appctlpb.NonceType_NONCE_TYPE_FIXED, 0, 0, []string{"000102030405060708090a0b"}},
		{"fixed24", appctlpb.NonceType_NONCE_TYPE_FIXED, 0, 0, []string{"a0a1a2a3a4a5a6a7a8a9aaabacadaeafb0b1b2b3b4b5b6b7"}},
		{"fixed-choice", appctlpb.NonceType_NONCE_TYPE_FIXED, 0, 0, []string{"aabb", "ccddee", "01"}},
		{"fixed-empty", appctlpb.NonceType_NONCE_TYPE_FIXED, 0, 0, nil},
	}
	for _, s := range shapes {
		for i, a := range tri {
			out = append(out, namedNonce{s.name + "/" + triName[i], &appctlpb.NoncePattern{Type: s.typ.Enum(), MinLen: proto.Int32(s.min), MaxLen: proto.Int32(s.max),
				CustomHexStrings: s.hex, ApplyToAllUDPPacket: a}})
		}
	}
	// implicit patterns: what an operator gets from a traffic pattern that only has a seed (or nothing explicit about the nonce)
	seeds := 24
	if thorough {
		seeds = 400
	}
	for s := 0; s < seeds; s++ {
		cfg, err := trafficpattern.NewConfig(&appctlpb.TrafficPattern{Seed: proto.Int32(int32(s*7919 + 1)), UnlockAll: proto.Bool(s%2 == 0)})
		if err != nil {
			continue
		}
		np := cfg.Effective().GetNonce()
		out = append(out, namedNonce{fmt.Sprintf("seed%d/type%d/all=%v", s*7919+1, np.GetType(), np.GetApplyToAllUDPPacket()), np})
	}
	return out
}

func hintFail(where, pattern, user string, k int, nonce []byte) {
	want := rc.UserHint(user, nonce)
	r.Fail("doc-mismatch-user-hint-missing",
		fmt.Sprintf("%s, nonce pattern %s: nonce number %d of the cipher is %x; its last 4 bytes are %x, the documented hint of %q is %x", where, pattern, k, nonce, nonce[20:], user, want),
		map[string]interface{}{"where": where, "pattern": pattern, "k": k, "user": user, "nonce": hex.EncodeToString(nonce)})
}

func noncePatterns() {
	at := time.Unix(1700000000, 0)
	const kmax = 5
	for pi, nn := range noncePatternList(r.Thorough()) {
		c := creds[pi%len(creds)]
		hp := rc.HashedPassword(c.user, c.pass)
		key := rc.KeysAt(hp, at)[1]
		class := "explicit"
		if nn.p == nil {
			class = "none"
		} else if len(nn.name) > 4 && nn.name[:4] == "seed" {
			class = fmt.Sprintf("implicit/type%d/all=%v", nn.p.GetType(), nn.p.GetApplyToAllUDPPacket())
		} else {
			class = nn.name
		}

		// (1) real Encrypt on a stateless cipher: k-th datagram
		blk, err := cipher.VerifC09BlockCipherAt(hp, at, 1, false, c.user)
		if err != nil {
			r.Fail("doc-mismatch-key-derivation", err.Error(), nn.name)
			continue
		}
		blk.SetNoncePattern(nn.p)
		for k := 1; k <= kmax; k++ {
			pt := r.Rng.Bytes(1 + r.Rng.Intn(64))
			buf := make([]byte, 24+len(pt)+16)
			eval("hint-stateless-encrypt")
			r.Distinct(fmt.Sprintf("HINT/encrypt/%s/k%d", class, k))
			if err := blk.Encrypt(buf[:0], pt); err != nil {
				r.Fail("doc-mismatch-udp-datagram", "Encrypt: "+err.Error(), nn.name)
				break
			}
			nonce := buf[:24]
			if got, err := rc.Open(key, nonce, buf[24:]); err != nil || !bytes.Equal(got, pt) {
				r.Fail("doc-mismatch-udp-first-box", fmt.Sprintf("stateless Encrypt number %d under nonce pattern %s does not open with the documented key and the leading 24-byte nonce: %v", k, nn.name, err), nn.name)
				break
			}
			if !rc.HasUserHint(c.user, nonce) || !cipher.CheckUserFromHint([]byte(c.user), nonce) {
				hintFail("stateless (UDP) Encrypt", nn.name, c.user, k, nonce)
				break
			}
		}

		// (2) stateful (TCP) cipher: the one transmitted nonce; again after the implicit nonce is reset (server send side)
		sb, _ := cipher.VerifC09BlockCipherAt(hp, at, 1, true, c.user)
		sb.SetNoncePattern(nn.p)
		for k := 1; k <= 2; k++ {
			pt := r.Rng.Bytes(32)
			buf := make([]byte, 24+len(pt)+16)
			eval("hint-stateful-encrypt")
			if err := sb.Encrypt(buf[:0], pt); err != nil {
				r.Fail("doc-mismatch-tcp-segment", "Encrypt: "+err.Error(), nn.name)
				break
			}
			if !rc.HasUserHint(c.user, buf[:24]) {
				hintFail("stateful (TCP) Encrypt, transmitted nonce", nn.name, c.user, k, buf[:24])
				break
			}
			sb.SetImplicitNonceMode(false)
			sb.SetImplicitNonceMode(true)
		}

		// (3) the real PacketUnderlay.writeOneSegment of a client, k datagrams of one underlay
		cb, _ := cipher.VerifC09BlockCipherAt(hp, at, 1, false, c.user)
		cb.SetNoncePattern(nn.p)
		pk := protocol.VerifC09NewClientPacket(cb, 1400, nil)
		g := r.Rng.Fork()
		for k := 1; k <= kmax; k++ {
			p := []uint8{2, 6, 8, 6, 10}[k-1]
			s := genSeg(g, p, 600)
			if rc.IsLowEntropyProto(p) && len(s.Payload) > 300 {
				s.Payload = s.Payload[:300]
			}
			d, err := pk.Write(s, nil)
			eval("hint-client-datagram")
			r.Distinct(fmt.Sprintf("HINT/client-dgram/%s/k%d", class, k))
			if err != nil {
				r.Fail("doc-mismatch-udp-datagram", "writeOneSegment: "+err.Error(), nn.name)
				break
			}
			got, _, err := rc.DecodeDatagram([][]byte{key}, d)
			if err != nil {
				r.Fail("doc-mismatch-udp-datagram", fmt.Sprintf("datagram number %d under nonce pattern %s does not decode: %v", k, nn.name, err), nn.name)
				break
			}
			if !rc.HasUserHint(c.user, got.Nonce) {
				hintFail("client PacketUnderlay.writeOneSegment", nn.name, c.user, k, got.Nonce)
				break
			}
		}

		// (4) server replies: the cipher the real server discovered for a refcodec datagram (nonce pattern set from the
		// server's traffic pattern), used for k replies
		now := time.Now()
		users := []*appctlpb.User{{Name: proto.String(c.user), Password: proto.String(c.pass)}, {Name: proto.String("other"), Password: proto.String("zzz")}}
		var tp *appctlpb.TrafficPattern
		if nn.p != nil {
			tp = &appctlpb.TrafficPattern{Nonce: nn.p}
		}
		srv := protocol.VerifC09NewServerPacket(users, 1400, tp)
		nonce := g.Bytes(24)
		rc.SetUserHint(c.user, nonce)
		nk := rc.KeysAt(hp, now)[1]
		open := rc.EncodeDatagram(nk, nonce, rc.Segment{Meta: rc.Meta{Proto: 2, Timestamp: rc.TimestampOf(now), SessionID: uint32(g.U64()) | 1}, Payload: g.Bytes(10)})
		_, sblk, err := srv.Read(open)
		if err != nil || sblk == nil {
			r.Fail("doc-mismatch-udp-accept", fmt.Sprintf("the real server (nonce pattern %s) drops a well-formed open session request: %v", nn.name, err), nn.name)
			continue
		}
		for k := 1; k <= kmax; k++ {
			p := []uint8{3, 7, 9, 7, 11}[k-1]
			s := genSeg(g, p, 600)
			if rc.IsLowEntropyProto(p) && len(s.Payload) > 300 {
				s.Payload = s.Payload[:300]
			}
			d, err := srv.Write(s, sblk)
			eval("hint-server-datagram")
			r.Distinct(fmt.Sprintf("HINT/server-dgram/%s/k%d", class, k))
			if err != nil {
				r.Fail("doc-mismatch-udp-datagram", "server writeOneSegment: "+err.Error(), nn.name)
				break
			}
			got, _, err := rc.DecodeDatagram([][]byte{nk}, d)
			if err != nil {
				r.Fail("doc-mismatch-udp-datagram", fmt.Sprintf("server datagram number %d under nonce pattern %s does not decode with the key of the request: %v", k, nn.name, err), nn.name)
				break
			}
			if !rc.HasUserHint(c.user, got.Nonce) {
				hintFail("server PacketUnderlay.writeOneSegment (reply cipher)", nn.name, c.user, k, got.Nonce)
				break
			}
		}
	}
}
